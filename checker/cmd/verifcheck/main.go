package main

import (
	"fmt"
	"time"

	"verif/checker/internal/prog"
)

func main() {
	t := time.Now()
	p := prog.Load("/repo", "/verif/bin")
	fmt.Println(len(p.Pkgs), p.NumFuncs, time.Since(t))
}
