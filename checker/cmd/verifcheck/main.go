// Command verifcheck decides the structural obligations of one given property on the
// current source of reduction-dev/reduction. See /verif/DESIGN.md.
//
//	verifcheck -property C07 -tier quick|thorough
//	verifcheck -replay evidence/replays/C07-1.json
//	verifcheck -list
package main

import (
	"encoding/json"
	"flag"
	"fmt"
	"os"
	"path/filepath"
	"sort"
	"strconv"
	"strings"
	"time"

	"verif/checker/internal/prog"
	"verif/checker/internal/rules"
)

type finding struct {
	props    []string
	identity string
	what     string
}

func loadKnown(path string) ([]finding, error) {
	b, err := os.ReadFile(path)
	if err != nil {
		if os.IsNotExist(err) {
			return nil, nil
		}
		return nil, err
	}
	var out []finding
	for _, line := range strings.Split(string(b), "\n") {
		line = strings.TrimSpace(line)
		if line == "" || strings.HasPrefix(line, "#") || strings.HasPrefix(line, "fixed:") {
			continue // fixed entries suppress nothing
		}
		// finding: property=C09,C06 obligation=<identity> :: <what fails>
		if !strings.HasPrefix(line, "finding:") {
			return nil, fmt.Errorf("known_findings: unrecognised line %q", line)
		}
		rest := strings.TrimSpace(strings.TrimPrefix(line, "finding:"))
		head, what, ok := strings.Cut(rest, "::")
		if !ok {
			return nil, fmt.Errorf("known_findings: missing '::' in %q", line)
		}
		var f finding
		f.what = strings.TrimSpace(what)
		for _, fld := range strings.Fields(head) {
			switch {
			case strings.HasPrefix(fld, "property="):
				f.props = strings.Split(strings.TrimPrefix(fld, "property="), ",")
			case strings.HasPrefix(fld, "obligation="):
				f.identity = strings.TrimPrefix(fld, "obligation=")
			}
		}
		if len(f.props) == 0 || f.identity == "" {
			return nil, fmt.Errorf("known_findings: incomplete line %q", line)
		}
		out = append(out, f)
	}
	return out, nil
}

type replayFile struct {
	Property   string          `json:"property"`
	Obligation string          `json:"obligation"`
	Identity   string          `json:"identity"`
	Violation  rules.Violation `json:"violation"`
	Rule       string          `json:"rule"`
	Desc       string          `json:"desc"`
	Replay     string          `json:"replay_cmd"`
}

func main() {
	property := flag.String("property", "", "property id (C01..C20)")
	tier := flag.String("tier", "", "quick or thorough")
	replay := flag.String("replay", "", "replay file to re-evaluate")
	repo := flag.String("repo", "/repo", "repository root")
	verif := flag.String("verif", "", "verif root (default: parent of the executable's directory)")
	list := flag.Bool("list", false, "list obligations")
	listProps := flag.Bool("listprops", false, "list the properties that have a decided-clause summary")
	flag.Parse()

	if *verif == "" {
		exe, err := os.Executable()
		if err == nil {
			*verif = filepath.Dir(filepath.Dir(exe))
		} else {
			*verif = "/verif"
		}
	}
	if *tier == "" {
		*tier = os.Getenv("VERIF_TIER")
	}
	if *tier == "" {
		*tier = "quick"
	}
	if *tier != "quick" && *tier != "thorough" {
		fmt.Println("ERROR bad tier", *tier)
		os.Exit(2)
	}
	seed := 0
	if s := os.Getenv("VERIF_SEED"); s != "" {
		seed, _ = strconv.Atoi(s)
	}

	if *listProps {
		var ids []string
		for id := range rules.Properties {
			ids = append(ids, id)
		}
		sort.Strings(ids)
		fmt.Println(strings.Join(ids, " "))
		return
	}
	if *list {
		for _, o := range rules.All() {
			fmt.Printf("%-8s %-28s %-20s %s\n", o.ID, o.Template, strings.Join(o.Props, ","), o.Desc)
		}
		return
	}

	code := 0
	func() {
		defer func() {
			if e := recover(); e != nil {
				if ee, ok := e.(prog.ErrorExit); ok {
					fmt.Println("ERROR", ee.Msg)
				} else {
					fmt.Println("ERROR panic:", e)
				}
				code = 2
			}
		}()
		if *replay != "" {
			code = doReplay(*repo, *verif, *replay)
			return
		}
		if *property == "" {
			fmt.Println("ERROR -property required")
			code = 2
			return
		}
		code = doProperty(*repo, *verif, *property, *tier, seed)
	}()
	os.Exit(code)
}

func doReplay(repo, verif, path string) int {
	b, err := os.ReadFile(path)
	if err != nil {
		fmt.Println("ERROR", err)
		return 2
	}
	var rf replayFile
	if err := json.Unmarshal(b, &rf); err != nil {
		fmt.Println("ERROR", err)
		return 2
	}
	o := rules.ByID(rf.Obligation)
	if o == nil {
		fmt.Println("ERROR unknown obligation", rf.Obligation)
		return 2
	}
	p := prog.Load(repo, filepath.Join(verif, "bin"))
	res := rules.Eval(p, "thorough", o)
	for _, e := range res.Errors {
		fmt.Println("ERROR", o.ID, e)
	}
	if len(res.Errors) > 0 {
		return 2
	}
	for _, v := range res.Violations {
		if v.Identity == rf.Identity {
			fmt.Printf("VIOLATION property=%s replay=%s\n", rf.Property, path)
			printViolation(v, o)
			return 1
		}
	}
	fmt.Printf("replay: obligation %s no longer reports %s on the current tree\n", o.ID, rf.Identity)
	return 0
}

func printViolation(v rules.Violation, o *rules.Obligation) {
	fmt.Printf("  %s: %s [%s] %s\n", v.Pos, v.Identity, o.Template, v.Msg)
	fmt.Printf("    rule: %s\n", o.Desc)
	if len(v.Trace) > 0 {
		fmt.Printf("    path: %s\n", strings.Join(v.Trace, " -> "))
	}
}

func doProperty(repo, verif, property, tier string, seed int) int {
	start := time.Now()
	info, ok := rules.Properties[property]
	if !ok {
		fmt.Println("ERROR unknown property", property)
		return 2
	}
	obs := rules.For(property)
	if len(obs) == 0 {
		fmt.Println("ERROR no obligations registered for", property)
		return 2
	}
	known, err := loadKnown(filepath.Join(verif, "known_findings.txt"))
	if err != nil {
		fmt.Println("ERROR", err)
		return 2
	}
	p := prog.Load(repo, filepath.Join(verif, "bin"))
	fmt.Printf("analysed: %d packages, %d declared functions (all type-checked, generated protobuf code via overlay)\n", len(p.Pkgs), p.NumFuncs)

	evDir := filepath.Join(verif, "evidence")
	repDir := filepath.Join(evDir, "replays")
	os.MkdirAll(repDir, 0o755)
	// remove stale replay files of this property
	if old, _ := filepath.Glob(filepath.Join(repDir, property+"-*.json")); len(old) > 0 {
		for _, f := range old {
			os.Remove(f)
		}
	}

	type sample struct {
		Obligation string   `json:"obligation"`
		Template   string   `json:"template"`
		Desc       string   `json:"establishes"`
		Verdict    string   `json:"verdict"`
		Sites      int      `json:"sites"`
		SiteSample []string `json:"site_sample,omitempty"`
		States     int      `json:"path_states,omitempty"`
		Steps      int      `json:"path_steps,omitempty"`
		Notes      []string `json:"notes,omitempty"`
		Findings   []string `json:"findings,omitempty"`
	}
	var samples []sample
	nErr, nViol, nKnown, discharged, evaluated, nontrivial, totalSites := 0, 0, 0, 0, 0, 0, 0
	nrep := 0
	usedKnown := map[int]bool{}
	var baselineIdentities []string
	for _, o := range obs {
		if o.Thorough && tier != "thorough" {
			continue
		}
		evaluated++
		res := rules.Eval(p, tier, o)
		s := sample{Obligation: o.ID, Template: o.Template, Desc: o.Desc, Sites: len(res.Sites), States: res.States, Steps: res.Steps, Notes: res.Notes}
		for i, st := range res.Sites {
			if i < 6 {
				s.SiteSample = append(s.SiteSample, st)
			}
		}
		totalSites += len(res.Sites)
		if len(res.Sites) > 0 {
			nontrivial++
		}
		verdict := "discharged"
		for _, e := range res.Errors {
			fmt.Printf("ERROR %s: %s\n", o.ID, e)
			nErr++
			verdict = "error"
		}
		for _, v := range res.Violations {
			baselineIdentities = append(baselineIdentities, v.Identity)
			matched := false
			for i, k := range known {
				if k.identity == v.Identity {
					for _, kp := range k.props {
						if kp == property {
							matched = true
						}
					}
					if matched {
						usedKnown[i] = true
						fmt.Printf("KNOWN-FINDING: property=%s %s: %s\n", property, v.Identity, k.what)
						nKnown++
						s.Findings = append(s.Findings, "known: "+v.Identity)
						break
					}
				}
			}
			if matched {
				if verdict == "discharged" {
					verdict = "known-finding"
				}
				continue
			}
			nrep++
			nViol++
			verdict = "violated"
			rel := filepath.Join("evidence", "replays", fmt.Sprintf("%s-%d.json", property, nrep))
			rf := replayFile{Property: property, Obligation: o.ID, Identity: v.Identity, Violation: v, Rule: o.Template, Desc: o.Desc,
				Replay: "./bin/verifcheck -replay " + rel}
			b, _ := json.MarshalIndent(rf, "", " ")
			os.WriteFile(filepath.Join(verif, rel), b, 0o644)
			fmt.Printf("VIOLATION property=%s replay=%s\n", property, rel)
			printViolation(v, o)
			s.Findings = append(s.Findings, "VIOLATION: "+v.Identity+" @ "+v.Pos+": "+v.Msg)
		}
		if verdict == "discharged" {
			discharged++
		}
		s.Verdict = verdict
		samples = append(samples, s)
	}
	// thorough tier: canary sweep
	var canaryResults []rules.CanaryResult
	canApplicable, canDetected, canSilentOK := 0, 0, 0
	if tier == "thorough" {
		baseline := map[string]bool{}
		for _, id := range baselineIdentities {
			baseline[id] = true
		}
		for _, c := range rules.Canaries() {
			if c.Property != property {
				continue
			}
			cr := rules.RunCanary(repo, filepath.Join(verif, "bin"), c, property, baseline)
			canaryResults = append(canaryResults, cr)
			switch cr.Status {
			case "detected":
				canApplicable++
				canDetected++
			case "silent-as-expected":
				canApplicable++
				canSilentOK++
			case "MISSED":
				canApplicable++
				fmt.Printf("ERROR canary %s (%s) is applicable and compiles but no obligation of %s reports it: the check is defective\n", cr.ID, cr.File, property)
				nErr++
			case "FALSE-ALARM":
				canApplicable++
				fmt.Printf("ERROR canary %s (%s) is a behaviour-preserving rewrite but is reported: %v\n", cr.ID, cr.File, cr.Reports)
				nErr++
			}
		}
		fmt.Printf("canaries: %d registered for %s, %d applicable, %d detected, %d silent as expected\n", len(canaryResults), property, canApplicable, canDetected, canSilentOK)
		// keep the sweep's outcome next to the evidence (the quick tier rewrites evidence/<id>.json)
		if b, err := json.MarshalIndent(canaryResults, "", " "); err == nil {
			os.MkdirAll(filepath.Join(verif, "evidence", "canaries"), 0o755)
			os.WriteFile(filepath.Join(verif, "evidence", "canaries", property+".json"), append(b, '\n'), 0o644)
		}
	}
	for i, k := range known {
		if usedKnown[i] {
			continue
		}
		for _, kp := range k.props {
			if kp == property {
				fmt.Printf("note: known finding %s is no longer reported on this tree (entry is stale, nothing suppressed)\n", k.identity)
			}
		}
	}

	sort.Slice(samples, func(i, j int) bool { return samples[i].Obligation < samples[j].Obligation })
	wall := time.Since(start).Seconds()
	ev := map[string]any{
		"property_id": property,
		"tier":        tier,
		"seed":        seed,
		"level":       "other",
		"coverage": map[string]any{
			"explanation": "Static analysis of /repo's current source (no execution). Decided: " + info.Decided +
				" NOT decided by this check: " + info.NotDecided,
			"obligations":            evaluated,
			"discharged":             discharged,
			"known_findings_printed": nKnown,
			"evaluations":            totalSites,
			"distinct_nontrivial":    nontrivial,
			"rule": "evaluations = sites analysed (call sites, field accesses, function paths, orderings, codec tokens) summed over the property's obligations; " +
				"distinct_nontrivial = obligations that resolved their anchors and analysed at least one site",
			"samples":                     samples,
			"packages":                    len(p.Pkgs),
			"functions":                   p.NumFuncs,
			"checker_cmd":                 fmt.Sprintf("./bin/verifcheck -property %s -tier %s", property, tier),
			"trusted_base":                []string{"go/types and go/ast of go1.26.8", "golang.org/x/tools v0.50.0 go/packages", "protoc-gen-go v1.36.3 and protoc-gen-connect-go v1.18.1 (regenerated protobuf code)", "pbgen (this repository's .proto subset parser)", "frozen rule tables in checker/internal/rules"},
			"errors":                      nErr,
			"exhaustive":                  false,
			"not_decided":                 info.NotDecided,
			"canaries_applicable":         canApplicable,
			"canaries_detected":           canDetected,
			"canaries_silent_as_expected": canSilentOK,
			"canaries":                    canaryResults,
		},
		"assumptions": []string{
			"each obligation is a necessary condition of the property, not the property itself",
			"goroutine roots are go statements, RPC handler methods, and the spawner table in DESIGN.md section 4",
			"no unsafe / reflection in anchored code",
		},
		"wall_s":     wall,
		"violations": nViol,
	}
	b, _ := json.MarshalIndent(ev, "", " ")
	if err := os.WriteFile(filepath.Join(evDir, property+".json"), b, 0o644); err != nil {
		fmt.Println("ERROR writing evidence:", err)
		return 2
	}
	fmt.Printf("%s tier=%s obligations=%d discharged=%d known=%d violations=%d errors=%d sites=%d wall=%.1fs\n",
		property, tier, evaluated, discharged, nKnown, nViol, nErr, totalSites, wall)
	switch {
	case nViol > 0:
		return 1
	case nErr > 0:
		return 2
	}
	return 0
}
