// Command mutsweep is a development aid (not a registered check): it generates
// syntactic mutants of the analysed production files (statement deletion, comparison
// and logic flips, branch negation, break/continue swaps, off-by-one literals, swapped
// same-typed arguments), applies each as an in-memory overlay on /repo's current source,
// re-loads the program and evaluates EVERY obligation on the variant. Nothing is executed.
// The output lists, per mutant, whether it type-checks and which obligations report it;
// survivors are the raw material for finding gaps in the rule set.
//
//	mutsweep -gen -files a.go,b.go -out mutants.json
//	mutsweep -eval mutants.json -shard 0/8 -out results-0.jsonl
package main

import (
	"bytes"
	"encoding/json"
	"flag"
	"fmt"
	"go/ast"
	"go/parser"
	"go/printer"
	"go/token"
	"go/types"
	"os"
	"path/filepath"
	"sort"
	"strconv"
	"strings"

	"verif/checker/internal/prog"
	"verif/checker/internal/rules"
)

type Mutant struct {
	ID    int    `json:"id"`
	File  string `json:"file"` // repo-relative
	Func  string `json:"func"`
	Line  int    `json:"line"`
	Op    string `json:"op"`
	Start int    `json:"start"` // byte offsets in the file
	End   int    `json:"end"`
	Old   string `json:"old"`
	New   string `json:"new"`
}

type Result struct {
	Mutant
	Status  string   `json:"status"` // uncompilable | violation | error | survived
	Reports []string `json:"reports,omitempty"`
}

func main() {
	gen := flag.Bool("gen", false, "generate mutants")
	files := flag.String("files", "", "comma separated repo-relative files")
	eval := flag.String("eval", "", "mutants.json to evaluate")
	shard := flag.String("shard", "0/1", "i/n")
	out := flag.String("out", "", "output file")
	repo := flag.String("repo", "/repo", "repository")
	verif := flag.String("verif", "/verif", "verif dir")
	flag.Parse()
	if *gen {
		generate(*repo, *verif, strings.Split(*files, ","), *out)
		return
	}
	evaluate(*repo, *verif, *eval, *shard, *out)
}

func generate(repo, verif string, files []string, out string) {
	p := prog.Load(repo, filepath.Join(verif, "bin"))
	var ms []Mutant
	for _, rel := range files {
		path := filepath.Join(repo, rel)
		src, err := os.ReadFile(path)
		if err != nil {
			fmt.Fprintln(os.Stderr, "skip", rel, err)
			continue
		}
		// find the loaded *ast.File so that type info is available
		var file *ast.File
		for _, pk := range p.Pkgs {
			for i, f := range pk.Syntax {
				if pk.CompiledGoFiles[i] == path {
					file = f
				}
			}
		}
		if file == nil {
			fset := token.NewFileSet()
			file, err = parser.ParseFile(fset, path, src, parser.ParseComments)
			if err != nil {
				continue
			}
			fmt.Fprintln(os.Stderr, "untyped", rel)
		}
		fset := p.Fset
		info := p.InfoAt(file.Pos())
		off := func(pos token.Pos) int { return fset.Position(pos).Offset }
		add := func(fn string, n ast.Node, op string, start, end token.Pos, repl string) {
			s, e := off(start), off(end)
			if s < 0 || e > len(src) || s > e {
				return
			}
			ms = append(ms, Mutant{File: rel, Func: fn, Line: fset.Position(n.Pos()).Line, Op: op, Start: s, End: e, Old: string(src[s:e]), New: repl})
		}
		for _, d := range file.Decls {
			fd, ok := d.(*ast.FuncDecl)
			if !ok || fd.Body == nil {
				continue
			}
			fn := fd.Name.Name
			if fd.Recv != nil && len(fd.Recv.List) > 0 {
				fn = "(" + types.ExprString(fd.Recv.List[0].Type) + ")." + fn
			}
			if fd.Name.Name == "String" || fd.Name.Name == "Error" || strings.HasPrefix(fd.Name.Name, "Debug") {
				continue
			}
			ast.Inspect(fd.Body, func(n ast.Node) bool {
				switch s := n.(type) {
				case *ast.BlockStmt:
					for _, st := range s.List {
						switch x := st.(type) {
						case *ast.ExprStmt, *ast.IncDecStmt, *ast.SendStmt, *ast.DeferStmt, *ast.GoStmt:
							if isLogCall(x) {
								continue
							}
							add(fn, st, "del-stmt", st.Pos(), st.End(), "")
						case *ast.AssignStmt:
							if x.Tok != token.DEFINE {
								add(fn, st, "del-assign", st.Pos(), st.End(), "")
							}
						case *ast.IfStmt:
							if x.Else == nil && x.Init == nil {
								add(fn, st, "del-if", st.Pos(), st.End(), "")
							} else if x.Else == nil {
								// keep the init for its side effects / definitions
								add(fn, st, "del-if-body", x.Body.Lbrace+1, x.Body.Rbrace, "")
							}
						case *ast.BranchStmt:
							if x.Label == nil && x.Tok == token.BREAK {
								add(fn, st, "break->continue", st.Pos(), st.End(), "continue")
							}
							if x.Label == nil && x.Tok == token.CONTINUE {
								add(fn, st, "continue->break", st.Pos(), st.End(), "break")
							}
						}
					}
				case *ast.CaseClause:
					for _, st := range s.Body {
						switch x := st.(type) {
						case *ast.ExprStmt, *ast.IncDecStmt, *ast.SendStmt:
							if !isLogCall(x) {
								add(fn, st, "del-stmt", st.Pos(), st.End(), "")
							}
						case *ast.AssignStmt:
							if x.Tok != token.DEFINE {
								add(fn, st, "del-assign", st.Pos(), st.End(), "")
							}
						case *ast.IfStmt:
							if x.Else == nil && x.Init == nil {
								add(fn, st, "del-if", st.Pos(), st.End(), "")
							}
						}
					}
				case *ast.CommClause:
					for _, st := range s.Body {
						switch x := st.(type) {
						case *ast.ExprStmt, *ast.IncDecStmt, *ast.SendStmt:
							if !isLogCall(x) {
								add(fn, st, "del-stmt", st.Pos(), st.End(), "")
							}
						case *ast.AssignStmt:
							if x.Tok != token.DEFINE {
								add(fn, st, "del-assign", st.Pos(), st.End(), "")
							}
						case *ast.IfStmt:
							if x.Else == nil && x.Init == nil {
								add(fn, st, "del-if", st.Pos(), st.End(), "")
							}
						}
					}
				case *ast.IfStmt:
					if !isErrNilCheck(s.Cond) {
						add(fn, s, "negate-if", s.Cond.Pos(), s.Cond.End(), "!("+string(src[off(s.Cond.Pos()):off(s.Cond.End())])+")")
					}
				case *ast.BinaryExpr:
					var alt []string
					switch s.Op {
					case token.LSS:
						alt = []string{"<=", ">"}
					case token.LEQ:
						alt = []string{"<", ">="}
					case token.GTR:
						alt = []string{">=", "<"}
					case token.GEQ:
						alt = []string{">", "<="}
					case token.EQL:
						if !isErrNilCheck(s) {
							alt = []string{"!="}
						}
					case token.NEQ:
						if !isErrNilCheck(s) {
							alt = []string{"=="}
						}
					case token.LAND:
						alt = []string{"||"}
					case token.LOR:
						alt = []string{"&&"}
					case token.ADD:
						if !isString(info, s.X) {
							alt = []string{"-"}
						}
					case token.SUB:
						alt = []string{"+"}
					}
					for _, a := range alt {
						add(fn, s, "binop "+s.Op.String()+"->"+a, s.OpPos, s.OpPos+token.Pos(len(s.Op.String())), a)
					}
				case *ast.BasicLit:
					if s.Kind == token.INT {
						if v, err := strconv.ParseInt(s.Value, 0, 64); err == nil && v < 64 {
							add(fn, s, "lit+1", s.Pos(), s.End(), strconv.FormatInt(v+1, 10))
							if v > 0 {
								add(fn, s, "lit-1", s.Pos(), s.End(), strconv.FormatInt(v-1, 10))
							}
						}
					}
				case *ast.CallExpr:
					if info != nil && len(s.Args) >= 2 && !s.Ellipsis.IsValid() {
						for i := 0; i+1 < len(s.Args); i++ {
							ta, tb := info.TypeOf(s.Args[i]), info.TypeOf(s.Args[i+1])
							if ta != nil && tb != nil && types.Identical(ta, tb) && exprText(fset, s.Args[i]) != exprText(fset, s.Args[i+1]) {
								a := string(src[off(s.Args[i].Pos()):off(s.Args[i].End())])
								b := string(src[off(s.Args[i+1].Pos()):off(s.Args[i+1].End())])
								add(fn, s, "swap-args", s.Args[i].Pos(), s.Args[i+1].End(), b+", "+a)
							}
						}
					}
				case *ast.UnaryExpr:
					if s.Op == token.NOT {
						add(fn, s, "drop-not", s.OpPos, s.OpPos+1, "")
					}
				case *ast.ReturnStmt:
					// return <bool literal> flips
					for _, r := range s.Results {
						if id, ok := r.(*ast.Ident); ok && (id.Name == "true" || id.Name == "false") {
							nv := "true"
							if id.Name == "true" {
								nv = "false"
							}
							add(fn, s, "flip-bool-return", id.Pos(), id.End(), nv)
						}
					}
				}
				return true
			})
		}
	}
	sort.SliceStable(ms, func(i, j int) bool {
		if ms[i].File != ms[j].File {
			return ms[i].File < ms[j].File
		}
		return ms[i].Start < ms[j].Start
	})
	for i := range ms {
		ms[i].ID = i + 1
	}
	b, _ := json.MarshalIndent(ms, "", " ")
	os.WriteFile(out, b, 0o644)
	fmt.Printf("%d mutants over %d files\n", len(ms), len(files))
}

func exprText(fset *token.FileSet, e ast.Expr) string {
	var b bytes.Buffer
	printer.Fprint(&b, fset, e)
	return b.String()
}

func isString(info *types.Info, e ast.Expr) bool {
	if info == nil {
		return false
	}
	t := info.TypeOf(e)
	if t == nil {
		return false
	}
	b, ok := t.Underlying().(*types.Basic)
	return ok && b.Info()&types.IsString != 0
}

func isErrNilCheck(e ast.Expr) bool {
	b, ok := ast.Unparen(e).(*ast.BinaryExpr)
	if !ok {
		return false
	}
	x, okx := b.X.(*ast.Ident)
	y, oky := b.Y.(*ast.Ident)
	return okx && oky && (x.Name == "err" || strings.HasSuffix(x.Name, "Err")) && y.Name == "nil"
}

func isLogCall(st ast.Stmt) bool {
	es, ok := st.(*ast.ExprStmt)
	if !ok {
		return false
	}
	c, ok := es.X.(*ast.CallExpr)
	if !ok {
		return false
	}
	s := types.ExprString(c.Fun)
	for _, p := range []string{"slog.", "log.", ".Debug", ".Info", ".Warn", ".Error", "fmt.Print"} {
		if strings.Contains(s, p) {
			return true
		}
	}
	return false
}

func evaluate(repo, verif, in, shard, out string) {
	var ms []Mutant
	b, err := os.ReadFile(in)
	if err != nil {
		panic(err)
	}
	json.Unmarshal(b, &ms)
	var si, sn int
	fmt.Sscanf(shard, "%d/%d", &si, &sn)
	binDir := filepath.Join(verif, "bin")
	base := prog.Load(repo, binDir)
	baseline := map[string]bool{}
	for _, o := range rules.All() {
		r := rules.Eval(base, "quick", o)
		for _, v := range r.Violations {
			baseline[v.Identity] = true
		}
		for _, e := range r.Errors {
			baseline["ERROR "+o.ID+": "+e] = true
		}
	}
	base = nil
	f, err := os.OpenFile(out, os.O_CREATE|os.O_WRONLY|os.O_APPEND, 0o644)
	if err != nil {
		panic(err)
	}
	defer f.Close()
	done := map[int]bool{}
	if prev, err := os.ReadFile(out); err == nil {
		for _, l := range strings.Split(string(prev), "\n") {
			var r Result
			if json.Unmarshal([]byte(l), &r) == nil && r.ID > 0 {
				done[r.ID] = true
			}
		}
	}
	srcs := map[string][]byte{}
	for _, m := range ms {
		if m.ID%sn != si || done[m.ID] {
			continue
		}
		path := filepath.Join(repo, m.File)
		src, ok := srcs[path]
		if !ok {
			src, _ = os.ReadFile(path)
			srcs[path] = src
		}
		res := Result{Mutant: m}
		if m.End > len(src) || string(src[m.Start:m.End]) != m.Old {
			res.Status = "stale"
		} else {
			text := string(src[:m.Start]) + m.New + string(src[m.End:])
			var p *prog.Prog
			func() {
				defer func() {
					if e := recover(); e != nil {
						res.Status = "uncompilable"
					}
				}()
				p = prog.LoadMutated(repo, binDir, map[string][]byte{path: []byte(text)})
			}()
			if p != nil {
				nv, ne := 0, 0
				for _, o := range rules.All() {
					var r *rules.ObResult
					func() {
						defer func() {
							if e := recover(); e != nil {
								res.Reports = append(res.Reports, fmt.Sprintf("PANIC %s: %v", o.ID, e))
								ne++
							}
						}()
						r = rules.Eval(p, "quick", o)
					}()
					if r == nil {
						continue
					}
					for _, v := range r.Violations {
						if !baseline[v.Identity] {
							res.Reports = append(res.Reports, v.Identity)
							nv++
						}
					}
					for _, e := range r.Errors {
						k := "ERROR " + o.ID + ": " + e
						if !baseline[k] {
							res.Reports = append(res.Reports, k)
							ne++
						}
					}
				}
				switch {
				case nv > 0:
					res.Status = "violation"
				case ne > 0:
					res.Status = "error"
				default:
					res.Status = "survived"
				}
			}
		}
		jb, _ := json.Marshal(res)
		f.Write(append(jb, '\n'))
	}
}
