// Command verifall is a development aid: it loads /repo once, evaluates EVERY obligation and
// prints the violations and errors that are not listed as known findings (identity only).
// It writes no evidence and is not registered in MANIFEST.json.
package main

import (
	"bufio"
	"flag"
	"fmt"
	"os"
	"path/filepath"
	"sort"
	"strings"

	"verif/checker/internal/prog"
	"verif/checker/internal/rules"
)

func main() {
	repo := flag.String("repo", "/repo", "repository")
	verif := flag.String("verif", "/verif", "verif dir")
	listFuncs := flag.Bool("listfuncs", false, "print the names of all declared functions (to regenerate rules/baseline_funcs.txt)")
	flag.Parse()
	if *listFuncs {
		p := prog.Load(*repo, filepath.Join(*verif, "bin"))
		var names []string
		for _, fi := range p.AllFuncs() {
			names = append(names, fi.Name())
		}
		sort.Strings(names)
		for _, n := range names {
			fmt.Println(n)
		}
		return
	}
	known := map[string]bool{}
	if f, err := os.Open(filepath.Join(*verif, "known_findings.txt")); err == nil {
		sc := bufio.NewScanner(f)
		for sc.Scan() {
			l := sc.Text()
			if i := strings.Index(l, "obligation="); strings.HasPrefix(l, "finding:") && i >= 0 {
				id := l[i+len("obligation="):]
				if j := strings.Index(id, " "); j >= 0 {
					id = id[:j]
				}
				known[id] = true
			}
		}
		f.Close()
	}
	var out []string
	func() {
		defer func() {
			if e := recover(); e != nil {
				out = append(out, fmt.Sprintf("LOADERROR %v", e))
			}
		}()
		p := prog.Load(*repo, filepath.Join(*verif, "bin"))
		for _, o := range rules.All() {
			func() {
				defer func() {
					if e := recover(); e != nil {
						out = append(out, fmt.Sprintf("PANIC %s: %v", o.ID, e))
					}
				}()
				r := rules.Eval(p, "quick", o)
				for _, v := range r.Violations {
					if !known[v.Identity] {
						out = append(out, "VIOLATION "+v.Identity+" @ "+v.Pos)
					}
				}
				for _, e := range r.Errors {
					out = append(out, "ERROR "+o.ID+": "+e)
				}
			}()
		}
	}()
	sort.Strings(out)
	for _, l := range out {
		fmt.Println(l)
	}
	if len(out) > 0 {
		os.Exit(1)
	}
}
