// Package pathsim is engine E1: a path-sensitive abstract interpreter over the structured
// control flow of one Go function body. It explores every syntactic path (short-circuit
// && / || / ! decomposed into atoms, switch / select / range / loops to a fixpoint) in the
// product with a small rule-defined automaton state and a three-valued valuation of up to
// MaxAtoms guard atoms. Nothing is executed; no solver is involved; the state space is
// finite so loops converge.
//
// It replaces the go/cfg substrate sketched in DESIGN.md: go/cfg hoists every comm
// statement of a select into the preceding block and does not split && / ||, both of
// which the rules here need exactly.
package pathsim

import (
	"fmt"
	"go/ast"
	"go/constant"
	"go/token"
	"go/types"

	"verif/checker/internal/prog"
)

type Tri int8

const (
	Unknown Tri = 0
	True    Tri = 1
	False   Tri = -1
)

const MaxAtoms = 16 // 0..7 belong to the rule, 8..15 are allocated automatically

// State is the rule-visible abstract state. It must stay comparable.
type State struct {
	A int32 // rule-defined automaton register
	B int32 // second rule-defined register
	V [MaxAtoms]Tri
}

type EventKind int

const (
	EvCall         EventKind = iota // a call is performed (after its operands)
	EvAssign                        // assignment / define / inc-dec / var decl / range vars
	EvSend                          // ch <- v
	EvRecv                          // <-ch
	EvReturn                        // explicit return statement (after its results)
	EvExit                          // implicit return at the end of the body
	EvPanic                         // call of panic / no-return function: path ends
	EvFuncLit                       // a function literal value is created
	EvRangeIter                     // one iteration of a range loop is entered
	EvClose                         // close(ch)
	EvDelete                        // delete(m, k)
	EvSelectCase                    // a select clause is taken (Node = *ast.CommClause)
	EvTypeCase                      // a type-switch clause is taken (Node = *ast.CaseClause)
	EvLoopExit                      // a for/range loop is left normally or by break (Node = loop stmt)
	EvField                         // a watched struct field is read or written (Spec.Watch)
	EvLoopIter                      // an iteration of a for statement is entered (Node = *ast.ForStmt)
	EvInlineLit                     // the body of a callback literal passed to a call is about to be simulated in place
	EvInlineLitEnd                  // ... and has been simulated
)

func (k EventKind) String() string {
	return [...]string{"call", "assign", "send", "recv", "return", "exit", "panic", "funclit", "range-iter", "close", "delete", "select-case", "type-case", "loop-exit", "field", "loop-iter", "inline-lit", "inline-lit-end"}[k]
}

type Event struct {
	Kind     EventKind
	Node     ast.Node
	Pos      token.Pos
	Call     *ast.CallExpr
	Callee   types.Object // static callee (nil for dynamic)
	Deferred bool         // call is the operand of defer
	Go       bool         // call is the operand of go
	Lhs      []ast.Expr
	Rhs      []ast.Expr
	Tok      token.Token
	Chan     ast.Expr
	Value    ast.Expr
	Results  []ast.Expr
	Lit      *ast.FuncLit
	Field    *types.Var // EvField
	Write    bool       // EvField: the access may modify the field or what it refers to
	Break    bool       // EvLoopExit: the loop is left through a break statement
}

// Spec describes one rule instance to the engine.
type Spec struct {
	// Atom classifies a leaf boolean expression: idx < MaxAtoms, neg reports that the
	// expression is the negation of the atom. ok=false leaves both branches feasible.
	Atom func(c *Ctx, e ast.Expr) (idx int, neg bool, ok bool)
	// AtomDeps[idx] lists variables / fields whose assignment invalidates the atom.
	AtomDeps map[int][]types.Object
	// Step consumes an event. Returning nil keeps the state unchanged; returning an empty
	// non-nil slice kills the path; several states fork.
	Step func(c *Ctx, s State, ev *Event) []State
	Init State
	// Watch lists struct fields whose reads / writes are delivered as EvField events.
	Watch map[*types.Var]bool
	// InlineLit reports whether a function literal's body should be simulated in place at
	// the point of creation (immediately-invoked closures, synchronous callbacks).
	InlineLit func(c *Ctx, lit *ast.FuncLit, parent ast.Node) bool
	// NoReturn reports additional calls that never return (log.Fatal, os.Exit are built in).
	NoReturn func(c *Ctx, call *ast.CallExpr) bool
	// InlineCalls switches on the simulation of statically resolved same-package callees
	// (functions and methods with a body, depth <= 2, no recursion) in place of their call.
	// With inlining a rule sees through extracted helpers: the callee's events are delivered
	// between the call event and whatever follows the call; its returns end the callee only,
	// and its deferred calls run at its returns. Off by default: rules that identify their
	// events by position in the root function must not see a callee's look-alike events.
	InlineCalls bool
	// ErrAtom lets a rule that tracks `v != nil` for some error variables itself tell the
	// engine which atom that is, so that the nil-ness of an error returned by an inlined callee
	// can be handed to the variable that receives it at the call site.
	ErrAtom func(obj types.Object) (idx int, ok bool)
	// InlineFunc, when set, restricts inlining to callees it accepts.
	InlineFunc func(c *Ctx, fn *types.Func) bool
}

type Violation struct {
	Msg   string
	Pos   token.Pos
	Trace []token.Pos
}

type trace struct {
	pos  token.Pos
	prev *trace
}

type cst struct {
	s State
	t *trace
}

type Ctx struct {
	P    *prog.Prog
	Info *types.Info
	Body *ast.BlockStmt
	Fn   ast.Node // *ast.FuncDecl or *ast.FuncLit
	spec *Spec

	nilIdent   *ast.Ident // a type-checked `nil` of the file (someNilIdent)
	flagOK     map[types.Object]bool
	cur        cst
	Violations []Violation
	vseen      map[string]bool
	Steps      int // (event, state) pairs processed
	States     map[State]bool
	Undecided  []string
	returns    []cst
	boolDepth  int
	// automatic atoms: boolean locals that receive a constant true / false from the return
	// statements of an immediately invoked literal (`x, ok := func() (T, bool) {...}()`)
	autoAtom map[types.Object]int
	tupleLHS []ast.Expr            // targets of the IIFE call being simulated (nil otherwise)
	tupleAt  int                   // c.Depth inside that IIFE
	scratch  map[types.Object]int  // parking atoms for values on their way to a target
	bound    map[types.Object]bool // targets whose atom was set by the returns of the call being simulated
	keep     map[types.Object]bool // targets whose automatic atom the following assign event must not reset
	Depth    int                   // > 0 while an inlined callee is being simulated
	stack    []*types.Func         // inlined callees (recursion guard)
	rootPkg  *types.Package        // package of the simulated root function
	pending  [][]*ast.CallExpr     // deferred calls of the inlined callees, innermost last
}

// Violate records a violation at the current event with the path that led here.
func (c *Ctx) Violate(pos token.Pos, format string, a ...any) {
	msg := fmt.Sprintf(format, a...)
	key := fmt.Sprintf("%d|%s", pos, msg)
	if c.vseen[key] {
		return
	}
	c.vseen[key] = true
	var tr []token.Pos
	for t := c.cur.t; t != nil; t = t.prev {
		tr = append(tr, t.pos)
	}
	for i, j := 0, len(tr)-1; i < j; i, j = i+1, j-1 {
		tr[i], tr[j] = tr[j], tr[i]
	}
	c.Violations = append(c.Violations, Violation{Msg: msg, Pos: pos, Trace: tr})
}

func (c *Ctx) undecided(pos token.Pos, format string, a ...any) {
	c.Undecided = append(c.Undecided, c.P.Pos(pos)+": "+fmt.Sprintf(format, a...))
}

// Run simulates body under spec.
func Run(p *prog.Prog, fn ast.Node, spec *Spec) *Ctx {
	var body *ast.BlockStmt
	switch f := fn.(type) {
	case *ast.FuncDecl:
		body = f.Body
	case *ast.FuncLit:
		body = f.Body
	default:
		prog.Fatalf("pathsim: not a function: %T", fn)
	}
	if body == nil {
		prog.Fatalf("pathsim: function without body at %s", p.Pos(fn.Pos()))
	}
	c := &Ctx{P: p, Info: p.InfoAt(fn.Pos()), Body: body, Fn: fn, spec: spec, vseen: map[string]bool{}, States: map[State]bool{}}
	if f := p.FileAt(fn.Pos()); f != nil {
		if pk := p.PkgOfFile(f); pk != nil {
			c.rootPkg = pk.Types
		}
	}
	in := []cst{{s: spec.Init, t: &trace{pos: body.Lbrace}}}
	fl := c.stmt(body, in, "")
	for l := range fl.brk {
		c.undecided(body.Pos(), "break to unknown label %q", l)
	}
	for l := range fl.cont {
		c.undecided(body.Pos(), "continue to unknown label %q", l)
	}
	// implicit return
	ev := &Event{Kind: EvExit, Node: body, Pos: body.Rbrace}
	out := c.emit(ev, fl.out)
	c.returns = append(c.returns, out...)
	return c
}

// ---------------------------------------------------------------- state sets

func dedup(in []cst) []cst {
	if len(in) < 2 {
		return in
	}
	seen := make(map[State]bool, len(in))
	out := in[:0:0]
	for _, x := range in {
		if !seen[x.s] {
			seen[x.s] = true
			out = append(out, x)
		}
	}
	return out
}

type flow struct {
	out  []cst
	brk  map[string][]cst
	cont map[string][]cst
}

func (f *flow) addBrk(l string, s []cst) {
	if len(s) == 0 {
		return
	}
	if f.brk == nil {
		f.brk = map[string][]cst{}
	}
	f.brk[l] = append(f.brk[l], s...)
}
func (f *flow) addCont(l string, s []cst) {
	if len(s) == 0 {
		return
	}
	if f.cont == nil {
		f.cont = map[string][]cst{}
	}
	f.cont[l] = append(f.cont[l], s...)
}
func (f *flow) absorb(g flow) {
	for l, s := range g.brk {
		f.addBrk(l, s)
	}
	for l, s := range g.cont {
		f.addCont(l, s)
	}
}

// takeBrk removes and returns break states addressed to this statement.
func (f *flow) takeBrk(label string) []cst {
	var out []cst
	out = append(out, f.brk[""]...)
	delete(f.brk, "")
	if label != "" {
		out = append(out, f.brk[label]...)
		delete(f.brk, label)
	}
	return out
}
func (f *flow) takeCont(label string) []cst {
	var out []cst
	out = append(out, f.cont[""]...)
	delete(f.cont, "")
	if label != "" {
		out = append(out, f.cont[label]...)
		delete(f.cont, label)
	}
	return out
}

// ---------------------------------------------------------------- events

func (c *Ctx) emit(ev *Event, in []cst) []cst {
	var out []cst
	for _, x := range in {
		c.Steps++
		c.States[x.s] = true
		c.cur = cst{s: x.s, t: &trace{pos: ev.Pos, prev: x.t}}
		var next []State
		hidden := c.Depth > 0 && (ev.Kind == EvReturn || ev.Kind == EvExit) // a callee's return is not the function's
		if c.spec.Step != nil && !hidden {
			next = c.spec.Step(c, x.s, ev)
		}
		if next == nil {
			next = []State{x.s}
		}
		for _, n := range next {
			if ev.Kind == EvAssign {
				n = c.applyKills(n, ev)
			}
			out = append(out, cst{s: n, t: c.cur.t})
		}
	}
	return dedup(out)
}

func (c *Ctx) applyKills(s State, ev *Event) State {
	if len(c.spec.AtomDeps) == 0 {
		return s
	}
	for _, l := range ev.Lhs {
		var obj types.Object
		if o := prog.IdentObj(c.Info, l); o != nil {
			obj = o
		} else if f := prog.SelField(c.Info, l); f != nil {
			obj = f
		}
		if obj == nil || c.keep[obj] {
			continue // (a target whose atom was just set from the returns of the simulated call keeps it)
		}
		for idx, deps := range c.spec.AtomDeps {
			for _, d := range deps {
				if d == obj {
					s.V[idx] = Unknown
				}
			}
		}
	}
	return s
}

func (c *Ctx) noReturn(call *ast.CallExpr) bool {
	callee := c.P.Callee(c.Info, call)
	switch o := callee.(type) {
	case *types.Builtin:
		return o.Name() == "panic"
	case *types.Func:
		if o.Pkg() != nil {
			full := o.Pkg().Path() + "." + o.Name()
			switch full {
			case "os.Exit", "log.Fatal", "log.Fatalf", "log.Fatalln", "log.Panic", "log.Panicf", "runtime.Goexit":
				return true
			}
		}
	}
	if c.spec.NoReturn != nil && c.spec.NoReturn(c, call) {
		return true
	}
	return false
}

// expr evaluates e for its events, in evaluation order.
func (c *Ctx) expr(e ast.Expr, in []cst) []cst {
	if e == nil || len(in) == 0 {
		return in
	}
	switch x := e.(type) {
	case *ast.BadExpr, *ast.Ident, *ast.BasicLit, *ast.ArrayType, *ast.StructType, *ast.FuncType,
		*ast.InterfaceType, *ast.MapType, *ast.ChanType, *ast.Ellipsis:
		return in
	case *ast.FuncLit:
		out := c.emit(&Event{Kind: EvFuncLit, Node: x, Pos: x.Pos(), Lit: x}, in)
		return out
	case *ast.CompositeLit:
		for _, el := range x.Elts {
			in = c.expr(el, in)
		}
		return in
	case *ast.ParenExpr:
		return c.expr(x.X, in)
	case *ast.SelectorExpr:
		in = c.expr(x.X, in)
		return c.fieldUse(x, false, in)
	case *ast.IndexExpr:
		in = c.expr(x.X, in)
		return c.expr(x.Index, in)
	case *ast.IndexListExpr:
		return c.expr(x.X, in)
	case *ast.SliceExpr:
		in = c.expr(x.X, in)
		in = c.expr(x.Low, in)
		in = c.expr(x.High, in)
		return c.expr(x.Max, in)
	case *ast.TypeAssertExpr:
		return c.expr(x.X, in)
	case *ast.StarExpr:
		return c.expr(x.X, in)
	case *ast.KeyValueExpr:
		in = c.expr(x.Key, in)
		return c.expr(x.Value, in)
	case *ast.UnaryExpr:
		if x.Op == token.AND {
			if sel, ok := ast.Unparen(x.X).(*ast.SelectorExpr); ok && c.watched(sel) != nil {
				in = c.expr(sel.X, in)
				return c.fieldUse(sel, true, in) // address taken: may be written through
			}
		}
		in = c.expr(x.X, in)
		if x.Op == token.ARROW {
			return c.emit(&Event{Kind: EvRecv, Node: x, Pos: x.Pos(), Chan: x.X}, in)
		}
		return in
	case *ast.BinaryExpr:
		if x.Op == token.LAND || x.Op == token.LOR {
			t, f := c.cond(x, in)
			return dedup(append(t, f...))
		}
		in = c.expr(x.X, in)
		return c.expr(x.Y, in)
	case *ast.CallExpr:
		return c.call(x, in, false, false)
	}
	c.undecided(e.Pos(), "unsupported expression %T", e)
	return in
}

func (c *Ctx) call(x *ast.CallExpr, in []cst, deferred, goStmt bool) []cst {
	// conversions have no event of their own
	if tv, ok := c.Info.Types[x.Fun]; ok && tv.IsType() {
		for _, a := range x.Args {
			in = c.expr(a, in)
		}
		return in
	}
	// immediately-invoked literal: evaluate operands, then inline or emit as FuncLit+call
	fun := ast.Unparen(x.Fun)
	if lit, ok := fun.(*ast.FuncLit); ok {
		for _, a := range x.Args {
			in = c.expr(a, in)
		}
		if !deferred && !goStmt && c.spec.InlineLit != nil && c.spec.InlineLit(c, lit, x) {
			return c.inlineLit(lit, in)
		}
		if !deferred && !goStmt {
			// an immediately invoked literal runs synchronously in place: its statements are part of
			// this path, its returns end the literal only, its deferred calls run when it ends
			in = c.emit(&Event{Kind: EvFuncLit, Node: lit, Pos: lit.Pos(), Lit: lit}, in)
			return c.inlineFrame(lit.Body, in)
		}
		in = c.emit(&Event{Kind: EvFuncLit, Node: lit, Pos: lit.Pos(), Lit: lit}, in)
		return c.emit(&Event{Kind: EvCall, Node: x, Pos: x.Pos(), Call: x, Deferred: deferred, Go: goStmt}, in)
	}
	in = c.expr(x.Fun, in)
	for _, a := range x.Args {
		if lit, ok := ast.Unparen(a).(*ast.FuncLit); ok && c.spec.InlineLit != nil && !deferred && !goStmt && c.spec.InlineLit(c, lit, x) {
			// synchronous callback: simulate its body as part of the call
			in = c.emit(&Event{Kind: EvInlineLit, Node: lit, Pos: lit.Pos(), Lit: lit, Call: x}, in)
			in = c.inlineLit(lit, in)
			in = c.emit(&Event{Kind: EvInlineLitEnd, Node: lit, Pos: lit.End(), Lit: lit, Call: x}, in)
			continue
		}
		in = c.expr(a, in)
	}
	callee := c.P.Callee(c.Info, x)
	if b, ok := callee.(*types.Builtin); ok {
		switch b.Name() {
		case "panic":
			c.emit(&Event{Kind: EvPanic, Node: x, Pos: x.Pos(), Call: x, Callee: callee}, in)
			return nil
		case "close":
			if len(x.Args) == 1 {
				return c.emit(&Event{Kind: EvClose, Node: x, Pos: x.Pos(), Call: x, Callee: callee, Chan: x.Args[0], Deferred: deferred}, in)
			}
		case "delete":
			return c.emit(&Event{Kind: EvDelete, Node: x, Pos: x.Pos(), Call: x, Callee: callee, Deferred: deferred}, in)
		}
	}
	if !deferred && !goStmt && c.noReturn(x) {
		c.emit(&Event{Kind: EvPanic, Node: x, Pos: x.Pos(), Call: x, Callee: callee}, in)
		return nil
	}
	if deferred && c.Depth > 0 {
		// a deferred call of an inlined callee runs when that callee returns
		c.pending[len(c.pending)-1] = append(c.pending[len(c.pending)-1], x)
		return in
	}
	out := c.emit(&Event{Kind: EvCall, Node: x, Pos: x.Pos(), Call: x, Callee: callee, Deferred: deferred, Go: goStmt}, in)
	if !deferred && !goStmt {
		if fn, ok := callee.(*types.Func); ok {
			out = c.inlineCallee(fn, x, out)
		}
	}
	return out
}

// DefaultInline decides which callees are simulated in place when a rule did not ask for
// inlining itself: the rules package sets it to "functions that did not exist when the
// checker's tables were confirmed" (extracted helpers).
var DefaultInline func(p *prog.Prog, fi *prog.FuncInfo) bool

// inlineCallee simulates the body of a statically resolved same-package function in place.
// BindCall is told when an inlined callee's body is entered for a particular call, so that the
// rules' identifier resolution can let the callee's parameters stand for that call's arguments;
// the function it returns is called when the body has been simulated.
var BindCall func(callerInfo *types.Info, fi *prog.FuncInfo, call *ast.CallExpr) func()

func (c *Ctx) inlineCallee(fn *types.Func, call *ast.CallExpr, in []cst) []cst {
	if len(in) == 0 || c.Depth >= 3 || fn.Pkg() == nil || fn.Pkg() != c.rootPkg {
		return in
	}
	if !c.spec.InlineCalls {
		if DefaultInline == nil || !DefaultInline(c.P, c.P.FuncInfoOf(fn)) {
			return in
		}
	} else if c.Depth >= 2 {
		return in
	}
	if c.spec.InlineFunc != nil && !c.spec.InlineFunc(c, fn) {
		return in
	}
	for _, s := range c.stack {
		if s == fn {
			return in
		}
	}
	fi := c.P.FuncInfoOf(fn)
	if fi == nil || fi.Decl == nil || fi.Decl.Body == nil {
		return in
	}
	if root, ok := c.Fn.(*ast.FuncDecl); ok && root == fi.Decl {
		return in // direct recursion into the root
	}
	savedInfo := c.Info
	if BindCall != nil && call != nil {
		defer BindCall(savedInfo, fi, call)()
	}
	c.Info = fi.Pkg.TypesInfo
	c.stack = append(c.stack, fn)
	out := c.inlineFrame(fi.Decl.Body, in)
	c.stack = c.stack[:len(c.stack)-1]
	c.Info = savedInfo
	return out
}

// inlineFrame simulates a body as a nested activation: returns end the body only and are not
// shown to the rule, deferred calls registered in it run (last first) when it ends.
func (c *Ctx) inlineFrame(body *ast.BlockStmt, in []cst) []cst {
	savedReturns := c.returns
	c.returns = nil
	before := map[types.Object]bool{}
	for o := range c.autoAtom {
		before[o] = true
	}
	beforeS := map[types.Object]bool{}
	for o := range c.scratch {
		beforeS[o] = true
	}
	c.Depth++
	c.pending = append(c.pending, nil)
	fl := c.stmt(body, in, "")
	out := append(fl.out, c.returns...)
	out = dedup(out)
	defs := c.pending[len(c.pending)-1]
	c.pending = c.pending[:len(c.pending)-1]
	c.Depth--
	for i := len(defs) - 1; i >= 0; i-- {
		d := defs[i]
		c.Depth++
		c.pending = append(c.pending, nil)
		out = c.call(d, out, false, false)
		c.pending = c.pending[:len(c.pending)-1]
		c.Depth--
	}
	c.returns = savedReturns
	// automatic atoms of the frame's own locals are released (targets of the enclosing
	// assignment, set at the frame's returns, live on)
	var freed []int
	for o, i := range c.autoAtom {
		if !before[o] && !c.bound[o] && o.Pos() >= body.Pos() && o.Pos() <= body.End() {
			freed = append(freed, i)
			delete(c.autoAtom, o)
		}
	}
	for o, i := range c.scratch {
		if !beforeS[o] && !c.bound[o] && o.Pos() >= body.Pos() && o.Pos() <= body.End() {
			freed = append(freed, i)
			delete(c.scratch, o)
		}
	}
	if len(freed) > 0 {
		for k := range out {
			for _, i := range freed {
				out[k].s.V[i] = Unknown
			}
		}
		out = dedup(out)
	}
	return out
}

func (c *Ctx) watched(sel *ast.SelectorExpr) *types.Var {
	if len(c.spec.Watch) == 0 {
		return nil
	}
	if f := prog.SelField(c.Info, sel); f != nil && c.spec.Watch[f] {
		return f
	}
	return nil
}

func (c *Ctx) fieldUse(sel *ast.SelectorExpr, write bool, in []cst) []cst {
	f := c.watched(sel)
	if f == nil {
		return in
	}
	return c.emit(&Event{Kind: EvField, Node: sel, Pos: sel.Sel.Pos(), Field: f, Write: write}, in)
}

// inlineLit simulates a literal's body in place. Returns inside the literal end the
// literal, not the enclosing function.
func (c *Ctx) inlineLit(lit *ast.FuncLit, in []cst) []cst {
	saved := c.returns
	c.returns = nil
	fl := c.stmt(lit.Body, in, "")
	out := append(fl.out, c.returns...)
	c.returns = saved
	return dedup(out)
}

// cond evaluates a boolean expression and splits the states by outcome.
func (c *Ctx) cond(e ast.Expr, in []cst) (t, f []cst) {
	if len(in) == 0 {
		return nil, nil
	}
	switch x := e.(type) {
	case *ast.ParenExpr:
		return c.cond(x.X, in)
	case *ast.UnaryExpr:
		if x.Op == token.NOT {
			t, f = c.cond(x.X, in)
			return f, t
		}
	case *ast.BinaryExpr:
		switch x.Op {
		case token.LAND:
			at, af := c.cond(x.X, in)
			bt, bf := c.cond(x.Y, at)
			return bt, dedup(append(af, bf...))
		case token.LOR:
			at, af := c.cond(x.X, in)
			bt, bf := c.cond(x.Y, af)
			return dedup(append(at, bt...)), bf
		}
	}
	in = c.expr(e, in)
	return c.atom(e, in)
}

func isErrorT(t types.Type) bool {
	return t != nil && types.Identical(t, types.Universe.Lookup("error").Type())
}

// atomOf returns the atom that stands for a variable: the rule's own atom for an error
// variable it tracks (Spec.ErrAtom), or an automatic one (boolean value / `err != nil`),
// allocated from the top of the atom range when create is set.
func (c *Ctx) atomOf(obj types.Object, create bool) (int, bool) {
	if c.spec.ErrAtom != nil && isErrorT(obj.Type()) {
		if idx, ok := c.spec.ErrAtom(obj); ok && idx >= 0 && idx < MaxAtoms {
			return idx, true
		}
	}
	if idx, ok := c.autoAtom[obj]; ok {
		return idx, true
	}
	if !create {
		return 0, false
	}
	if c.autoAtom == nil {
		c.autoAtom = map[types.Object]int{}
	}
	idx, ok := c.freeAtom()
	if !ok {
		return 0, false // the low indices belong to the rule
	}
	c.autoAtom[obj] = idx
	return idx, true
}

// freeAtom returns an unused index of the automatic range 8..MaxAtoms-1.
func (c *Ctx) freeAtom() (int, bool) {
	used := map[int]bool{}
	for _, i := range c.autoAtom {
		used[i] = true
	}
	for _, i := range c.scratch {
		used[i] = true
	}
	for i := MaxAtoms - 1; i >= 8; i-- {
		if !used[i] {
			return i, true
		}
	}
	return 0, false
}

func (c *Ctx) scratchOf(obj types.Object) (int, bool) {
	if idx, ok := c.scratch[obj]; ok {
		return idx, true
	}
	if c.scratch == nil {
		c.scratch = map[types.Object]int{}
	}
	idx, ok := c.freeAtom()
	if !ok {
		return 0, false
	}
	c.scratch[obj] = idx
	return idx, true
}

// BoolLocalDef, when set (by the rules package), maps an identifier naming a boolean local
// with exactly one definition to the defining expression, so that
// `stale := a && b; if x || stale` is evaluated like `if x || (a && b)`.
var BoolLocalDef func(info *types.Info, id *ast.Ident) ast.Expr

// PredicateBody, when set (by the rules package), maps a call of a same-package function whose
// body is a single `return <boolean expression>` to that expression.
var PredicateBody func(info *types.Info, call *ast.CallExpr) ast.Expr

func (c *Ctx) atom(e ast.Expr, in []cst) (t, f []cst) {
	if tv, ok := c.Info.Types[e]; ok && tv.Value != nil {
		// constant condition
		if tv.Value.String() == "true" {
			return in, nil
		}
		if tv.Value.String() == "false" {
			return nil, in
		}
	}
	split := func(idx int, neg bool) ([]cst, []cst) {
		var t, f []cst
		for _, x := range in {
			v := x.s.V[idx]
			if neg {
				v = -v
			}
			tr := &trace{pos: e.Pos(), prev: x.t}
			if v != False {
				s := x.s
				if neg {
					s.V[idx] = False
				} else {
					s.V[idx] = True
				}
				t = append(t, cst{s, tr})
			}
			if v != True {
				s := x.s
				if neg {
					s.V[idx] = True
				} else {
					s.V[idx] = False
				}
				f = append(f, cst{s, tr})
			}
		}
		return dedup(t), dedup(f)
	}
	// 1. the rule's own atoms
	if c.spec.Atom != nil {
		if idx, neg, ok := c.spec.Atom(c, e); ok {
			if idx < 0 || idx >= MaxAtoms {
				prog.Fatalf("pathsim: atom index %d out of range", idx)
			}
			return split(idx, neg)
		}
	}
	// 2. a boolean local with one (pure) definition is evaluated as that definition
	if id, ok := ast.Unparen(e).(*ast.Ident); ok && BoolLocalDef != nil && c.boolDepth < 3 {
		if def := BoolLocalDef(c.Info, id); def != nil {
			c.boolDepth++
			t, f = c.cond(def, in)
			c.boolDepth--
			return t, f
		}
	}
	// 2b. a call of a same-package predicate whose body is `return <expr>` is evaluated as that
	// expression (c.hasAllBarriers() like len(c.srIDs) == 0). The callee's parameters are other
	// objects than the caller's variables, so an atom that names a caller variable simply does not
	// match there and the condition stays unknown.
	if call, ok := ast.Unparen(e).(*ast.CallExpr); ok && PredicateBody != nil && c.boolDepth < 3 {
		if def := PredicateBody(c.Info, call); def != nil {
			c.boolDepth++
			t, f = c.cond(def, in)
			c.boolDepth--
			return t, f
		}
	}
	// 3. automatic atoms: a boolean that received its value from the returns of a simulated call
	if id, ok := ast.Unparen(e).(*ast.Ident); ok && len(c.autoAtom) > 0 {
		if obj := c.Info.Uses[id]; obj != nil {
			if idx, has := c.autoAtom[obj]; has {
				return split(idx, false)
			}
		}
	}
	// 4. `v != nil` / `v == nil` on an error local the rule does not track itself
	if x, notNil, ok := IsNilCompare(c.Info, e); ok {
		if obj := errCell(c.Info, x); obj != nil {
			if idx, ok := c.atomOf(obj, true); ok {
				return split(idx, !notNil)
			}
		}
	}
	return in, in
}

// flagLocal reports whether obj is a boolean local that only the statements of its own function
// write: not a field, not a package variable, never assigned inside a nested literal and never
// addressed (those writes would not be seen in path order).
func (c *Ctx) flagLocal(obj types.Object) bool {
	v, ok := obj.(*types.Var)
	if !ok || v.IsField() || v.Pkg() == nil || v.Parent() == v.Pkg().Scope() {
		return false
	}
	if b, isB := v.Type().Underlying().(*types.Basic); !isB || b.Kind() != types.Bool {
		return false
	}
	if r, seen := c.flagOK[obj]; seen {
		return r
	}
	if c.flagOK == nil {
		c.flagOK = map[types.Object]bool{}
	}
	res := false
	if file := c.P.FileAt(obj.Pos()); file != nil {
		info := c.P.InfoAt(obj.Pos())
		// the innermost function that declares obj
		var home ast.Node
		ast.Inspect(file, func(n ast.Node) bool {
			if n == nil || obj.Pos() < n.Pos() || obj.Pos() >= n.End() {
				return n != nil && false
			}
			switch n.(type) {
			case *ast.FuncDecl, *ast.FuncLit:
				home = n
			}
			return true
		})
		if home != nil {
			res = true
			var walk func(n ast.Node, nested bool)
			walk = func(n ast.Node, nested bool) {
				ast.Inspect(n, func(m ast.Node) bool {
					if !res || m == nil {
						return false
					}
					names := func(e ast.Expr) bool {
						id, ok := ast.Unparen(e).(*ast.Ident)
						return ok && (info.Uses[id] == obj || info.Defs[id] == obj)
					}
					switch x := m.(type) {
					case *ast.FuncLit:
						if m != n {
							walk(x, true)
							return false
						}
					case *ast.AssignStmt:
						if nested {
							for _, l := range x.Lhs {
								if names(l) {
									res = false
								}
							}
						}
					case *ast.IncDecStmt:
					case *ast.UnaryExpr:
						if x.Op == token.AND && names(x.X) {
							res = false
						}
					case *ast.RangeStmt:
						if names(x.Key) || names(x.Value) {
							res = false
						}
					}
					return true
				})
			}
			walk(home, false)
		}
	}
	c.flagOK[obj] = res
	return res
}

// isCondExpr: a boolean expression worth following as a condition (comparisons, negations,
// conjunctions / disjunctions, identifiers, selectors, calls); literals of other kinds are not.
func isCondExpr(e ast.Expr) bool {
	switch x := ast.Unparen(e).(type) {
	case *ast.BinaryExpr, *ast.Ident, *ast.SelectorExpr, *ast.CallExpr:
		return true
	case *ast.UnaryExpr:
		return x.Op == token.NOT
	}
	return false
}

// errCell names the storage an error-valued expression reads: a local error variable `err`, or
// the cell behind a local pointer `*p` (p *error). The object of the variable is returned.
func errCell(info *types.Info, x ast.Expr) types.Object {
	x = ast.Unparen(x)
	if st, ok := x.(*ast.StarExpr); ok {
		if id, isID := ast.Unparen(st.X).(*ast.Ident); isID {
			if obj, isVar := info.Uses[id].(*types.Var); isVar && !obj.IsField() {
				if p, isPtr := obj.Type().Underlying().(*types.Pointer); isPtr && isErrorT(p.Elem()) {
					return obj
				}
			}
		}
		return nil
	}
	if id, isID := x.(*ast.Ident); isID {
		if obj, isVar := info.Uses[id].(*types.Var); isVar && !obj.IsField() && isErrorT(obj.Type()) {
			return obj
		}
	}
	return nil
}

// ---------------------------------------------------------------- statements

func (c *Ctx) stmts(list []ast.Stmt, in []cst) flow {
	var fl flow
	cur := in
	for _, s := range list {
		if len(cur) == 0 {
			break
		}
		r := c.stmt(s, cur, "")
		fl.absorb(r)
		cur = r.out
	}
	fl.out = cur
	return fl
}

func (c *Ctx) assignEvent(node ast.Node, lhs, rhs []ast.Expr, tok token.Token, in []cst) []cst {
	out := c.emit(&Event{Kind: EvAssign, Node: node, Pos: node.Pos(), Lhs: lhs, Rhs: rhs, Tok: tok}, in)
	// a boolean flag of the function (`done := false ... done = true ... if done {break}`): from
	// its first constant assignment on it is followed like the booleans set by simulated returns
	if len(rhs) == len(lhs) && (tok == token.DEFINE || tok == token.ASSIGN) {
		for i, l := range lhs {
			id, ok := ast.Unparen(l).(*ast.Ident)
			if !ok {
				continue
			}
			tv, isConst := c.Info.Types[rhs[i]]
			if !isConst || tv.Value == nil || tv.Value.Kind() != constant.Bool {
				continue
			}
			obj := c.Info.Defs[id]
			if obj == nil {
				obj = c.Info.Uses[id]
			}
			if _, has := c.autoAtom[obj]; has || !c.flagLocal(obj) {
				continue
			}
			c.atomOf(obj, true)
		}
	}
	if len(c.autoAtom) > 0 {
		for i, l := range lhs {
			id, ok := ast.Unparen(l).(*ast.Ident)
			if !ok {
				continue
			}
			obj := c.Info.Defs[id]
			if obj == nil {
				obj = c.Info.Uses[id]
			}
			idx, has := c.autoAtom[obj]
			if !has || c.keep[obj] {
				continue
			}
			// a new value: unknown, except for the constants nil / true / false
			v := Unknown
			if len(rhs) == len(lhs) {
				if tv, ok := c.Info.Types[rhs[i]]; ok {
					switch {
					case tv.IsNil():
						v = False
					case tv.Value != nil && tv.Value.String() == "true":
						v = True
					case tv.Value != nil && tv.Value.String() == "false":
						v = False
					}
				}
			}
			for k := range out {
				out[k].s.V[idx] = v
			}
		}
		out = dedup(out)
	}
	return out
}

func (c *Ctx) stmt(s ast.Stmt, in []cst, label string) flow {
	if len(in) == 0 {
		return flow{}
	}
	switch x := s.(type) {
	case nil:
		return flow{out: in}
	case *ast.EmptyStmt:
		return flow{out: in}
	case *ast.BlockStmt:
		return c.stmts(x.List, in)
	case *ast.ExprStmt:
		return flow{out: c.expr(x.X, in)}
	case *ast.AssignStmt:
		for _, l := range x.Lhs {
			// index / selector operands of the target are evaluated
			switch lt := ast.Unparen(l).(type) {
			case *ast.IndexExpr:
				if sel, ok := ast.Unparen(lt.X).(*ast.SelectorExpr); ok && c.watched(sel) != nil {
					in = c.expr(sel.X, in)
					in = c.fieldUse(sel, true, in) // element store through the field
				} else {
					in = c.expr(lt.X, in)
				}
				in = c.expr(lt.Index, in)
			case *ast.SelectorExpr:
				in = c.expr(lt.X, in)
				in = c.fieldUse(lt, true, in)
			case *ast.StarExpr:
				in = c.expr(lt.X, in)
			}
		}
		if len(x.Rhs) == 1 {
			if _, ok := ast.Unparen(x.Rhs[0]).(*ast.CallExpr); ok {
				// if the call is simulated in place (immediately invoked literal, inlined callee), its
				// return statements tell what the targets receive: constant booleans and the nil-ness
				// of errors become automatic atoms of the target variables
				savedL, savedAt, savedB := c.tupleLHS, c.tupleAt, c.bound
				c.tupleLHS, c.tupleAt, c.bound = x.Lhs, c.Depth+1, map[types.Object]bool{}
				in = c.expr(x.Rhs[0], in)
				bound := c.bound
				c.tupleLHS, c.tupleAt, c.bound = savedL, savedAt, savedB
				c.keep = bound
				out := c.assignEvent(x, x.Lhs, x.Rhs, x.Tok, in)
				c.keep = nil
				for obj := range bound {
					si, ok1 := c.scratch[obj]
					ti, ok2 := c.atomOf(obj, false)
					if !ok1 || !ok2 {
						continue
					}
					for k := range out {
						out[k].s.V[ti] = out[k].s.V[si]
						out[k].s.V[si] = Unknown
					}
				}
				return flow{out: dedup(out)}
			}
		}
		// `flag = <condition>` on a boolean local of the function is `if <condition> { flag = true }
		// else { flag = false }`: the flag's automatic atom records which way the condition went
		if len(x.Lhs) == 1 && len(x.Rhs) == 1 && (x.Tok == token.DEFINE || x.Tok == token.ASSIGN) {
			if id, isID := ast.Unparen(x.Lhs[0]).(*ast.Ident); isID {
				obj := c.Info.Defs[id]
				if obj == nil {
					obj = c.Info.Uses[id]
				}
				tv, has := c.Info.Types[x.Rhs[0]]
				if obj != nil && has && tv.Value == nil && c.flagLocal(obj) && isCondExpr(x.Rhs[0]) {
					if idx, ok := c.atomOf(obj, true); ok {
						t, f := c.cond(x.Rhs[0], in)
						var out []cst
						for _, grp := range []struct {
							set []cst
							v   Tri
						}{{t, True}, {f, False}} {
							if len(grp.set) == 0 {
								continue
							}
							c.keep = map[types.Object]bool{obj: true}
							o := c.assignEvent(x, x.Lhs, x.Rhs, x.Tok, grp.set)
							c.keep = nil
							for k := range o {
								o[k].s.V[idx] = grp.v
							}
							out = append(out, o...)
						}
						return flow{out: dedup(out)}
					}
				}
			}
		}
		for _, r := range x.Rhs {
			in = c.expr(r, in)
		}
		return flow{out: c.assignEvent(x, x.Lhs, x.Rhs, x.Tok, in)}
	case *ast.IncDecStmt:
		in = c.expr(x.X, in)
		if sel, ok := ast.Unparen(x.X).(*ast.SelectorExpr); ok {
			in = c.fieldUse(sel, true, in)
		}
		return flow{out: c.assignEvent(x, []ast.Expr{x.X}, nil, x.Tok, in)}
	case *ast.DeclStmt:
		gd, ok := x.Decl.(*ast.GenDecl)
		if !ok || gd.Tok != token.VAR {
			return flow{out: in}
		}
		for _, sp := range gd.Specs {
			vs := sp.(*ast.ValueSpec)
			for _, v := range vs.Values {
				in = c.expr(v, in)
			}
			var lhs []ast.Expr
			for _, n := range vs.Names {
				lhs = append(lhs, n)
			}
			in = c.assignEvent(vs, lhs, vs.Values, token.DEFINE, in)
		}
		return flow{out: in}
	case *ast.SendStmt:
		in = c.expr(x.Chan, in)
		in = c.expr(x.Value, in)
		return flow{out: c.emit(&Event{Kind: EvSend, Node: x, Pos: x.Pos(), Chan: x.Chan, Value: x.Value}, in)}
	case *ast.GoStmt:
		return flow{out: c.call(x.Call, in, false, true)}
	case *ast.DeferStmt:
		return flow{out: c.call(x.Call, in, true, false)}
	case *ast.LabeledStmt:
		return c.stmt(x.Stmt, in, x.Label.Name)
	case *ast.ReturnStmt:
		for _, r := range x.Results {
			in = c.expr(r, in)
		}
		out := c.emit(&Event{Kind: EvReturn, Node: x, Pos: x.Pos(), Results: x.Results}, in)
		if c.tupleLHS != nil && c.Depth == c.tupleAt && c.Depth > 0 && len(x.Results) == len(c.tupleLHS) {
			for i, res := range x.Results {
				id, ok := c.tupleLHS[i].(*ast.Ident)
				if !ok || id.Name == "_" {
					continue
				}
				// the target lives in the caller's package info; Defs/Uses are per package and the
				// callee is in the same package, so c.Info works for both
				obj := c.Info.Defs[id]
				if obj == nil {
					obj = c.Info.Uses[id]
				}
				if obj == nil {
					continue
				}
				isBool, isErr := false, isErrorT(obj.Type())
				if b, ok := obj.Type().Underlying().(*types.Basic); ok && b.Info()&types.IsBoolean != 0 {
					isBool = true
				}
				if !isBool && !isErr {
					continue
				}
				if _, ok := c.atomOf(obj, true); !ok {
					continue
				}
				// the value is parked in a scratch atom and moved to the target's atom after the
				// assignment event, so that the rule still sees the target's OLD value at that event
				idx, ok := c.scratchOf(obj)
				if !ok {
					continue
				}
				v := Unknown
				res = ast.Unparen(res)
				if tv, ok := c.Info.Types[res]; ok {
					switch {
					case isBool && tv.Value != nil && tv.Value.String() == "true":
						v = True
					case isBool && tv.Value != nil && tv.Value.String() == "false":
						v = False
					case isErr && tv.IsNil():
						v = False // "err != nil" is false
					}
				}
				if call, ok := res.(*ast.CallExpr); ok && isErr {
					// fmt.Errorf / errors.New never return nil
					if sel, ok := ast.Unparen(call.Fun).(*ast.SelectorExpr); ok {
						if pid, ok := sel.X.(*ast.Ident); ok {
							if pn, ok := c.Info.Uses[pid].(*types.PkgName); ok {
								p := pn.Imported().Path()
								if (p == "fmt" && sel.Sel.Name == "Errorf") || (p == "errors" && sel.Sel.Name == "New") {
									v = True
								}
							}
						}
					}
				}
				var src = -1
				if rid, ok := res.(*ast.Ident); ok && v == Unknown {
					if robj := c.Info.Uses[rid]; robj != nil {
						if j, ok := c.atomOf(robj, false); ok {
							src = j
						}
					}
				}
				if _, isStar := res.(*ast.StarExpr); isStar && v == Unknown && isErr {
					if robj := errCell(c.Info, res); robj != nil {
						if j, ok := c.atomOf(robj, false); ok {
							src = j
						}
					}
				}
				// an error expression the rule itself tests for nil (`*scanErr`, `s.err`): what the path
				// knows about `<expr> != nil` is what the receiving variable is
				ruleAtom, ruleNeg := -1, false
				if v == Unknown && src < 0 && isErr && c.spec.Atom != nil {
					if nilID := c.someNilIdent(x); nilID != nil {
						cmp := &ast.BinaryExpr{X: res, OpPos: res.Pos(), Op: token.NEQ, Y: nilID}
						if ai, neg, ok := c.spec.Atom(c, cmp); ok && ai >= 0 && ai < MaxAtoms {
							ruleAtom, ruleNeg = ai, neg
						}
					}
				}
				for k := range out {
					switch {
					case src >= 0:
						out[k].s.V[idx] = out[k].s.V[src]
					case ruleAtom >= 0:
						val := out[k].s.V[ruleAtom]
						if ruleNeg {
							val = -val
						}
						out[k].s.V[idx] = val
					default:
						out[k].s.V[idx] = v
					}
				}
				if c.bound != nil {
					c.bound[obj] = true
				}
			}
		}
		c.returns = append(c.returns, out...)
		return flow{}
	case *ast.BranchStmt:
		var fl flow
		l := ""
		if x.Label != nil {
			l = x.Label.Name
		}
		switch x.Tok {
		case token.BREAK:
			fl.addBrk(l, in)
		case token.CONTINUE:
			fl.addCont(l, in)
		case token.FALLTHROUGH:
			fl.addBrk("\x00fallthrough", in)
		default:
			c.undecided(x.Pos(), "goto is not supported")
		}
		return fl
	case *ast.IfStmt:
		var fl flow
		r := c.stmt(x.Init, in, "")
		fl.absorb(r)
		t, f := c.cond(x.Cond, r.out)
		rt := c.stmt(x.Body, t, "")
		fl.absorb(rt)
		out := rt.out
		if x.Else != nil {
			rf := c.stmt(x.Else, f, "")
			fl.absorb(rf)
			out = append(out, rf.out...)
		} else {
			out = append(out, f...)
		}
		fl.out = dedup(out)
		return fl
	case *ast.ForStmt:
		return c.forStmt(x, in, label)
	case *ast.RangeStmt:
		return c.rangeStmt(x, in, label)
	case *ast.SwitchStmt:
		return c.switchStmt(x, in, label)
	case *ast.TypeSwitchStmt:
		return c.typeSwitchStmt(x, in, label)
	case *ast.SelectStmt:
		return c.selectStmt(x, in, label)
	}
	c.undecided(s.Pos(), "unsupported statement %T", s)
	return flow{out: in}
}

func (c *Ctx) forStmt(x *ast.ForStmt, in []cst, label string) flow {
	var fl flow
	r := c.stmt(x.Init, in, "")
	fl.absorb(r)
	seen := map[State]bool{}
	work := r.out
	var exits, breaks []cst
	for len(work) > 0 {
		var fresh []cst
		for _, w := range work {
			if !seen[w.s] {
				seen[w.s] = true
				fresh = append(fresh, w)
			}
		}
		if len(fresh) == 0 {
			break
		}
		var t, f []cst
		if x.Cond != nil {
			t, f = c.cond(x.Cond, fresh)
		} else {
			t = fresh
		}
		exits = append(exits, f...)
		t = c.emit(&Event{Kind: EvLoopIter, Node: x, Pos: x.Body.Pos()}, t)
		rb := c.stmt(x.Body, t, "")
		breaks = append(breaks, rb.takeBrk(label)...)
		cont := append(rb.out, rb.takeCont(label)...)
		fl.absorb(rb)
		rp := c.stmt(x.Post, dedup(cont), "")
		fl.absorb(rp)
		work = rp.out
	}
	out := c.emit(&Event{Kind: EvLoopExit, Node: x, Pos: x.End()}, dedup(exits))
	out = append(out, c.emit(&Event{Kind: EvLoopExit, Node: x, Pos: x.End(), Break: true}, dedup(breaks))...)
	fl.out = dedup(out)
	return fl
}

func (c *Ctx) rangeStmt(x *ast.RangeStmt, in []cst, label string) flow {
	var fl flow
	in = c.expr(x.X, in)
	seen := map[State]bool{}
	work := in
	var exits, breaks []cst
	for len(work) > 0 {
		var fresh []cst
		for _, w := range work {
			if !seen[w.s] {
				seen[w.s] = true
				fresh = append(fresh, w)
			}
		}
		if len(fresh) == 0 {
			break
		}
		exits = append(exits, fresh...) // the range may end here
		enter := c.emit(&Event{Kind: EvRangeIter, Node: x, Pos: x.Pos(), Value: x.X}, fresh)
		var lhs []ast.Expr
		if x.Key != nil {
			lhs = append(lhs, x.Key)
		}
		if x.Value != nil {
			lhs = append(lhs, x.Value)
		}
		if len(lhs) > 0 {
			enter = c.assignEvent(x, lhs, nil, x.Tok, enter)
		}
		rb := c.stmt(x.Body, enter, "")
		breaks = append(breaks, rb.takeBrk(label)...)
		cont := append(rb.out, rb.takeCont(label)...)
		fl.absorb(rb)
		work = dedup(cont)
	}
	out := c.emit(&Event{Kind: EvLoopExit, Node: x, Pos: x.End()}, dedup(exits))
	out = append(out, c.emit(&Event{Kind: EvLoopExit, Node: x, Pos: x.End(), Break: true}, dedup(breaks))...)
	fl.out = dedup(out)
	return fl
}

func (c *Ctx) switchStmt(x *ast.SwitchStmt, in []cst, label string) flow {
	var fl flow
	r := c.stmt(x.Init, in, "")
	fl.absorb(r)
	cur := r.out
	if x.Tag != nil {
		cur = c.expr(x.Tag, cur)
	}
	var out []cst
	var defaultClause *ast.CaseClause
	defaultIdx := -1
	bodies := make([][]cst, len(x.Body.List))
	for i, cl := range x.Body.List {
		cc := cl.(*ast.CaseClause)
		if cc.List == nil {
			defaultClause = cc
			defaultIdx = i
			continue
		}
		for _, e := range cc.List {
			var t, f []cst
			if x.Tag == nil {
				t, f = c.cond(e, cur)
			} else {
				cur = c.expr(e, cur)
				if tv, ok := c.Info.Types[e]; ok && tv.Value != nil && (tv.Value.String() == "true" || tv.Value.String() == "false") {
					// `switch b { case true: / case false: }` is a condition on b
					t, f = c.cond(x.Tag, cur)
					if tv.Value.String() == "false" {
						t, f = f, t
					}
				} else {
					syn := &ast.BinaryExpr{X: x.Tag, OpPos: e.Pos(), Op: token.EQL, Y: e}
					t, f = c.atom(syn, cur)
				}
			}
			bodies[i] = append(bodies[i], t...)
			cur = f
		}
	}
	if defaultClause != nil {
		bodies[defaultIdx] = append(bodies[defaultIdx], cur...)
	} else {
		out = append(out, cur...)
	}
	var fall []cst
	for i, cl := range x.Body.List {
		cc := cl.(*ast.CaseClause)
		entry := dedup(append(bodies[i], fall...))
		fall = nil
		rb := c.stmts(cc.Body, entry)
		if ft, ok := rb.brk["\x00fallthrough"]; ok {
			fall = ft
			delete(rb.brk, "\x00fallthrough")
		}
		out = append(out, rb.out...)
		out = append(out, rb.takeBrk(label)...)
		fl.absorb(rb)
	}
	fl.out = dedup(out)
	return fl
}

func (c *Ctx) typeSwitchStmt(x *ast.TypeSwitchStmt, in []cst, label string) flow {
	var fl flow
	r := c.stmt(x.Init, in, "")
	fl.absorb(r)
	cur := r.out
	// evaluate the operand
	switch a := x.Assign.(type) {
	case *ast.AssignStmt:
		if len(a.Rhs) == 1 {
			if ta, ok := ast.Unparen(a.Rhs[0]).(*ast.TypeAssertExpr); ok {
				cur = c.expr(ta.X, cur)
			}
		}
	case *ast.ExprStmt:
		if ta, ok := ast.Unparen(a.X).(*ast.TypeAssertExpr); ok {
			cur = c.expr(ta.X, cur)
		}
	}
	var out []cst
	hasDefault := false
	for _, cl := range x.Body.List {
		cc := cl.(*ast.CaseClause)
		if cc.List == nil {
			hasDefault = true
		}
		entry := c.emit(&Event{Kind: EvTypeCase, Node: cc, Pos: cc.Pos()}, cur)
		rb := c.stmts(cc.Body, entry)
		out = append(out, rb.out...)
		out = append(out, rb.takeBrk(label)...)
		fl.absorb(rb)
	}
	if !hasDefault {
		out = append(out, cur...)
	}
	fl.out = dedup(out)
	return fl
}

func (c *Ctx) selectStmt(x *ast.SelectStmt, in []cst, label string) flow {
	var fl flow
	var out []cst
	for _, cl := range x.Body.List {
		cc := cl.(*ast.CommClause)
		entry := c.emit(&Event{Kind: EvSelectCase, Node: cc, Pos: cc.Pos()}, in)
		if cc.Comm != nil {
			rc := c.stmt(cc.Comm, entry, "")
			fl.absorb(rc)
			entry = rc.out
		}
		rb := c.stmts(cc.Body, entry)
		out = append(out, rb.out...)
		out = append(out, rb.takeBrk(label)...)
		fl.absorb(rb)
	}
	fl.out = dedup(out)
	return fl
}

// ---------------------------------------------------------------- helpers for rules

// IsNilCompare matches `x == nil` / `x != nil` (either operand order) and returns x and
// whether the comparison is "!= nil".
func IsNilCompare(info *types.Info, e ast.Expr) (x ast.Expr, notNil bool, ok bool) {
	b, isBin := ast.Unparen(e).(*ast.BinaryExpr)
	if !isBin || (b.Op != token.EQL && b.Op != token.NEQ) {
		return nil, false, false
	}
	isNil := func(e ast.Expr) bool {
		tv, ok := info.Types[e]
		return ok && tv.IsNil()
	}
	switch {
	case isNil(b.Y):
		return b.X, b.Op == token.NEQ, true
	case isNil(b.X):
		return b.Y, b.Op == token.NEQ, true
	}
	return nil, false, false
}

// someNilIdent returns a `nil` identifier of the enclosing file that the type checker recorded
// (used to build `<expr> != nil` for a question to the rule's Atom function).
func (c *Ctx) someNilIdent(at ast.Node) *ast.Ident {
	if c.nilIdent != nil {
		return c.nilIdent
	}
	f := c.P.FileAt(at.Pos())
	if f == nil {
		return nil
	}
	ast.Inspect(f, func(n ast.Node) bool {
		if id, ok := n.(*ast.Ident); ok && id.Name == "nil" && c.nilIdent == nil {
			if tv, ok := c.Info.Types[id]; ok && tv.IsNil() {
				c.nilIdent = id
			}
		}
		return c.nilIdent == nil
	})
	return c.nilIdent
}
