// Package prog loads reduction-dev/reduction (all packages, fully type-checked, with the
// git-ignored protobuf code regenerated into an overlay) and offers type-resolved lookup
// helpers shared by every engine.
package prog

import (
	"bytes"
	"fmt"
	"go/ast"
	"go/token"
	"go/types"
	"os"
	"os/exec"
	"path/filepath"
	"sort"
	"strings"

	"golang.org/x/tools/go/packages"
)

const Module = "reduction.dev/reduction"

// ErrorExit is panicked with by Fatalf; main recovers it and exits 2.
type ErrorExit struct{ Msg string }

func Fatalf(format string, a ...any) { panic(ErrorExit{fmt.Sprintf(format, a...)}) }

type Prog struct {
	Repo   string
	Fset   *token.FileSet
	Pkgs   []*packages.Package          // main-module packages, sorted by path
	ByPath map[string]*packages.Package // import path -> package
	All    map[string]*packages.Package // incl. dependencies

	funcs    map[*types.Func]*FuncInfo
	fileOf   map[*ast.File]*packages.Package
	files    []*ast.File
	uses     map[types.Object][]Use
	usesDone bool
	encl     map[*ast.File][]*FuncScope

	NumFuncs int
}

// FuncInfo is a declared function or method of the main module with its syntax.
type FuncInfo struct {
	Obj  *types.Func
	Decl *ast.FuncDecl
	Pkg  *packages.Package
	File *ast.File
}

func (f *FuncInfo) Name() string { return ShortFuncName(f.Obj) }

// ShortFuncName renders pkg-relative names such as dkv.(*DB).Get.
func ShortFuncName(fn *types.Func) string {
	if fn == nil {
		return "<nil>"
	}
	pkg := ""
	if fn.Pkg() != nil {
		pkg = strings.TrimPrefix(strings.TrimPrefix(fn.Pkg().Path(), Module), "/")
		if pkg == "" {
			pkg = fn.Pkg().Name()
		}
	}
	sig := fn.Type().(*types.Signature)
	if r := sig.Recv(); r != nil {
		t := r.Type()
		ptr := false
		if p, ok := t.(*types.Pointer); ok {
			t = p.Elem()
			ptr = true
		}
		name := "?"
		switch tt := t.(type) {
		case *types.Named:
			name = tt.Obj().Name()
		case *types.Alias:
			name = tt.Obj().Name()
		default:
			name = types.TypeString(t, func(*types.Package) string { return "" })
		}
		if ptr {
			return fmt.Sprintf("%s.(*%s).%s", pkg, name, fn.Name())
		}
		return fmt.Sprintf("%s.%s.%s", pkg, name, fn.Name())
	}
	return pkg + "." + fn.Name()
}

// Load regenerates the protobuf code into a temp dir, loads every package of the main
// module with that overlay, and fails hard on any error.
func Load(repo, binDir string) *Prog {
	tmp, err := os.MkdirTemp("", "verif-pb-")
	if err != nil {
		Fatalf("mkdtemp: %v", err)
	}
	defer os.RemoveAll(tmp)
	cmd := exec.Command(filepath.Join(binDir, "pbgen"), "-repo", repo, "-out", tmp, "-plugins", binDir)
	var stderr bytes.Buffer
	cmd.Stderr = &stderr
	out, err := cmd.Output()
	if err != nil {
		Fatalf("pbgen failed: %v: %s", err, stderr.String())
	}
	overlay := map[string][]byte{}
	for _, rel := range strings.Fields(string(out)) {
		b, err := os.ReadFile(filepath.Join(tmp, rel))
		if err != nil {
			Fatalf("pbgen output: %v", err)
		}
		dst := filepath.Join(repo, rel)
		if _, err := os.Stat(dst); err == nil {
			// The repository has the file physically (someone ran scripts/gen): use it.
			continue
		}
		overlay[dst] = b
	}
	return LoadWithOverlay(repo, overlay)
}

// LoadMutated is Load with additional overlay entries (absolute path -> content) that
// replace files of the repository: used by the thorough tier's canary sweep.
func LoadMutated(repo, binDir string, extra map[string][]byte) *Prog {
	tmp, err := os.MkdirTemp("", "verif-pb-")
	if err != nil {
		Fatalf("mkdtemp: %v", err)
	}
	defer os.RemoveAll(tmp)
	cmd := exec.Command(filepath.Join(binDir, "pbgen"), "-repo", repo, "-out", tmp, "-plugins", binDir)
	out, err := cmd.Output()
	if err != nil {
		Fatalf("pbgen failed: %v", err)
	}
	overlay := map[string][]byte{}
	for _, rel := range strings.Fields(string(out)) {
		b, err := os.ReadFile(filepath.Join(tmp, rel))
		if err != nil {
			Fatalf("pbgen output: %v", err)
		}
		dst := filepath.Join(repo, rel)
		if _, err := os.Stat(dst); err == nil {
			continue
		}
		overlay[dst] = b
	}
	for k, v := range extra {
		overlay[k] = v
	}
	return LoadWithOverlay(repo, overlay)
}

func LoadWithOverlay(repo string, overlay map[string][]byte) *Prog {
	fset := token.NewFileSet()
	// The go command that go/packages spawns must be the toolchain this checker was built
	// with (the default go is older and cannot auto-switch offline).
	env := os.Environ()
	const goBin = "/opt/veriftools/go1.26.8/bin"
	if _, err := os.Stat(filepath.Join(goBin, "go")); err == nil {
		os.Setenv("PATH", goBin+string(os.PathListSeparator)+os.Getenv("PATH"))
		env = os.Environ()
	}
	cfg := &packages.Config{
		Mode:    packages.LoadAllSyntax,
		Dir:     repo,
		Fset:    fset,
		Overlay: overlay,
		Tests:   false,
		// A fixed build configuration, whatever the caller's environment says.
		Env: append(env, "GOFLAGS=-mod=mod", "GOPROXY=off", "GOSUMDB=off",
			"GOTOOLCHAIN=local", "GOWORK=off", "GOEXPERIMENT=", "GOOS=linux", "GOARCH=amd64", "CGO_ENABLED=0"),
	}
	pkgs, err := packages.Load(cfg, "./...")
	if err != nil {
		Fatalf("packages.Load: %v", err)
	}
	p := &Prog{Repo: repo, Fset: fset, ByPath: map[string]*packages.Package{}, All: map[string]*packages.Package{},
		funcs: map[*types.Func]*FuncInfo{}, fileOf: map[*ast.File]*packages.Package{}, encl: map[*ast.File][]*FuncScope{}}
	nerr := 0
	packages.Visit(pkgs, nil, func(pkg *packages.Package) {
		p.All[pkg.PkgPath] = pkg
		if strings.HasPrefix(pkg.PkgPath, Module) {
			for _, e := range pkg.Errors {
				fmt.Fprintf(os.Stderr, "load error: %s: %v\n", pkg.PkgPath, e)
				nerr++
			}
		}
	})
	if nerr > 0 {
		Fatalf("%d load/type errors in the main module", nerr)
	}
	for _, pkg := range pkgs {
		if !strings.HasPrefix(pkg.PkgPath, Module) {
			continue
		}
		p.Pkgs = append(p.Pkgs, pkg)
		p.ByPath[pkg.PkgPath] = pkg
	}
	sort.Slice(p.Pkgs, func(i, j int) bool { return p.Pkgs[i].PkgPath < p.Pkgs[j].PkgPath })
	if len(p.Pkgs) < 60 {
		Fatalf("only %d main-module packages loaded (expected >= 60)", len(p.Pkgs))
	}
	for _, pkg := range p.Pkgs {
		if pkg.Types == nil || pkg.TypesInfo == nil || pkg.IllTyped {
			Fatalf("package %s is not fully type-checked", pkg.PkgPath)
		}
		for _, f := range pkg.Syntax {
			p.fileOf[f] = pkg
			p.files = append(p.files, f)
			for _, d := range f.Decls {
				if fd, ok := d.(*ast.FuncDecl); ok {
					if obj, ok := pkg.TypesInfo.Defs[fd.Name].(*types.Func); ok {
						p.funcs[obj] = &FuncInfo{Obj: obj, Decl: fd, Pkg: pkg, File: f}
						p.NumFuncs++
					}
				}
			}
		}
	}
	return p
}

// Pkg returns a main-module package by module-relative path ("dkv/sst").
func (p *Prog) Pkg(rel string) *packages.Package {
	path := Module
	if rel != "" {
		path += "/" + rel
	}
	pkg := p.ByPath[path]
	if pkg == nil {
		Fatalf("unresolved anchor: package %q", rel)
	}
	return pkg
}

// TryFunc resolves "Name", "T.M" or "(*T).M" in package rel; nil when absent.
func (p *Prog) TryFunc(rel, name string) *FuncInfo {
	path := Module
	if rel != "" {
		path += "/" + rel
	}
	pkg := p.ByPath[path]
	if pkg == nil {
		return nil
	}
	recv, meth := "", name
	if i := strings.LastIndex(name, "."); i >= 0 {
		recv, meth = name[:i], name[i+1:]
		recv = strings.TrimSuffix(strings.TrimPrefix(strings.TrimPrefix(recv, "("), "*"), ")")
	}
	if recv == "" {
		if fn, ok := pkg.Types.Scope().Lookup(meth).(*types.Func); ok {
			return p.funcs[fn]
		}
		return nil
	}
	tn, ok := pkg.Types.Scope().Lookup(recv).(*types.TypeName)
	if !ok {
		return nil
	}
	named, ok := tn.Type().(*types.Named)
	if !ok {
		return nil
	}
	for i := 0; i < named.NumMethods(); i++ {
		if m := named.Method(i); m.Name() == meth {
			return p.funcs[m.Origin()]
		}
	}
	return nil
}

func (p *Prog) Func(rel, name string) *FuncInfo {
	f := p.TryFunc(rel, name)
	if f == nil {
		Fatalf("unresolved anchor: func %s.%s", rel, name)
	}
	return f
}

// FuncObj resolves a declared function, a concrete method or an interface method.
func (p *Prog) FuncObj(rel, name string) *types.Func {
	if f := p.TryFunc(rel, name); f != nil {
		return f.Obj
	}
	if i := strings.LastIndex(name, "."); i >= 0 {
		recv, meth := name[:i], name[i+1:]
		recv = strings.TrimSuffix(strings.TrimPrefix(strings.TrimPrefix(recv, "("), "*"), ")")
		path := Module
		if rel != "" {
			path += "/" + rel
		}
		if pkg := p.ByPath[path]; pkg != nil {
			if tn, ok := pkg.Types.Scope().Lookup(recv).(*types.TypeName); ok {
				obj, _, _ := types.LookupFieldOrMethod(tn.Type(), true, pkg.Types, meth)
				if fn, ok := obj.(*types.Func); ok {
					return fn.Origin()
				}
			}
		}
	}
	Fatalf("unresolved anchor: func %s.%s", rel, name)
	return nil
}

// FuncInfoOf returns the syntax for a main-module function object (nil for others).
func (p *Prog) FuncInfoOf(fn *types.Func) *FuncInfo {
	if fn == nil {
		return nil
	}
	return p.funcs[fn.Origin()]
}

// AllFuncs returns every declared function of the main module in a stable order.
func (p *Prog) AllFuncs() []*FuncInfo {
	var out []*FuncInfo
	for _, f := range p.funcs {
		out = append(out, f)
	}
	sort.Slice(out, func(i, j int) bool { return out[i].Decl.Pos() < out[j].Decl.Pos() })
	return out
}

func (p *Prog) TypeName(rel, name string) *types.TypeName {
	pkg := p.Pkg(rel)
	tn, ok := pkg.Types.Scope().Lookup(name).(*types.TypeName)
	if !ok {
		Fatalf("unresolved anchor: type %s.%s", rel, name)
	}
	return tn
}

// ExtFunc resolves a function/method in a dependency ("sync", "(*Mutex).Lock").
func (p *Prog) ExtFunc(path, name string) *types.Func {
	pkg := p.All[path]
	if pkg == nil || pkg.Types == nil {
		Fatalf("unresolved anchor: external package %q", path)
	}
	recv, meth := "", name
	if i := strings.LastIndex(name, "."); i >= 0 {
		recv, meth = name[:i], name[i+1:]
		recv = strings.TrimSuffix(strings.TrimPrefix(strings.TrimPrefix(recv, "("), "*"), ")")
	}
	if recv == "" {
		fn, ok := pkg.Types.Scope().Lookup(meth).(*types.Func)
		if !ok {
			Fatalf("unresolved anchor: %s.%s", path, name)
		}
		return fn
	}
	tn, ok := pkg.Types.Scope().Lookup(recv).(*types.TypeName)
	if !ok {
		Fatalf("unresolved anchor: %s.%s", path, name)
	}
	obj, _, _ := types.LookupFieldOrMethod(tn.Type(), true, pkg.Types, meth)
	fn, ok := obj.(*types.Func)
	if !ok {
		Fatalf("unresolved anchor: %s.%s", path, name)
	}
	return fn
}

// Field resolves struct field T.f in package rel.
func (p *Prog) Field(rel, typ, field string) *types.Var {
	tn := p.TypeName(rel, typ)
	st, ok := tn.Type().Underlying().(*types.Struct)
	if !ok {
		Fatalf("unresolved anchor: %s.%s is not a struct", rel, typ)
	}
	for i := 0; i < st.NumFields(); i++ {
		if st.Field(i).Name() == field {
			return st.Field(i)
		}
	}
	Fatalf("unresolved anchor: field %s.%s.%s", rel, typ, field)
	return nil
}

func (p *Prog) TryField(rel, typ, field string) *types.Var {
	path := Module + "/" + rel
	pkg := p.ByPath[path]
	if pkg == nil {
		return nil
	}
	tn, ok := pkg.Types.Scope().Lookup(typ).(*types.TypeName)
	if !ok {
		return nil
	}
	st, ok := tn.Type().Underlying().(*types.Struct)
	if !ok {
		return nil
	}
	for i := 0; i < st.NumFields(); i++ {
		if st.Field(i).Name() == field {
			return st.Field(i)
		}
	}
	return nil
}

func (p *Prog) PkgOfFile(f *ast.File) *packages.Package { return p.fileOf[f] }

// FileAt returns the syntax file containing pos.
func (p *Prog) FileAt(pos token.Pos) *ast.File {
	for _, f := range p.files {
		if f.FileStart <= pos && pos <= f.FileEnd {
			return f
		}
	}
	return nil
}

func (p *Prog) InfoAt(pos token.Pos) *types.Info {
	f := p.FileAt(pos)
	if f == nil {
		return nil
	}
	return p.fileOf[f].TypesInfo
}

// Pos renders a repo-relative file:line.
func (p *Prog) Pos(pos token.Pos) string {
	if !pos.IsValid() {
		return "-"
	}
	ps := p.Fset.Position(pos)
	rel, err := filepath.Rel(p.Repo, ps.Filename)
	if err != nil {
		rel = ps.Filename
	}
	return fmt.Sprintf("%s:%d", rel, ps.Line)
}

// RelPkg returns the module-relative path of a package path.
func RelPkg(path string) string {
	return strings.TrimPrefix(strings.TrimPrefix(path, Module), "/")
}

// ---------------------------------------------------------------- resolution helpers

// Callee resolves the static callee of a call: *types.Func (function, concrete or
// interface method), *types.Builtin, *types.Var (call of a func-typed variable/field), or
// *types.TypeName (conversion). Generic instantiations resolve to their origin.
func (p *Prog) Callee(info *types.Info, call *ast.CallExpr) types.Object {
	fun := ast.Unparen(call.Fun)
	for {
		switch f := fun.(type) {
		case *ast.IndexExpr:
			// generic instantiation f[T](...) — but could also be a call of an indexed func value
			if tv, ok := info.Types[f.X]; ok {
				if _, isSig := tv.Type.Underlying().(*types.Signature); isSig {
					fun = ast.Unparen(f.X)
					continue
				}
			}
			return nil
		case *ast.IndexListExpr:
			fun = ast.Unparen(f.X)
			continue
		}
		break
	}
	var id *ast.Ident
	switch f := fun.(type) {
	case *ast.Ident:
		id = f
	case *ast.SelectorExpr:
		id = f.Sel
	default:
		return nil
	}
	obj := info.Uses[id]
	if fn, ok := obj.(*types.Func); ok {
		return fn.Origin()
	}
	return obj
}

// CalleeFunc is Callee restricted to *types.Func.
func (p *Prog) CalleeFunc(info *types.Info, call *ast.CallExpr) *types.Func {
	fn, _ := p.Callee(info, call).(*types.Func)
	return fn
}

// SelField resolves a selector expression to the struct field it denotes (nil otherwise).
// ResolveLocal, when set (by the rules package), maps an identifier that names a local
// variable with exactly one definition to that defining expression; SelField follows it, so
// that `x := o.f; use(x)` is recognised like `use(o.f)`. A variable that is assigned a second
// time is never resolved.
var ResolveLocal func(info *types.Info, id *ast.Ident) ast.Expr

func SelField(info *types.Info, e ast.Expr) *types.Var {
	e = ast.Unparen(e)
	for i := 0; i < 3; i++ {
		id, isID := e.(*ast.Ident)
		if !isID || ResolveLocal == nil {
			break
		}
		def := ResolveLocal(info, id)
		if def == nil {
			break
		}
		e = ast.Unparen(def)
	}
	sel, ok := e.(*ast.SelectorExpr)
	if !ok {
		return nil
	}
	if v, ok := info.Uses[sel.Sel].(*types.Var); ok && v.IsField() {
		return v.Origin()
	}
	return nil
}

// ResolveAlias, when set (by the rules package), maps a *use* of a local that is a plain alias
// (`x := y`, defined once) or a parameter of an extracted helper to the identifier it stands for
// (nil: no alias). IdentObj follows it, so `w := v; use(w)` names v.
var ResolveAlias func(info *types.Info, id *ast.Ident) *ast.Ident

// IdentObj resolves an identifier expression to its object.
func IdentObj(info *types.Info, e ast.Expr) types.Object {
	id, ok := ast.Unparen(e).(*ast.Ident)
	if !ok {
		return nil
	}
	if ResolveAlias != nil && info.Uses[id] != nil {
		for i := 0; i < 4; i++ {
			next := ResolveAlias(info, id)
			if next == nil || info.Uses[next] == nil {
				break
			}
			id = next
		}
	}
	if o := info.Uses[id]; o != nil {
		return o
	}
	return info.Defs[id]
}

// IdentObjPlain is IdentObj without alias resolution.
func IdentObjPlain(info *types.Info, e ast.Expr) types.Object {
	id, ok := ast.Unparen(e).(*ast.Ident)
	if !ok {
		return nil
	}
	if o := info.Uses[id]; o != nil {
		return o
	}
	return info.Defs[id]
}

// ---------------------------------------------------------------- use index

// FuncScope is a function declaration or literal with its position range.
type FuncScope struct {
	Decl   *ast.FuncDecl // enclosing declaration (always set)
	Lit    *ast.FuncLit  // nil for the declaration itself
	Parent *FuncScope
	Pos    token.Pos
	End    token.Pos
	Fn     *FuncInfo
}

// Name gives "pkg.(*T).M" or "pkg.(*T).M$lit@line".
func (s *FuncScope) Name(p *Prog) string {
	if s == nil {
		return "<package-level>"
	}
	n := s.Fn.Name()
	if s.Lit != nil {
		n += "$lit"
	}
	return n
}

type Use struct {
	Ident *ast.Ident
	Pkg   *packages.Package
	File  *ast.File
	Scope *FuncScope // innermost enclosing function (nil at package level)
}

func (p *Prog) buildScopes(f *ast.File) []*FuncScope {
	if s, ok := p.encl[f]; ok {
		return s
	}
	var scopes []*FuncScope
	pkg := p.fileOf[f]
	for _, d := range f.Decls {
		fd, ok := d.(*ast.FuncDecl)
		if !ok || fd.Body == nil {
			continue
		}
		obj, _ := pkg.TypesInfo.Defs[fd.Name].(*types.Func)
		fi := p.funcs[obj]
		top := &FuncScope{Decl: fd, Pos: fd.Pos(), End: fd.End(), Fn: fi}
		scopes = append(scopes, top)
		var walk func(n ast.Node, parent *FuncScope)
		walk = func(n ast.Node, parent *FuncScope) {
			ast.Inspect(n, func(m ast.Node) bool {
				if lit, ok := m.(*ast.FuncLit); ok && m != n {
					s := &FuncScope{Decl: fd, Lit: lit, Parent: parent, Pos: lit.Pos(), End: lit.End(), Fn: fi}
					scopes = append(scopes, s)
					walk(lit.Body, s)
					return false
				}
				return true
			})
		}
		walk(fd.Body, top)
	}
	p.encl[f] = scopes
	return scopes
}

// ScopeAt returns the innermost function scope containing pos.
func (p *Prog) ScopeAt(pos token.Pos) *FuncScope {
	f := p.FileAt(pos)
	if f == nil {
		return nil
	}
	var best *FuncScope
	for _, s := range p.buildScopes(f) {
		if s.Pos <= pos && pos < s.End {
			if best == nil || (s.Pos >= best.Pos && s.End <= best.End) {
				best = s
			}
		}
	}
	return best
}

// Uses returns every identifier in the main module that resolves to obj.
func (p *Prog) Uses(obj types.Object) []Use {
	if !p.usesDone {
		p.uses = map[types.Object][]Use{}
		for _, pkg := range p.Pkgs {
			byFile := map[*token.File]*ast.File{}
			for _, f := range pkg.Syntax {
				byFile[p.Fset.File(f.Pos())] = f
			}
			for id, o := range pkg.TypesInfo.Uses {
				key := o
				switch oo := o.(type) {
				case *types.Func:
					key = oo.Origin()
				case *types.Var:
					key = oo.Origin()
				}
				f := byFile[p.Fset.File(id.Pos())]
				p.uses[key] = append(p.uses[key], Use{Ident: id, Pkg: pkg, File: f})
			}
		}
		for k, us := range p.uses {
			sort.Slice(us, func(i, j int) bool { return us[i].Ident.Pos() < us[j].Ident.Pos() })
			for i := range us {
				us[i].Scope = p.ScopeAt(us[i].Ident.Pos())
			}
			p.uses[k] = us
		}
		p.usesDone = true
	}
	return p.uses[obj]
}

// PathTo returns the AST path (outermost first) from the file to the node at [pos,end).
func (p *Prog) PathTo(f *ast.File, pos, end token.Pos) []ast.Node {
	var path []ast.Node
	ast.Inspect(f, func(n ast.Node) bool {
		if n == nil {
			return false
		}
		if n.Pos() <= pos && end <= n.End() {
			path = append(path, n)
			return true
		}
		return false
	})
	return path
}

// IsTestSupport reports whether a package belongs to the frozen list of test-support /
// wiring packages whose call sites are exempt from who-may rules.
func IsTestSupport(pkgPath string) bool {
	switch RelPkg(pkgPath) {
	case "e2e", "testrun", "rundev", "jobs/jobstest", "workers/workerstest",
		"connectors/connectorstest", "connectors/httpapi/httpapitest",
		"connectors/kinesis/kinesisfake", "dkv/dkvtest":
		return true
	}
	return false
}

// Implementers returns the interface methods (in any loaded main-module or dependency
// interface type named in the main module) that concrete method fn can satisfy:
// same name, and fn's receiver type implements the interface.
func (p *Prog) InterfaceMethodsFor(fn *types.Func) []*types.Func {
	sig, ok := fn.Type().(*types.Signature)
	if !ok || sig.Recv() == nil {
		return nil
	}
	recv := sig.Recv().Type()
	var out []*types.Func
	seen := map[*types.Func]bool{}
	for _, pkg := range p.Pkgs {
		scope := pkg.Types.Scope()
		for _, name := range scope.Names() {
			tn, ok := scope.Lookup(name).(*types.TypeName)
			if !ok {
				continue
			}
			iface, ok := tn.Type().Underlying().(*types.Interface)
			if !ok || iface.NumMethods() == 0 {
				continue
			}
			if tn.Type() == recv {
				continue
			}
			if !types.Implements(recv, iface) && !types.Implements(types.NewPointer(recv), iface) {
				continue
			}
			for i := 0; i < iface.NumMethods(); i++ {
				m := iface.Method(i)
				if m.Name() == fn.Name() && !seen[m] {
					seen[m] = true
					out = append(out, m)
				}
			}
		}
	}
	return out
}
