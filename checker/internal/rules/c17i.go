package rules

import (
	"go/ast"
	"go/types"

	"verif/checker/internal/prog"
)

// C17.i: the checkpoints file is JSON. encoding/json writes a Go string as a JSON string and
// replaces every byte sequence that is not valid UTF-8 by U+FFFD; a []byte is written as base64
// and comes back byte for byte. Keys are binary (they start with the big-endian key group, so
// every key group >= 128 gives invalid UTF-8): a document field that carries key bytes as a
// string changes them on the way through the file, and a table re-opened from its document has
// another key range than the one that was written (lookups and scans skip it).
func init() {
	register(&Obligation{ID: "C17.i", Props: []string{"C17", "C06", "C08"}, Template: "lossless-document",
		Desc: "no value of a struct type that is written to the JSON checkpoints file is filled with string(<[]byte>), and none of its string fields is converted back to []byte: byte strings travel through the document as []byte (base64), not as JSON strings (invalid UTF-8 is replaced)",
		Run: func(r *Run) {
			save := r.P.Func("dkv/recovery", "(*CheckpointList).Save")
			info := save.Pkg.TypesInfo
			// document types: everything reachable from the argument of json.Marshal in Save
			docTypes := map[*types.Named]bool{}
			var reach func(t types.Type, depth int)
			reach = func(t types.Type, depth int) {
				if depth > 14 || t == nil {
					return
				}
				switch x := t.(type) {
				case *types.Named:
					if docTypes[x] {
						return
					}
					if _, isStruct := x.Underlying().(*types.Struct); isStruct && x.Obj().Pkg() != nil && r.P.FuncInfoOf(save.Obj) != nil {
						if p := x.Obj().Pkg().Path(); len(p) > 0 && (p == save.Pkg.PkgPath || hasPrefixStr(p, "reduction.dev/reduction/")) {
							docTypes[x] = true
						}
					}
					reach(x.Underlying(), depth+1)
				case *types.Pointer:
					reach(x.Elem(), depth+1)
				case *types.Slice:
					reach(x.Elem(), depth+1)
				case *types.Array:
					reach(x.Elem(), depth+1)
				case *types.Map:
					reach(x.Elem(), depth+1)
				case *types.Struct:
					for i := 0; i < x.NumFields(); i++ {
						reach(x.Field(i).Type(), depth+1)
					}
				}
			}
			nMarshal := 0
			inspect(save.Decl.Body, func(nd ast.Node) bool {
				if call, ok := isCallToNamed(info, nodeExpr(nd), "encoding/json", "Marshal"); ok && len(call.Args) == 1 {
					nMarshal++
					r.Site(call.Pos(), "checkpoints file is written with json.Marshal")
					reach(info.TypeOf(call.Args[0]), 0)
				}
				return true
			})
			if nMarshal == 0 {
				r.Error("undecided: CheckpointList.Save no longer writes the checkpoints file with encoding/json.Marshal")
				return
			}
			if len(docTypes) < 3 {
				r.Error("floor: %d document types reachable from the JSON checkpoints file (checkpoint list, checkpoint, table, WAL handle documents expected)", len(docTypes))
				return
			}
			isBytes := func(t types.Type) bool {
				sl, ok := t.Underlying().(*types.Slice)
				if !ok {
					return false
				}
				b, ok := sl.Elem().Underlying().(*types.Basic)
				return ok && b.Kind() == types.Byte
			}
			isString := func(t types.Type) bool {
				b, ok := t.Underlying().(*types.Basic)
				return ok && b.Kind() == types.String
			}
			nLits := 0
			for _, pkg := range r.P.Pkgs {
				if prog.IsTestSupport(pkg.PkgPath) {
					continue
				}
				pi := pkg.TypesInfo
				for _, file := range pkg.Syntax {
					ast.Inspect(file, func(nd ast.Node) bool {
						switch x := nd.(type) {
						case *ast.CompositeLit:
							n, ok := derefType(pi.TypeOf(x)).(*types.Named)
							if !ok || !docTypes[n] {
								return true
							}
							nLits++
							r.Site(x.Pos(), "document literal "+n.Obj().Name())
							for _, el := range x.Elts {
								v := el
								name := ""
								if kv, isKV := el.(*ast.KeyValueExpr); isKV {
									v = kv.Value
									if id, isID := kv.Key.(*ast.Ident); isID {
										name = id.Name
									}
								}
								if call, isCall := ast.Unparen(v).(*ast.CallExpr); isCall && len(call.Args) == 1 {
									if tv, has := pi.Types[call.Fun]; has && tv.IsType() && isString(tv.Type) && isBytes(pi.TypeOf(call.Args[0])) {
										r.Fail("document:"+n.Obj().Name()+"."+name+":bytes-as-string", v.Pos(), nil, "%s.%s is filled with string(%s): the JSON checkpoints file replaces bytes that are not valid UTF-8 (every key of a key group >= 128 starts with such bytes), so the value read back differs — a table re-opened from its document gets another key range and lookups skip it", n.Obj().Name(), name, types.ExprString(call.Args[0]))
									}
								}
							}
						case *ast.AssignStmt:
							// doc.F = string(<[]byte>) on a document value
							for i, l := range x.Lhs {
								sel, isSel := ast.Unparen(l).(*ast.SelectorExpr)
								if !isSel || len(x.Rhs) != len(x.Lhs) {
									continue
								}
								n, ok := derefType(pi.TypeOf(sel.X)).(*types.Named)
								if !ok || !docTypes[n] {
									continue
								}
								if call, isCall := ast.Unparen(x.Rhs[i]).(*ast.CallExpr); isCall && len(call.Args) == 1 {
									if tv, has := pi.Types[call.Fun]; has && tv.IsType() && isString(tv.Type) && isBytes(pi.TypeOf(call.Args[0])) {
										r.Fail("document:"+n.Obj().Name()+"."+sel.Sel.Name+":bytes-as-string", x.Pos(), nil, "%s.%s is assigned string(%s): the JSON checkpoints file replaces bytes that are not valid UTF-8, so the value read back differs", n.Obj().Name(), sel.Sel.Name, types.ExprString(call.Args[0]))
									}
								}
							}
						case *ast.CallExpr:
							// []byte(doc.F) with F a string field of a document type
							if len(x.Args) != 1 {
								return true
							}
							tv, has := pi.Types[x.Fun]
							if !has || !tv.IsType() || !isBytes(tv.Type) {
								return true
							}
							sel, isSel := ast.Unparen(x.Args[0]).(*ast.SelectorExpr)
							if !isSel || !isString(pi.TypeOf(sel)) {
								return true
							}
							if n, ok := derefType(pi.TypeOf(sel.X)).(*types.Named); ok && docTypes[n] {
								r.Fail("document:"+n.Obj().Name()+"."+sel.Sel.Name+":string-as-bytes", x.Pos(), nil, "%s.%s, a JSON string field of the checkpoints file, is converted back to []byte: byte strings do not survive a JSON string (invalid UTF-8 is replaced on writing)", n.Obj().Name(), sel.Sel.Name)
							}
						}
						return true
					})
				}
			}
			if nLits == 0 {
				r.Error("floor: no literal of a checkpoint document type found")
			}
		}})
}

func hasPrefixStr(s, p string) bool { return len(s) >= len(p) && s[:len(p)] == p }
