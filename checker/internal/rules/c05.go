package rules

import (
	"fmt"
	"go/ast"
	"go/token"
	"go/types"
	"strings"

	"verif/checker/internal/orderdom"
	"verif/checker/internal/prog"
)

func seg(width lin, kind string) segment { return segment{Width: width, Kind: kind} }

var (
	stateKeyLayout = []segment{
		seg(lin{"": 2}, "KG($0):BE"), seg(lin{"": 1}, "const:0x00"), seg(lin{"": 4}, "BE32(len($0))"), seg(lin{"len($0)": 1}, "bytes($0)"),
		seg(lin{"": 1}, "U8(len($1))"), seg(lin{"len($1)": 1}, "bytes($1)"), seg(lin{"len($2)": 1}, "bytes($2)"),
	}
	timerKeyLayout = []segment{
		seg(lin{"": 2}, "KG($0):BE"), seg(lin{"": 1}, "const:0x01"), seg(lin{"": 8}, "TIME($1)"), seg(lin{"len($0)": 1}, "bytes($0)"),
	}
)

func init() {
	prop("C05",
		"(a) the key group of a key is murmur.Hash(key, seed 0) modulo the key space's group count, murmur.Hash is pure and partitioning is its only non-filter caller; (b) murmur.Hash has the operation / constant sequence of MurmurHash3-x86-32; (c) the ranges are built in the canonical form start_0 = 0, end_i = start_i + count/n (+1 for i < count mod n), start_{i+1} = end_i — contiguous, disjoint, sizes differing by at most one, covering 0..count; the lookup table maps every group of range i to i; (d) router, owner and key encoders build their key space from the same (key-group count, operator count) of one deployment and the operator owns the range at its own index; (e) the two-byte big-endian group prefix is written and read consistently; (f) range predicates equal half-open interval semantics.",
		"the integer arithmetic identities are argued from the canonical form of the construction, not evaluated over all 65535 x n configurations (no solver / enumeration in this family).")

	register(&Obligation{ID: "C05.a", Props: []string{"C05"}, Template: "const-arg+purity+who-may",
		Desc: "partitioning.(*KeySpace).KeyGroup is KeyGroup(murmur.Hash(key, 0) % keyGroupCount); murmur.Hash reads no package state and calls only math/bits; murmur.Hash is called only from KeyGroup and the bloom filter",
		Run: func(r *Run) {
			f := r.P.Func("partitioning", "(*KeySpace).KeyGroup")
			info := f.Pkg.TypesInfo
			hash := r.P.Func("util/murmur", "Hash")
			kgc := r.P.Field("partitioning", "KeySpace", "keyGroupCount")
			r.Site(f.Decl.Pos(), "KeySpace.KeyGroup expression")
			var ret *ast.ReturnStmt
			inspect(f.Decl.Body, func(nd ast.Node) bool {
				if rs, ok := nd.(*ast.ReturnStmt); ok {
					ret = rs
				}
				return true
			})
			ok := false
			if ret != nil && len(ret.Results) == 1 {
				e := stripConv(info, ret.Results[0])
				if b, isB := e.(*ast.BinaryExpr); isB && b.Op == token.REM && prog.SelField(info, stripConv(info, b.Y)) == kgc {
					h := resolveLocal(info, f.Decl.Body, b.X)
					if call, isC := ast.Unparen(h).(*ast.CallExpr); isC && r.P.CalleeFunc(info, call) == hash.Obj && len(call.Args) == 2 && r.isParam(f, call.Args[0], 0) {
						if tv, has := info.Types[call.Args[1]]; has && tv.Value != nil && tv.Value.String() == "0" {
							ok = true
						}
					}
				}
			}
			if !ok {
				r.Fail(f.Name()+":form", f.Decl.Pos(), nil, "KeyGroup is not murmur.Hash(key, 0) %% keyGroupCount: persisted state is addressed by this function, any change re-partitions every stored key")
			}
			// purity of murmur.Hash
			hi := hash.Pkg.TypesInfo
			inspect(hash.Decl.Body, func(nd ast.Node) bool {
				switch x := nd.(type) {
				case *ast.Ident:
					if v, isVar := hi.Uses[x].(*types.Var); isVar && v.Parent() == hash.Pkg.Types.Scope() {
						r.Fail(hash.Name()+":global:"+v.Name(), x.Pos(), nil, "murmur.Hash reads package-level variable %s: the key-to-group mapping would depend on process state", v.Name())
					}
				case *ast.CallExpr:
					if tv, isT := hi.Types[x.Fun]; isT && tv.IsType() {
						return true
					}
					switch c := r.P.Callee(hi, x).(type) {
					case *types.Builtin:
					case *types.Func:
						if c.Pkg() == nil || c.Pkg().Path() != "math/bits" {
							r.Fail(hash.Name()+":call:"+c.Name(), x.Pos(), nil, "murmur.Hash calls %s: only math/bits is allowed in the hash", c.FullName())
						}
					default:
						r.Fail(hash.Name()+":dynamic-call", x.Pos(), nil, "murmur.Hash makes a dynamic call")
					}
				}
				return true
			})
			r.Site(hash.Decl.Pos(), "murmur.Hash purity")
			allowedHash := map[string]string{
				"partitioning.(*KeySpace).KeyGroup": "", "dkv/bloom.(*Filter).Add": "bloom filter", "dkv/bloom.(*Filter).MightHave": "bloom filter"}
			// KeyGroup inlined into RangeIndex: the same expression, checked at that site
			riFn := r.P.Func("partitioning", "(*KeySpace).RangeIndex")
			riInline := r.usesCanonicalKeyGroup(riFn) && !r.exprCallsHashOtherwise(riFn)
			if riInline {
				allowedHash["partitioning.(*KeySpace).RangeIndex"] = "the canonical key-group expression written out"
			}
			r.whoMayCall(hash.Obj, false, allowedHash)
			// nobody computes key groups another way: KeyGroup(...) conversions from hashes
			kgFn := f.Obj
			users := r.usersOf(kgFn, false)
			for w := range users {
				r.SiteStr("KeySpace.KeyGroup used in " + w)
			}
			for _, need := range []string{"workers/operator.(*KeyedStateStore).encodeDBKey", "workers/operator.(*KeyedStateStore).encodeSubjectKey", "workers/operator.(*TimerStore).encodeTimerKey", "partitioning.(*KeySpace).RangeIndex"} {
				if need == "partitioning.(*KeySpace).RangeIndex" && riInline {
					continue
				}
				if _, has := users[need]; !has {
					r.Fail("KeyGroup-user:"+need, f.Decl.Pos(), nil, "%s no longer derives the key group through KeySpace.KeyGroup", need)
				}
			}
		}})

	register(&Obligation{ID: "C05.b", Props: []string{"C05"}, Template: "constant-table",
		Desc: "murmur.Hash performs MurmurHash3-x86-32's sequence of multiplications, rotations, shifts and additive constants (c1=0xcc9e2d51 c2=0x1b873593 r 15/13 m 5 n 0xe6546b64, fmix 16/0x85ebca6b/13/0xc2b2ae35/16), little-endian 4-byte blocks, tail of 1-3 bytes, length mixed in",
		Run: func(r *Run) {
			f := r.P.Func("util/murmur", "Hash")
			info := f.Pkg.TypesInfo
			constOf := func(e ast.Expr) (string, bool) {
				if tv, ok := info.Types[e]; ok && tv.Value != nil {
					var v int
					if _, err := sscanInt(tv.Value.String(), &v); err == nil {
						return fmt.Sprintf("%#x", v), true
					}
				}
				return "", false
			}
			// identifiers are compared by role, not by name: the returned accumulator is "h1", the
			// first parameter "data", the local holding uint32(len(data)) "inputLen", every other
			// local "k1"
			roles := map[types.Object]string{}
			sigT := f.Obj.Type().(*types.Signature)
			if sigT.Params().Len() >= 1 {
				roles[sigT.Params().At(0)] = "data"
			}
			inspect(f.Decl.Body, func(nd ast.Node) bool {
				switch x := nd.(type) {
				case *ast.ReturnStmt:
					if len(x.Results) == 1 {
						if o := prog.IdentObj(info, x.Results[0]); o != nil {
							roles[o] = "h1"
						}
					}
				case *ast.AssignStmt:
					if x.Tok == token.DEFINE && len(x.Lhs) == 1 && len(x.Rhs) == 1 {
						if c, ok := stripConv(info, x.Rhs[0]).(*ast.CallExpr); ok {
							if id, ok := c.Fun.(*ast.Ident); ok && id.Name == "len" {
								if o := prog.IdentObj(info, x.Lhs[0]); o != nil {
									roles[o] = "inputLen"
								}
							}
						}
					}
				}
				return true
			})
			var canon func(e ast.Expr) string
			canon = func(e ast.Expr) string {
				e = ast.Unparen(e)
				switch x := e.(type) {
				case *ast.Ident:
					if o := info.Uses[x]; o != nil {
						if rname, ok := roles[o]; ok {
							return rname
						}
						if _, isVar := o.(*types.Var); isVar {
							return "k1"
						}
					}
					if o := info.Defs[x]; o != nil {
						if rname, ok := roles[o]; ok {
							return rname
						}
						return "k1"
					}
					return x.Name
				case *ast.IndexExpr:
					return canon(x.X) + "[" + types.ExprString(x.Index) + "]"
				}
				return types.ExprString(e)
			}
			var sig []string
			inspect(f.Decl.Body, func(nd ast.Node) bool {
				switch x := nd.(type) {
				case *ast.AssignStmt:
					if len(x.Lhs) == 1 && len(x.Rhs) == 1 {
						l := canon(x.Lhs[0])
						switch x.Tok {
						case token.MUL_ASSIGN:
							if c, ok := constOf(x.Rhs[0]); ok {
								sig = append(sig, l+"*="+c)
							}
						case token.XOR_ASSIGN:
							if b, ok := ast.Unparen(x.Rhs[0]).(*ast.BinaryExpr); ok && b.Op == token.SHR {
								if c, ok := constOf(b.Y); ok {
									sig = append(sig, l+"^="+canon(b.X)+">>"+c)
								}
							} else if id, ok := ast.Unparen(x.Rhs[0]).(*ast.Ident); ok {
								sig = append(sig, l+"^="+canon(id))
							}
						case token.ASSIGN:
							if call, ok := isCallToNamed(info, x.Rhs[0], "math/bits", "RotateLeft32"); ok && len(call.Args) == 2 {
								if c, ok := constOf(call.Args[1]); ok {
									sig = append(sig, l+"=rotl("+canon(call.Args[0])+","+c+")")
								}
							}
							if b, ok := ast.Unparen(x.Rhs[0]).(*ast.BinaryExpr); ok && b.Op == token.ADD {
								if m, ok := ast.Unparen(b.X).(*ast.BinaryExpr); ok && m.Op == token.MUL {
									c1, ok1 := constOf(m.Y)
									c2, ok2 := constOf(b.Y)
									if ok1 && ok2 {
										sig = append(sig, l+"="+canon(m.X)+"*"+c1+"+"+c2)
									}
								}
							}
						}
					}
				}
				return true
			})
			want := []string{
				"k1*=0xcc9e2d51", "k1=rotl(k1,0xf)", "k1*=0x1b873593", "h1^=k1", "h1=rotl(h1,0xd)", "h1=h1*0x5+0xe6546b64",
				"k1*=0xcc9e2d51", "k1=rotl(k1,0xf)", "k1*=0x1b873593", "h1^=k1",
				"h1^=inputLen", "h1^=h1>>0x10", "h1*=0x85ebca6b", "h1^=h1>>0xd", "h1*=0xc2b2ae35", "h1^=h1>>0x10",
			}
			r.Site(f.Decl.Pos(), "murmur.Hash operation sequence: "+strings.Join(sig, " "))
			if strings.Join(sig, " ") != strings.Join(want, " ") {
				r.Fail(f.Name()+":operation-sequence", f.Decl.Pos(), nil, "murmur.Hash no longer has MurmurHash3-x86-32's operation sequence: got [%s], want [%s] (keys stored under the old mapping become unreachable)", strings.Join(sig, " "), strings.Join(want, " "))
			}
			// seed: h1 := uint32(seed)
			okSeed := false
			inspect(f.Decl.Body, func(nd ast.Node) bool {
				if as, ok := nd.(*ast.AssignStmt); ok && as.Tok == token.DEFINE && len(as.Lhs) == 1 && canon(as.Lhs[0]) == "h1" {
					if r.isParam(f, stripConv(info, as.Rhs[0]), 1) {
						okSeed = true
					}
				}
				return true
			})
			if !okSeed {
				r.Fail(f.Name()+":seed", f.Decl.Pos(), nil, "the hash state is not initialised with the seed argument")
			}
			// block load: little-endian composition with shifts 8,16,24 of data[1..3]
			var shifts []string
			inspect(f.Decl.Body, func(nd ast.Node) bool {
				if b, ok := nd.(*ast.BinaryExpr); ok && b.Op == token.SHL {
					if c, ok := constOf(b.Y); ok {
						shifts = append(shifts, canon(stripConv(info, b.X))+"<<"+c)
					}
				}
				return true
			})
			wantShifts := "data[1]<<0x8 data[2]<<0x10 data[3]<<0x18 data[2]<<0x10 data[1]<<0x8"
			if strings.Join(shifts, " ") != wantShifts {
				r.Fail(f.Name()+":byte-loads", f.Decl.Pos(), nil, "the block / tail byte composition changed: got [%s], want [%s]", strings.Join(shifts, " "), wantShifts)
			}
		}})

	register(&Obligation{ID: "C05.c", Props: []string{"C05", "C06", "C01"}, Template: "canonical-construction",
		Desc: "partitioning.keyGroupRanges builds ranges in canonical form: cursor starts at 0; each range is {Start: cursor, End: cursor + count/n (+1 iff i < count mod n)}; cursor = End; NewKeySpace's lookup table assigns index i to every group in range i and the constructor stores the same ranges it indexed",
		Run: func(r *Run) {
			f := r.P.Func("partitioning", "keyGroupRanges")
			info := f.Pkg.TypesInfo
			r.Site(f.Decl.Pos(), "keyGroupRanges canonical form")
			p0 := f.Obj.Type().(*types.Signature).Params().At(0)
			p1 := f.Obj.Type().(*types.Signature).Params().At(1)
			isBin := func(e ast.Expr, op token.Token) bool {
				b, ok := ast.Unparen(e).(*ast.BinaryExpr)
				return ok && b.Op == op && prog.IdentObj(info, b.X) == types.Object(p0) && prog.IdentObj(info, b.Y) == types.Object(p1)
			}
			// quotient / remainder of (count, n), wherever they are defined in the body
			var remVar, quoVar types.Object
			var adjusted []*ast.AssignStmt
			inspect(f.Decl.Body, func(nd ast.Node) bool {
				if x, ok := nd.(*ast.AssignStmt); ok && len(x.Lhs) == 1 && len(x.Rhs) == 1 && x.Tok == token.DEFINE {
					o := prog.IdentObj(info, x.Lhs[0])
					switch {
					case isBin(x.Rhs[0], token.REM):
						remVar = o
					case isBin(x.Rhs[0], token.QUO):
						quoVar = o
					default:
						// count/n or count%n wrapped into something else (max(count/n, 1), count/n + 1, ...)
						inspect(x.Rhs[0], func(m ast.Node) bool {
							if e, isExpr := m.(ast.Expr); isExpr && (isBin(e, token.QUO) || isBin(e, token.REM)) {
								adjusted = append(adjusted, x)
							}
							return true
						})
					}
				}
				return true
			})
			bad := func(tag, msg string) {
				r.Fail(f.Name()+":"+tag, f.Decl.Pos(), nil, "keyGroupRanges does not build the canonical ranges: %s", msg)
			}
			for _, a := range adjusted {
				r.Fail(f.Name()+":adjusted-quotient", a.Pos(), nil, "keyGroupRanges does not build the canonical ranges: %s is not the plain quotient / remainder of (key-group count, range count): the sizes are no longer count/n and count/n+1 for every configuration (for example more ranges than key groups)", types.ExprString(a.Rhs[0]))
			}
			if len(adjusted) > 0 {
				return
			}
			// the loop that fills ranges[i]
			var rangesVar types.Object
			var makeLen ast.Expr
			inspect(f.Decl.Body, func(nd ast.Node) bool {
				if x, ok := nd.(*ast.AssignStmt); ok && len(x.Lhs) == 1 && len(x.Rhs) == 1 {
					if call, ok := ast.Unparen(x.Rhs[0]).(*ast.CallExpr); ok {
						if id, ok := call.Fun.(*ast.Ident); ok && id.Name == "make" && rangesVar == nil && len(call.Args) >= 2 {
							rangesVar, makeLen = prog.IdentObj(info, x.Lhs[0]), call.Args[1]
						}
					}
				}
				return true
			})
			var loop *fullLoop
			var idx types.Object
			for _, lp := range fullLoopsOver(info, f.Decl.Body, func(e ast.Expr) bool { return rangesVar != nil && prog.IdentObj(info, e) == rangesVar }) {
				lp := lp
				loop, idx = &lp, lp.Idx
			}
			if loop == nil && makeLen != nil {
				// for i := range n / for i := 0; i < n; i++ with n the length ranges was made with
				inspect(f.Decl.Body, func(nd ast.Node) bool {
					st, ok := nd.(ast.Stmt)
					if !ok {
						return true
					}
					if cnt, ok := countedLoop(info, st); ok && types.ExprString(stripConv(info, cnt)) == types.ExprString(stripConv(info, makeLen)) {
						switch x := st.(type) {
						case *ast.RangeStmt:
							if x.Key != nil {
								loop, idx = &fullLoop{Stmt: x, Body: x.Body}, prog.IdentObj(info, x.Key)
							}
						case *ast.ForStmt:
							if b, ok := ast.Unparen(x.Cond).(*ast.BinaryExpr); ok {
								loop, idx = &fullLoop{Stmt: x, Body: x.Body}, prog.IdentObj(info, b.X)
							}
						}
					}
					return true
				})
			}
			if loop == nil || idx == nil {
				bad("shape", "no loop over all ranges")
				return
			}
			// the cursor: the integer variable that is 0 before the first iteration and is assigned in the
			// body (declared before the loop or in the loop header)
			var cursor types.Object
			isZero := func(e ast.Expr) bool {
				tv, ok := info.Types[e]
				return ok && tv.Value != nil && tv.Value.String() == "0"
			}
			inspect(f.Decl.Body, func(nd ast.Node) bool {
				if x, ok := nd.(*ast.AssignStmt); ok && x.Tok == token.DEFINE && len(x.Lhs) == len(x.Rhs) && x.Pos() < loop.Body.Pos() {
					for i, l := range x.Lhs {
						o := prog.IdentObj(info, l)
						if o == nil || o == idx || !isZero(x.Rhs[i]) {
							continue
						}
						assigned := false
						inspect(loop.Body, func(m ast.Node) bool {
							if as, ok := m.(*ast.AssignStmt); ok {
								for _, ll := range as.Lhs {
									if prog.IdentObj(info, ll) == o {
										assigned = true
									}
								}
							}
							return true
						})
						if assigned {
							cursor = o
						}
					}
				}
				return true
			})
			if cursor == nil {
				bad("shape", "no cursor that starts at 0 and is advanced in the loop")
				return
			}
			// symbolic execution of one iteration, for i < rem, i == rem and i > rem (each occurs for some count, n):
			// afterwards ranges[i] = {Start: c, End: c + quo + [i<rem]} and cursor = End
			for _, sign := range []int{-1, 0, 1} {
				lt := sign < 0
				ev := &linEval{r: r, info: info, sign: sign, clampBy: p0, env: map[types.Object]lin{
					cursor: {"c": 1}, idx: {"i": 1},
				}}
				if quoVar != nil {
					ev.env[quoVar] = lin{"q": 1}
				}
				if remVar != nil {
					ev.env[remVar] = lin{"r": 1}
				}
				ev.sym = func(x ast.Expr) (lin, bool) {
					switch {
					case isBin(x, token.QUO):
						return lin{"q": 1}, true
					case isBin(x, token.REM):
						return lin{"r": 1}, true
					}
					return nil, false
				}
				ev.block(loop.Body.List)
				caseName := map[int]string{-1: "i < count mod n", 0: "i == count mod n", 1: "i > count mod n"}[sign]
				if ev.undecided != "" {
					r.Error("undecided: keyGroupRanges: %s", ev.undecided)
					return
				}
				wantEnd := lin{"c": 1, "q": 1}
				if lt {
					wantEnd[""] = 1
				}
				switch {
				case ev.start == nil || ev.end == nil:
					bad("literal", "the loop does not store ranges[i] = KeyGroupRange{Start, End} ("+caseName+")")
				case !ev.start.eq(lin{"c": 1}):
					bad("start", "range i does not start at the cursor ("+caseName+"): Start = "+ev.start.String())
				case !ev.end.eq(wantEnd):
					bad("end", "range i does not end at cursor + count/n"+map[bool]string{true: " + 1", false: ""}[lt]+" ("+caseName+"): End = "+ev.end.String())
				case !ev.env[cursor].eq(wantEnd):
					bad("advance", "the cursor is not advanced to the end of range i ("+caseName+"): cursor = "+ev.env[cursor].String())
				}
			}
			// ranges slice has rangeCount elements
			okLen := false
			inspect(f.Decl.Body, func(nd ast.Node) bool {
				if call, ok := nd.(*ast.CallExpr); ok {
					if id, ok := call.Fun.(*ast.Ident); ok && id.Name == "make" && len(call.Args) == 2 && prog.IdentObj(info, call.Args[1]) == types.Object(p1) {
						okLen = true
					}
				}
				return true
			})
			if !okLen {
				bad("count", "the result does not have exactly rangeCount ranges")
			}
			// NewKeySpace: lookup[j] = i for j in [r.Start, r.End) of range i; stored ranges are the same slice
			nk := r.P.Func("partitioning", "NewKeySpace")
			ni := nk.Pkg.TypesInfo
			r.Site(nk.Decl.Pos(), "NewKeySpace lookup table")
			var ranges types.Object
			inspect(nk.Decl.Body, func(nd ast.Node) bool {
				if as, ok := nd.(*ast.AssignStmt); ok && len(as.Rhs) == 1 {
					if call, ok := ast.Unparen(as.Rhs[0]).(*ast.CallExpr); ok && r.P.CalleeFunc(ni, call) == f.Obj {
						ranges = prog.IdentObj(ni, as.Lhs[0])
						if len(call.Args) != 2 || !r.isParam(nk, call.Args[0], 0) || !r.isParam(nk, call.Args[1], 1) {
							r.Fail(nk.Name()+":ranges-args", call.Pos(), nil, "NewKeySpace computes the ranges from other values than (keyGroupCount, keyGroupRangeCount)")
						}
					}
				}
				return true
			})
			okTable := false
			for _, outer := range fullLoopsOver(ni, nk.Decl.Body, func(e ast.Expr) bool { return ranges != nil && prog.IdentObj(ni, e) == ranges }) {
				i := outer.Idx
				if i == nil {
					continue
				}
				elemField := func(e ast.Expr, name string) bool {
					sel, ok := deref(ni, e).(*ast.SelectorExpr)
					return ok && sel.Sel.Name == name && outer.IsElem(sel.X)
				}
				isI := func(e ast.Expr) bool { return prog.IdentObj(ni, stripConv(ni, e)) == i }
				for _, st := range outer.Body.List {
					switch fs := st.(type) {
					case *ast.ForStmt:
						// for j := r.Start; j < r.End; j++ { lookup[j] = i }
						init, ok1 := fs.Init.(*ast.AssignStmt)
						cond, ok2 := ast.Unparen(fs.Cond).(*ast.BinaryExpr)
						post, ok3 := fs.Post.(*ast.IncDecStmt)
						if !ok1 || !ok2 || !ok3 || len(init.Lhs) != 1 || len(init.Rhs) != 1 {
							continue
						}
						j := prog.IdentObj(ni, init.Lhs[0])
						cond = orientCmp(cond, func(e ast.Expr) bool { return prog.IdentObj(ni, e) == j })
						if !elemField(init.Rhs[0], "Start") || !elemField(cond.Y, "End") {
							continue
						}
						if cond.Op != token.LSS || prog.IdentObj(ni, cond.X) != j || post.Tok != token.INC || prog.IdentObj(ni, post.X) != j {
							continue
						}
						for _, bs := range fs.Body.List {
							if as, ok := bs.(*ast.AssignStmt); ok && len(as.Lhs) == 1 && len(as.Rhs) == 1 {
								if ix, ok := ast.Unparen(as.Lhs[0]).(*ast.IndexExpr); ok && prog.IdentObj(ni, ix.Index) == j && isI(as.Rhs[0]) {
									okTable = true
								}
							}
						}
					}
				}
				// for j := range lookup[r.Start:r.End] { sub[j] = i } (the sub-slice taken first)
				isSub := func(e ast.Expr) bool {
					sl, ok := deref(ni, e).(*ast.SliceExpr)
					return ok && sl.Low != nil && sl.High != nil && sl.Max == nil && elemField(sl.Low, "Start") && elemField(sl.High, "End")
				}
				for _, inner := range fullLoopsOver(ni, outer.Body, isSub) {
					for _, bs := range inner.Body.List {
						if as, ok := bs.(*ast.AssignStmt); ok && len(as.Lhs) == 1 && len(as.Rhs) == 1 && inner.IsElem(as.Lhs[0]) && isI(as.Rhs[0]) {
							okTable = true
						}
					}
				}
			}
			if !okTable {
				r.Fail(nk.Name()+":lookup", nk.Decl.Pos(), nil, "the range lookup table is not filled as lookup[j] = i for every j in [ranges[i].Start, ranges[i].End): routing (RangeIndex) and ownership (ranges) would disagree")
			}
			// stored fields
			want := map[string]bool{"keyGroupCount": false, "rangeLookup": false, "keyGroupRanges": false}
			inspect(nk.Decl.Body, func(nd ast.Node) bool {
				if kv, ok := nd.(*ast.KeyValueExpr); ok {
					if id, ok := kv.Key.(*ast.Ident); ok {
						switch id.Name {
						case "keyGroupCount":
							want[id.Name] = r.isParam(nk, stripConv(ni, kv.Value), 0)
						case "keyGroupRanges":
							want[id.Name] = ranges != nil && prog.IdentObj(ni, kv.Value) == ranges
						case "rangeLookup":
							want[id.Name] = true
						}
					}
				}
				return true
			})
			for k, ok := range want {
				if !ok {
					r.Fail(nk.Name()+":field:"+k, nk.Decl.Pos(), nil, "NewKeySpace does not store %s consistently with the ranges it computed", k)
				}
			}
			// RangeIndex = rangeLookup[KeyGroup(key)]
			ri := r.P.Func("partitioning", "(*KeySpace).RangeIndex")
			rl := r.P.Field("partitioning", "KeySpace", "rangeLookup")
			kgFn := r.P.FuncObj("partitioning", "(*KeySpace).KeyGroup")
			okRI := false
			inspect(ri.Decl.Body, func(nd ast.Node) bool {
				if ix, ok := nd.(*ast.IndexExpr); ok && prog.SelField(ri.Pkg.TypesInfo, ix.X) == rl {
					def := resolveLocal(ri.Pkg.TypesInfo, ri.Decl.Body, ix.Index)
					if call, ok := ast.Unparen(def).(*ast.CallExpr); ok && r.P.CalleeFunc(ri.Pkg.TypesInfo, call) == kgFn && len(call.Args) == 1 && r.isParam(ri, call.Args[0], 0) {
						okRI = true
					}
					if r.canonicalKeyGroupExpr(ri, ix.Index) {
						okRI = true // KeyGroup written out in place
					}
				}
				return true
			})
			r.Site(ri.Decl.Pos(), "RangeIndex = rangeLookup[KeyGroup(key)]")
			if !okRI {
				r.Fail(ri.Name()+":form", ri.Decl.Pos(), nil, "RangeIndex is not rangeLookup[KeyGroup(key)]")
			}
		}})

	register(&Obligation{ID: "C05.d", Props: []string{"C05", "C06", "C01"}, Template: "value-identity",
		Desc: "one deployment, one key space: Assembly.Deploy sends the same KeyGroupCount and operator list to runners and operators and assigns old checkpoints from config.KeySpace() = NewKeySpace(KeyGroupCount, WorkerCount); the operator builds NewKeySpace(req.KeyGroupCount, len(req.Operators)) and owns KeyGroupRanges()[index of its own id]",
		Run: func(r *Run) {
			hd := r.P.Func("workers/operator", "(*Operator).HandleDeploy")
			r.checkKeySpaceArgs(hd, func(info *types.Info, a0, a1 ast.Expr) bool {
				kgc := r.P.Field("proto/workerpb", "DeployOperatorRequest", "KeyGroupCount")
				ops := r.P.Field("proto/workerpb", "DeployOperatorRequest", "Operators")
				return prog.SelField(info, a0) == kgc && isLenOf(info, a1, ops)
			})
			info := hd.Pkg.TypesInfo
			kgr := r.P.Field("workers/operator", "Operator", "keyGroupRange")
			idF := r.P.Field("workers/operator", "Operator", "id")
			// every deploy (not only the first) rebuilds the key space and the own range: a
			// surviving operator is redeployed with a different operator count on scale-in
			for _, fn := range []string{"keySpace", "keyGroupRange"} {
				fld := r.P.Field("workers/operator", "Operator", fn)
				r.assignsFieldOnAllPaths(hd.Decl, hd.Name(), fld, nil, "every-deploy:"+fn, "HandleDeploy can succeed without rebuilding Operator."+fn+" from this deployment's (key-group count, operators): a redeployed operator would keep the previous assembly's partitioning while the source runners route with the new one")
			}
			ranges := r.P.FuncObj("partitioning", "(*KeySpace).KeyGroupRanges")
			// ownIndex := slices.IndexFunc(req.Operators, func(op) bool { return op.Id == o.id })
			var own types.Object
			inspect(hd.Decl.Body, func(nd ast.Node) bool {
				if as, ok := nd.(*ast.AssignStmt); ok && len(as.Rhs) == 1 && len(as.Lhs) == 1 {
					if call, ok := isCallToNamed(info, as.Rhs[0], "slices", "IndexFunc"); ok && len(call.Args) == 2 {
						if lit := funcValueLit(r.P, info, call.Args[1]); lit != nil && exprUsesField(info, lit.Body, idF) {
							own = prog.IdentObj(info, as.Lhs[0])
						}
					}
				}
				return true
			})
			okOwn := false
			inspect(hd.Decl.Body, func(nd ast.Node) bool {
				as, ok := nd.(*ast.AssignStmt)
				if !ok || len(as.Lhs) != 1 || prog.SelField(info, as.Lhs[0]) != kgr {
					return true
				}
				r.Site(as.Pos(), "operator's own key-group range")
				if ix, ok := ast.Unparen(as.Rhs[0]).(*ast.IndexExpr); ok && own != nil && prog.IdentObj(info, ix.Index) == own {
					def := resolveLocal(info, hd.Decl.Body, ix.X)
					if call, ok := ast.Unparen(def).(*ast.CallExpr); ok && r.P.CalleeFunc(info, call) == ranges {
						okOwn = true
					}
				}
				return true
			})
			if !okOwn {
				r.Fail(hd.Name()+":own-range", hd.Decl.Pos(), nil, "the operator does not take keySpace.KeyGroupRanges()[index of its own id in req.Operators] as its range: the router sends it keys it does not consider its own")
			}
			// data ownership for the DB is built from the same range; neighbours from the other indices
			nop := r.P.FuncObj("workers/operator", "newOperatorPartition")
			inspect(hd.Decl.Body, func(nd ast.Node) bool {
				if call, ok := nd.(*ast.CallExpr); ok && r.P.CalleeFunc(info, call) == nop {
					r.Site(call.Pos(), "newOperatorPartition(own range, neighbours)")
					if len(call.Args) != 2 || prog.SelField(info, call.Args[0]) != kgr {
						r.Fail(hd.Name()+":partition-range", call.Pos(), nil, "the DKV data-ownership policy is not built on the operator's own key-group range")
					}
				}
				return true
			})
			// Deploy
			dp := r.P.Func("jobs", "(*Assembly).Deploy")
			di := dp.Pkg.TypesInfo
			cfgKGC := r.P.Field("config", "Config", "KeyGroupCount")
			n := 0
			var opLists []types.Object
			inspect(dp.Decl.Body, func(nd ast.Node) bool {
				kv, ok := nd.(*ast.KeyValueExpr)
				if !ok {
					return true
				}
				id, ok := kv.Key.(*ast.Ident)
				if !ok {
					return true
				}
				switch id.Name {
				case "KeyGroupCount":
					n++
					r.Site(kv.Pos(), "Deploy request KeyGroupCount")
					if prog.SelField(di, stripConv(di, kv.Value)) != cfgKGC {
						r.Fail(dp.Name()+":key-group-count", kv.Pos(), nil, "a deploy request does not carry the job's configured KeyGroupCount")
					}
				case "Operators":
					opLists = append(opLists, prog.IdentObj(di, kv.Value))
				}
				return true
			})
			if n != 2 || len(opLists) != 2 || opLists[0] == nil || opLists[0] != opLists[1] {
				r.Fail(dp.Name()+":same-deployment", dp.Decl.Pos(), nil, "source runners and operators must be deployed with the same KeyGroupCount and the same operator list (found %d counts, %d lists)", n, len(opLists))
			}
			ks := r.P.Func("config", "(*Config).KeySpace")
			r.checkKeySpaceArgs(ks, func(info *types.Info, a0, a1 ast.Expr) bool {
				return prog.SelField(info, a0) == cfgKGC && prog.SelField(info, a1) == r.P.Field("config", "Config", "WorkerCount")
			})
			// registry's taskCount is the configured WorkerCount
			jn := r.P.Func("jobs", "New")
			wc := r.P.Field("config", "Config", "WorkerCount")
			nr := r.P.FuncObj("jobs", "NewRegistry")
			okWC := false
			inspect(jn.Decl.Body, func(nd ast.Node) bool {
				if call, ok := nd.(*ast.CallExpr); ok && r.P.CalleeFunc(jn.Pkg.TypesInfo, call) == nr && len(call.Args) >= 1 && prog.SelField(jn.Pkg.TypesInfo, call.Args[0]) == wc {
					okWC = true
				}
				return true
			})
			r.Site(jn.Decl.Pos(), "assembly size = configured WorkerCount")
			if !okWC {
				r.Fail(jn.Name()+":task-count", jn.Decl.Pos(), nil, "the registry's assembly size is not the configured WorkerCount that config.KeySpace() partitions for")
			}
		}})

	register(&Obligation{ID: "C05.e", Props: []string{"C05", "C03", "C10", "C06"}, Template: "layout-agreement",
		Desc: "key layouts: state keys are [2 key group BE][0x00][4 BE len(subject)][subject][1 len(ns)][ns][data], the subject scan prefix is their first four segments, timer keys are [2 key group BE][0x01][8 BE unix-nano][subject]; KeyGroup.PutBytes / KeyGroupFromBytes are big-endian 16-bit; OwnsKey, the timer comparator, partition index and decoders address the same offsets",
		Run: func(r *Run) {
			db := r.checkLayout(r.P.Func("workers/operator", "(*KeyedStateStore).encodeDBKey"), stateKeyLayout)
			sk := r.checkLayout(r.P.Func("workers/operator", "(*KeyedStateStore).encodeSubjectKey"), stateKeyLayout[:4])
			r.checkLayout(r.P.Func("workers/operator", "(*TimerStore).encodeTimerKey"), timerKeyLayout)
			_ = db
			_ = sk
			// KeyGroup byte order
			pb := r.P.Func("partitioning", "KeyGroup.PutBytes")
			fb := r.P.Func("partitioning", "KeyGroupFromBytes")
			okP, okF := false, false
			inspect(pb.Decl.Body, func(nd ast.Node) bool {
				if call, ok := nd.(*ast.CallExpr); ok {
					if sel, ok := ast.Unparen(call.Fun).(*ast.SelectorExpr); ok && sel.Sel.Name == "PutUint16" && isSelectorOf(pb.Pkg.TypesInfo, sel.X, "encoding/binary", "BigEndian") {
						okP = true
					}
				}
				return true
			})
			inspect(fb.Decl.Body, func(nd ast.Node) bool {
				if call, ok := nd.(*ast.CallExpr); ok {
					if sel, ok := ast.Unparen(call.Fun).(*ast.SelectorExpr); ok && sel.Sel.Name == "Uint16" && isSelectorOf(fb.Pkg.TypesInfo, sel.X, "encoding/binary", "BigEndian") {
						okF = true
					}
				}
				return true
			})
			r.Site(pb.Decl.Pos(), "KeyGroup.PutBytes / KeyGroupFromBytes byte order")
			if !okP || !okF {
				r.Fail("partitioning.KeyGroup:byte-order", pb.Decl.Pos(), nil, "KeyGroup.PutBytes and KeyGroupFromBytes must both be big-endian 16-bit (writer BE=%v, reader BE=%v): ownership tests would read a different group than was written, and key order within the DKV would not follow the group", okP, okF)
			}
			// readers of the prefix: key[:2] / key[0:2] / b[0:2]
			kgfb := fb.Obj
			for where, sites := range r.usersOf(kgfb, false) {
				for _, cs := range sites {
					if cs.Call == nil || len(cs.Call.Args) != 1 {
						continue
					}
					r.Site(cs.Call.Pos(), "KeyGroupFromBytes argument in "+where)
					b := sliceBounds(cs.Use.Pkg.TypesInfo, deref(cs.Use.Pkg.TypesInfo, cs.Call.Args[0]))
					if prog.RelPkg(cs.Use.Pkg.PkgPath) == "partitioning" {
						continue
					}
					if b != ":2" && b != "0:2" {
						r.Fail(where+":group-prefix-window", cs.Call.Pos(), nil, "%s reads the key group from bytes [%s] of the key instead of [0:2]", where, b)
					}
				}
			}
			// timer decoder and comparator windows
			tf := r.P.Func("workers/operator", "(*TimerStore).timerFromBytes")
			ti := tf.Pkg.TypesInfo
			want := map[string]string{"KeyGroupFromBytes": "0:2", "TimeFromBytes": "3:11"}
			got := map[string]string{}
			subj := ""
			inspect(tf.Decl.Body, func(nd ast.Node) bool {
				switch x := nd.(type) {
				case *ast.CallExpr:
					if fn := r.P.CalleeFunc(ti, x); fn != nil && len(x.Args) == 1 {
						got[fn.Name()] = sliceBounds(ti, x.Args[0])
					}
				case *ast.AssignStmt:
					if len(x.Rhs) == 1 {
						if b := sliceBounds(ti, x.Rhs[0]); b == "11:" {
							subj = b
						}
					}
				}
				return true
			})
			r.Site(tf.Decl.Pos(), "timerFromBytes windows")
			for k, w := range want {
				if got[k] != w {
					r.Fail(tf.Name()+":window:"+k, tf.Decl.Pos(), nil, "timerFromBytes reads %s from bytes [%s], the timer key format puts it at [%s]", k, got[k], w)
				}
			}
			if subj != "11:" {
				r.Fail(tf.Name()+":window:subject", tf.Decl.Pos(), nil, "timerFromBytes does not take the subject key from bytes [11:]")
			}
			nts := r.P.Func("workers/operator", "NewTimerStore")
			ni := nts.Pkg.TypesInfo
			cmpOK := 0
			inspect(nts.Decl.Body, func(nd ast.Node) bool {
				if call, ok := isCallToNamed(ni, nodeExpr(nd), "bytes", "Compare"); ok && len(call.Args) == 2 {
					r.Site(call.Pos(), "timer comparator windows")
					for _, a := range call.Args {
						if sliceBounds(ni, a) == "3:11" {
							cmpOK++
						}
					}
					if cmpOK != 2 {
						r.Fail(nts.Name()+":comparator-window", call.Pos(), nil, "timers are ordered by bytes other than the big-endian timestamp at [3:11]: they would fire out of order")
					}
					// operand order a then b
					an, bn := types.ExprString(call.Args[0].(*ast.SliceExpr).X), types.ExprString(call.Args[1].(*ast.SliceExpr).X)
					if lit := enclosingLit(nts.Decl.Body, call); lit != nil && len(lit.Type.Params.List) >= 1 {
						var names []string
						for _, fl := range lit.Type.Params.List {
							for _, nm := range fl.Names {
								names = append(names, nm.Name)
							}
						}
						if len(names) == 2 && (an != names[0] || bn != names[1]) {
							r.Fail(nts.Name()+":comparator-order", call.Pos(), nil, "the timer comparator compares (%s, %s) for parameters (%s, %s): the order is reversed, the latest timer would fire first", an, bn, names[0], names[1])
						}
					}
				}
				return true
			})
			if cmpOK == 0 {
				r.Fail(nts.Name()+":comparator", nts.Decl.Pos(), nil, "NewTimerStore no longer orders timers by bytes.Compare of the timestamp window")
			}
			// PutTimeBytes / TimeFromBytes: big-endian 64-bit unix nanoseconds
			pt := r.P.Func("util/binu", "PutTimeBytes")
			tfb := r.P.Func("util/binu", "TimeFromBytes")
			okPT, okTF := false, false
			inspect(pt.Decl.Body, func(nd ast.Node) bool {
				if call, ok := nd.(*ast.CallExpr); ok {
					if sel, ok := ast.Unparen(call.Fun).(*ast.SelectorExpr); ok && sel.Sel.Name == "PutUint64" && isSelectorOf(pt.Pkg.TypesInfo, sel.X, "encoding/binary", "BigEndian") && len(call.Args) == 2 {
						if strings.Contains(types.ExprString(call.Args[1]), "UnixNano()") {
							okPT = true
						}
					}
				}
				return true
			})
			inspect(tfb.Decl.Body, func(nd ast.Node) bool {
				if call, ok := nd.(*ast.CallExpr); ok {
					if sel, ok := ast.Unparen(call.Fun).(*ast.SelectorExpr); ok && sel.Sel.Name == "Uint64" && isSelectorOf(tfb.Pkg.TypesInfo, sel.X, "encoding/binary", "BigEndian") {
						okTF = true
					}
				}
				return true
			})
			r.Site(pt.Decl.Pos(), "binu time codec: big-endian unix nanoseconds")
			if !okPT || !okTF {
				r.Fail("util/binu:time-codec", pt.Decl.Pos(), nil, "PutTimeBytes / TimeFromBytes must be big-endian 64-bit UnixNano (writer=%v reader=%v): the byte order of timer keys would no longer be their time order", okPT, okTF)
			}
			// decodeKey mirrors encodeDBKey
			r.checkDecodeKey()
		}})

	register(&Obligation{ID: "C05.f", Props: []string{"C05", "C06", "C09"}, Template: "order-domain",
		Desc: "KeyGroupRange.IncludesKeyGroup is Start <= kg < End; Overlaps and Contains are half-open interval intersection / inclusion; OperatorPartition.OwnsKey tests the group read from key[:2] against the partition's own range; KeyGroupRangeFromBytes / neighborPartition.NeedsTable turn the inclusive end group into an exclusive End (+1)",
		Run: func(r *Run) {
			inc := r.P.Func("partitioning", "KeyGroupRange.IncludesKeyGroup")
			r.orderDomFunc(inc, map[string]string{"kg": "kg", "r.Start": "start", "r.End": "end"},
				func(e odEnv) bool { return e.Rank["start"] <= e.Rank["end"] },
				func(e odEnv) orderdom.Value {
					return orderdom.Bool(e.Rank["start"] <= e.Rank["kg"] && e.Rank["kg"] < e.Rank["end"])
				}, "Start <= kg < End")
			ov := r.P.Func("partitioning", "KeyGroupRange.Overlaps")
			names := map[string]string{"r.Start": "a", "r.End": "b", "other.Start": "c", "other.End": "d"}
			nonEmpty := func(e odEnv) bool { return e.Rank["a"] < e.Rank["b"] && e.Rank["c"] < e.Rank["d"] }
			r.orderDomFunc(ov, names, nonEmpty,
				func(e odEnv) orderdom.Value {
					return orderdom.Bool(e.Rank["c"] < e.Rank["b"] && e.Rank["a"] < e.Rank["d"])
				}, "[a,b) and [c,d) intersect (non-empty intervals)")
			ct := r.P.Func("partitioning", "KeyGroupRange.Contains")
			r.orderDomFunc(ct, names, nonEmpty,
				func(e odEnv) orderdom.Value {
					return orderdom.Bool(e.Rank["a"] <= e.Rank["c"] && e.Rank["d"] <= e.Rank["b"])
				}, "[c,d) is inside [a,b)")
			// OwnsKey
			ok := r.P.Func("workers/operator", "(*OperatorPartition).OwnsKey")
			oi := ok.Pkg.TypesInfo
			kgr := r.P.Field("workers/operator", "OperatorPartition", "keyGroupRange")
			good := false
			inspect(ok.Decl.Body, func(nd ast.Node) bool {
				if call, isC := nd.(*ast.CallExpr); isC && r.P.CalleeFunc(oi, call) == inc.Obj {
					if sel, isS := ast.Unparen(call.Fun).(*ast.SelectorExpr); isS && prog.SelField(oi, sel.X) == kgr && len(call.Args) == 1 {
						def := resolveLocal(oi, ok.Decl.Body, call.Args[0])
						if c2, isC2 := ast.Unparen(def).(*ast.CallExpr); isC2 && len(c2.Args) == 1 {
							if sl, isSl := deref(oi, c2.Args[0]).(*ast.SliceExpr); isSl && r.isParam(ok, sl.X, 0) {
								good = true
							}
						}
					}
				}
				return true
			})
			r.Site(ok.Decl.Pos(), "OwnsKey tests the key's group against the partition's range")
			if !good {
				r.Fail(ok.Name()+":form", ok.Decl.Pos(), nil, "OwnsKey is not keyGroupRange.IncludesKeyGroup(KeyGroupFromBytes(key[:2]))")
			}
			// inclusive end + 1
			for _, fn := range []*prog.FuncInfo{r.P.Func("partitioning", "KeyGroupRangeFromBytes"), r.P.Func("workers/operator", "(*neighborPartition).NeedsTable")} {
				fi := fn.Pkg.TypesInfo
				okEnd := false
				inspect(fn.Decl.Body, func(nd ast.Node) bool {
					if kv, isKV := nd.(*ast.KeyValueExpr); isKV {
						if id, isID := kv.Key.(*ast.Ident); isID && id.Name == "End" {
							if l, okL := linearOf(fi, nil, kv.Value); okL && l[""] == 1 {
								okEnd = true
							}
						}
					}
					return true
				})
				// KeyGroupRangeFromBytes(start, end): Start is computed from the first argument only, End
				// from the second only
				if fn.Obj.Name() == "KeyGroupRangeFromBytes" {
					inspect(fn.Decl.Body, func(nd ast.Node) bool {
						kv, isKV := nd.(*ast.KeyValueExpr)
						if !isKV {
							return true
						}
						id, isID := kv.Key.(*ast.Ident)
						if !isID {
							return true
						}
						val := ast.Node(kv.Value)
						uses := func(i int) bool {
							found := false
							inspectValue(fi, kv.Value, func(m ast.Node) bool {
								if exprMentionsParam(fi, fn, m, i) {
									found = true
								}
								return !found
							})
							return found
						}
						_ = val
						switch id.Name {
						case "Start":
							if !uses(0) || uses(1) {
								r.Fail(fn.Name()+":start-operand", kv.Pos(), nil, "the range's Start is not computed from the first key alone")
							}
						case "End":
							if !uses(1) || uses(0) {
								r.Fail(fn.Name()+":end-operand", kv.Pos(), nil, "the range's End is not computed from the last key alone: a table that spans several operators' ranges is taken for one that lies inside the first of them, so it is judged exclusively owned and deleted without asking the neighbours")
							}
						}
						return true
					})
				}
				r.Site(fn.Decl.Pos(), fn.Name()+": inclusive end group -> exclusive End")
				if !okEnd {
					r.Fail(fn.Name()+":end+1", fn.Decl.Pos(), nil, "%s must turn the table's last (inclusive) key group into an exclusive range End by adding 1: a table whose last key is in this operator's first group would be judged foreign", fn.Name())
				}
			}
		}})

	register(&Obligation{ID: "C05.g", Props: []string{"C05", "C06"}, Template: "width",
		Desc: "no key group or range index is squeezed through an integer narrower than 16 bits: KeySpace.rangeLookup's elements and every integer conversion of a non-constant in package partitioning are at least 16 bits wide, KeyGroup is a 16-bit type, and NewKeySpace rejects more than 65535 key groups (so 16 bits hold every group and every non-empty range's index)",
		Run: func(r *Run) {
			pkg := r.P.Pkg("partitioning")
			sizes := types.SizesFor("gc", "amd64")
			look := r.P.Field("partitioning", "KeySpace", "rangeLookup")
			if sl, ok := look.Type().Underlying().(*types.Slice); ok {
				r.SiteStr("KeySpace.rangeLookup element type " + sl.Elem().String())
				if b, ok := sl.Elem().Underlying().(*types.Basic); !ok || b.Info()&types.IsInteger == 0 || sizes.Sizeof(b) < 2 {
					r.Fail("partitioning.KeySpace.rangeLookup:width", look.Pos(), nil, "the key-group -> operator-index table holds %s: indices of operators beyond its range wrap around, so the router sends keys to operators that do not own them", sl.Elem())
				}
			} else {
				r.Error("undecided: KeySpace.rangeLookup is no longer a slice")
			}
			kgT := r.P.TypeName("partitioning", "KeyGroup")
			if b, ok := kgT.Type().Underlying().(*types.Basic); !ok || b.Info()&types.IsInteger == 0 || sizes.Sizeof(b) != 2 {
				r.Fail("partitioning.KeyGroup:width", kgT.Pos(), nil, "KeyGroup must be a 16-bit integer: it is written as two bytes into every key")
			}
			n := 0
			for _, file := range pkg.Syntax {
				inspect(file, func(nd ast.Node) bool {
					call, ok := nd.(*ast.CallExpr)
					if !ok || len(call.Args) != 1 {
						return true
					}
					tv, ok := pkg.TypesInfo.Types[call.Fun]
					if !ok || !tv.IsType() {
						return true
					}
					b, ok := tv.Type.Underlying().(*types.Basic)
					if !ok || b.Info()&types.IsInteger == 0 {
						return true
					}
					if av, ok := pkg.TypesInfo.Types[call.Args[0]]; ok && av.Value != nil {
						return true // constant
					}
					if ab, ok := pkg.TypesInfo.TypeOf(call.Args[0]).Underlying().(*types.Basic); !ok || ab.Info()&types.IsInteger == 0 {
						return true
					}
					n++
					r.Site(call.Pos(), "integer conversion to "+tv.Type.String())
					if sizes.Sizeof(b) < 2 {
						sc := r.P.ScopeAt(call.Pos())
						r.Fail(sc.Name(r.P)+":narrow:"+types.ExprString(call.Args[0]), call.Pos(), nil, "%s converts %s to the %d-bit type %s: key groups and range indices need 16 bits", sc.Name(r.P), types.ExprString(call.Args[0]), 8*sizes.Sizeof(b), tv.Type)
					}
					return true
				})
			}
			if n < 8 {
				r.Error("floor: only %d integer conversions found in package partitioning (12 confirmed by hand)", n)
			}
			// NewKeySpace rejects keyGroupCount > MaxUint16
			nk := r.P.Func("partitioning", "NewKeySpace")
			ni := nk.Pkg.TypesInfo
			guard := false
			inspect(nk.Decl.Body, func(nd ast.Node) bool {
				is, ok := nd.(*ast.IfStmt)
				if !ok {
					return true
				}
				panics := false
				for _, st := range is.Body.List {
					if es, ok := st.(*ast.ExprStmt); ok {
						if c, ok := es.X.(*ast.CallExpr); ok {
							if id, ok := c.Fun.(*ast.Ident); ok && id.Name == "panic" {
								panics = true
							}
						}
					}
				}
				if !panics {
					return true
				}
				bounded := false
				inspect(is.Cond, func(m ast.Node) bool {
					be, ok := m.(*ast.BinaryExpr)
					if !ok {
						return true
					}
					be = orientCmp(be, func(e ast.Expr) bool { return r.isParam(nk, e, 0) })
					if !r.isParam(nk, be.X, 0) {
						return true
					}
					if tv, ok := ni.Types[be.Y]; ok && tv.Value != nil {
						v := 0
						sscanInt(tv.Value.String(), &v)
						if (be.Op == token.GTR && v <= 65535 && v >= 1) || (be.Op == token.GEQ && v <= 65536 && v >= 2) {
							bounded = true
						}
					}
					return true
				})
				if !bounded {
					return true
				}
				// ... and the whole condition holds for every count above all the constants it mentions
				// (`count < 1 && count > 65535` mentions the bound but never fires)
				pn := nk.Obj.Type().(*types.Signature).Params().At(0).Name()
				m := orderdom.New(ni, map[string]string{pn: "n"})
				res := m.CheckExpr(is.Cond, func(e odEnv) bool {
					for sym, rk := range e.Rank {
						if strings.HasPrefix(sym, "#") && e.Rank["n"] <= rk {
							return false
						}
					}
					return true
				}, func(e odEnv) orderdom.Value { return orderdom.Bool(true) })
				if res.Undecided == "" && res.Mismatch == nil && res.Orderings > 0 {
					guard = true
				}
				return true
			})
			r.Site(nk.Decl.Pos(), "NewKeySpace bounds the key-group count by 65535")
			if !guard {
				r.Fail(nk.Name()+":bound", nk.Decl.Pos(), nil, "NewKeySpace no longer panics for more than 65535 key groups: group numbers above 65535 wrap in the 2-byte key prefix and in the lookup table")
			}
		}})
}

func nodeExpr(n ast.Node) ast.Expr {
	if e, ok := n.(ast.Expr); ok {
		return e
	}
	return &ast.BadExpr{}
}

// enclosingLit finds the innermost function literal in root containing n.
func enclosingLit(root ast.Node, n ast.Node) *ast.FuncLit {
	var best *ast.FuncLit
	inspect(root, func(nd ast.Node) bool {
		if lit, ok := nd.(*ast.FuncLit); ok && lit.Pos() <= n.Pos() && n.End() <= lit.End() {
			best = lit
		}
		return true
	})
	return best
}

// checkDecodeKey: KeyedStateStore.decodeKey consumes [3 skipped][BE32 L][L skipped][U8 M][M bytes ns][rest data].
func (r *Run) checkDecodeKey() {
	f := r.P.Func("workers/operator", "(*KeyedStateStore).decodeKey")
	info := f.Pkg.TypesInfo
	r.Site(f.Decl.Pos(), "decodeKey consumption sequence")
	var seq []string
	inspect(f.Decl.Body, func(nd ast.Node) bool {
		call, ok := nd.(*ast.CallExpr)
		if !ok {
			return true
		}
		if c, ok := isCallToNamed(info, call, "bytes", "NewReader"); ok && len(c.Args) == 1 {
			seq = append(seq, "skip["+sliceBounds(info, c.Args[0])+"]")
		}
		if c, ok := isCallToNamed(info, call, "encoding/binary", "Read"); ok && len(c.Args) == 3 {
			order := "?"
			if isSelectorOf(info, c.Args[1], "encoding/binary", "BigEndian") {
				order = "BE"
			} else if isSelectorOf(info, c.Args[1], "encoding/binary", "LittleEndian") {
				order = "LE"
			}
			t := info.TypeOf(c.Args[2])
			if p, ok := t.(*types.Pointer); ok {
				t = p.Elem()
			}
			seq = append(seq, "read:"+order+":"+t.String())
		}
		if sel, ok := ast.Unparen(call.Fun).(*ast.SelectorExpr); ok && sel.Sel.Name == "Seek" && len(call.Args) == 2 {
			seq = append(seq, "seek:"+types.ExprString(stripConv(info, call.Args[0]))+":"+types.ExprString(call.Args[1]))
		}
		if c, ok := isCallToNamed(info, call, "io", "ReadAll"); ok {
			_ = c
			seq = append(seq, "rest")
		}
		if id, ok := call.Fun.(*ast.Ident); ok && id.Name == "make" && len(call.Args) == 2 {
			seq = append(seq, "alloc:"+types.ExprString(call.Args[1]))
		}
		return true
	})
	want := []string{"skip[3:]", "read:BE:uint32", "seek:subjectKeyLen:io.SeekCurrent", "read:BE:uint8", "alloc:namespaceLen", "read:BE:[]byte", "rest"}
	if strings.Join(seq, " ") != strings.Join(want, " ") {
		r.Fail(f.Name()+":sequence", f.Decl.Pos(), nil, "decodeKey does not mirror encodeDBKey: it consumes [%s], the key format requires [%s]", strings.Join(seq, " "), strings.Join(want, " "))
	}
}

// linEval executes straight-line integer code with `if` branches on (idx <op> rem) over linear
// forms, for one fixed outcome of "idx < rem". It records the Start / End stored into
// ranges[idx] by a KeyGroupRange literal. Calls of new helpers are evaluated in place.
type linEval struct {
	r          *Run
	info       *types.Info
	sign       int // the fixed outcome of comparing idx with rem: -1, 0, +1
	env        map[types.Object]lin
	start, end lin
	undecided  string
	ret        lin                        // value returned by the helper being evaluated
	sym        func(ast.Expr) (lin, bool) // expressions with a fixed symbolic value (count/n, count%n written inline)
	returned   bool
	clampBy    types.Object // the key-group count parameter: min(x, count) evaluates to x
}

func identOf(e ast.Expr) *ast.Ident {
	id, _ := ast.Unparen(e).(*ast.Ident)
	return id
}

func (e *linEval) val(x ast.Expr) (lin, bool) {
	x = stripConv(e.info, x)
	if tv, ok := e.info.Types[x]; ok && tv.Value != nil {
		v := 0
		if _, err := sscanInt(tv.Value.String(), &v); err == nil {
			return lin{"": v}, true
		}
	}
	if e.sym != nil {
		if l, ok := e.sym(x); ok {
			return l, true
		}
	}
	switch y := ast.Unparen(x).(type) {
	case *ast.Ident:
		if o := e.info.Uses[y]; o != nil {
			if l, ok := e.env[o]; ok {
				return l, true
			}
		}
	case *ast.BinaryExpr:
		a, ok1 := e.val(y.X)
		b, ok2 := e.val(y.Y)
		if ok1 && ok2 {
			switch y.Op {
			case token.ADD:
				return a.add(b), true
			case token.SUB:
				nb := lin{}
				for k, v := range b {
					nb[k] = -v
				}
				return a.add(nb), true
			}
		}
	case *ast.CallExpr:
		// min(x, count): the canonical bound never exceeds the key-group count, so the clamp is the
		// identity on a canonical construction (a non-canonical x is reported as such)
		if id, isID := y.Fun.(*ast.Ident); isID && id.Name == "min" && len(y.Args) == 2 && e.clampBy != nil {
			if _, isB := e.info.Uses[id].(*types.Builtin); isB {
				for k := 0; k < 2; k++ {
					if o := e.info.Uses[identOf(y.Args[k])]; o != nil && o == e.clampBy {
						return e.val(y.Args[1-k])
					}
				}
			}
		}
		// a new helper evaluated in place
		if hf := e.r.P.FuncInfoOf(e.r.P.CalleeFunc(e.info, y)); isNewHelper(e.r.P, hf) && hf.Decl.Type.Params != nil {
			sub := &linEval{r: e.r, info: hf.Pkg.TypesInfo, sign: e.sign, env: map[types.Object]lin{}}
			k := 0
			for _, f := range hf.Decl.Type.Params.List {
				for _, n := range f.Names {
					if k < len(y.Args) {
						if v, ok := e.val(y.Args[k]); ok {
							sub.env[hf.Pkg.TypesInfo.Defs[n]] = v
						}
					}
					k++
				}
			}
			sub.block(hf.Decl.Body.List)
			if sub.undecided == "" && sub.returned {
				return sub.ret, true
			}
		}
	}
	return nil, false
}

// cond decides a comparison between idx and rem under the fixed case.
func (e *linEval) cond(x ast.Expr) (bool, bool) {
	x = ast.Unparen(x)
	if u, ok := x.(*ast.UnaryExpr); ok && u.Op == token.NOT {
		v, ok := e.cond(u.X)
		return !v, ok
	}
	b, ok := x.(*ast.BinaryExpr)
	if !ok {
		return false, false
	}
	l, ok1 := e.val(b.X)
	rr, ok2 := e.val(b.Y)
	if !ok1 || !ok2 {
		return false, false
	}
	isI := func(v lin) bool { return v.eq(lin{"i": 1}) }
	isR := func(v lin) bool { return v.eq(lin{"r": 1}) }
	op := b.Op
	if isR(l) && isI(rr) { // r <op> i  ==  i <flip> r
		l, rr = rr, l
		op = map[token.Token]token.Token{token.LSS: token.GTR, token.GTR: token.LSS, token.LEQ: token.GEQ, token.GEQ: token.LEQ}[op]
	}
	if !isI(l) || !isR(rr) {
		return false, false
	}
	switch op {
	case token.LSS:
		return e.sign < 0, true
	case token.GEQ:
		return e.sign >= 0, true
	case token.LEQ:
		return e.sign <= 0, true
	case token.GTR:
		return e.sign > 0, true
	case token.EQL:
		return e.sign == 0, true
	case token.NEQ:
		return e.sign != 0, true
	}
	return false, false
}

func (e *linEval) block(list []ast.Stmt) {
	for _, st := range list {
		if e.undecided != "" || e.returned {
			return
		}
		switch x := st.(type) {
		case *ast.AssignStmt:
			if len(x.Lhs) != len(x.Rhs) {
				e.undecided = "tuple assignment in the range loop"
				return
			}
			vals := make([]lin, len(x.Rhs))
			for i, rh := range x.Rhs {
				if cl, ok := ast.Unparen(rh).(*ast.CompositeLit); ok {
					// ranges[i] = KeyGroupRange{Start: .., End: ..}
					if ix, ok := ast.Unparen(x.Lhs[i]).(*ast.IndexExpr); ok {
						if iv, ok := e.val(ix.Index); ok && iv.eq(lin{"i": 1}) {
							for k, el := range cl.Elts {
								var name string
								var v ast.Expr
								if kv, ok := el.(*ast.KeyValueExpr); ok {
									name, v = kv.Key.(*ast.Ident).Name, kv.Value
								} else {
									name, v = []string{"Start", "End"}[k%2], el
								}
								if lv, ok := e.val(v); ok {
									if name == "Start" {
										e.start = lv
									} else if name == "End" {
										e.end = lv
									}
								} else {
									e.undecided = "a range bound is not a linear expression of cursor, quotient and 1"
									return
								}
							}
						}
					}
					continue
				}
				v, ok := e.val(rh)
				if !ok {
					if _, isIdent := ast.Unparen(x.Lhs[i]).(*ast.Ident); isIdent {
						// an unknown value: the variable becomes unknown
						if o := prog.IdentObj(e.info, x.Lhs[i]); o != nil {
							delete(e.env, o)
						}
					}
					continue
				}
				vals[i] = v
			}
			for i, l := range x.Lhs {
				if vals[i] == nil {
					continue
				}
				o := prog.IdentObj(e.info, l)
				if o == nil {
					continue
				}
				switch x.Tok {
				case token.ASSIGN, token.DEFINE:
					e.env[o] = vals[i]
				case token.ADD_ASSIGN:
					e.env[o] = e.env[o].add(vals[i])
				default:
					delete(e.env, o)
				}
			}
		case *ast.IncDecStmt:
			if o := prog.IdentObj(e.info, x.X); o != nil {
				if cur, ok := e.env[o]; ok {
					d := 1
					if x.Tok == token.DEC {
						d = -1
					}
					e.env[o] = cur.add(lin{"": d})
				}
			}
		case *ast.IfStmt:
			if x.Init != nil {
				e.block([]ast.Stmt{x.Init})
			}
			v, ok := e.cond(x.Cond)
			if !ok {
				e.undecided = "a condition in the range loop is not a comparison of the index with count mod n: " + types.ExprString(x.Cond)
				return
			}
			if v {
				e.block(x.Body.List)
			} else if x.Else != nil {
				e.block([]ast.Stmt{x.Else})
			}
		case *ast.BlockStmt:
			e.block(x.List)
		case *ast.ReturnStmt:
			if len(x.Results) == 1 {
				if v, ok := e.val(x.Results[0]); ok {
					e.ret, e.returned = v, true
					return
				}
			}
			e.undecided = "a helper returns something that is not linear"
			return
		case *ast.DeclStmt, *ast.ExprStmt, *ast.EmptyStmt:
			// declarations without effect on the tracked values, logging
		default:
			e.undecided = fmt.Sprintf("statement %T in the range loop", st)
			return
		}
	}
}

// canonicalKeyGroupExpr: e is `murmur.Hash(key, 0) % s.keyGroupCount` (conversions and locals
// aside) with key the first parameter of fi — the key-group mapping written out in place.
func (r *Run) canonicalKeyGroupExpr(fi *prog.FuncInfo, e ast.Expr) bool {
	info := fi.Pkg.TypesInfo
	hash := r.P.FuncObj("util/murmur", "Hash")
	kgc := r.P.Field("partitioning", "KeySpace", "keyGroupCount")
	e = stripConv(info, resolveLocal(info, fi.Decl.Body, stripConv(info, e)))
	b, isB := ast.Unparen(e).(*ast.BinaryExpr)
	if !isB || b.Op != token.REM || prog.SelField(info, stripConv(info, b.Y)) != kgc {
		return false
	}
	h := resolveLocal(info, fi.Decl.Body, stripConv(info, b.X))
	call, isC := ast.Unparen(h).(*ast.CallExpr)
	if !isC || r.P.CalleeFunc(info, call) != hash || len(call.Args) != 2 || !r.isParam(fi, call.Args[0], 0) {
		return false
	}
	tv, has := info.Types[call.Args[1]]
	return has && tv.Value != nil && tv.Value.String() == "0"
}

// usesCanonicalKeyGroup: some expression of fi's body is the canonical key-group expression.
func (r *Run) usesCanonicalKeyGroup(fi *prog.FuncInfo) bool {
	found := false
	inspect(fi.Decl.Body, func(nd ast.Node) bool {
		if e, ok := nd.(*ast.BinaryExpr); ok && !found && r.canonicalKeyGroupExpr(fi, e) {
			found = true
		}
		return !found
	})
	return found
}

// exprCallsHashOtherwise: fi calls murmur.Hash somewhere that is not part of a canonical
// key-group expression.
func (r *Run) exprCallsHashOtherwise(fi *prog.FuncInfo) bool {
	info := fi.Pkg.TypesInfo
	hash := r.P.FuncObj("util/murmur", "Hash")
	n, canon := 0, 0
	inspect(fi.Decl.Body, func(nd ast.Node) bool {
		if call, ok := nd.(*ast.CallExpr); ok && r.P.CalleeFunc(info, call) == hash {
			n++
		}
		if e, ok := nd.(*ast.BinaryExpr); ok && r.canonicalKeyGroupExpr(fi, e) {
			canon++
		}
		return true
	})
	return n > canon
}
