package rules

import (
	_ "embed"
	"encoding/json"
	"fmt"
	"os"
	"path/filepath"
	"regexp"

	"verif/checker/internal/prog"
)

// Canaries are seeded faults (every one was first applied by hand with scripts/mut.sh while
// the obligation it targets was written). The thorough tier re-applies each of them to
// /repo's CURRENT source as an in-memory overlay, re-loads the program and requires the
// property's obligations to report a violation that the unmodified tree does not have
// ("expect": "violation"), or to stay silent for behaviour-preserving rewrites ("expect":
// "silent"). A canary whose pattern no longer matches is inapplicable; one that no longer
// type-checks is uncompilable. Neither counts for or against the check.

//go:embed canaries.json
var canariesJSON []byte

type Canary struct {
	ID       string      `json:"id"`
	Property string      `json:"property"`
	File     string      `json:"file"`
	Subs     [][2]string `json:"subs"`
	Expect   string      `json:"expect"`
	Note     string      `json:"note,omitempty"`
}

func Canaries() []Canary {
	var cs []Canary
	if err := json.Unmarshal(canariesJSON, &cs); err != nil {
		prog.Fatalf("canaries.json: %v", err)
	}
	return cs
}

type CanaryResult struct {
	ID      string   `json:"id"`
	File    string   `json:"file"`
	Status  string   `json:"status"` // detected | silent-as-expected | MISSED | FALSE-ALARM | inapplicable | uncompilable
	Reports []string `json:"reports,omitempty"`
}

// RunCanary applies c to repo's current source and evaluates the obligations of prop.
// baseline holds the violation identities of the unmodified tree.
func RunCanary(repo, binDir string, c Canary, prop string, baseline map[string]bool) (res CanaryResult) {
	res = CanaryResult{ID: c.ID, File: c.File}
	path := filepath.Join(repo, c.File)
	src, err := os.ReadFile(path)
	if err != nil {
		res.Status = "inapplicable"
		return
	}
	text := string(src)
	for _, s := range c.Subs {
		re, err := regexp.Compile(s[0])
		if err != nil {
			res.Status = "inapplicable"
			res.Reports = []string{"bad pattern: " + err.Error()}
			return
		}
		loc := re.FindStringSubmatchIndex(text)
		if loc == nil {
			res.Status = "inapplicable"
			return
		}
		var dst []byte
		dst = re.ExpandString(dst, s[1], text, loc)
		text = text[:loc[0]] + string(dst) + text[loc[1]:]
	}
	if text == string(src) {
		res.Status = "inapplicable"
		return
	}
	var p *prog.Prog
	func() {
		defer func() {
			if e := recover(); e != nil {
				res.Status = "uncompilable"
				if ee, ok := e.(prog.ErrorExit); ok {
					res.Reports = []string{ee.Msg}
				}
			}
		}()
		p = prog.LoadMutated(repo, binDir, map[string][]byte{path: []byte(text)})
	}()
	if p == nil {
		return
	}
	for _, o := range For(prop) {
		r := Eval(p, "quick", o)
		for _, v := range r.Violations {
			if !baseline[v.Identity] {
				res.Reports = append(res.Reports, fmt.Sprintf("%s @ %s", v.Identity, v.Pos))
			}
		}
		for _, e := range r.Errors {
			res.Reports = append(res.Reports, "ERROR "+o.ID+": "+e)
		}
	}
	switch {
	case c.Expect == "silent" && len(res.Reports) == 0:
		res.Status = "silent-as-expected"
	case c.Expect == "silent":
		res.Status = "FALSE-ALARM"
	case len(res.Reports) > 0:
		res.Status = "detected"
	default:
		res.Status = "MISSED"
	}
	return
}
