package rules

import (
	"fmt"
	"go/ast"
	"go/token"
	"go/types"
	"strings"
	"verif/checker/internal/orderdom"

	"verif/checker/internal/prog"
)

// isMonotoneStore: `f = max(f, e)` / `f = max(e, f)`, or a store dominated by `e > f`.
func isMaxStore(info *types.Info, as *ast.AssignStmt, f *types.Var) bool {
	if len(as.Lhs) != 1 || len(as.Rhs) != 1 || as.Tok != token.ASSIGN {
		return false
	}
	call, ok := ast.Unparen(as.Rhs[0]).(*ast.CallExpr)
	if !ok || len(call.Args) != 2 {
		return false
	}
	id, ok := call.Fun.(*ast.Ident)
	if !ok || id.Name != "max" {
		return false
	}
	if _, isB := info.Uses[id].(*types.Builtin); !isB {
		return false
	}
	return prog.SelField(info, call.Args[0]) == f || prog.SelField(info, call.Args[1]) == f
}

func init() {
	prop("C06",
		"(a) on deploy, new operator i receives exactly the old operator checkpoints whose key-group range overlaps range i, independent of the order in which the old checkpoints were recorded; (b) levels below 0 that are assembled from several instances' checkpoints are sorted before they are binary-searched; (c) every handed checkpoint's WALs and every level are merged, and WAL replay is filtered by key ownership (C01.h); (d) a table's end sequence number is the maximum over its entries, so the restored database continues above every loaded entry; (e) ownership predicates are half-open interval tests on the key's group (C05.f); shared tables are only deleted when no neighbour needs them (C09.a, C09.d).",
		"that the union of what N operators see equals the old state (needs the runtime contents); arithmetic of the ranges beyond their canonical construction (C05.c).")

	register(&Obligation{ID: "C01.f", Props: []string{"C01", "C06"}, Template: "value-identity+sorted-precondition",
		Desc: "jobs.(*Assembly).Deploy: operator i is deployed with Pick(oldCheckpoints, AssignRanges(newRanges, oldRanges)[i]) where oldRanges[k] is the range of oldCheckpoints[k]; AssignRanges finds the overlapping old ranges whatever their order (or its inputs are sorted first)",
		Run: func(r *Run) {
			dp := r.P.Func("jobs", "(*Assembly).Deploy")
			info := dp.Pkg.TypesInfo
			assign := r.P.Func("partitioning", "AssignRanges")
			pick := r.P.FuncObj("util/sliceu", "Pick")
			getOC := r.P.FuncObj("proto/snapshotpb", "(*JobCheckpoint).GetOperatorCheckpoints")
			ocField := r.P.Field("proto/snapshotpb", "JobCheckpoint", "OperatorCheckpoints")
			isOCList := func(e ast.Expr) bool {
				e = resolveLocal(info, dp.Decl.Body, e)
				if prog.SelField(info, e) == ocField {
					return true
				}
				call, ok := ast.Unparen(e).(*ast.CallExpr)
				return ok && r.P.CalleeFunc(info, call) == getOC
			}
			// old ranges: built index-aligned from the old operator checkpoints, either by a full loop
			// (range or index form) that stores ranges[i] = f(element i), or by sliceu.Map(list, f)
			var oldRanges types.Object
			okFill := false
			var appendFill *ast.AssignStmt // the `x = append(x, ...)` statement of an append-style fill
			mapFn := r.P.FuncObj("util/sliceu", "Map")
			for _, lp := range fullLoopsOver(info, dp.Decl.Body, isOCList) {
				var iv types.Object
				switch x := lp.Stmt.(type) {
				case *ast.RangeStmt:
					iv = prog.IdentObj(info, x.Key)
				case *ast.ForStmt:
					if as, ok := x.Init.(*ast.AssignStmt); ok && len(as.Lhs) == 1 {
						iv = prog.IdentObj(info, as.Lhs[0])
					}
				}
				for _, st := range lp.Body.List {
					as, ok := st.(*ast.AssignStmt)
					if !ok || len(as.Lhs) != 1 || len(as.Rhs) != 1 {
						continue
					}
					// ranges = append(ranges, f(element)) starting from an empty slice keeps the alignment too
					if call, isCall := ast.Unparen(as.Rhs[0]).(*ast.CallExpr); isCall && len(call.Args) == 2 && !call.Ellipsis.IsValid() {
						if id, isID := call.Fun.(*ast.Ident); isID && id.Name == "append" {
							tgt := prog.IdentObjPlain(info, as.Lhs[0])
							if tgt != nil && prog.IdentObjPlain(info, call.Args[0]) == tgt && startsEmpty(info, dp.Decl.Body, tgt, lp.Stmt) {
								uses := false
								inspect(call.Args[1], func(m ast.Node) bool {
									if e, ok := m.(ast.Expr); ok && lp.IsElem(e) {
										uses = true
									}
									return true
								})
								oldRanges, okFill, appendFill = tgt, uses, as
							}
						}
						continue
					}
					ix, ok := ast.Unparen(as.Lhs[0]).(*ast.IndexExpr)
					if !ok || iv == nil || prog.IdentObj(info, ix.Index) != iv {
						continue
					}
					oldRanges = prog.IdentObj(info, ix.X)
					uses := false
					inspect(as.Rhs[0], func(m ast.Node) bool {
						if e, ok := m.(ast.Expr); ok && lp.IsElem(e) {
							uses = true
						}
						return true
					})
					okFill = uses
				}
			}
			if oldRanges == nil {
				inspect(dp.Decl.Body, func(nd ast.Node) bool {
					as, ok := nd.(*ast.AssignStmt)
					if !ok || len(as.Lhs) != 1 || len(as.Rhs) != 1 {
						return true
					}
					call, ok := ast.Unparen(as.Rhs[0]).(*ast.CallExpr)
					if !ok || r.P.CalleeFunc(info, call) != mapFn || len(call.Args) != 2 || !isOCList(call.Args[0]) {
						return true
					}
					lit, ok := ast.Unparen(call.Args[1]).(*ast.FuncLit)
					if !ok || len(lit.Type.Params.List) != 1 || len(lit.Type.Params.List[0].Names) != 1 {
						return true
					}
					el := info.Defs[lit.Type.Params.List[0].Names[0]]
					uses := false
					inspect(lit.Body, func(m ast.Node) bool {
						if id, ok := m.(*ast.Ident); ok && info.Uses[id] == el {
							uses = true
						}
						return true
					})
					oldRanges, okFill = prog.IdentObj(info, as.Lhs[0]), uses
					return true
				})
			}
			r.Site(dp.Decl.Pos(), "Deploy: old ranges are index-aligned with the old operator checkpoints")
			if !okFill || oldRanges == nil {
				r.Fail(dp.Name()+":old-ranges", dp.Decl.Pos(), nil, "the list of old key-group ranges is not built index-by-index from the old operator checkpoints: the indices returned by AssignRanges would pick the wrong checkpoints")
			}
			var assignments types.Object
			var assignDef token.Pos
			inspect(dp.Decl.Body, func(nd ast.Node) bool {
				as, ok := nd.(*ast.AssignStmt)
				if !ok || len(as.Rhs) != 1 {
					return true
				}
				call, ok := ast.Unparen(as.Rhs[0]).(*ast.CallExpr)
				if !ok || r.P.CalleeFunc(info, call) != assign.Obj || len(call.Args) != 2 {
					return true
				}
				r.Site(call.Pos(), "AssignRanges(new ranges, old ranges)")
				assignments = prog.IdentObj(info, as.Lhs[0])
				assignDef = as.Lhs[0].Pos()
				if oldRanges == nil || prog.IdentObj(info, call.Args[1]) != oldRanges {
					r.Fail(dp.Name()+":assign-from", call.Pos(), nil, "AssignRanges' second argument is not the list of old ranges")
				}
				// first argument: cfg.KeySpace().KeyGroupRanges()
				kgr := r.P.FuncObj("partitioning", "(*KeySpace).KeyGroupRanges")
				ks := r.P.FuncObj("config", "(*Config).KeySpace")
				okTo := false
				if c1, ok := ast.Unparen(call.Args[0]).(*ast.CallExpr); ok && r.P.CalleeFunc(info, c1) == kgr {
					if sel, ok := ast.Unparen(c1.Fun).(*ast.SelectorExpr); ok {
						if c2, ok := ast.Unparen(sel.X).(*ast.CallExpr); ok && r.P.CalleeFunc(info, c2) == ks {
							okTo = true
						}
					}
				}
				if !okTo {
					r.Fail(dp.Name()+":assign-to", call.Pos(), nil, "AssignRanges' first argument is not the new deployment's key-group ranges (cfg.KeySpace().KeyGroupRanges())")
				}
				return true
			})
			if assignments == nil {
				r.Fail(dp.Name()+":no-assign", dp.Decl.Pos(), nil, "Deploy no longer computes which old checkpoints each new operator needs")
				return
			}
			// what AssignRanges computed is what is deployed: the assignment list is only read (element
			// i for operator i, len / range); nothing stores into it, appends to it or replaces it
			for _, u := range r.P.Uses(assignments) {
				if u.Scope == nil || u.Scope.Fn == nil || u.Scope.Fn.Obj != dp.Obj {
					continue
				}
				path := r.P.PathTo(u.File, u.Ident.Pos(), u.Ident.End())
				written := ""
				for k := len(path) - 2; k >= 0 && written == ""; k-- {
					switch x := path[k].(type) {
					case *ast.AssignStmt:
						for _, l := range x.Lhs {
							if l.Pos() <= u.Ident.Pos() && u.Ident.End() <= l.End() && u.Ident.Pos() != assignDef {
								written = "it is assigned to"
							}
						}
						k = -1
					case *ast.IncDecStmt:
						written = "it is modified"
					case *ast.UnaryExpr:
						if x.Op == token.AND {
							switch y := ast.Unparen(x.X).(type) {
							case *ast.Ident:
								if y == u.Ident {
									written = "its address is taken"
								}
							case *ast.IndexExpr:
								if id, isID := ast.Unparen(y.X).(*ast.Ident); isID && id == u.Ident {
									written = "the address of an element is taken"
								}
							}
						}
					case *ast.CallExpr:
						if id, isID := ast.Unparen(x.Fun).(*ast.Ident); isID && info.Uses[id] != nil && info.Uses[id].Pkg() == nil {
							switch id.Name {
							case "append", "copy", "clear", "delete":
								if len(x.Args) > 0 && x.Args[0].Pos() <= u.Ident.Pos() && u.Ident.End() <= x.Args[0].End() {
									written = "it is the target of " + id.Name
								}
							}
						}
					case ast.Stmt:
						k = -1
					}
				}
				r.Site(u.Ident.Pos(), "use of the checkpoint assignment list")
				if written != "" {
					r.Fail(dp.Name()+":assignment-overridden", u.Ident.Pos(), nil, "the list AssignRanges returned is changed before it is used (%s): operator i would be deployed with other checkpoints than the ones whose key-group ranges overlap its own range — an operator that kept its id but moved to another position reopens the state of its old range and loses the state of its new one", written)
				}
			}
			// the old ranges stay index-aligned with the old checkpoints: between being filled and being
			// handed to AssignRanges the slice is not passed to anything (sort, reverse, compact, append)
			// nor re-assigned; the only uses are the indexed fill, len/cap and the AssignRanges argument.
			if oldRanges != nil {
				for _, u := range r.P.Uses(oldRanges) {
					upos := u.Ident.Pos()
					if upos < dp.Decl.Pos() || upos > dp.Decl.End() {
						continue
					}
					path := r.P.PathTo(u.File, upos, upos)
					ok := false
					for k := len(path) - 1; k >= 0 && !ok; k-- {
						switch x := path[k].(type) {
						case *ast.IndexExpr:
							if prog.IdentObj(info, x.X) == oldRanges {
								ok = true // element read or the indexed fill
							}
						case *ast.CallExpr:
							if r.P.CalleeFunc(info, x) == assign.Obj {
								ok = true
							}
							if id, isID := ast.Unparen(x.Fun).(*ast.Ident); isID && (id.Name == "len" || id.Name == "cap") && info.Uses[id] != nil && info.Uses[id].Pkg() == nil {
								ok = true
							}
							if appendFill != nil && x.Pos() >= appendFill.Pos() && x.End() <= appendFill.End() {
								ok = true // the fill itself
							}
							k = -1 // innermost call decides
						case *ast.RangeStmt:
							if prog.IdentObj(info, x.X) == oldRanges {
								ok = true
							}
						case ast.Stmt:
							if appendFill != nil && x == ast.Stmt(appendFill) {
								ok = true
							}
							k = -1
						}
					}
					r.Site(upos, "use of the old-ranges slice")
					if !ok {
						r.Fail(dp.Name()+":old-ranges-permuted", upos, nil, "the old key-group ranges are passed to / rewritten by something other than AssignRanges after being built index-by-index from the old operator checkpoints: if their order changes (e.g. a sort) the indices AssignRanges returns no longer select the matching checkpoints in Pick(ckpt.GetOperatorCheckpoints(), ...)")
					}
				}
			}
			// inside the operator loop: Checkpoints: Pick(oc, assignments[i]) with i the loop index over a.operators
			opsF := r.P.Field("jobs", "Assembly", "operators")
			okPick := false
			inspect(dp.Decl.Body, func(nd ast.Node) bool {
				rs, ok := nd.(*ast.RangeStmt)
				if !ok || prog.SelField(info, rs.X) != opsF {
					return true
				}
				i := prog.IdentObj(info, rs.Key)
				inspect(rs.Body, func(m ast.Node) bool {
					call, ok := m.(*ast.CallExpr)
					if !ok || r.P.CalleeFunc(info, call) != pick || len(call.Args) != 2 {
						return true
					}
					r.Site(call.Pos(), "Pick(old checkpoints, assignments[i])")
					ix, ok := ast.Unparen(call.Args[1]).(*ast.IndexExpr)
					if ok && isOCList(call.Args[0]) && prog.IdentObj(info, ix.X) == assignments && i != nil && prog.IdentObj(info, ix.Index) == i {
						okPick = true
					}
					return true
				})
				return true
			})
			if !okPick {
				r.Fail(dp.Name()+":pick", dp.Decl.Pos(), nil, "operator i must be deployed with sliceu.Pick(old operator checkpoints, assignments[i]) for its own index i")
			}
			// AssignRanges: order independent?
			ai := assign.Pkg.TypesInfo
			overlaps := r.P.FuncObj("partitioning", "KeyGroupRange.Overlaps")
			r.Site(assign.Decl.Pos(), "AssignRanges order-independence")
			fromParam := assign.Obj.Type().(*types.Signature).Params().At(1)
			independent := false
			toParam := assign.Obj.Type().(*types.Signature).Params().At(0)
			for _, outer := range fullLoopsOver(ai, assign.Decl.Body, func(e ast.Expr) bool { return prog.IdentObj(ai, e) == types.Object(toParam) }) {
				for _, inner := range fullLoopsOver(ai, outer.Body, func(e ast.Expr) bool { return prog.IdentObj(ai, e) == types.Object(fromParam) }) {
					clean := true
					inspect(inner.Body, func(m ast.Node) bool {
						if b, ok := m.(*ast.BranchStmt); ok && b.Tok == token.BREAK {
							clean = false
						}
						return true
					})
					if clean && r.exprCalls(ai, inner.Body, overlaps) {
						independent = true
					}
					// the overlap test written out: the old range's index is appended exactly when
					// from.Start < to.End && to.Start < from.End, decided as a truth table over all orderings
					if clean && !independent {
						names := map[string]string{}
						ast.Inspect(inner.Body, func(m ast.Node) bool {
							sel, isSel := m.(*ast.SelectorExpr)
							if !isSel || (sel.Sel.Name != "Start" && sel.Sel.Name != "End") {
								return true
							}
							pre := ""
							switch {
							case outer.IsElem(sel.X):
								pre = "t"
							case inner.IsElem(sel.X):
								pre = "f"
							default:
								return true
							}
							names[types.ExprString(sel)] = pre + strings.ToLower(sel.Sel.Name[:1])
							return true
						})
						if len(names) == 4 {
							m := orderdom.New(ai, names)
							m.IgnoreStores = true
							m.Effect = func(call *ast.CallExpr) bool {
								id, isID := call.Fun.(*ast.Ident)
								return isID && id.Name == "append" && ai.Uses[id] == types.Universe.Lookup("append")
							}
							res := m.CheckBody(inner.Body.List, nil, func(e odEnv) orderdom.Value {
								if e.Rank["fs"] < e.Rank["te"] && e.Rank["ts"] < e.Rank["fe"] {
									return orderdom.Sym("effect")
								}
								return orderdom.Sym("end")
							})
							r.Site(inner.Pos(), fmt.Sprintf("AssignRanges inline overlap test: %d orderings", res.Orderings))
							if res.Undecided != "" || res.Mismatch != nil {
								r.Note("inline overlap test: undecided=%q mismatch=%v names=%v", res.Undecided, res.Mismatch, names)
							}
							if res.Undecided == "" && res.Orderings > 0 && res.Mismatch == nil {
								independent = true
							}
						}
					}
				}
			}
			if !independent {
				// then the caller must sort: look for a sort of oldRanges before the call
				sorted := false
				inspect(dp.Decl.Body, func(nd ast.Node) bool {
					if call, ok := nd.(*ast.CallExpr); ok {
						if _, ok := isCallToNamed(info, call, "slices", "SortFunc"); ok {
							sorted = true
						}
						if _, ok := isCallToNamed(info, call, "sort", "Slice"); ok {
							sorted = true
						}
					}
					return true
				})
				if !sorted {
					r.Fail(assign.Name()+":order-dependent", assign.Decl.Pos(), nil, "AssignRanges walks the old ranges as if they were sorted by start, but Deploy passes them in the order the operators acknowledged the checkpoint: with ranges recorded as [128,256),[0,128) new operator 0 is assigned no checkpoint at all and its state is lost")
				}
			}
		}})

	register(&Obligation{ID: "C06.b", Props: []string{"C06", "C07", "C01"}, Template: "sorted-precondition",
		Desc: "recovery.LoadCheckpointList concatenates the levels of several instances' checkpoints; levels >= 1 are binary-searched by key (AllTablesForKey / AllTablesForPrefix), so they must be sorted by start key after the merge",
		Run: func(r *Run) {
			f := r.P.Func("dkv/recovery", "LoadCheckpointList")
			info := f.Pkg.TypesInfo
			levelsF := r.P.Field("dkv/recovery", "checkpointDocument", "Levels")
			// the consumers really binary-search levels >= 1
			atfk := r.P.Func("dkv/sst", "(*LevelList).AllTablesForKey")
			su := r.P.FuncObj("util/sliceu", "SearchUnique")
			r.Site(atfk.Decl.Pos(), "levels >= 1 are binary-searched")
			if !r.exprCalls(atfk.Pkg.TypesInfo, atfk.Decl.Body, su) {
				r.Note("AllTablesForKey no longer binary-searches: sortedness of merged levels is not required by it")
			}
			merges := false
			var mergePos token.Pos
			inspect(f.Decl.Body, func(nd ast.Node) bool {
				if as, ok := nd.(*ast.AssignStmt); ok && len(as.Lhs) == 1 && len(as.Rhs) == 1 {
					if ix, ok := ast.Unparen(as.Lhs[0]).(*ast.IndexExpr); ok && prog.SelField(info, ix.X) == levelsF {
						if call, ok := ast.Unparen(as.Rhs[0]).(*ast.CallExpr); ok {
							if id, ok := call.Fun.(*ast.Ident); ok && id.Name == "append" {
								merges, mergePos = true, as.Pos()
							}
						}
					}
				}
				return true
			})
			r.Site(f.Decl.Pos(), "LoadCheckpointList merges levels of several checkpoints")
			if !merges {
				r.Note("LoadCheckpointList does not concatenate levels")
				return
			}
			sorted := false
			inspect(f.Decl.Body, func(nd ast.Node) bool {
				call, ok := nd.(*ast.CallExpr)
				if !ok || call.Pos() < mergePos {
					return true
				}
				for _, nm := range [][2]string{{"slices", "SortFunc"}, {"slices", "SortStableFunc"}, {"sort", "Slice"}, {"sort", "SliceStable"}} {
					if c, ok := isCallToNamed(info, call, nm[0], nm[1]); ok && len(c.Args) >= 1 {
						// the sorted slice is a level of the composite document
						uses := false
						inspect(c.Args[0], func(m ast.Node) bool {
							if sel, ok := m.(*ast.SelectorExpr); ok && prog.SelField(info, sel) == levelsF {
								uses = true
							}
							if id, ok := m.(*ast.Ident); ok {
								if def := localDef(info, f.Decl.Body, info.Uses[id]); def != nil && exprUsesField(info, def, levelsF) {
									uses = true
								}
							}
							return true
						})
						_ = uses
						sorted = true
						r.checkLevelSortCoverage(f, c, levelsF)
					}
				}
				return true
			})
			if !sorted {
				// alternatively the level-list constructor sorts
				nl := r.P.Func("dkv/sst", "NewLevelListOfTables")
				inspect(nl.Decl.Body, func(nd ast.Node) bool {
					if call, ok := nd.(*ast.CallExpr); ok {
						if _, ok := isCallToNamed(nl.Pkg.TypesInfo, call, "slices", "SortFunc"); ok {
							sorted = true
						}
					}
					return true
				})
			}
			if !sorted {
				r.Fail(f.Name()+":unsorted-levels", mergePos, nil, "the tables of levels >= 1 from several checkpoints are concatenated in the order the handles were given and never sorted, but those levels are binary-searched by key: after a rescale point lookups and scans miss keys that are present")
			}
		}})

	register(&Obligation{ID: "C06.c", Props: []string{"C06", "C01", "C03", "C07", "C08"}, Template: "completeness-loop",
		Desc: "recovery.LoadCheckpointList reads the checkpoint of every handle (selected by the handle's id), merges the WAL handles and every level of every remaining document into the first, without skipping; a missing checkpoint id is a hard error",
		Run: func(r *Run) {
			f := r.P.Func("dkv/recovery", "LoadCheckpointList")
			info := f.Pkg.TypesInfo
			walsF := r.P.Field("dkv/recovery", "checkpointDocument", "WALs")
			levelsF := r.P.Field("dkv/recovery", "checkpointDocument", "Levels")
			handlesParam := f.Obj.Type().(*types.Signature).Params().At(2)
			// loop over all handles
			okHandles := false
			inspect(f.Decl.Body, func(nd ast.Node) bool {
				rs, ok := nd.(*ast.RangeStmt)
				if !ok || prog.IdentObj(info, rs.X) != types.Object(handlesParam) {
					return true
				}
				okHandles = true
				r.Site(rs.Pos(), "loop over every checkpoint handle")
				inspect(rs.Body, func(m ast.Node) bool {
					if _, isLit := m.(*ast.FuncLit); isLit {
						return false
					}
					if b, ok := m.(*ast.BranchStmt); ok && (b.Tok == token.CONTINUE || b.Tok == token.BREAK) {
						r.Fail(f.Name()+":skips-handle", b.Pos(), nil, "LoadCheckpointList can skip a checkpoint handle (%s): that instance's state is silently missing after the restore", b.Tok)
					}
					return true
				})
				return true
			})
			if !okHandles {
				r.Fail(f.Name()+":handles", f.Decl.Pos(), nil, "LoadCheckpointList does not read every checkpoint handle")
			}
			// merge loop over rest
			var mergeLoop *ast.RangeStmt
			inspect(f.Decl.Body, func(nd ast.Node) bool {
				rs, ok := nd.(*ast.RangeStmt)
				if !ok {
					return true
				}
				if exprUsesField(info, rs.Body, walsF) && exprUsesField(info, rs.Body, levelsF) {
					mergeLoop = rs
				}
				return true
			})
			if mergeLoop == nil {
				r.Fail(f.Name()+":merge", f.Decl.Pos(), nil, "LoadCheckpointList no longer merges the WALs and levels of the additional checkpoints")
				return
			}
			r.Site(mergeLoop.Pos(), "merge loop over the remaining checkpoint documents")
			// source: a slice [1:] of the docs, the composite is [0]
			src := resolveLocal(info, f.Decl.Body, mergeLoop.X)
			okSrc := false
			if sl, ok := ast.Unparen(src).(*ast.SliceExpr); ok && sliceBounds(info, sl) == "1:" {
				okSrc = true
			}
			if id, ok := mergeLoop.X.(*ast.Ident); ok && !okSrc {
				// multi-assign: compositeCheckpointDoc, rest := docs[0], docs[1:]
				inspect(f.Decl.Body, func(nd ast.Node) bool {
					if as, ok := nd.(*ast.AssignStmt); ok && len(as.Lhs) == 2 && len(as.Rhs) == 2 {
						if prog.IdentObj(info, as.Lhs[1]) == info.Uses[id] && sliceBounds(info, as.Rhs[1]) == "1:" {
							if ix, ok := ast.Unparen(as.Rhs[0]).(*ast.IndexExpr); ok {
								if tv, ok := info.Types[ix.Index]; ok && tv.Value != nil && tv.Value.String() == "0" {
									okSrc = true
								}
							}
						}
					}
					return true
				})
			}
			if !okSrc {
				r.Fail(f.Name()+":merge-source", mergeLoop.Pos(), nil, "the merge must fold documents [1:] into document [0]")
			}
			inspect(mergeLoop.Body, func(m ast.Node) bool {
				if b, ok := m.(*ast.BranchStmt); ok {
					r.Fail(f.Name()+":merge-skips", b.Pos(), nil, "the merge can skip a checkpoint or a level (%s)", b.Tok)
				}
				return true
			})
			// every level: inner loop over doc.Levels
			okLevels := false
			inspect(mergeLoop.Body, func(m ast.Node) bool {
				if rs, ok := m.(*ast.RangeStmt); ok && prog.SelField(info, rs.X) == levelsF {
					okLevels = true
				}
				return true
			})
			if !okLevels {
				r.Fail(f.Name()+":merge-levels", mergeLoop.Pos(), nil, "the merge does not visit every level of the additional checkpoints")
			}
			// selected by id, panic when missing: covered by C14.b for the selection; here the -1 guard
			guard := false
			inspect(f.Decl.Body, func(nd ast.Node) bool {
				if is, ok := nd.(*ast.IfStmt); ok {
					if b, ok := ast.Unparen(is.Cond).(*ast.BinaryExpr); ok && b.Op == token.EQL {
						if tv, ok := info.Types[b.Y]; ok && tv.Value != nil && tv.Value.String() == "-1" {
							guard = true
						}
					}
				}
				return true
			})
			if !guard {
				r.Fail(f.Name()+":missing-id", f.Decl.Pos(), nil, "a checkpoint id that is not in the file is no longer rejected: indexing with -1 / loading another checkpoint")
			}
			// DB.Start uses the composite's levels and continues above its LatestSeqNum
			st := r.P.Func("dkv", "(*DB).Start")
			si := st.Pkg.TypesInfo
			seq := r.P.Field("dkv", "DB", "seqNum")
			lsn := r.P.Field("dkv/sst", "LevelList", "LatestSeqNum")
			okSeq := false
			inspect(st.Decl.Body, func(nd ast.Node) bool {
				if as, ok := nd.(*ast.AssignStmt); ok && len(as.Lhs) == 1 && prog.SelField(si, as.Lhs[0]) == seq {
					// accepted: LatestSeqNum of the loaded levels, or max(...) including the checkpoint's LastSeqNum
					if exprUsesField(si, as.Rhs[0], lsn) {
						okSeq = true
					}
				}
				return true
			})
			r.Site(st.Decl.Pos(), "DB.Start continues sequence numbers above the loaded tables")
			if !okSeq {
				r.Fail(st.Name()+":seqnum", st.Decl.Pos(), nil, "DB.Start does not restore the sequence counter from the loaded level list: new writes would get lower sequence numbers than restored entries and lose every merge against them")
			}
		}})

	register(&Obligation{ID: "C06.d", Props: []string{"C06", "C08", "C01"}, Template: "monotone",
		Desc: "sst.writeEntry keeps Table.endSeqNum as the maximum sequence number written (entries are key-ordered, not sequence-ordered), so LevelList.LatestSeqNum bounds every entry of the tables; NewLevelListOfTables / NewWithChangeSet take the maximum over tables",
		Run: func(r *Run) {
			f := r.P.Func("dkv/sst", "writeEntry")
			info := f.Pkg.TypesInfo
			end := r.P.Field("dkv/sst", "Table", "endSeqNum")
			seqNum := r.P.FuncObj("dkv/kv", "Entry.SeqNum")
			n := 0
			inspect(f.Decl.Body, func(nd ast.Node) bool {
				as, ok := nd.(*ast.AssignStmt)
				if !ok || len(as.Lhs) != 1 || prog.SelField(info, as.Lhs[0]) != end {
					return true
				}
				n++
				r.Site(as.Pos(), "writeEntry store of Table.endSeqNum")
				usesSeq := r.exprCalls(info, as.Rhs[0], seqNum)
				inspect(as.Rhs[0], func(m ast.Node) bool {
					if id, isID := m.(*ast.Ident); isID {
						if call, isCall := ast.Unparen(deref(info, id)).(*ast.CallExpr); isCall && r.P.CalleeFunc(info, call) == seqNum {
							usesSeq = true // seqNum := entry.SeqNum()
						}
					}
					return true
				})
				if isMaxStore(info, as, end) && usesSeq {
					return true
				}
				// guarded form: if e.SeqNum() > t.endSeqNum { t.endSeqNum = e.SeqNum() }
				guarded := false
				path := r.P.PathTo(f.File, as.Pos(), as.End())
				for _, p := range path {
					if is, ok := p.(*ast.IfStmt); ok {
						if b, ok := ast.Unparen(is.Cond).(*ast.BinaryExpr); ok {
							if (b.Op == token.GTR && prog.SelField(info, b.Y) == end) || (b.Op == token.LSS && prog.SelField(info, b.X) == end) {
								guarded = true
							}
						}
					}
				}
				if !guarded {
					r.Fail(f.Name()+":endSeqNum", as.Pos(), nil, "Table.endSeqNum is overwritten with the sequence number of the last KEY written, not the maximum: LatestSeqNum underestimates, so after a restore db.seqNum restarts below existing entries (new writes lose merges against old ones) and the WAL is replayed from the wrong position")
				}
				return true
			})
			if n == 0 {
				r.Fail(f.Name()+":no-endSeqNum", f.Decl.Pos(), nil, "writeEntry never records the table's end sequence number")
			}
			// LatestSeqNum aggregation uses max
			lsn := r.P.Field("dkv/sst", "LevelList", "LatestSeqNum")
			for _, name := range []string{"NewLevelListOfTables", "(*LevelList).NewWithChangeSet"} {
				g := r.P.Func("dkv/sst", name)
				gi := g.Pkg.TypesInfo
				ok := false
				inspect(g.Decl.Body, func(nd ast.Node) bool {
					if call, isC := nd.(*ast.CallExpr); isC && len(call.Args) == 2 {
						if id, isID := call.Fun.(*ast.Ident); isID && id.Name == "max" && exprUsesField(gi, call, end) {
							ok = true
						}
					}
					// the maximum written out: if t.endSeqNum > x { x = t.endSeqNum }
					if is, isIf := nd.(*ast.IfStmt); isIf && is.Else == nil && len(is.Body.List) == 1 {
						if b, isBin := ast.Unparen(is.Cond).(*ast.BinaryExpr); isBin {
							b = orientCmp(b, func(e ast.Expr) bool { return exprUsesField(gi, e, end) })
							as, isAs := is.Body.List[0].(*ast.AssignStmt)
							if isAs && as.Tok == token.ASSIGN && len(as.Lhs) == 1 && len(as.Rhs) == 1 && (b.Op == token.GTR || b.Op == token.GEQ) && exprUsesField(gi, b.X, end) &&
								types.ExprString(as.Lhs[0]) == types.ExprString(b.Y) && types.ExprString(as.Rhs[0]) == types.ExprString(b.X) {
								ok = true
							}
						}
					}
					return true
				})
				r.Site(g.Decl.Pos(), g.Name()+": LatestSeqNum = max over tables")
				if !ok {
					r.Fail(g.Name()+":latest-max", g.Decl.Pos(), nil, "%s does not take the maximum endSeqNum over its tables for LatestSeqNum", g.Name())
				}
			}
			_ = lsn
			// TableDocument round trip carries EndSeqNum
			doc := r.P.Func("dkv/sst", "(*Table).Document")
			fromDoc := r.P.Func("dkv/sst", "NewTableFromDocument")
			r.Site(doc.Decl.Pos(), "TableDocument carries EndSeqNum both ways")
			okOut, okIn := false, false
			inspect(doc.Decl.Body, func(nd ast.Node) bool {
				if kv, ok := nd.(*ast.KeyValueExpr); ok {
					if id, ok := kv.Key.(*ast.Ident); ok && id.Name == "EndSeqNum" && prog.SelField(doc.Pkg.TypesInfo, kv.Value) == end {
						okOut = true
					}
				}
				// doc.EndSeqNum = t.endSeqNum on a document value (named result / local)
				if as, ok := nd.(*ast.AssignStmt); ok && len(as.Lhs) == 1 && len(as.Rhs) == 1 {
					if sel, ok := ast.Unparen(as.Lhs[0]).(*ast.SelectorExpr); ok && sel.Sel.Name == "EndSeqNum" && prog.SelField(doc.Pkg.TypesInfo, as.Rhs[0]) == end {
						okOut = true
					}
				}
				return true
			})
			inspect(fromDoc.Decl.Body, func(nd ast.Node) bool {
				if kv, ok := nd.(*ast.KeyValueExpr); ok {
					if id, ok := kv.Key.(*ast.Ident); ok && fromDoc.Pkg.TypesInfo.Uses[id] == types.Object(end) {
						if sel, ok := ast.Unparen(kv.Value).(*ast.SelectorExpr); ok && sel.Sel.Name == "EndSeqNum" {
							okIn = true
						}
					}
				}
				return true
			})
			if !okOut || !okIn {
				r.Fail("dkv/sst.TableDocument:EndSeqNum", doc.Decl.Pos(), nil, "the table document does not carry EndSeqNum in both directions (out=%v in=%v)", okOut, okIn)
			}
		}})
}

// checkLevelSortCoverage: the sort call `call` inside LoadCheckpointList is applied to every
// level index 1..len-1 of the composite document and to no other (level 0 keeps its recency
// order), and orders tables ascending by start key.
func (r *Run) checkLevelSortCoverage(f *prog.FuncInfo, call *ast.CallExpr, levelsF *types.Var) {
	info := f.Pkg.TypesInfo
	r.Site(call.Pos(), "sort of the merged levels: coverage of levels 1..n-1")
	isLevels := func(e ast.Expr) bool { return prog.SelField(info, e) == levelsF }
	path := r.P.PathTo(r.P.FileAt(call.Pos()), call.Pos(), call.End())
	var loop ast.Stmt
	for k := len(path) - 1; k >= 0 && loop == nil; k-- {
		switch x := path[k].(type) {
		case *ast.ForStmt:
			loop = x
		case *ast.RangeStmt:
			loop = x
		case *ast.FuncLit:
			k = -1
		}
	}
	fail := func(tag, format string, a ...any) {
		r.Fail(f.Name()+":sort-coverage:"+tag, call.Pos(), nil, format, a...)
	}
	// what is sorted: X[idx] or the range value
	arg := ast.Unparen(call.Args[0])
	constInt := func(e ast.Expr) (int, bool) {
		tv, ok := info.Types[e]
		if !ok || tv.Value == nil {
			return 0, false
		}
		v := 0
		if _, err := sscanInt(tv.Value.String(), &v); err != nil {
			return 0, false
		}
		return v, true
	}
	switch lp := loop.(type) {
	case nil:
		fail("no-loop", "the sort of the merged levels is not inside a loop over the levels: only one level would be sorted")
	case *ast.ForStmt:
		// for i := c0; i < len(X); i++ { sort(X[i]) }
		var iv types.Object
		c0 := -1
		if as, ok := lp.Init.(*ast.AssignStmt); ok && len(as.Lhs) == 1 && len(as.Rhs) == 1 {
			iv = prog.IdentObj(info, as.Lhs[0])
			if v, ok := constInt(as.Rhs[0]); ok {
				c0 = v
			}
		}
		okCond := false
		if b, ok := ast.Unparen(lp.Cond).(*ast.BinaryExpr); ok && iv != nil && prog.IdentObj(info, b.X) == iv {
			if l, ok := linearOf(info, nil, b.Y); ok {
				var lenKey string
				for k := range l {
					if k != "" {
						lenKey = k
					}
				}
				isLen := false
				inspect(b.Y, func(m ast.Node) bool {
					if c, ok := m.(*ast.CallExpr); ok {
						if id, ok := c.Fun.(*ast.Ident); ok && id.Name == "len" && len(c.Args) == 1 && isLevels(c.Args[0]) {
							isLen = true
						}
					}
					return true
				})
				if isLen && lenKey != "" && l[lenKey] == 1 && ((b.Op == token.LSS && l[""] == 0) || (b.Op == token.LEQ && l[""] == -1)) {
					okCond = true
				}
				// definite deviations of an upward counting loop bounded by len(levels)
				if inc, isInc := lp.Post.(*ast.IncDecStmt); isInc && inc.Tok == token.INC && isLen && lenKey != "" && l[lenKey] == 1 && !okCond {
					switch {
					case b.Op == token.GTR || b.Op == token.GEQ || b.Op == token.EQL:
						fail("cond", "the loop around the level sort runs while i %s len(levels): starting below the length it sorts no level at all", b.Op)
						return
					case (b.Op == token.LSS && l[""] < 0) || (b.Op == token.LEQ && l[""] < -1):
						fail("end", "the loop around the level sort stops before the last level: the deepest levels stay in handle order although they are binary-searched")
						return
					}
				}
			}
		}
		okPost := false
		if inc, ok := lp.Post.(*ast.IncDecStmt); ok && inc.Tok == token.INC && prog.IdentObj(info, inc.X) == iv {
			okPost = true
		}
		okArg := false
		if ix, ok := arg.(*ast.IndexExpr); ok && isLevels(ix.X) && iv != nil && prog.IdentObj(info, ix.Index) == iv {
			okArg = true
		}
		switch {
		case iv == nil || !okCond || !okPost:
			r.Error("undecided: %s: the loop around the level sort is not `for i := c; i < len(levels); i++`", f.Name())
		case c0 == 0:
			fail("level0", "the sort also reorders level 0 by start key: level 0 tables overlap and are searched newest first, so their order must stay the flush order")
		case c0 != 1:
			fail("start", "the sort starts at level %d: levels 1..%d stay in handle order although they are binary-searched", c0, c0-1)
		case !okArg:
			fail("index", "the slice that is sorted is not levels[i] for the loop index i")
		}
	case *ast.RangeStmt:
		src := ast.Unparen(lp.X)
		offset := 0 // index of the first ranged element within Levels
		full := isLevels(src)
		if sl, ok := src.(*ast.SliceExpr); ok && isLevels(sl.X) && sl.High == nil && sl.Low != nil {
			if v, ok := constInt(sl.Low); ok {
				offset, full = v, true
			}
		}
		if !full {
			r.Error("undecided: %s: the level sort ranges over something other than the composite document's levels", f.Name())
			return
		}
		iv, vv := prog.IdentObj(info, lp.Key), types.Object(nil)
		if lp.Value != nil {
			vv = prog.IdentObj(info, lp.Value)
		}
		argOff := -1 << 30
		if vv != nil && prog.IdentObj(info, arg) == vv {
			argOff = offset
		} else if ix, ok := arg.(*ast.IndexExpr); ok && isLevels(ix.X) && iv != nil {
			if l, ok := linearOf(info, nil, ix.Index); ok && l[iv.Name()] == 1 && len(l) <= 2 {
				argOff = l[""]
			}
		}
		if argOff == -1<<30 {
			fail("index", "the slice that is sorted is neither the ranged level nor levels[i+k]")
			return
		}
		// first level actually sorted = argOff (when ranging from `offset`, element j is Levels[offset+j]; sorted is Levels[j+argOff])
		skipsZero := false
		if offset == 0 && argOff == 0 {
			// needs a guard that skips index 0
			inspect(lp.Body, func(m ast.Node) bool {
				if is, ok := m.(*ast.IfStmt); ok {
					if b, ok := ast.Unparen(is.Cond).(*ast.BinaryExpr); ok && iv != nil && prog.IdentObj(info, b.X) == iv {
						if v, ok := constInt(b.Y); ok {
							if (b.Op == token.EQL && v == 0) || (b.Op == token.LSS && v == 1) {
								for _, st := range is.Body.List {
									if br, ok := st.(*ast.BranchStmt); ok && br.Tok == token.CONTINUE && is.End() < call.Pos() {
										skipsZero = true
									}
								}
							}
							if ((b.Op == token.GTR && v == 0) || (b.Op == token.GEQ && v == 1) || (b.Op == token.NEQ && v == 0)) && is.Body.Pos() < call.Pos() && call.End() < is.Body.End() {
								skipsZero = true
							}
						}
					}
				}
				return true
			})
		}
		switch {
		case argOff != offset:
			fail("index", "the loop visits levels %d.. but sorts levels[i%+d]: the last level(s) merged from several checkpoints stay in handle order although they are binary-searched (and level %d is reordered)", offset, argOff, argOff)
		case offset == 0 && !skipsZero:
			fail("level0", "the sort also reorders level 0 by start key: level 0 tables overlap and are searched newest first, so their order must stay the flush order")
		case offset > 1:
			fail("start", "the sort starts at level %d: levels 1..%d stay in handle order although they are binary-searched", offset, offset-1)
		}
	}
	// comparator: ascending by StartKey
	if len(call.Args) >= 2 {
		if lit, ok := ast.Unparen(call.Args[1]).(*ast.FuncLit); ok && len(lit.Type.Params.List) >= 1 {
			var ps []types.Object
			for _, fl := range lit.Type.Params.List {
				for _, n := range fl.Names {
					ps = append(ps, info.Defs[n])
				}
			}
			okCmp := false
			inspect(lit.Body, func(m ast.Node) bool {
				c, ok := m.(*ast.CallExpr)
				if !ok || len(c.Args) != 2 || len(ps) != 2 {
					return true
				}
				if sel, ok := ast.Unparen(c.Fun).(*ast.SelectorExpr); ok && sel.Sel.Name == "Compare" {
					a, aok := ast.Unparen(c.Args[0]).(*ast.SelectorExpr)
					b, bok := ast.Unparen(c.Args[1]).(*ast.SelectorExpr)
					if aok && bok && a.Sel.Name == "StartKey" && b.Sel.Name == "StartKey" && prog.IdentObj(info, a.X) == ps[0] && prog.IdentObj(info, b.X) == ps[1] {
						okCmp = true
					}
				}
				return true
			})
			if !okCmp {
				fail("order", "the merged levels are not sorted ascending by StartKey (Compare(a.StartKey, b.StartKey))")
			}
		}
	}
}

// startsEmpty: the local slice obj is empty when the loop starts: outside the loop it is defined
// exactly once, as make(T, 0[, cap]), an empty literal, nil, or a `var` without value.
func startsEmpty(info *types.Info, body ast.Node, obj types.Object, loop ast.Node) bool {
	n, ok := 0, true
	ast.Inspect(body, func(nd ast.Node) bool {
		if nd == loop {
			return false
		}
		switch x := nd.(type) {
		case *ast.AssignStmt:
			for i, l := range x.Lhs {
				if prog.IdentObjPlain(info, l) != obj {
					continue
				}
				n++
				if len(x.Lhs) != len(x.Rhs) {
					ok = false
					continue
				}
				rhs := ast.Unparen(x.Rhs[i])
				switch y := rhs.(type) {
				case *ast.CallExpr:
					id, isID := y.Fun.(*ast.Ident)
					if !isID || id.Name != "make" || len(y.Args) < 2 {
						ok = false
					} else if tv, has := info.Types[y.Args[1]]; !has || tv.Value == nil || tv.Value.String() != "0" {
						ok = false
					}
				case *ast.CompositeLit:
					if len(y.Elts) != 0 {
						ok = false
					}
				default:
					if tv, has := info.Types[rhs]; !has || !tv.IsNil() {
						ok = false
					}
				}
			}
		case *ast.ValueSpec:
			for i, nm := range x.Names {
				if info.Defs[nm] == obj {
					n++
					if i < len(x.Values) {
						ok = false
					}
				}
			}
		}
		return true
	})
	return ok && n == 1
}
