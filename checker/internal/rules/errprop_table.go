package rules

// Instances of the error-propagation template. The accepted exceptions were confirmed by
// reading each site; every entry names one construct and gives the reason.
func init() {
	registerErrProp(errPropSpec{ID: "C17.p", Pkg: "dkv/fields", Props: []string{"C17", "C07", "C08"}, Floor: 10,
		What:   "the record codec (dkv/fields)",
		Accept: map[string]string{}})
	registerErrProp(errPropSpec{ID: "C17.q", Pkg: "dkv/sst", Props: []string{"C17", "C07", "C18"}, Floor: 25,
		What: "the table reader / writer, search index, level list and compactor (dkv/sst)",
		Accept: map[string]string{
			"ignored:NewTableFromDocument:p.deleteFunc":                              "runs in a GC cleanup: there is no caller to return to; the failed delete is logged and the file stays (never a premature delete)",
			"ignored:NewTableFromDocument:dkv/kv.DataOwnership.ExclusivelyOwnsTable": "GC cleanup: when ownership cannot be determined the file is NOT deleted (the safe side for C09) and the failure is logged",
			"ignored:NewTable:f": "same GC cleanup for tables created by the writer; logged",
		}})
	registerErrProp(errPropSpec{ID: "C17.r", Pkg: "dkv/wal", Props: []string{"C17", "C08"}, Floor: 10,
		What:   "the write-ahead log reader / writer (dkv/wal)",
		Accept: map[string]string{}})
	registerErrProp(errPropSpec{ID: "C08.p", Pkg: "dkv/recovery", Props: []string{"C08", "C06", "C09", "C14"}, Floor: 8,
		What:   "checkpoint lists and recovery (dkv/recovery)",
		Accept: map[string]string{}})
	registerErrProp(errPropSpec{ID: "C08.q", Pkg: "dkv", Props: []string{"C08", "C06", "C07"}, Floor: 8,
		What:   "the database front end (dkv)",
		Accept: map[string]string{}})
	registerErrProp(errPropSpec{ID: "C12.p", Pkg: "storage/snapshots", Props: []string{"C12", "C13", "C14"}, Floor: 15,
		What: "the job snapshot store and savepoint artifacts (storage/snapshots)",
		Accept: map[string]string{
			"ignored:(*Store).AddOperatorSnapshot:storage/snapshots.(*jobSnapshot).addOperatorSnapshot": "duplicate / foreign acknowledgements are rejected by addOperatorSnapshot and deliberately only logged (they must not fail the caller or change the snapshot)",
			"ignored:(*Store).finishSnapshotAsync:storage/locations.StorageLocation.Remove":             "cleanup of obsolete snapshot files after the new one is durable: logged; LoadCheckpoint picks the highest id, so a leftover file is harmless",
		}})
	registerErrProp(errPropSpec{ID: "C01.p", Pkg: "workers/operator", Props: []string{"C01", "C03", "C10", "C02"}, Floor: 20,
		What: "the operator (workers/operator)",
		Accept: map[string]string{
			"ignored:(*Operator).Start:proto.Job.RegisterOperator":                 "registration poller: logged and retried on the next tick",
			"ignored:(*Operator).Start:workers/operator.(*Operator).processEvents": "top of the event-loop goroutine: logged, then the operator is cancelled",
			"discarded:(*Operator).Start:proto.Job.DeregisterOperator":             "best effort at shutdown; the job purges silent nodes by heartbeat",
		}})
	registerErrProp(errPropSpec{ID: "C04.p", Pkg: "workers/sourcerunner", Props: []string{"C04", "C16", "C11"}, Floor: 8,
		What: "the source runner (workers/sourcerunner)",
		Accept: map[string]string{
			"discarded:New:proto.Job.NotifySplitsFinished":                                            "hook without an error result; affects only when child splits become available (liveness)",
			"ignored:(*SourceRunner).Start:proto.Job.RegisterSourceRunner":                            "registration poller: logged and retried on the next tick",
			"ignored:(*SourceRunner).Start:proto.Job.DeregisterSourceRunner":                          "best effort at shutdown; logged",
			"ignored:(*SourceRunner).HandleDeploy:workers/sourcerunner.(*SourceRunner).processEvents": "top of the event-loop goroutine: logged, then the runner's context is cancelled",
		}})
	registerErrProp(errPropSpec{ID: "C15.p", Pkg: "jobs", Props: []string{"C15", "C13"}, Floor: 8,
		What: "the job controller (jobs)",
		Accept: map[string]string{
			"ignored:New:jobs.(*Assembly).UpdateRetainedCheckpoints":                                                 "top of the retention goroutine: logged; a missed retention update makes operators keep MORE checkpoints, never fewer",
			"discarded:(*Job).Close:connectors.SourceSplitter.Close":                                                 "shutdown path, nothing to do with the error",
			"ignored:(*Job).processTaskQueue:update":                                                                 "top of the serial task loop: the task's error is logged and the loop goes on; tasks re-evaluate the cluster themselves",
			"ignored:(*Job).start:storage/snapshots.(*Store).CreateCheckpoint:is(snapshots.ErrCheckpointInProgress)": "the only error CreateCheckpoint returns; the ticker retries in a second",
			"ignored:(*Job).start:jobs.(*Assembly).StartCheckpoint":                                                  "ticker callback: a failed checkpoint start is logged and the next tick retries; liveness detection handles a dead member",
		}})
	registerErrProp(errPropSpec{ID: "C16.p", Pkg: "connectors/kinesis", Props: []string{"C16"}, Floor: 8,
		What:   "the Kinesis splitter / reader (connectors/kinesis)",
		Accept: map[string]string{}})
	registerErrProp(errPropSpec{ID: "C20.p", Pkg: "batching", Props: []string{"C20", "C04"}, Floor: 1,
		What:   "batching",
		Accept: map[string]string{}})
	registerErrProp(errPropSpec{ID: "C17.s", Pkg: "dkv/bloom", Props: []string{"C17", "C07"}, Floor: 3,
		What:   "the bloom filter codec (dkv/bloom)",
		Accept: map[string]string{}})
	registerErrProp(errPropSpec{ID: "C17.t", Pkg: "dkv/storage", Props: []string{"C17", "C08", "C09"}, Floor: 10,
		What: "the DKV file abstraction (dkv/storage)",
		Accept: map[string]string{
			"discarded:(*S3Object).ReadAt:io.Closer.Close": "closing a fully read HTTP body; the data was already read without error",
		}})
	registerErrProp(errPropSpec{ID: "C14.p", Pkg: "storage/locations", Props: []string{"C14", "C13", "C09"}, Floor: 10,
		What: "the storage locations used for snapshots and savepoint artifacts (storage/locations)",
		Accept: map[string]string{
			"ignored:(*LocalDirectory).List:path/filepath.WalkDir:is(errStop)": "errStop is the function's own 'consumer stopped / directory absent' signal, not a failure",
			"ignored:(*LocalDirectory).Remove:os.Remove:is(&pathErr)":          "deliberate: a missing file is not an error, to match the S3 location (stated in the code)",
		}})
}
