package rules

import (
	"fmt"
	"go/ast"
	"go/token"
	"go/types"

	"verif/checker/internal/orderdom"
	"verif/checker/internal/pathsim"
	"verif/checker/internal/prog"
)

type loopInfo struct {
	Stmt ast.Stmt
	Body *ast.BlockStmt
	Dir  direction
	Pos  token.Pos
}

// loopsOver finds range / index loops in body whose iterated collection satisfies isSrc.
func loopsOver(info *types.Info, body ast.Node, isSrc func(src ast.Expr) bool) []loopInfo {
	var out []loopInfo
	inspect(body, func(nd ast.Node) bool {
		switch s := nd.(type) {
		case *ast.RangeStmt:
			src, dir := rangeSource(info, s.X)
			src = resolveLocal(info, body, src)
			// a local may itself be defined as slices.Backward(...)
			if inner, d2 := rangeSource(info, src); d2 == dirBackward {
				src = resolveLocal(info, body, inner)
				if dir == dirBackward {
					dir = dirForward
				} else {
					dir = dirBackward
				}
			}
			if isSrc(src) {
				out = append(out, loopInfo{Stmt: s, Body: s.Body, Dir: dir, Pos: s.Pos()})
			}
		case *ast.ForStmt:
			// index loop: body indexes a collection satisfying isSrc with the loop variable
			if s.Init == nil || s.Post == nil {
				return true
			}
			as, ok := s.Init.(*ast.AssignStmt)
			if !ok || len(as.Lhs) != 1 {
				return true
			}
			iv := prog.IdentObj(info, as.Lhs[0])
			if iv == nil {
				return true
			}
			found := false
			inspect(s.Body, func(m ast.Node) bool {
				if ix, ok := m.(*ast.IndexExpr); ok && prog.IdentObj(info, ix.Index) == iv {
					if isSrc(resolveLocal(info, body, ix.X)) {
						found = true
					}
				}
				return true
			})
			if found {
				out = append(out, loopInfo{Stmt: s, Body: s.Body, Dir: indexLoopDirection(s), Pos: s.Pos()})
			}
		}
		return true
	})
	return out
}

func init() {
	prop("C07",
		"(a,b) point lookups that stop at the first hit visit memtables and level-0 tables newest first; (c) Get/ScanPrefix read the memtables before capturing the level list (data only moves memtable -> SST); (d) the flush task swaps the level list, dequeues the flushed memtables and truncates the WAL in one db.mu critical section, applying the change set to the current level list; (e) DB.sstables and memtable.List.tables are accessed under their locks; (f) tombstones survive until after the last merge of a scan; (g) the merge keeps the entry with the larger sequence number and orders by key; (h) the unique binary search uses one consistent interval convention; (i) table range predicates equal closed-interval membership; (j) every write takes a strictly larger sequence number; (v) the entries an SST reader hands out carry the record's key, sequence number and value, and are marked deleted exactly when they carry no value.",
		"the k-way merge / heap implementation itself; bloom filter and footer loading under concurrency; equality with a reference map over histories.")

	register(&Obligation{ID: "C07.a", Props: []string{"C07", "C03"}, Template: "first-hit-direction",
		Desc: "memtable.(*List).Get returns the first hit, so it must visit the tables newest first (Rotate appends the newest table at the end)",
		Run: func(r *Run) {
			f := r.P.Func("dkv/memtable", "(*List).Get")
			tables := r.P.Field("dkv/memtable", "List", "tables")
			info := f.Pkg.TypesInfo
			isTables := func(src ast.Expr) bool {
				if prog.SelField(info, src) == tables {
					return true
				}
				if call, ok := ast.Unparen(src).(*ast.CallExpr); ok {
					if fn := r.P.CalleeFunc(info, call); fn != nil {
						return r.returnsField(r.P.FuncInfoOf(fn), tables)
					}
				}
				return false
			}
			// the recency order itself: Rotate appends
			r.checkAppendsNewest(r.P.Func("dkv/memtable", "(*List).Rotate"), tables)
			loops := loopsOver(info, f.Decl.Body, isTables)
			if len(loops) == 0 {
				r.Error("undecided: %s no longer iterates List.tables; the first-hit rule cannot be applied", f.Name())
				return
			}
			for _, l := range loops {
				r.Site(l.Pos, f.Name()+": loop over List.tables, "+l.Dir.String())
				if hasSuccessReturn(info, l.Body) && l.Dir != dirBackward {
					r.Fail(f.Name()+":range(tables)", l.Pos, nil, "the loop returns the first table that has the key but visits tables %s: a sealed memtable's older value masks the active memtable's newer one", l.Dir)
				}
			}
		}})

	register(&Obligation{ID: "C07.b", Props: []string{"C07", "C03"}, Template: "first-hit-direction",
		Desc: "sst.(*LevelList).Get returns the first hit of AllTablesForKey, so AllTablesForKey must yield level-0 tables newest first (flushes append newer tables at the end of level 0), and level 0 before deeper levels",
		Run: func(r *Run) {
			get := r.P.Func("dkv/sst", "(*LevelList).Get")
			atfk := r.P.Func("dkv/sst", "(*LevelList).AllTablesForKey")
			at := r.P.FuncObj("dkv/sst", "(*LevelList).At")
			levels := r.P.Field("dkv/sst", "LevelList", "levels")
			descend := r.P.FuncObj("dkv/sst", "(*LevelList).DescendLevels")
			info := get.Pkg.TypesInfo
			// Is Get a first-hit loop over AllTablesForKey?
			gl := loopsOver(info, get.Decl.Body, func(src ast.Expr) bool {
				call, ok := ast.Unparen(src).(*ast.CallExpr)
				return ok && r.P.CalleeFunc(info, call) == atfk.Obj
			})
			if len(gl) == 0 {
				r.Error("undecided: %s no longer ranges over AllTablesForKey", get.Name())
				return
			}
			firstHit := false
			for _, l := range gl {
				r.Site(l.Pos, get.Name()+": loop over AllTablesForKey")
				if hasSuccessReturn(info, l.Body) {
					firstHit = true
					if l.Dir == dirBackward {
						r.Fail(get.Name()+":range(AllTablesForKey)", l.Pos, nil, "Get walks AllTablesForKey backwards: deeper (older) levels would be consulted before level 0")
					}
				}
			}
			if !firstHit {
				// accepted alternative: consult every candidate table and keep the entry with
				// the highest sequence number
				r.Note("LevelList.Get is not a first-hit loop; checking that it keeps the entry with the highest sequence number")
				for _, l := range gl {
					r.checkKeepsHighestSeq(get, l)
				}
				return
			}
			// level-0 expression: ll.At(0)... or ll.levels[0]...
			isL0 := func(src ast.Expr) bool {
				found := false
				inspect(src, func(nd ast.Node) bool {
					switch x := nd.(type) {
					case *ast.CallExpr:
						if r.P.CalleeFunc(info, x) == at && len(x.Args) == 1 {
							if tv, ok := info.Types[x.Args[0]]; ok && tv.Value != nil && tv.Value.String() == "0" {
								found = true
							}
						}
					case *ast.IndexExpr:
						if prog.SelField(info, x.X) == levels {
							if tv, ok := info.Types[x.Index]; ok && tv.Value != nil && tv.Value.String() == "0" {
								found = true
							}
						}
					}
					return true
				})
				return found
			}
			var body ast.Node = atfk.Decl.Body
			l0 := loopsOver(info, body, isL0)
			if len(l0) == 0 {
				r.Error("undecided: %s has no loop over level 0", atfk.Name())
				return
			}
			var l0end token.Pos
			for _, l := range l0 {
				r.Site(l.Pos, atfk.Name()+": loop over level 0, "+l.Dir.String())
				l0end = l.Stmt.End()
				if l.Dir != dirBackward {
					r.Fail(atfk.Name()+":range(L0)", l.Pos, nil, "level-0 tables are yielded %s while LevelList.Get stops at the first hit: an older flushed value masks a newer one", l.Dir)
				}
			}
			// deeper levels after level 0
			deeper := loopsOver(info, body, func(src ast.Expr) bool {
				call, ok := ast.Unparen(src).(*ast.CallExpr)
				return ok && r.P.CalleeFunc(info, call) == descend
			})
			for _, l := range deeper {
				r.Site(l.Pos, atfk.Name()+": loop over deeper levels")
				if l.Pos < l0end {
					r.Fail(atfk.Name()+":order(L0,L1+)", l.Pos, nil, "deeper levels are yielded before level 0")
				}
				if l.Dir == dirBackward {
					r.Fail(atfk.Name()+":range(L1+)", l.Pos, nil, "deeper levels are walked from the base level upwards: older data is consulted first")
				}
				// DescendLevels(1): starts right below level 0
				call := ast.Unparen(l.Stmt.(*ast.RangeStmt).X).(*ast.CallExpr)
				if len(call.Args) < 1 {
					r.Fail(atfk.Name()+":DescendLevels-arg", l.Pos, nil, "DescendLevels is called without the offset 1: level 0 would be binary-searched although its tables overlap")
				} else if tv, ok := info.Types[call.Args[0]]; !ok || tv.Value == nil || tv.Value.String() != "1" || len(call.Args) > 1 {
					r.Fail(atfk.Name()+":DescendLevels-arg", l.Pos, nil, "DescendLevels must cover exactly levels 1..max (argument list is not `1`)")
				}
			}
			if len(deeper) == 0 {
				r.Fail(atfk.Name()+":no-deeper-levels", atfk.Decl.Pos(), nil, "AllTablesForKey no longer visits levels >= 1")
			}
		}})

	register(&Obligation{ID: "C07.c", Props: []string{"C07", "C03"}, Template: "must-precede",
		Desc: "dkv.(*DB).Get and ScanPrefix read the memtables before they capture the current level list: a flush moves data memtable -> SST atomically, so the other order can miss a key in both",
		Run: func(r *Run) {
			cur := r.P.FuncObj("dkv", "(*DB).currentSSTables")
			sst := r.P.Field("dkv", "DB", "sstables")
			for _, pair := range [][2]string{{"(*DB).Get", "(*List).Get"}, {"(*DB).ScanPrefix", "(*List).ScanPrefix"}} {
				f := r.P.Func("dkv", pair[0])
				mt := r.P.FuncObj("dkv/memtable", pair[1])
				isCapture := func(c *pathsim.Ctx, ev *pathsim.Event) bool {
					if callTo(cur)(c, ev) {
						return true
					}
					return ev.Kind == pathsim.EvField && ev.Field == sst
				}
				spec := &pathsim.Spec{Watch: map[*types.Var]bool{sst: true}}
				n := 0
				spec.Step = func(c *pathsim.Ctx, s pathsim.State, ev *pathsim.Event) []pathsim.State {
					if callTo(mt)(c, ev) {
						s.A = 1
						return []pathsim.State{s}
					}
					if isCapture(c, ev) {
						n++
						if s.A == 0 {
							c.Violate(ev.Pos, "[sstables<-memtables] the level list is captured before the memtables are read: a flush completing in between removes the key from the memtables while the captured level list does not contain it yet")
						}
					}
					return nil
				}
				r.Sim(f.Decl, f.Name(), spec)
				r.Site(f.Decl.Pos(), f.Name()+": memtable read precedes level-list capture")
				if n == 0 {
					r.Error("undecided: %s does not capture the level list", f.Name())
				}
			}
			// the memtable read is a read at call time: List.ScanPrefix / List.Get take their snapshot of
			// the memtable queue in the function itself, not inside an iterator they return (a lazy
			// snapshot is taken when the caller starts ranging, after the level list was captured)
			tablesF := r.P.Field("dkv/memtable", "List", "tables")
			snap := r.P.TryFunc("dkv/memtable", "(*List).tablesSnap")
			for _, name := range []string{"(*List).ScanPrefix", "(*List).Get"} {
				lf := r.P.Func("dkv/memtable", name)
				li := lf.Pkg.TypesInfo
				eager, lazy := 0, 0
				var lazyPos token.Pos
				var walk func(n ast.Node, inLit bool)
				walk = func(n ast.Node, inLit bool) {
					ast.Inspect(n, func(m ast.Node) bool {
						switch x := m.(type) {
						case *ast.FuncLit:
							if m != n && !isIIFE(r.P, x) {
								walk(x.Body, true)
								return false
							}
						case *ast.CallExpr:
							if snap != nil && r.P.CalleeFunc(li, x) == snap.Obj {
								if inLit {
									lazy++
									lazyPos = x.Pos()
								} else {
									eager++
								}
							}
						case *ast.SelectorExpr:
							if prog.SelField(li, x) == tablesF {
								if inLit {
									lazy++
									lazyPos = x.Pos()
								} else {
									eager++
								}
							}
						}
						return true
					})
				}
				walk(lf.Decl.Body, false)
				r.Site(lf.Decl.Pos(), lf.Name()+": memtable queue snapshot at call time")
				if lazy > 0 && eager == 0 {
					r.Fail(lf.Name()+":lazy-snapshot", lazyPos, nil, "%s reads the memtable queue only inside the iterator it returns: the snapshot is taken when the caller starts ranging, i.e. after DB.ScanPrefix captured the level list, so a flush completing in between makes the flushed entries invisible in both (lost puts, deleted entries reappearing)", lf.Name())
				}
				if lazy == 0 && eager == 0 {
					r.Error("undecided: %s does not read the memtable queue", lf.Name())
				}
			}
		}})

	register(&Obligation{ID: "C07.d", Props: []string{"C07", "C18", "C08"}, Template: "atomic-section",
		Desc: "rotateMemtable's flush task: db.sstables = db.sstables.NewWithChangeSet(cs), mtables.Dequeue and wal.Truncate happen in one db.mu write-locked section, and every level-list swap applies the change set to db.sstables read inside that section",
		Run: func(r *Run) {
			f := r.P.Func("dkv", "(*DB).rotateMemtable")
			mu := r.P.Field("dkv", "DB", "mu")
			sstF := r.P.Field("dkv", "DB", "sstables")
			deq := r.P.FuncObj("dkv/memtable", "(*List).Dequeue")
			trunc := r.P.FuncObj("dkv/wal", "(*Writer).Truncate")
			nwcs := r.P.FuncObj("dkv/sst", "(*LevelList).NewWithChangeSet")
			info := f.Pkg.TypesInfo
			swaps := 0
			for _, lit := range allLitsIn(f.Decl.Body) {
				if isIIFE(r.P, lit) {
					continue // runs as part of the enclosing task, simulated there
				}
				hasSwap := false
				inspect(lit.Body, func(nd ast.Node) bool {
					if inner, ok := nd.(*ast.FuncLit); ok && inner != lit && !isIIFE(r.P, inner) {
						return false
					}
					if as, ok := nd.(*ast.AssignStmt); ok {
						for _, l := range as.Lhs {
							if prog.SelField(info, l) == sstF {
								hasSwap = true
							}
						}
					}
					return true
				})
				if !hasSwap {
					continue
				}
				isFlush := r.exprCallsShallow(info, lit.Body, deq)
				const (
					bitSwap  = 1
					bitDeq   = 2
					bitTrunc = 4
				)
				spec := &pathsim.Spec{Step: func(c *pathsim.Ctx, s pathsim.State, ev *pathsim.Event) []pathsim.State {
					if ev.Kind == pathsim.EvFuncLit {
						return nil
					}
					if ev.Kind == pathsim.EvCall && ev.Call != nil {
						if sel, ok := ast.Unparen(ev.Call.Fun).(*ast.SelectorExpr); ok && prog.SelField(c.Info, sel.X) == mu && !ev.Deferred {
							switch sel.Sel.Name {
							case "Lock":
								s.A, s.B = 1, 0
								return []pathsim.State{s}
							case "RLock":
								s.A, s.B = 0, 0
								return []pathsim.State{s}
							case "Unlock", "RUnlock":
								if isFlush && s.B != 0 && s.B != bitSwap|bitDeq|bitTrunc {
									c.Violate(ev.Pos, "[split-section] the critical section ends having done only part of {level-list swap, memtable dequeue, WAL truncate}: a reader or checkpoint can observe the intermediate state")
								}
								s.A, s.B = 0, 0
								return []pathsim.State{s}
							}
						}
						fn, _ := ev.Callee.(*types.Func)
						switch fn {
						case deq:
							if s.A != 1 {
								c.Violate(ev.Pos, "[dequeue-unlocked] sealed memtables are dequeued outside the db.mu write-locked section")
							} else if s.B&bitSwap == 0 {
								c.Violate(ev.Pos, "[dequeue-before-swap] sealed memtables are dequeued before the level list containing their data is swapped in")
							}
							s.B |= bitDeq
							return []pathsim.State{s}
						case trunc:
							if s.A != 1 {
								c.Violate(ev.Pos, "[truncate-unlocked] the WAL is truncated outside the db.mu write-locked section: a concurrent Checkpoint can rotate a WAL that misses entries not yet in its level list")
							} else if s.B&bitSwap == 0 {
								c.Violate(ev.Pos, "[truncate-before-swap] the WAL is truncated before the level list is swapped in")
							}
							s.B |= bitTrunc
							return []pathsim.State{s}
						}
					}
					if ev.Kind == pathsim.EvAssign {
						for i, l := range ev.Lhs {
							if prog.SelField(c.Info, l) != sstF {
								continue
							}
							swaps++
							if s.A != 1 {
								c.Violate(ev.Pos, "[swap-unlocked] db.sstables is replaced outside the db.mu write-locked section")
							}
							// receiver of NewWithChangeSet must be db.sstables itself
							if i < len(ev.Rhs) {
								call, ok := ast.Unparen(ev.Rhs[i]).(*ast.CallExpr)
								if !ok || c.P.CalleeFunc(c.Info, call) != nwcs {
									c.Violate(ev.Pos, "[swap-source] db.sstables is replaced by something other than NewWithChangeSet applied to the current list")
								} else if sel, ok := ast.Unparen(call.Fun).(*ast.SelectorExpr); !ok || prog.SelField(c.Info, sel.X) != sstF {
									c.Violate(ev.Pos, "[stale-receiver] the change set is applied to a level list captured earlier, not to db.sstables read inside the critical section: tables flushed or compacted in between are lost")
								}
							}
							s.B |= bitSwap
							return []pathsim.State{s}
						}
					}
					if (ev.Kind == pathsim.EvReturn || ev.Kind == pathsim.EvExit) && s.A == 1 {
						c.Violate(ev.Pos, "[lock-leak] the task returns with db.mu held")
					}
					return nil
				}}
				r.Sim(lit, f.Name()+"$task", spec)
				r.Site(lit.Pos(), f.Name()+": task literal swapping db.sstables")
			}
			if swaps < 2 {
				r.Error("undecided: expected the flush and the compaction task to swap db.sstables (found %d swaps)", swaps)
			}
			// Truncate's argument is the LatestSeqNum of db.sstables (after the swap)
			inspect(f.Decl.Body, func(nd ast.Node) bool {
				call, ok := nd.(*ast.CallExpr)
				if !ok || r.P.CalleeFunc(info, call) != trunc {
					return true
				}
				r.Site(call.Pos(), "wal.Truncate argument")
				lsn := r.P.Field("dkv/sst", "LevelList", "LatestSeqNum")
				ok2 := false
				if len(call.Args) == 1 {
					if sel, ok := ast.Unparen(call.Args[0]).(*ast.SelectorExpr); ok && prog.SelField(info, sel) == lsn && prog.SelField(info, sel.X) == sstF {
						ok2 = true
					}
				}
				if !ok2 {
					r.Fail(f.Name()+":truncate-arg", call.Pos(), nil, "wal.Truncate is not given db.sstables.LatestSeqNum: segments whose entries are not in SST files could be dropped (or flushed ones kept forever)")
				}
				return true
			})
		}})

	register(&Obligation{ID: "C07.e", Props: []string{"C07", "C08"}, Template: "guarded-by",
		Desc: "DB.sstables is accessed under db.mu (writes under the write lock); memtable.List.tables under tablesMu",
		Run: func(r *Run) {
			r.guardedBy(guardSpec{
				Type:   "DB",
				Mutex:  r.P.Field("dkv", "DB", "mu"),
				RW:     true,
				Fields: []*types.Var{r.P.Field("dkv", "DB", "sstables")},
				Exempt: map[string]string{
					"dkv.New":         "constructor",
					"dkv.(*DB).Start": "runs inside dkv.Open before the DB is shared with any goroutine",
				},
			})
			r.guardedBy(guardSpec{
				Type:   "memtable.List",
				Mutex:  r.P.Field("dkv/memtable", "List", "tablesMu"),
				RW:     true,
				Fields: []*types.Var{r.P.Field("dkv/memtable", "List", "tables")},
				Exempt: map[string]string{"dkv/memtable.NewList": "constructor"},
			})
			r.Floor(6, "functions touching DB.sstables / List.tables")
		}})

	register(&Obligation{ID: "C07.g", Props: []string{"C07", "C03", "C18", "C19"}, Template: "order-domain",
		Desc: "kv.keepNewest returns the argument with the larger sequence number; kv.AscendingEntries is the three-way byte order of the keys; MergeEntries passes exactly these two to mergesort.Merge",
		Run: func(r *Run) {
			kn := r.P.Func("dkv/kv", "keepNewest")
			r.orderDomFunc(kn, map[string]string{"a.SeqNum()": "sa", "b.SeqNum()": "sb", "a": "a", "b": "b"},
				func(e odEnv) bool { return e.Rank["sa"] != e.Rank["sb"] }, // equal sequence numbers never meet (C07.j)
				func(e odEnv) orderdom.Value {
					if e.Rank["sa"] > e.Rank["sb"] {
						return orderdom.Sym("a")
					}
					return orderdom.Sym("b")
				}, "the entry with the larger SeqNum")
			ae := r.P.Func("dkv/kv", "AscendingEntries")
			r.orderDomFunc(ae, map[string]string{"a.Key()": "ka", "b.Key()": "kb"}, nil,
				func(e odEnv) orderdom.Value {
					switch {
					case e.Rank["ka"] < e.Rank["kb"]:
						return orderdom.Int(-1)
					case e.Rank["ka"] > e.Rank["kb"]:
						return orderdom.Int(1)
					}
					return orderdom.Int(0)
				}, "bytes.Compare(a.Key(), b.Key())")
			me := r.P.Func("dkv/kv", "MergeEntries")
			merge := r.P.FuncObj("dkv/mergesort", "Merge")
			info := me.Pkg.TypesInfo
			okArgs := false
			inspect(me.Decl.Body, func(nd ast.Node) bool {
				call, ok := nd.(*ast.CallExpr)
				if !ok || r.P.CalleeFunc(info, call) != merge || len(call.Args) != 3 {
					return true
				}
				r.Site(call.Pos(), "MergeEntries -> mergesort.Merge(iters, AscendingEntries, keepNewest)")
				if prog.IdentObj(info, call.Args[1]) == types.Object(ae.Obj) && prog.IdentObj(info, call.Args[2]) == types.Object(kn.Obj) && r.isParam(me, call.Args[0], 0) {
					okArgs = true
				}
				return true
			})
			if !okArgs {
				r.Fail(me.Name()+":merge-args", me.Decl.Pos(), nil, "MergeEntries does not call mergesort.Merge(iters, AscendingEntries, keepNewest)")
			}
		}})

	register(&Obligation{ID: "C07.h", Props: []string{"C07", "C19", "C06", "C03"}, Template: "binary-search-consistency",
		Desc: "sliceu.SearchUnique narrows one consistent interval convention (half-open: low<high with high=mid; or closed: low<=high with high=mid-1 and high initialised to len-1)",
		Run: func(r *Run) {
			f := r.P.Func("util/sliceu", "SearchUnique")
			r.checkBinarySearch(f)
		}})

	register(&Obligation{ID: "C07.i", Props: []string{"C07", "C17", "C03"}, Template: "order-domain",
		Desc: "sst.(*Table).RangeContainsKey is start <= key <= end; RangeKeyCompare is the three-way position of the key relative to [start,end]",
		Run: func(r *Run) {
			names := map[string]string{"t.startKey": "start", "t.endKey": "end", "key": "key"}
			side := func(e odEnv) bool { return e.Rank["start"] <= e.Rank["end"] }
			r.orderDomFunc(r.P.Func("dkv/sst", "(*Table).RangeContainsKey"), names, side,
				func(e odEnv) orderdom.Value {
					return orderdom.Bool(e.Rank["start"] <= e.Rank["key"] && e.Rank["key"] <= e.Rank["end"])
				}, "startKey <= key <= endKey")
			r.orderDomFunc(r.P.Func("dkv/sst", "(*Table).RangeKeyCompare"), names, side,
				func(e odEnv) orderdom.Value {
					switch {
					case e.Rank["key"] < e.Rank["start"]:
						return orderdom.Int(1)
					case e.Rank["key"] > e.Rank["end"]:
						return orderdom.Int(-1)
					}
					return orderdom.Int(0)
				}, "1 if key < startKey, -1 if key > endKey, else 0")
		}})

	register(&Obligation{ID: "C07.k", Props: []string{"C07", "C03", "C17"}, Template: "order-domain",
		Desc: "sst.(*Table).RangeContainsPrefix is (start <= prefix <= end) or start has the prefix or end has the prefix; RangePrefixCompare is 0 in those cases, 1 when the table starts after the prefix, -1 when it ends before it; AllTablesForPrefix binary-searches levels >= 1 with RangePrefixCompare and then walks forward while RangeContainsPrefix holds",
		Run: func(r *Run) {
			names := map[string]string{
				"t.startKey": "start", "t.endKey": "end", "prefix": "prefix",
				"bytes.HasPrefix(t.startKey, prefix)": "?startHas", "bytes.HasPrefix(t.endKey, prefix)": "?endHas",
			}
			side := func(e odEnv) bool { return e.Rank["start"] <= e.Rank["end"] }
			r.orderDomFunc(r.P.Func("dkv/sst", "(*Table).RangeContainsPrefix"), names, side,
				func(e odEnv) orderdom.Value {
					return orderdom.Bool((e.Rank["start"] <= e.Rank["prefix"] && e.Rank["prefix"] <= e.Rank["end"]) || e.Bool["?startHas"] || e.Bool["?endHas"])
				}, "start <= prefix <= end || HasPrefix(start, prefix) || HasPrefix(end, prefix)")
			r.orderDomFunc(r.P.Func("dkv/sst", "(*Table).RangePrefixCompare"), names, side,
				func(e odEnv) orderdom.Value {
					switch {
					case e.Bool["?startHas"] || e.Bool["?endHas"]:
						return orderdom.Int(0)
					case e.Rank["start"] > e.Rank["prefix"]:
						return orderdom.Int(1)
					case e.Rank["end"] < e.Rank["prefix"]:
						return orderdom.Int(-1)
					}
					return orderdom.Int(0)
				}, "0 if a bound has the prefix; 1 if start > prefix; -1 if end < prefix; else 0")
			f := r.P.Func("dkv/sst", "(*LevelList).AllTablesForPrefix")
			info := f.Pkg.TypesInfo
			rpc := r.P.FuncObj("dkv/sst", "(*Table).RangePrefixCompare")
			rcp := r.P.FuncObj("dkv/sst", "(*Table).RangeContainsPrefix")
			okSearch, okWalk := false, false
			inspect(f.Decl.Body, func(nd ast.Node) bool {
				switch x := nd.(type) {
				case *ast.CallExpr:
					if c, ok := isCallToNamed(info, x, "slices", "BinarySearchFunc"); ok && len(c.Args) == 3 {
						r.Site(c.Pos(), "AllTablesForPrefix binary search")
						if sel, ok := ast.Unparen(c.Args[2]).(*ast.SelectorExpr); ok && info.Uses[sel.Sel] == types.Object(rpc) && r.isParam(f, c.Args[1], 0) {
							okSearch = true
						}
					}
				case *ast.RangeStmt:
					// for _, t := range tables[found:] { if !t.RangeContainsPrefix(prefix) { break } ... }
					if se, isSlice := ast.Unparen(x.X).(*ast.SliceExpr); isSlice && se.Low != nil && se.High == nil {
						for _, st := range x.Body.List {
							if is, ok := st.(*ast.IfStmt); ok && r.exprCalls(info, is.Cond, rcp) && len(is.Body.List) > 0 {
								switch t := is.Body.List[len(is.Body.List)-1].(type) {
								case *ast.BranchStmt:
									if t.Tok == token.BREAK {
										okWalk = true
									}
								case *ast.ReturnStmt:
									okWalk = true
								}
							}
						}
					}
				case *ast.ForStmt:
					inc, isInc := x.Post.(*ast.IncDecStmt)
					if !isInc || inc.Tok != token.INC {
						break
					}
					if x.Cond != nil && r.exprCalls(info, x.Cond, rcp) {
						okWalk = true
					}
					// the same as `for ...; ; i++ { if <out of range> || !RangeContainsPrefix { break } ... }`
					for _, st := range x.Body.List {
						if is, ok := st.(*ast.IfStmt); ok && r.exprCalls(info, is.Cond, rcp) && len(is.Body.List) > 0 {
							switch t := is.Body.List[len(is.Body.List)-1].(type) {
							case *ast.BranchStmt:
								if t.Tok == token.BREAK {
									okWalk = true
								}
							case *ast.ReturnStmt:
								okWalk = true
							}
						}
					}
				}
				return true
			})
			if !okSearch || !okWalk {
				r.Fail(f.Name()+":shape", f.Decl.Pos(), nil, "AllTablesForPrefix must find the first table with slices.BinarySearchFunc(tables, prefix, (*Table).RangePrefixCompare) and then walk forward while RangeContainsPrefix(prefix) (search=%v walk=%v)", okSearch, okWalk)
			}
		}})

	register(&Obligation{ID: "C07.j", Props: []string{"C07", "C08", "C06"}, Template: "monotone",
		Desc: "DB.seqNum strictly increases with every Put/Delete: each write uses seqNum+1 for the WAL and the memtable and then stores it back; no other production code writes it except restore-init in Start",
		Run: func(r *Run) {
			seq := r.P.Field("dkv", "DB", "seqNum")
			for _, name := range []string{"(*DB).Put", "(*DB).Delete"} {
				f := r.P.Func("dkv", name)
				r.checkSeqBump(f, seq)
			}
			for _, fa := range r.fieldAccesses(seq) {
				if prog.IsTestSupport(fa.Use.Pkg.PkgPath) || !fa.Write {
					continue
				}
				where := r.scopeName(fa.Use.Scope)
				r.Site(fa.Use.Ident.Pos(), "DB.seqNum written in "+where)
				switch where {
				case "dkv.(*DB).Put", "dkv.(*DB).Delete", "dkv.(*DB).Start":
				default:
					r.Fail("seqNum-write<-"+where, fa.Use.Ident.Pos(), nil, "DB.seqNum is written in %s; only Put/Delete (increment) and Start (restore) may", where)
				}
			}
		}})
}

// checkKeepsHighestSeq: a scan-all lookup loop must replace its running result only by an
// entry with a strictly higher sequence number (or when there is none yet), and the
// function must return that running result.
func (r *Run) checkKeepsHighestSeq(f *prog.FuncInfo, l loopInfo) {
	info := f.Pkg.TypesInfo
	seqNum := r.P.FuncObj("dkv/kv", "Entry.SeqNum")
	best := r.keepBest(info, l.Body, f.Name()+":keep-highest-seq",
		func(e ast.Expr) bool { return r.exprCalls(info, e, seqNum) },
		func(x string) []string { return []string{x + ".SeqNum()"} },
		"no result yet || candidate.SeqNum() > best.SeqNum()")
	if best == nil {
		r.Fail(f.Name()+":keep-highest-seq", l.Pos, nil, "the lookup loop neither stops at the first hit nor keeps the entry with the highest sequence number")
		return
	}
	// the running result is what the function returns after the loop
	returned := false
	inspect(f.Decl.Body, func(nd ast.Node) bool {
		if ret, ok := nd.(*ast.ReturnStmt); ok && ret.Pos() > l.Stmt.End() && len(ret.Results) > 0 && prog.IdentObj(info, ret.Results[0]) == best {
			returned = true
		}
		// the running result is the function's first named result, handed back by a bare return
		if ret, ok := nd.(*ast.ReturnStmt); ok && ret.Pos() > l.Stmt.End() && len(ret.Results) == 0 {
			if rl := f.Decl.Type.Results; rl != nil && len(rl.List) > 0 && len(rl.List[0].Names) > 0 && info.Defs[rl.List[0].Names[0]] == best {
				returned = true
			}
		}
		return true
	})
	if !returned {
		r.Fail(f.Name()+":return-best", l.Pos, nil, "the entry with the highest sequence number is computed but not returned")
	}
}

// exprCallsShallow is exprCalls that does not descend into nested function literals.
func (r *Run) exprCallsShallow(info *types.Info, body ast.Node, fn *types.Func) bool {
	found := false
	inspect(body, func(nd ast.Node) bool {
		if lit, ok := nd.(*ast.FuncLit); ok && ast.Node(lit) != body && !isIIFE(r.P, lit) {
			return false
		}
		if call, ok := nd.(*ast.CallExpr); ok && r.P.CalleeFunc(info, call) == fn {
			found = true
		}
		return !found
	})
	return found
}

// checkAppendsNewest: the only growth of a recency-ordered slice field is an append at
// the end (so "last = newest" holds).
func (r *Run) checkAppendsNewest(f *prog.FuncInfo, field *types.Var) {
	info := f.Pkg.TypesInfo
	ok := false
	inspect(f.Decl.Body, func(nd ast.Node) bool {
		as, isAs := nd.(*ast.AssignStmt)
		if !isAs || len(as.Lhs) != 1 || len(as.Rhs) != 1 || prog.SelField(info, as.Lhs[0]) != field {
			return true
		}
		call, isCall := ast.Unparen(as.Rhs[0]).(*ast.CallExpr)
		if !isCall || len(call.Args) < 2 {
			return true
		}
		if id, isId := call.Fun.(*ast.Ident); isId && id.Name == "append" {
			first := ast.Unparen(call.Args[0])
			if sl, isSl := first.(*ast.SliceExpr); isSl && sl.Low == nil && sl.High == nil {
				first = sl.X
			}
			if prog.SelField(info, first) == field {
				ok = true
			}
		}
		return true
	})
	r.Site(f.Decl.Pos(), f.Name()+" appends the newest element at the end of "+field.Name())
	if !ok {
		r.Fail(f.Name()+":append-newest", f.Decl.Pos(), nil, "%s no longer appends the new element at the end of %s: the recency order assumed by lookups (last = newest) does not hold", f.Name(), field.Name())
	}
}

// checkSeqBump: in f, a local n := field+1 is passed to every mutator call that takes a
// sequence number and then stored back into field (or the field is incremented first).
func (r *Run) checkSeqBump(f *prog.FuncInfo, field *types.Var) {
	info := f.Pkg.TypesInfo
	r.Site(f.Decl.Pos(), f.Name()+": sequence number bump")
	var next types.Object
	inspect(f.Decl.Body, func(nd ast.Node) bool {
		as, ok := nd.(*ast.AssignStmt)
		if !ok || len(as.Lhs) != 1 || len(as.Rhs) != 1 {
			return true
		}
		if b, ok := ast.Unparen(as.Rhs[0]).(*ast.BinaryExpr); ok && b.Op == token.ADD {
			if prog.SelField(info, b.X) == field {
				if tv, ok := info.Types[b.Y]; ok && tv.Value != nil && tv.Value.String() == "1" {
					next = prog.IdentObj(info, as.Lhs[0])
				}
			}
		}
		return true
	})
	incFirst := false
	inspect(f.Decl.Body, func(nd ast.Node) bool {
		if inc, ok := nd.(*ast.IncDecStmt); ok && inc.Tok == token.INC && prog.SelField(info, inc.X) == field {
			incFirst = true
		}
		return true
	})
	if next == nil && !incFirst {
		r.Fail(f.Name()+":seq-bump", f.Decl.Pos(), nil, "%s does not derive the write's sequence number as %s+1", f.Name(), field.Name())
		return
	}
	// every call that takes a uint64 named seqNum-like last parameter must receive it
	stored := incFirst
	nUses := 0
	inspect(f.Decl.Body, func(nd ast.Node) bool {
		switch x := nd.(type) {
		case *ast.AssignStmt:
			for i, l := range x.Lhs {
				if prog.SelField(info, l) == field && i < len(x.Rhs) && next != nil && prog.IdentObj(info, x.Rhs[i]) == next {
					stored = true
				}
			}
		case *ast.CallExpr:
			fn := r.P.CalleeFunc(info, x)
			if fn == nil {
				return true
			}
			sig := fn.Type().(*types.Signature)
			for i := 0; i < sig.Params().Len() && i < len(x.Args); i++ {
				if sig.Params().At(i).Name() == "seqNum" {
					nUses++
					arg := x.Args[i]
					good := next != nil && prog.IdentObj(info, arg) == next
					if incFirst && prog.SelField(info, arg) == field {
						good = true
					}
					if !good {
						r.Fail(f.Name()+":seq-arg:"+fn.Name(), x.Pos(), nil, "%s passes %s a sequence number that is not the freshly incremented one", f.Name(), prog.ShortFuncName(fn))
					}
				}
			}
		}
		return true
	})
	if !stored {
		r.Fail(f.Name()+":seq-store", f.Decl.Pos(), nil, "%s never stores the incremented sequence number back: the next write reuses it and the merge cannot tell which is newer", f.Name())
	}
	if nUses < 2 {
		r.Fail(f.Name()+":seq-uses", f.Decl.Pos(), nil, "%s must give the new sequence number to both the WAL and the memtable (found %d uses)", f.Name(), nUses)
	}
}

// checkBinarySearch (T20).
func (r *Run) checkBinarySearch(f *prog.FuncInfo) {
	info := f.Pkg.TypesInfo
	var loop *ast.ForStmt
	inspect(f.Decl.Body, func(nd ast.Node) bool {
		if fs, ok := nd.(*ast.ForStmt); ok && loop == nil {
			loop = fs
		}
		return true
	})
	if loop == nil || loop.Cond == nil {
		r.Error("undecided: %s has no narrowing loop", f.Name())
		return
	}
	r.Site(loop.Pos(), f.Name()+": narrowing loop")
	cond, ok := ast.Unparen(loop.Cond).(*ast.BinaryExpr)
	if !ok {
		r.Error("undecided: %s loop condition is not a comparison", f.Name())
		return
	}
	lowObj, highObj := prog.IdentObj(info, cond.X), prog.IdentObj(info, cond.Y)
	op := cond.Op
	if op == token.GTR || op == token.GEQ {
		lowObj, highObj = highObj, lowObj
		if op == token.GTR {
			op = token.LSS
		} else {
			op = token.LEQ
		}
	}
	if lowObj == nil || highObj == nil || (op != token.LSS && op != token.LEQ) {
		r.Error("undecided: %s loop condition is not low < high / low <= high", f.Name())
		return
	}
	halfOpen := op == token.LSS
	// mid variable: defined in the loop body from low and high
	var midObj types.Object
	inspect(loop.Body, func(nd ast.Node) bool {
		if as, ok := nd.(*ast.AssignStmt); ok && as.Tok == token.DEFINE && len(as.Lhs) == 1 && midObj == nil {
			mentionsLow, mentionsHigh := false, false
			inspect(as.Rhs[0], func(m ast.Node) bool {
				if id, ok := m.(*ast.Ident); ok {
					if info.Uses[id] == lowObj {
						mentionsLow = true
					}
					if info.Uses[id] == highObj {
						mentionsHigh = true
					}
				}
				return true
			})
			if mentionsLow && mentionsHigh {
				midObj = info.Defs[as.Lhs[0].(*ast.Ident)]
			}
		}
		return true
	})
	if midObj == nil {
		r.Error("undecided: %s: midpoint variable not found", f.Name())
		return
	}
	// classify `x = mid`, `x = mid + 1`, `x = mid - 1`
	classify := func(e ast.Expr) string {
		e = ast.Unparen(e)
		if prog.IdentObj(info, e) == midObj {
			return "mid"
		}
		if b, ok := e.(*ast.BinaryExpr); ok && prog.IdentObj(info, b.X) == midObj {
			if tv, ok := info.Types[b.Y]; ok && tv.Value != nil && tv.Value.String() == "1" {
				if b.Op == token.ADD {
					return "mid+1"
				}
				if b.Op == token.SUB {
					return "mid-1"
				}
			}
		}
		return "?"
	}
	var lowUpd, highUpd string
	inspect(loop.Body, func(nd ast.Node) bool {
		if as, ok := nd.(*ast.AssignStmt); ok && as.Tok == token.ASSIGN && len(as.Lhs) == 1 {
			switch prog.IdentObj(info, as.Lhs[0]) {
			case lowObj:
				lowUpd = classify(as.Rhs[0])
			case highObj:
				highUpd = classify(as.Rhs[0])
			}
		}
		return true
	})
	// initial high: len(x) (half-open) or len(x)-1 (closed)
	highInit := "?"
	inspect(f.Decl.Body, func(nd ast.Node) bool {
		as, ok := nd.(*ast.AssignStmt)
		if !ok || as.Tok != token.DEFINE || nd.Pos() >= loop.Pos() {
			return true
		}
		for i, l := range as.Lhs {
			if info.Defs[l.(*ast.Ident)] == highObj && i < len(as.Rhs) {
				e := ast.Unparen(as.Rhs[i])
				if call, ok := e.(*ast.CallExpr); ok {
					if id, ok := call.Fun.(*ast.Ident); ok && id.Name == "len" {
						highInit = "len"
					}
				}
				if b, ok := e.(*ast.BinaryExpr); ok && b.Op == token.SUB {
					if call, ok := ast.Unparen(b.X).(*ast.CallExpr); ok {
						if id, ok := call.Fun.(*ast.Ident); ok && id.Name == "len" {
							if tv, ok := info.Types[b.Y]; ok && tv.Value != nil && tv.Value.String() == "1" {
								highInit = "len-1"
							}
						}
					}
				}
			}
		}
		return true
	})
	conv := "closed [low,high]"
	wantHigh, wantInit := "mid-1", "len-1"
	if halfOpen {
		conv = "half-open [low,high)"
		wantHigh, wantInit = "mid", "len"
	}
	r.Note("%s: convention %s, low=%s high=%s init high=%s", f.Name(), conv, lowUpd, highUpd, highInit)
	if lowUpd != "mid+1" {
		r.Fail(f.Name()+":low-update", loop.Pos(), nil, "binary search must advance low to mid+1 (found %q): otherwise it loops forever or skips elements", lowUpd)
	}
	if highUpd != wantHigh {
		r.Fail(f.Name()+":high-update", loop.Pos(), nil, "the loop tests the %s interval but updates high to %q (needs %q): elements are skipped, so present keys are reported absent", conv, highUpd, wantHigh)
	}
	if highInit != wantInit {
		r.Fail(f.Name()+":high-init", loop.Pos(), nil, "the loop tests the %s interval but initialises high to %q (needs %q)", conv, highInit, wantInit)
	}
	// polarity: cmp(x[mid], target) < 0 => element is below target => search the upper half (low = mid+1)
	r.checkSearchPolarity(f, loop, lowObj, highObj)
}

// checkSearchPolarity: evaluate the loop body for the three possible signs of the comparison
// result (probe below / equal to / above the target). Conditions over `cmpVar <op> 0` are
// decided exactly (any spelling: negations, &&, ||, else-chains, switch-less if chains);
// below must move low, above must move high, equal must return. Anything else that guards a
// bound update is "undecided".
func (r *Run) checkSearchPolarity(f *prog.FuncInfo, loop *ast.ForStmt, lowObj, highObj types.Object) {
	info := f.Pkg.TypesInfo
	var eval func(e ast.Expr, sign int) (bool, bool)
	eval = func(e ast.Expr, sign int) (bool, bool) {
		e = ast.Unparen(e)
		switch x := e.(type) {
		case *ast.UnaryExpr:
			if x.Op == token.NOT {
				v, ok := eval(x.X, sign)
				return !v, ok
			}
		case *ast.BinaryExpr:
			switch x.Op {
			case token.LAND, token.LOR:
				a, ok1 := eval(x.X, sign)
				b, ok2 := eval(x.Y, sign)
				if !ok1 || !ok2 {
					return false, false
				}
				if x.Op == token.LAND {
					return a && b, true
				}
				return a || b, true
			case token.LSS, token.LEQ, token.GTR, token.GEQ, token.EQL, token.NEQ:
				lhs, rhs := x.X, x.Y
				op := x.Op
				zero := func(y ast.Expr) bool {
					tv, ok := info.Types[y]
					return ok && tv.Value != nil && tv.Value.String() == "0"
				}
				isCmp := func(y ast.Expr) bool {
					y = ast.Unparen(y)
					if id, ok := y.(*ast.Ident); ok {
						if v, ok := info.Uses[id].(*types.Var); ok && !v.IsField() {
							if b, ok := v.Type().Underlying().(*types.Basic); ok && b.Kind() == types.Int {
								return v != lowObj && v != highObj
							}
						}
					}
					_, isCall := y.(*ast.CallExpr)
					return isCall
				}
				if zero(lhs) && isCmp(rhs) { // 0 <op> cmp  ==  cmp <flip op> 0
					lhs, rhs = rhs, lhs
					switch op {
					case token.LSS:
						op = token.GTR
					case token.LEQ:
						op = token.GEQ
					case token.GTR:
						op = token.LSS
					case token.GEQ:
						op = token.LEQ
					}
				}
				if !isCmp(lhs) || !zero(rhs) {
					return false, false
				}
				switch op {
				case token.LSS:
					return sign < 0, true
				case token.LEQ:
					return sign <= 0, true
				case token.GTR:
					return sign > 0, true
				case token.GEQ:
					return sign >= 0, true
				case token.EQL:
					return sign == 0, true
				case token.NEQ:
					return sign != 0, true
				}
			}
		}
		return false, false
	}
	touches := func(n ast.Node) bool {
		found := false
		inspect(n, func(m ast.Node) bool {
			switch x := m.(type) {
			case *ast.AssignStmt:
				for _, l := range x.Lhs {
					if o := prog.IdentObj(info, l); o == lowObj || o == highObj {
						found = true
					}
				}
			case *ast.ReturnStmt:
				found = true
			}
			return true
		})
		return found
	}
	type effect struct {
		low, high, ret, undecided bool
		mark                      types.Object // a boolean set to true on this path ("found")
	}
	// returnsMark: after the loop the function returns the variable m (by name, or as a named
	// result through a bare return)
	returnsMark := func(m types.Object) bool {
		ok := false
		inspect(f.Decl.Body, func(nd ast.Node) bool {
			ret, isRet := nd.(*ast.ReturnStmt)
			if !isRet || ret.Pos() < loop.End() {
				return true
			}
			for _, res := range ret.Results {
				if prog.IdentObjPlain(info, res) == m {
					ok = true
				}
			}
			if len(ret.Results) == 0 && f.Decl.Type.Results != nil {
				for _, fld := range f.Decl.Type.Results.List {
					for _, n := range fld.Names {
						if info.Defs[n] == m {
							ok = true
						}
					}
				}
			}
			return true
		})
		return ok
	}
	var run func(list []ast.Stmt, sign int, ef *effect) (stopped bool)
	run = func(list []ast.Stmt, sign int, ef *effect) bool {
		for _, st := range list {
			switch x := st.(type) {
			case *ast.AssignStmt:
				for i, l := range x.Lhs {
					switch prog.IdentObj(info, l) {
					case lowObj:
						ef.low = true
					case highObj:
						ef.high = true
					}
					if len(x.Rhs) == len(x.Lhs) {
						if tv, has := info.Types[x.Rhs[i]]; has && tv.Value != nil && tv.Value.String() == "true" {
							ef.mark = prog.IdentObjPlain(info, l)
						}
					}
				}
			case *ast.ReturnStmt:
				ef.ret = true
				return true
			case *ast.BranchStmt:
				// `idx, found = i, true; break` with `return idx, found` after the loop is the return
				if x.Tok == token.BREAK && x.Label == nil && ef.mark != nil && returnsMark(ef.mark) {
					ef.ret = true
				}
				return true
			case *ast.IfStmt:
				if x.Init != nil {
					if run([]ast.Stmt{x.Init}, sign, ef) {
						return true
					}
				}
				v, ok := eval(x.Cond, sign)
				if !ok {
					if touches(x) {
						ef.undecided = true
					}
					continue
				}
				if v {
					if run(x.Body.List, sign, ef) {
						return true
					}
				} else if x.Else != nil {
					switch e := x.Else.(type) {
					case *ast.BlockStmt:
						if run(e.List, sign, ef) {
							return true
						}
					case *ast.IfStmt:
						if run([]ast.Stmt{e}, sign, ef) {
							return true
						}
					}
				}
			case *ast.BlockStmt:
				if run(x.List, sign, ef) {
					return true
				}
			case *ast.SwitchStmt:
				if x.Tag != nil || x.Init != nil {
					if touches(x) {
						ef.undecided = true
					}
					continue
				}
				// tagless switch: the first case whose conditions hold (default last)
				var chosen *ast.CaseClause
				var def *ast.CaseClause
				undec := false
				for _, cl := range x.Body.List {
					cc := cl.(*ast.CaseClause)
					if cc.List == nil {
						def = cc
						continue
					}
					if chosen != nil {
						continue
					}
					for _, e := range cc.List {
						v, ok := eval(e, sign)
						if !ok {
							undec = true
							break
						}
						if v {
							chosen = cc
							break
						}
					}
					if undec {
						break
					}
				}
				if undec {
					if touches(x) {
						ef.undecided = true
					}
					continue
				}
				if chosen == nil {
					chosen = def
				}
				if chosen != nil {
					stopped := run(chosen.Body, sign, ef)
					// a `break` inside a switch case leaves the switch only
					if stopped && !ef.ret {
						continue
					}
					if stopped {
						return true
					}
				}
			}
		}
		return false
	}
	names := map[int]string{-1: "below", 0: "equal to", 1: "above"}
	for _, sign := range []int{-1, 0, 1} {
		var ef effect
		run(loop.Body.List, sign, &ef)
		r.SiteStr(fmt.Sprintf("%s: probe %s the target -> low moved %v, high moved %v, returns %v", f.Name(), names[sign], ef.low, ef.high, ef.ret))
		if ef.undecided {
			r.Error("undecided: %s: a condition guarding the bound updates is not a comparison of the cmp result with 0", f.Name())
			return
		}
		switch {
		case sign < 0 && !(ef.low && !ef.high && !ef.ret):
			r.Fail(f.Name()+":polarity-below", loop.Pos(), nil, "when the probed element compares below the target the search must continue in the upper half (move low only); it moves low=%v high=%v returns=%v: present keys are reported absent", ef.low, ef.high, ef.ret)
		case sign > 0 && !(ef.high && !ef.low && !ef.ret):
			r.Fail(f.Name()+":polarity-above", loop.Pos(), nil, "when the probed element compares above the target the search must continue in the lower half (move high only); it moves low=%v high=%v returns=%v", ef.low, ef.high, ef.ret)
		case sign == 0 && !ef.ret:
			r.Fail(f.Name()+":found", loop.Pos(), nil, "when the probed element equals the target the search must return it")
		}
	}
}
