package rules

import (
	"go/ast"
	"go/token"
	"go/types"

	"verif/checker/internal/orderdom"
	"verif/checker/internal/pathsim"
	"verif/checker/internal/prog"
)

// firstLit returns the iterator literal inside n: the first function literal (in source order)
// whose only parameter is a yield function (func(...) bool); when there is none, the first
// literal. (A comparator or predicate literal written before the iterator is not it.)
func firstLit(n ast.Node) *ast.FuncLit {
	lits := litsIn(n)
	if len(lits) == 0 {
		return nil
	}
	if curProg != nil {
		for _, l := range lits {
			if l.Type.Params == nil || len(l.Type.Params.List) != 1 || l.Type.Results != nil {
				continue
			}
			info := curProg.InfoAt(l.Pos())
			if info == nil {
				continue
			}
			if sig, ok := info.TypeOf(l.Type.Params.List[0].Type).(*types.Signature); ok && sig.Results().Len() == 1 {
				if b, ok := sig.Results().At(0).Type().Underlying().(*types.Basic); ok && b.Kind() == types.Bool {
					return l
				}
			}
		}
	}
	return lits[0]
}

func init() {
	prop("C08",
		"(a) Checkpoint rotates the WAL, captures the level list and the last sequence number and registers the checkpoint in one db.mu write-locked section, with the pre-rotation writer; (b) the sealed WAL is saved before the checkpoints file, both errors are returned, and the handle is produced only after both; (c) Rotate carries every unflushed segment together with its sequence watermark into the next writer, in segment structs of its own (a segment holds the read cursor Save advances, so a struct shared with the old writer is drained by whichever is saved first); (d) Truncate keeps exactly the segments above the flushed sequence number, its argument and the handle's After come from the level list they describe; (e) the WAL record writer and both reader loops agree on the record layout; (f) a captured level list is immutable; (g) LatestSeqNum bounds every table's sequence numbers; (h) a sealed writer rejects mutation; (i) WAL files are never reused: a rotated writer is numbered id+1 and a restored database's writer one above the highest WAL id of the checkpoint it starts from; plus C01.h, C07.d, C07.e, C07.j.",
		"the reader's skip arithmetic over runtime sequence numbers beyond the expression's form; crash-point behaviour of the file system; equality of restored contents.")

	register(&Obligation{ID: "C08.a", Props: []string{"C08", "C01"}, Template: "atomic-section",
		Desc: "dkv.(*DB).Checkpoint: wal.Rotate, the capture of db.sstables / db.seqNum and checkpoints.Add happen in one db.mu write-locked section; Add receives the pre-rotation writer and the caller's checkpoint id",
		Run: func(r *Run) {
			f := r.P.Func("dkv", "(*DB).Checkpoint")
			mu := r.P.Field("dkv", "DB", "mu")
			walF := r.P.Field("dkv", "DB", "wal")
			sstF := r.P.Field("dkv", "DB", "sstables")
			seqF := r.P.Field("dkv", "DB", "seqNum")
			rotate := r.P.FuncObj("dkv/wal", "(*Writer).Rotate")
			add := r.P.FuncObj("dkv/recovery", "(*CheckpointList).Add")
			info := f.Pkg.TypesInfo
			nAdd, nRot := 0, 0
			spec := &pathsim.Spec{Step: func(c *pathsim.Ctx, s pathsim.State, ev *pathsim.Event) []pathsim.State {
				if ev.Kind == pathsim.EvCall && ev.Call != nil && !ev.Deferred {
					if sel, ok := ast.Unparen(ev.Call.Fun).(*ast.SelectorExpr); ok && prog.SelField(c.Info, sel.X) == mu {
						switch sel.Sel.Name {
						case "Lock":
							s.A, s.B = 1, 0
						case "Unlock", "RUnlock", "RLock":
							if s.A == 1 && s.B != 0 && s.B != 3 {
								c.Violate(ev.Pos, "[split-section] the critical section ends with only one of {WAL rotation, checkpoint registration} done: writes in between land in neither the sealed WAL nor the recorded state")
							}
							s.A, s.B = 0, 0
						}
						return []pathsim.State{s}
					}
					fn, _ := ev.Callee.(*types.Func)
					switch fn {
					case rotate:
						nRot++
						if s.A != 1 {
							c.Violate(ev.Pos, "[rotate-unlocked] the WAL is rotated outside the db.mu write-locked section")
						}
						s.B |= 1
						return []pathsim.State{s}
					case add:
						nAdd++
						if s.A != 1 {
							c.Violate(ev.Pos, "[add-unlocked] the checkpoint is registered outside the db.mu write-locked section: a flush can swap the level list between rotation and registration")
						}
						if s.B&1 == 0 {
							c.Violate(ev.Pos, "[add-before-rotate] the checkpoint is registered before the WAL was rotated")
						}
						s.B |= 2
						return []pathsim.State{s}
					}
				}
				return nil
			}}
			r.Sim(f.Decl, f.Name(), spec)
			r.Site(f.Decl.Pos(), f.Name()+": critical section")
			if nAdd == 0 || nRot == 0 {
				r.Fail(f.Name()+":missing-step", f.Decl.Pos(), nil, "Checkpoint must both rotate the WAL and register the checkpoint (rotate calls: %d, Add calls: %d)", nRot, nAdd)
				return
			}
			// argument identities of Add(ckptID, db.sstables, prevWAL, db.seqNum)
			var prev types.Object
			var prevPos, rotPos token.Pos
			inspect(f.Decl.Body, func(nd ast.Node) bool {
				as, ok := nd.(*ast.AssignStmt)
				if !ok || len(as.Lhs) != 1 || len(as.Rhs) != 1 {
					return true
				}
				if _, isLocal := as.Lhs[0].(*ast.Ident); isLocal && prog.SelField(info, as.Rhs[0]) == walF {
					prev, prevPos = prog.IdentObj(info, as.Lhs[0]), as.Pos()
				}
				if prog.SelField(info, as.Lhs[0]) == walF {
					if call, ok := ast.Unparen(as.Rhs[0]).(*ast.CallExpr); ok && r.P.CalleeFunc(info, call) == rotate {
						rotPos = as.Pos()
						if sel, ok := ast.Unparen(call.Fun).(*ast.SelectorExpr); !ok || (prog.SelField(info, sel.X) != walF && prog.IdentObj(info, sel.X) != prev) {
							r.Fail(f.Name()+":rotate-receiver", call.Pos(), nil, "the rotated writer is not db.wal")
						}
					}
				}
				return true
			})
			if rotPos == token.NoPos {
				r.Fail(f.Name()+":rotate-store", f.Decl.Pos(), nil, "the writer returned by Rotate is not stored in db.wal: later writes would go to the sealed writer")
			}
			inspect(f.Decl.Body, func(nd ast.Node) bool {
				call, ok := nd.(*ast.CallExpr)
				if !ok || r.P.CalleeFunc(info, call) != add || len(call.Args) != 4 {
					return true
				}
				r.Site(call.Pos(), "checkpoints.Add argument identities")
				if !r.isParam(f, call.Args[0], 0) {
					r.Fail(f.Name()+":add-arg0", call.Pos(), nil, "checkpoints.Add is not given the caller's checkpoint id")
				}
				if prog.SelField(info, call.Args[1]) != sstF {
					r.Fail(f.Name()+":add-arg1", call.Pos(), nil, "checkpoints.Add is not given db.sstables read inside the critical section")
				}
				if prev == nil || prog.IdentObj(info, call.Args[2]) != prev || prevPos > rotPos {
					r.Fail(f.Name()+":add-arg2", call.Pos(), nil, "checkpoints.Add must receive the writer that was current before the rotation (the sealed one)")
				}
				if prog.SelField(info, call.Args[3]) != seqF {
					r.Fail(f.Name()+":add-arg3", call.Pos(), nil, "checkpoints.Add is not given db.seqNum")
				}
				return true
			})
		}})

	register(&Obligation{ID: "C08.b", Props: []string{"C08", "C01"}, Template: "must-precede.err-checked",
		Desc: "Checkpoint's asynchronous part saves the sealed WAL, then the checkpoints file; both errors are tested and the handle (id, uri of the checkpoints file) is returned only after both succeeded",
		Run: func(r *Run) {
			f := r.P.Func("dkv", "(*DB).Checkpoint")
			walSave := r.P.FuncObj("dkv/wal", "(*Writer).Save")
			clSave := r.P.FuncObj("dkv/recovery", "(*CheckpointList).Save")
			handleT := r.P.TypeName("dkv/recovery", "CheckpointHandle")
			info := f.Pkg.TypesInfo
			var lit *ast.FuncLit
			for _, l := range litsIn(f.Decl.Body) {
				if r.exprCallsShallow(info, l.Body, clSave) {
					lit = l
				}
			}
			if lit == nil {
				r.Fail(f.Name()+":no-save", f.Decl.Pos(), nil, "Checkpoint no longer saves the checkpoints file in its asynchronous part")
				return
			}
			lit = unwrapLit(r.P, info, lit)
			name := f.Name() + "$async"
			isOKReturn := func(c *pathsim.Ctx, ev *pathsim.Event) bool {
				if ev.Kind != pathsim.EvReturn || len(ev.Results) != 2 {
					return false
				}
				tv, ok := c.Info.Types[ev.Results[1]]
				return ok && tv.IsNil()
			}
			n1 := r.errChecked(lit, name, "prevWAL.Save", "checkpoints.Save", callTo(walSave), callTo(clSave))
			n2 := r.errChecked(lit, name, "checkpoints.Save", "return handle,nil", callTo(clSave), isOKReturn)
			n3 := r.errChecked(lit, name, "prevWAL.Save", "return handle,nil", callTo(walSave), isOKReturn)
			if n1 == 0 || n2 == 0 || n3 == 0 {
				r.Fail(name+":shape", lit.Pos(), nil, "the asynchronous part must call prevWAL.Save, checkpoints.Save and return the handle with a nil error")
			}
			// the handle literal: CheckpointID is the parameter, URI is Save's result
			inspect(lit.Body, func(nd ast.Node) bool {
				ret, ok := nd.(*ast.ReturnStmt)
				if !ok || len(ret.Results) != 2 {
					return true
				}
				if tv, ok := info.Types[ret.Results[1]]; !ok || !tv.IsNil() {
					return true
				}
				cl, ok := ast.Unparen(ret.Results[0]).(*ast.CompositeLit)
				if !ok || info.TypeOf(cl) != handleT.Type() {
					r.Fail(name+":handle-shape", ret.Pos(), nil, "the success return is not a CheckpointHandle literal")
					return true
				}
				r.Site(ret.Pos(), "handle literal fields")
				got := map[string]ast.Expr{}
				for _, el := range cl.Elts {
					if kv, ok := el.(*ast.KeyValueExpr); ok {
						got[kv.Key.(*ast.Ident).Name] = kv.Value
					}
				}
				if e, ok := got["CheckpointID"]; !ok || !r.isParam(f, deref(info, e), 0) {
					r.Fail(name+":handle-id", ret.Pos(), nil, "the handle's CheckpointID is not the id Checkpoint was called with")
				}
				uriOK := false
				if e, ok := got["URI"]; ok {
					def := resolveLocal(info, lit.Body, e)
					if call, ok := ast.Unparen(def).(*ast.CallExpr); ok && r.P.CalleeFunc(info, call) == clSave {
						uriOK = true
					}
					// through an extracted helper that returns (uri, err)
					if oc, idx := valueOrigin(info, e, 0); oc != nil && idx == 0 && r.P.CalleeFunc(info, oc) == clSave {
						uriOK = true
					}
				}
				if !uriOK {
					r.Fail(name+":handle-uri", ret.Pos(), nil, "the handle's URI is not the URI returned by checkpoints.Save")
				}
				return true
			})
		}})

	register(&Obligation{ID: "C08.c", Props: []string{"C08", "C17", "C01"}, Template: "copy-completeness",
		Desc: "wal.(*Writer).Rotate: every segment carried into the next writer keeps its sequence watermark (latestSeqNum), the active segment gets the writer's; otherwise the next Truncate drops unflushed entries; while bufferSegment.Read keeps its cursor in the segment, no segment struct of the receiver is stored into the next writer",
		Run: func(r *Run) {
			f := r.P.Func("dkv/wal", "(*Writer).Rotate")
			segT := r.P.TypeName("dkv/wal", "bufferSegment")
			bufF := r.P.Field("dkv/wal", "bufferSegment", "buf")
			lsnSeg := r.P.Field("dkv/wal", "bufferSegment", "latestSeqNum")
			lsnW := r.P.Field("dkv/wal", "Writer", "latestSeqNum")
			sealed := r.P.Field("dkv/wal", "Writer", "sealedBuffers")
			active := r.P.Field("dkv/wal", "Writer", "activeBuffer")
			info := f.Pkg.TypesInfo
			carried := 0
			inspect(f.Decl.Body, func(nd ast.Node) bool {
				cl, ok := nd.(*ast.CompositeLit)
				if !ok || info.TypeOf(cl) != segT.Type() {
					return true
				}
				var bufVal, lsnVal ast.Expr
				for _, el := range cl.Elts {
					if kv, ok := el.(*ast.KeyValueExpr); ok {
						switch info.Uses[kv.Key.(*ast.Ident)] {
						case types.Object(bufF):
							bufVal = kv.Value
						case types.Object(lsnSeg):
							lsnVal = kv.Value
						}
					}
				}
				if bufVal == nil {
					return true // a fresh empty segment
				}
				carried++
				r.Site(cl.Pos(), "carried segment literal in Rotate")
				fromActive := exprUsesField(info, bufVal, active)
				tag := "sealed"
				if fromActive {
					tag = "active"
				}
				switch {
				case lsnVal == nil:
					r.Fail(f.Name()+":carry-latestSeqNum:"+tag, cl.Pos(), nil, "a %s segment's data is carried into the next writer without its latestSeqNum (it becomes 0): the next Truncate treats the segment as flushed and drops entries that are only in memory", tag)
				case fromActive && prog.SelField(info, lsnVal) != lsnW:
					// activeBuffer.latestSeqNum is only stamped by Cut; for the still-active
					// segment it is 0, so only the writer's own watermark is right here
					r.Fail(f.Name()+":carry-latestSeqNum:"+tag, cl.Pos(), nil, "the active segment must be carried with the WRITER's latestSeqNum (w.latestSeqNum); the active segment's own field is only stamped by Cut and is still 0, so the next Truncate would drop its unflushed entries")
				case !fromActive && !exprUsesField(info, lsnVal, lsnSeg):
					r.Fail(f.Name()+":carry-latestSeqNum:"+tag, cl.Pos(), nil, "a sealed segment must be carried with its own latestSeqNum")
				}
				return true
			})
			// A segment is also the io.Reader that Save drains: its Read advances a cursor kept in the
			// segment. As long as that is so, a segment struct belongs to one writer: a *bufferSegment
			// read from the receiver (w.activeBuffer, an element of w.sealedBuffers, the slice itself)
			// must not be stored into the next writer, or the writer saved first drains the segment
			// and the other writer's WAL file misses its entries.
			segRead := r.P.Func("dkv/wal", "(*bufferSegment).Read")
			cursor := ""
			if segRead.Decl.Recv != nil && len(segRead.Decl.Recv.List) == 1 && len(segRead.Decl.Recv.List[0].Names) == 1 {
				rv := info.Defs[segRead.Decl.Recv.List[0].Names[0]]
				ast.Inspect(segRead.Decl.Body, func(nd ast.Node) bool {
					var lhs []ast.Expr
					switch x := nd.(type) {
					case *ast.AssignStmt:
						lhs = x.Lhs
					case *ast.IncDecStmt:
						lhs = []ast.Expr{x.X}
					}
					for _, l := range lhs {
						if sel, ok := ast.Unparen(l).(*ast.SelectorExpr); ok && prog.IdentObjPlain(info, sel.X) == rv {
							cursor = sel.Sel.Name
						}
					}
					return true
				})
			}
			var recv types.Object
			if f.Decl.Recv != nil && len(f.Decl.Recv.List) == 1 && len(f.Decl.Recv.List[0].Names) == 1 {
				recv = info.Defs[f.Decl.Recv.List[0].Names[0]]
			}
			isSegs := func(e ast.Expr) bool {
				t := info.TypeOf(e)
				if t == nil {
					return false
				}
				if sl, ok := t.Underlying().(*types.Slice); ok {
					t = sl.Elem()
				}
				pt, ok := t.Underlying().(*types.Pointer)
				return ok && pt.Elem() == segT.Type()
			}
			rootIsRecv := func(e ast.Expr) bool {
				for {
					switch x := ast.Unparen(e).(type) {
					case *ast.SelectorExpr:
						e = x.X
					case *ast.IndexExpr:
						e = x.X
					case *ast.SliceExpr:
						e = x.X
					case *ast.StarExpr:
						e = x.X
					case *ast.Ident:
						return recv != nil && prog.IdentObj(info, x) == recv
					default:
						return false
					}
				}
			}
			// locals that hold one of the receiver's segments (flow-insensitive: any assignment, any
			// range over a tainted slice), to a fixed point
			taintedVar := map[types.Object]bool{}
			taintDepth := 0
			var tainted func(e ast.Expr) bool
			tainted = func(e ast.Expr) bool {
				if e == nil || !isSegs(e) {
					return false
				}
				switch x := ast.Unparen(e).(type) {
				case *ast.SelectorExpr:
					fld := prog.SelField(info, x)
					return (fld == sealed || fld == active) && rootIsRecv(x.X)
				case *ast.IndexExpr:
					return tainted(x.X)
				case *ast.SliceExpr:
					return tainted(x.X)
				case *ast.Ident:
					if o := info.Uses[x]; o != nil && taintedVar[o] {
						return true
					}
					if o := prog.IdentObj(info, x); o != nil && taintedVar[o] {
						return true
					}
					if d := ast.Unparen(deref(info, x)); d != ast.Expr(x) {
						return tainted(d)
					}
				case *ast.CallExpr:
					// an extracted helper hands back what its return statements say (its parameters
					// stand for the arguments of this call)
					if hf := r.P.FuncInfoOf(r.P.CalleeFunc(info, x)); isNewHelper(r.P, hf) && taintDepth < 3 {
						taintDepth++
						defer func() { taintDepth-- }()
						any := false
						ast.Inspect(hf.Decl.Body, func(nd ast.Node) bool {
							if _, isLit := nd.(*ast.FuncLit); isLit {
								return false
							}
							if ret, isRet := nd.(*ast.ReturnStmt); isRet {
								for _, res := range ret.Results {
									if tainted(res) {
										any = true
									}
								}
							}
							return !any
						})
						return any
					}
					for _, a := range x.Args {
						if tainted(a) {
							return true
						}
					}
				case *ast.CompositeLit:
					for _, el := range x.Elts {
						if kv, ok := el.(*ast.KeyValueExpr); ok {
							el = kv.Value
						}
						if tainted(el) {
							return true
						}
					}
				}
				return false
			}
			for changed := true; changed; {
				changed = false
				mark := func(l ast.Expr) {
					if id, ok := ast.Unparen(l).(*ast.Ident); ok {
						o := info.Defs[id]
						if o == nil {
							o = info.Uses[id]
						}
						if o != nil && !taintedVar[o] {
							taintedVar[o] = true
							changed = true
						}
					}
				}
				inspect(f.Decl.Body, func(nd ast.Node) bool {
					switch x := nd.(type) {
					case *ast.AssignStmt:
						if len(x.Lhs) == len(x.Rhs) {
							for i := range x.Lhs {
								if tainted(x.Rhs[i]) {
									mark(x.Lhs[i])
								}
							}
						}
					case *ast.RangeStmt:
						if tainted(x.X) && x.Value != nil {
							mark(x.Value)
						}
					}
					return true
				})
			}
			nStores := 0
			inspect(f.Decl.Body, func(nd ast.Node) bool {
				report := func(pos token.Pos, what string) {
					if cursor == "" {
						return
					}
					r.Fail(f.Name()+":segment-shared", pos, nil, "%s: a segment struct of the receiver is stored into the next writer, but a segment carries the read cursor (%s) that Save advances — whichever writer is saved first drains the shared segment and the other writer's WAL file misses its entries; carry the bytes in a fresh bufferSegment", what, cursor)
				}
				switch x := nd.(type) {
				case *ast.AssignStmt:
					if len(x.Lhs) != len(x.Rhs) {
						return true
					}
					for i, l := range x.Lhs {
						if !isSegs(l) {
							continue
						}
						if _, plain := ast.Unparen(l).(*ast.Ident); plain || rootIsRecv(l) {
							continue
						}
						nStores++
						r.Site(x.Pos(), "segment store into the next writer")
						if tainted(x.Rhs[i]) {
							report(x.Pos(), types.ExprString(l)+" = "+types.ExprString(x.Rhs[i]))
						}
					}
				case *ast.CallExpr:
					if id, ok := ast.Unparen(x.Fun).(*ast.Ident); ok && id.Name == "copy" && info.Uses[id] == types.Universe.Lookup("copy") && len(x.Args) == 2 && isSegs(x.Args[0]) && !rootIsRecv(x.Args[0]) {
						nStores++
						r.Site(x.Pos(), "segment copy into the next writer")
						if tainted(x.Args[1]) {
							report(x.Pos(), "copy("+types.ExprString(x.Args[0])+", "+types.ExprString(x.Args[1])+")")
						}
					}
				case *ast.CompositeLit:
					if n, ok := derefType(info.TypeOf(x)).(*types.Named); ok && n.Obj().Name() == "Writer" {
						for _, el := range x.Elts {
							if kv, ok := el.(*ast.KeyValueExpr); ok && isSegs(kv.Value) {
								nStores++
								r.Site(kv.Pos(), "segment field of a Writer literal")
								if tainted(kv.Value) {
									report(kv.Pos(), types.ExprString(kv.Key)+": "+types.ExprString(kv.Value))
								}
							}
						}
					}
				}
				return true
			})
			if nStores == 0 {
				r.Fail(f.Name()+":carry-all", f.Decl.Pos(), nil, "Rotate stores no segment into the next writer: the entries that are only in memory are missing from the next checkpoint's WAL")
			}
			if cursor == "" {
				r.Note("bufferSegment.Read keeps no cursor in the segment: segments may be shared between writers")
			}
			if carried < 2 && cursor == "" {
				// both the sealed list and the active buffer must reach the next writer
				usesSealed, usesActive := exprUsesField(info, f.Decl.Body, sealed), exprUsesField(info, f.Decl.Body, active)
				if !usesSealed || !usesActive {
					r.Fail(f.Name()+":carry-all", f.Decl.Pos(), nil, "Rotate must carry both the sealed segments and the active segment into the next writer")
				}
			}
			// the next writer continues the sequence watermark
			okLSN := false
			inspect(f.Decl.Body, func(nd ast.Node) bool {
				if as, ok := nd.(*ast.AssignStmt); ok && len(as.Lhs) == 1 && len(as.Rhs) == 1 {
					if prog.SelField(info, as.Lhs[0]) == lsnW && prog.SelField(info, as.Rhs[0]) == lsnW {
						okLSN = true
					}
				}
				return true
			})
			if !okLSN {
				r.Fail(f.Name()+":writer-latestSeqNum", f.Decl.Pos(), nil, "the next writer does not inherit latestSeqNum: a Cut before the first write would stamp segment watermark 0")
			}
		}})

	register(&Obligation{ID: "C08.d", Props: []string{"C08", "C17", "C01"}, Template: "order-domain+value-identity",
		Desc: "wal.(*Writer).Truncate keeps exactly the suffix starting at the first segment whose latestSeqNum exceeds the flushed sequence number; Cut stamps the segment with the writer's latest sequence number; the checkpoint's WAL handle starts after the LatestSeqNum of the level list stored with it",
		Run: func(r *Run) {
			f := r.P.Func("dkv/wal", "(*Writer).Truncate")
			info := f.Pkg.TypesInfo
			sealed := r.P.Field("dkv/wal", "Writer", "sealedBuffers")
			lsnSeg := r.P.Field("dkv/wal", "bufferSegment", "latestSeqNum")
			var cond ast.Expr
			var idxVar types.Object
			var loop *ast.RangeStmt
			segName := ""
			viaIndexFunc := false
			inspect(f.Decl.Body, func(nd ast.Node) bool {
				switch x := nd.(type) {
				case *ast.RangeStmt:
					if prog.SelField(info, x.X) != sealed {
						return true
					}
					loop = x
					if id, ok := x.Value.(*ast.Ident); ok {
						segName = id.Name
					}
					inspect(x.Body, func(m ast.Node) bool {
						if is, ok := m.(*ast.IfStmt); ok && exprUsesField(info, is.Cond, lsnSeg) {
							cond = is.Cond
							for _, st := range is.Body.List {
								if as, ok := st.(*ast.AssignStmt); ok && len(as.Lhs) == 1 {
									idxVar = prog.IdentObj(info, as.Lhs[0])
									// the suffix taken right here: w.sealedBuffers = w.sealedBuffers[i:]; return
									if prog.SelField(info, as.Lhs[0]) == sealed && x.Key != nil {
										idxVar = prog.IdentObj(info, x.Key)
									}
								}
							}
						}
						return true
					})
				case *ast.AssignStmt:
					// idx := slices.IndexFunc(w.sealedBuffers, func(seg) bool { return seg.latestSeqNum > seqNum })
					if len(x.Lhs) != 1 || len(x.Rhs) != 1 {
						return true
					}
					c, ok := isCallToNamed(info, x.Rhs[0], "slices", "IndexFunc")
					if !ok || len(c.Args) != 2 || prog.SelField(info, c.Args[0]) != sealed {
						return true
					}
					lit, ok := ast.Unparen(c.Args[1]).(*ast.FuncLit)
					if !ok || len(lit.Body.List) != 1 || len(lit.Type.Params.List) != 1 || len(lit.Type.Params.List[0].Names) != 1 {
						return true
					}
					if ret, ok := lit.Body.List[0].(*ast.ReturnStmt); ok && len(ret.Results) == 1 {
						cond, idxVar, viaIndexFunc = ret.Results[0], prog.IdentObj(info, x.Lhs[0]), true
						segName = lit.Type.Params.List[0].Names[0].Name
					}
				}
				return true
			})
			if (loop == nil && !viaIndexFunc) || cond == nil || idxVar == nil {
				r.Error("undecided: Truncate no longer selects the first segment to keep with a loop over sealedBuffers")
				return
			}
			r.orderDomExpr(info, cond, f.Name()+":keep-condition", map[string]string{segName + ".latestSeqNum": "seg", "seqNum": "flushed"}, nil,
				func(e odEnv) orderdom.Value { return orderdom.Bool(e.Rank["seg"] > e.Rank["flushed"]) }, "segment.latestSeqNum > flushed seqNum")
			if !viaIndexFunc {
				// forward scan with break, and the kept suffix starts AT the index
				if _, dir := rangeSource(info, loop.X); dir != dirForward {
					r.Fail(f.Name()+":scan-direction", loop.Pos(), nil, "Truncate must scan the segments oldest first to find the first one to keep")
				}
				hasBreak := false
				inspect(loop.Body, func(m ast.Node) bool {
					if b, ok := m.(*ast.BranchStmt); ok && b.Tok == token.BREAK {
						hasBreak = true
					}
					if _, ok := m.(*ast.ReturnStmt); ok {
						hasBreak = true
					}
					return true
				})
				if !hasBreak {
					r.Fail(f.Name()+":first-match", loop.Pos(), nil, "Truncate must stop at the FIRST segment above the flushed sequence number (no break: it would keep only from the last such segment on)")
				}
			}
			okSlice := false
			inspect(f.Decl.Body, func(nd ast.Node) bool {
				as, ok := nd.(*ast.AssignStmt)
				if !ok || len(as.Lhs) != 1 || prog.SelField(info, as.Lhs[0]) != sealed {
					return true
				}
				if sl, ok := ast.Unparen(as.Rhs[0]).(*ast.SliceExpr); ok && prog.SelField(info, sl.X) == sealed {
					r.Site(as.Pos(), "Truncate: kept suffix")
					if sl.High == nil && sl.Low != nil && prog.IdentObj(info, sl.Low) == idxVar {
						okSlice = true
					} else {
						r.Fail(f.Name()+":kept-suffix", as.Pos(), nil, "the kept suffix must be sealedBuffers[firstKeptIndex:] exactly (an off-by-one drops an unflushed segment or keeps a flushed one)")
						okSlice = true
					}
				}
				return true
			})
			if !okSlice {
				r.Fail(f.Name()+":kept-suffix", f.Decl.Pos(), nil, "Truncate never re-slices sealedBuffers from the first kept index")
			}
			// Cut stamps the active segment with the writer's latest sequence number
			cut := r.P.Func("dkv/wal", "(*Writer).Cut")
			lsnW := r.P.Field("dkv/wal", "Writer", "latestSeqNum")
			active := r.P.Field("dkv/wal", "Writer", "activeBuffer")
			ci := cut.Pkg.TypesInfo
			stamped, appended := token.NoPos, token.NoPos
			inspect(cut.Decl.Body, func(nd ast.Node) bool {
				as, ok := nd.(*ast.AssignStmt)
				if !ok || len(as.Lhs) != 1 || len(as.Rhs) != 1 {
					return true
				}
				if sel, ok := ast.Unparen(as.Lhs[0]).(*ast.SelectorExpr); ok && prog.SelField(ci, sel) == lsnSeg && prog.SelField(ci, sel.X) == active && prog.SelField(ci, as.Rhs[0]) == lsnW {
					stamped = as.Pos()
				}
				if prog.SelField(ci, as.Lhs[0]) == sealed && exprUsesField(ci, as.Rhs[0], active) {
					appended = as.Pos()
				}
				return true
			})
			r.Site(cut.Decl.Pos(), "Cut stamps and seals the active segment")
			if stamped == token.NoPos || appended == token.NoPos || stamped > appended {
				r.Fail(cut.Name()+":stamp", cut.Decl.Pos(), nil, "Cut must record the writer's latestSeqNum on the active segment before appending it to the sealed segments")
			}
			// writers record the sequence number of every appended entry
			for _, n := range []string{"(*Writer).Put", "(*Writer).Delete"} {
				w := r.P.Func("dkv/wal", n)
				ok := false
				inspect(w.Decl.Body, func(nd ast.Node) bool {
					if as, isAs := nd.(*ast.AssignStmt); isAs && len(as.Lhs) == 1 && prog.SelField(w.Pkg.TypesInfo, as.Lhs[0]) == lsnW {
						if r.isParam(w, as.Rhs[0], w.Obj.Type().(*types.Signature).Params().Len()-1) {
							ok = true
						}
					}
					return true
				})
				r.Site(w.Decl.Pos(), w.Name()+" records latestSeqNum")
				if !ok {
					r.Fail(w.Name()+":latestSeqNum", w.Decl.Pos(), nil, "%s does not record the entry's sequence number as the writer's latestSeqNum", w.Name())
				}
			}
			// CheckpointList.Add: handle.After = LatestSeqNum of the level list it stores
			add := r.P.Func("dkv/recovery", "(*CheckpointList).Add")
			ai := add.Pkg.TypesInfo
			handle := r.P.FuncObj("dkv/wal", "(*Writer).Handle")
			lsn := r.P.Field("dkv/sst", "LevelList", "LatestSeqNum")
			found := false
			inspect(add.Decl.Body, func(nd ast.Node) bool {
				call, ok := nd.(*ast.CallExpr)
				if !ok || r.P.CalleeFunc(ai, call) != handle || len(call.Args) != 1 {
					return true
				}
				found = true
				r.Site(call.Pos(), "CheckpointList.Add: WAL handle start marker")
				sel, ok := ast.Unparen(call.Args[0]).(*ast.SelectorExpr)
				if !ok || prog.SelField(ai, sel) != lsn || !r.isParam(add, sel.X, 1) {
					r.Fail(add.Name()+":handle-after", call.Pos(), nil, "the WAL handle's start marker is not the LatestSeqNum of the level list stored in the same checkpoint: replay would skip unflushed entries or re-apply flushed ones out of order")
				}
				if rsel, ok := ast.Unparen(call.Fun).(*ast.SelectorExpr); !ok || !r.isParam(add, rsel.X, 2) {
					r.Fail(add.Name()+":handle-writer", call.Pos(), nil, "the WAL handle is not taken from the writer passed to Add")
				}
				return true
			})
			if !found {
				r.Fail(add.Name()+":no-handle", add.Decl.Pos(), nil, "CheckpointList.Add records no WAL handle")
			}
			// Handle(after) stores after
			h := r.P.Func("dkv/wal", "(*Writer).Handle")
			afterF := r.P.Field("dkv/wal", "Handle", "After")
			okAfter := false
			inspect(h.Decl.Body, func(nd ast.Node) bool {
				if kv, ok := nd.(*ast.KeyValueExpr); ok {
					if id, ok := kv.Key.(*ast.Ident); ok && h.Pkg.TypesInfo.Uses[id] == types.Object(afterF) && r.isParam(h, kv.Value, 0) {
						okAfter = true
					}
				}
				return true
			})
			r.Site(h.Decl.Pos(), "Writer.Handle stores After")
			if !okAfter {
				r.Fail(h.Name()+":after", h.Decl.Pos(), nil, "Writer.Handle does not store its argument as Handle.After")
			}
		}})

	register(&Obligation{ID: "C08.e", Props: []string{"C08", "C17", "C01"}, Template: "codec-agreement",
		Desc: "WAL record layout: Writer.Put / Writer.Delete, the reader's skip loop and the reader's read loop produce / consume the same token strings per record",
		Run: func(r *Run) {
			put := r.P.Func("dkv/wal", "(*Writer).Put")
			del := r.P.Func("dkv/wal", "(*Writer).Delete")
			all := r.P.Func("dkv/wal", "(*Reader).All")
			lit := firstLit(all.Decl.Body)
			if lit == nil {
				r.Error("undecided: Reader.All no longer returns an iterator literal")
				return
			}
			loops := r.fieldLoops(lit.Body)
			if len(loops) != 2 {
				r.Error("undecided: Reader.All: expected a skip loop and a read loop, found %d loops reading fields", len(loops))
				return
			}
			r.codecAgree("wal-record",
				[]codecRegion{{Fn: put.Decl, Name: "Writer.Put"}, {Fn: del.Decl, Name: "Writer.Delete"}},
				[]codecRegion{{Fn: lit, Loop: loops[0], Name: "Reader.All/skip-loop"}, {Fn: lit, Loop: loops[1], Name: "Reader.All/read-loop"}})
			// the read loop yields tombstones as Deleted entries and puts with their value
			r.checkWALYield(all, lit, loops[1])
			// skip count: startAfter - firstSeqNum + 1
			r.checkSkipCount(all, lit, loops[0])
		}})

	register(&Obligation{ID: "C08.f", Props: []string{"C08", "C18", "C09"}, Template: "who-may",
		Desc: "a level list captured by a checkpoint cannot change: LevelList.AddTables/RemoveTables are called only by NewWithChangeSet on a fresh copy, and LevelList.levels / Level.tables are written only by constructors and those two",
		Run: func(r *Run) {
			addT := r.P.FuncObj("dkv/sst", "(*LevelList).AddTables")
			remT := r.P.FuncObj("dkv/sst", "(*LevelList).RemoveTables")
			allowed := map[string]string{"dkv/sst.(*LevelList).NewWithChangeSet": "applies a change set to a clone"}
			r.whoMayCall(addT, false, allowed)
			r.whoMayCall(remT, false, allowed)
			nw := r.P.Func("dkv/sst", "(*LevelList).NewWithChangeSet")
			info := nw.Pkg.TypesInfo
			levels := r.P.Field("dkv/sst", "LevelList", "levels")
			// receiver of AddTables/RemoveTables inside NewWithChangeSet is a fresh list whose
			// levels slice is a clone
			var fresh types.Object
			cloned := false
			inspect(nw.Decl.Body, func(nd ast.Node) bool {
				as, ok := nd.(*ast.AssignStmt)
				if !ok || as.Tok != token.DEFINE || len(as.Lhs) != 1 || len(as.Rhs) != 1 {
					return true
				}
				if call, ok := isCallToNamed(info, as.Rhs[0], "slices", "Clone"); ok && len(call.Args) == 1 && prog.SelField(info, call.Args[0]) == levels {
					cloned = true
				}
				if u, ok := ast.Unparen(as.Rhs[0]).(*ast.UnaryExpr); ok && u.Op == token.AND {
					if _, ok := u.X.(*ast.CompositeLit); ok {
						fresh = prog.IdentObj(info, as.Lhs[0])
					}
				}
				return true
			})
			r.Site(nw.Decl.Pos(), "NewWithChangeSet works on a clone")
			if !cloned || fresh == nil {
				r.Fail(nw.Name()+":clone", nw.Decl.Pos(), nil, "NewWithChangeSet does not build a fresh LevelList over slices.Clone(ll.levels): applying the change set would mutate level lists held by checkpoints and readers")
			}
			inspect(nw.Decl.Body, func(nd ast.Node) bool {
				call, ok := nd.(*ast.CallExpr)
				if !ok {
					return true
				}
				if fn := r.P.CalleeFunc(info, call); fn == addT || fn == remT {
					if sel, ok := ast.Unparen(call.Fun).(*ast.SelectorExpr); !ok || prog.IdentObj(info, sel.X) != fresh {
						r.Fail(nw.Name()+":mutates-receiver", call.Pos(), nil, "NewWithChangeSet mutates a list other than the fresh copy")
					}
				}
				return true
			})
			// field writers
			for _, spec := range []struct {
				f       *types.Var
				allowed map[string]bool
			}{
				{levels, map[string]bool{"dkv/sst.NewEmptyLevelList": true, "dkv/sst.NewLevelListOfTables": true, "dkv/sst.(*LevelList).NewWithChangeSet": true, "dkv/sst.(*LevelList).AddTables": true, "dkv/sst.(*LevelList).RemoveTables": true}},
				{r.P.Field("dkv/sst", "Level", "tables"), map[string]bool{"dkv/sst.NewEmptyLevelList": true, "dkv/sst.NewLevelListOfTables": true, "dkv/sst.Level.tablesAdded": true, "dkv/sst.Level.tablesRemoved": true, "dkv/sst.Level.Clone": true}},
			} {
				for _, fa := range r.fieldAccesses(spec.f) {
					if !fa.Write || prog.IsTestSupport(fa.Use.Pkg.PkgPath) {
						continue
					}
					where := r.scopeName(fa.Use.Scope)
					r.Site(fa.Use.Ident.Pos(), spec.f.Name()+" written in "+where)
					if !spec.allowed[where] {
						r.Fail(spec.f.Name()+"-write<-"+where, fa.Use.Ident.Pos(), nil, "%s is written (%s) in %s: level lists must be immutable once built", spec.f.Name(), fa.Kind, where)
					}
				}
			}
			// Level.tablesAdded / tablesRemoved build new sets (Added / Diff), never Add in place
			setAdd := r.P.FuncObj("util/ds", "(*Set).Add")
			for _, n := range []string{"Level.tablesAdded", "Level.tablesRemoved"} {
				lf := r.P.Func("dkv/sst", n)
				r.Site(lf.Decl.Pos(), n+" does not mutate the shared set")
				if r.exprCalls(lf.Pkg.TypesInfo, lf.Decl.Body, setAdd) {
					r.Fail(lf.Name()+":in-place", lf.Decl.Pos(), nil, "%s mutates the table set in place (Set.Add): sets are shared with captured level lists", n)
				}
			}
			// Set.Added and Set.Without work on a clone
			for _, n := range []string{"(*Set).Added", "(*Set).Without"} {
				sf := r.P.Func("util/ds", n)
				clone := r.P.FuncObj("util/ds", "(*Set).clone")
				r.Site(sf.Decl.Pos(), n+" clones")
				if !r.exprCalls(sf.Pkg.TypesInfo, sf.Decl.Body, clone) {
					r.Fail(sf.Name()+":clone", sf.Decl.Pos(), nil, "%s no longer works on a clone of the set", n)
				}
			}
		}})

	register(&Obligation{ID: "C08.h", Props: []string{"C08"}, Template: "guard",
		Desc: "a sealed WAL writer is immutable: Put, Delete, Cut and Truncate test `sealed` before touching any buffer; Rotate seals with compare-and-swap; Save requires the writer to be sealed",
		Run: func(r *Run) {
			sealedF := r.P.Field("dkv/wal", "Writer", "sealed")
			bufs := map[*types.Var]bool{
				r.P.Field("dkv/wal", "Writer", "activeBuffer"):  true,
				r.P.Field("dkv/wal", "Writer", "sealedBuffers"): true,
			}
			for _, n := range []string{"Put", "Delete", "Cut", "Truncate", "Save"} {
				f := r.P.Func("dkv/wal", "(*Writer)."+n)
				wantSealed := n == "Save"
				atoms := []guardAtom{{Name: "sealed.Load()", Match: func(c *pathsim.Ctx, e ast.Expr) (bool, bool) {
					call, ok := ast.Unparen(e).(*ast.CallExpr)
					if !ok {
						return false, false
					}
					sel, ok := ast.Unparen(call.Fun).(*ast.SelectorExpr)
					if !ok || sel.Sel.Name != "Load" || prog.SelField(c.Info, sel.X) != sealedF {
						return false, false
					}
					return false, true
				}}}
				spec := &pathsim.Spec{Watch: bufs}
				spec.Atom = func(c *pathsim.Ctx, e ast.Expr) (int, bool, bool) {
					if neg, ok := atoms[0].Match(c, e); ok {
						return 0, neg, true
					}
					return 0, false, false
				}
				touched := false
				spec.Step = func(c *pathsim.Ctx, s pathsim.State, ev *pathsim.Event) []pathsim.State {
					if ev.Kind == pathsim.EvField {
						touched = true
						if wantSealed && s.V[0] != pathsim.True {
							c.Violate(ev.Pos, "[unsealed-save] Save reads the buffers without having established that the writer is sealed: concurrent appends would be half-written")
						}
						if !wantSealed && s.V[0] != pathsim.False {
							c.Violate(ev.Pos, "[sealed-mutation] %s touches the buffers without having established that the writer is not sealed: a checkpoint's WAL could change after it was handed out", n)
						}
					}
					return nil
				}
				r.Sim(f.Decl, f.Name(), spec)
				r.Site(f.Decl.Pos(), f.Name()+": sealed test dominates buffer access")
				if !touched {
					r.Note("%s does not touch the buffers", f.Name())
				}
			}
			// Rotate seals exactly once via CompareAndSwap(false, true)
			rot := r.P.Func("dkv/wal", "(*Writer).Rotate")
			info := rot.Pkg.TypesInfo
			okCAS := false
			inspect(rot.Decl.Body, func(nd ast.Node) bool {
				call, ok := nd.(*ast.CallExpr)
				if !ok {
					return true
				}
				sel, ok := ast.Unparen(call.Fun).(*ast.SelectorExpr)
				if ok && prog.SelField(info, sel.X) == sealedF && (sel.Sel.Name == "CompareAndSwap" || sel.Sel.Name == "Store" || sel.Sel.Name == "Swap") {
					okCAS = true
				}
				return true
			})
			r.Site(rot.Decl.Pos(), "Rotate seals the writer")
			if !okCAS {
				r.Fail(rot.Name()+":seal", rot.Decl.Pos(), nil, "Rotate no longer seals the writer: the WAL captured by a checkpoint keeps receiving writes")
			}
		}})
}

// checkWALYield: in the read loop, the tombstone branch yields Entry{K:key, Deleted:true}
// and the put branch yields Entry{K:key, V:value}.
func (r *Run) checkWALYield(all *prog.FuncInfo, lit *ast.FuncLit, loop ast.Stmt) {
	info := all.Pkg.TypesInfo
	entryT := r.P.TypeName("dkv/wal", "Entry")
	kF, vF, dF := r.P.Field("dkv/wal", "Entry", "K"), r.P.Field("dkv/wal", "Entry", "V"), r.P.Field("dkv/wal", "Entry", "Deleted")
	nDel, nPut := 0, 0
	inspect(loop, func(nd ast.Node) bool {
		cl, ok := nd.(*ast.CompositeLit)
		if !ok || info.TypeOf(cl) != entryT.Type() || len(cl.Elts) == 0 {
			return true
		}
		set := map[*types.Var]ast.Expr{}
		for _, el := range cl.Elts {
			if kv, ok := el.(*ast.KeyValueExpr); ok {
				if f, ok := info.Uses[kv.Key.(*ast.Ident)].(*types.Var); ok {
					set[f] = kv.Value
				}
			}
		}
		if set[kF] == nil {
			r.Fail(all.Name()+":yield-key", cl.Pos(), nil, "a replayed WAL entry is yielded without its key")
		}
		if d, ok := set[dF]; ok {
			if tv, ok := info.Types[d]; ok && tv.Value != nil && tv.Value.String() == "true" {
				nDel++
				return true
			}
		}
		if set[vF] == nil {
			r.Fail(all.Name()+":yield-value", cl.Pos(), nil, "a replayed put is yielded without its value")
		}
		nPut++
		return true
	})
	r.Site(loop.Pos(), "Reader.All read loop yields puts and tombstones")
	if nDel == 0 || nPut == 0 {
		r.Fail(all.Name()+":yield-kinds", loop.Pos(), nil, "the WAL read loop must yield both tombstones (Deleted: true) and puts (found %d / %d)", nDel, nPut)
	}
}

// checkSkipCount: the skip loop runs exactly startAfter - firstSeqNum + 1 times, where
// firstSeqNum is the first sequence number read from the file.
func (r *Run) checkSkipCount(all *prog.FuncInfo, lit *ast.FuncLit, loop ast.Stmt) {
	info := all.Pkg.TypesInfo
	countExpr, ok := countedLoop(info, loop)
	if !ok {
		r.Error("undecided: the WAL skip loop is not a counted loop (for i := n; i > 0; i-- / for i := 0; i < n; i++ / for range n)")
		return
	}
	r.Site(loop.Pos(), "WAL skip loop trip count")
	startAfter := r.P.Field("dkv/wal", "Reader", "startAfter")
	count := resolveLocal(info, lit.Body, countExpr)
	lin, okLin := linearOf(info, lit.Body, count)
	if !okLin {
		r.Error("undecided: skip count is not a linear expression: %s", types.ExprString(count))
		return
	}
	// expected: +1*startAfter -1*first +1
	var firstName string
	ast.Inspect(lit.Body, func(nd ast.Node) bool {
		if a, ok := nd.(*ast.AssignStmt); ok && len(a.Rhs) == 1 && a.Pos() < loop.Pos() && firstName == "" {
			// the first sequence number: read here, or in an extracted helper that returns it
			id, isID := a.Lhs[0].(*ast.Ident)
			if !isID {
				return true
			}
			if call, ok := ast.Unparen(a.Rhs[0]).(*ast.CallExpr); ok && fieldToken(r.P.CalleeFunc(info, call)) == "U64" {
				firstName = id.Name
			} else if oc, idx := valueOrigin(info, a.Rhs[0], 0); oc != nil && idx == 0 && fieldToken(r.P.CalleeFunc(info, oc)) == "U64" {
				// the name linearOf will use for it: what a use of the variable resolves to
				def := info.Defs[id]
				ast.Inspect(lit.Body, func(m ast.Node) bool {
					if u, ok := m.(*ast.Ident); ok && def != nil && info.Uses[u] == def && firstName == "" {
						if o := prog.IdentObj(info, u); o != nil {
							firstName = o.Name()
						}
					}
					return true
				})
			}
		}
		return true
	})
	want := map[string]int{"": 1, firstName: -1}
	var saName string
	inspect(lit.Body, func(nd ast.Node) bool {
		if sel, ok := nd.(*ast.SelectorExpr); ok && info.Uses[sel.Sel] == types.Object(startAfter) && lin[types.ExprString(sel)] != 0 {
			saName = types.ExprString(sel)
		}
		return true
	})
	if saName != "" {
		want[saName] = 1
	} else {
		want["<startAfter>"] = 1
	}
	if !sameLinear(lin, want) {
		r.Fail(all.Name()+":skip-count", loop.Pos(), nil, "the reader must skip exactly (startAfter - firstSeqNum + 1) records; found %s", types.ExprString(count))
	}
	// cursor rewound to 0 after peeking the first sequence number
	move := r.P.FuncObj("dkv/storage", "(*Cursor).Move")
	rewound := false
	inspect(lit.Body, func(nd ast.Node) bool {
		if call, ok := nd.(*ast.CallExpr); ok && r.P.CalleeFunc(info, call) == move && call.Pos() < loop.Pos() && len(call.Args) == 1 {
			if tv, ok := info.Types[call.Args[0]]; ok && tv.Value != nil && tv.Value.String() == "0" {
				rewound = true
			}
		}
		return true
	})
	if !rewound {
		r.Fail(all.Name()+":rewind", loop.Pos(), nil, "after peeking the first sequence number the cursor must be moved back to offset 0 before skipping whole records")
	}
}

// linearOf normalises an integer expression built from + - and parentheses over atoms
// (canonical source text) and integer constants into coefficient form. The constant term
// is stored under "".
func linearOf(info *types.Info, body ast.Node, e ast.Expr) (map[string]int, bool) {
	out := map[string]int{}
	var walk func(e ast.Expr, sign int) bool
	walk = func(e ast.Expr, sign int) bool {
		e = stripConv(info, e)
		if tv, ok := info.Types[e]; ok && tv.Value != nil {
			var v int
			if _, err := sscanInt(tv.Value.String(), &v); err == nil {
				out[""] += sign * v
				return true
			}
		}
		switch x := e.(type) {
		case *ast.BinaryExpr:
			switch x.Op {
			case token.ADD:
				return walk(x.X, sign) && walk(x.Y, sign)
			case token.SUB:
				return walk(x.X, sign) && walk(x.Y, -sign)
			case token.MUL:
				// constant * expr
				for _, pair := range [][2]ast.Expr{{x.X, x.Y}, {x.Y, x.X}} {
					if tv, ok := info.Types[pair[0]]; ok && tv.Value != nil {
						var k int
						if _, err := sscanInt(tv.Value.String(), &k); err == nil {
							return walk(pair[1], sign*k)
						}
					}
				}
			}
			return false
		case *ast.Ident:
			if body != nil {
				if obj := info.Uses[x]; obj != nil {
					if def := localDef(info, body, obj); def != nil {
						if _, isCall := ast.Unparen(def).(*ast.CallExpr); !isCall {
							return walk(def, sign)
						}
					}
				}
			}
			if o := prog.IdentObj(info, x); o != nil {
				out[o.Name()] += sign // (the variable it names, through aliases and helper results)
				return true
			}
			out[x.Name] += sign
			return true
		case *ast.CallExpr:
			// an extracted helper whose body is `return <expr>` stands for that expression
			if body := helperReturnExpr(info, x); body != nil {
				return walk(body, sign)
			}
			out[types.ExprString(e)] += sign
			return true
		case *ast.SelectorExpr, *ast.IndexExpr:
			out[types.ExprString(e)] += sign
			return true
		}
		return false
	}
	ok := walk(e, 1)
	for k, v := range out {
		if v == 0 {
			delete(out, k)
		}
	}
	return out, ok
}

func sameLinear(a, b map[string]int) bool {
	for k, v := range a {
		if v != 0 && b[k] != v {
			return false
		}
	}
	for k, v := range b {
		if v != 0 && a[k] != v {
			return false
		}
	}
	return true
}

// countedLoop recognises a loop that runs exactly n times and returns n:
// `for i := n; i > 0; i--`, `for i := 0; i < n; i++`, `for i := 1; i <= n; i++`,
// `for range n` / `for i := range n` over an integer.
func countedLoop(info *types.Info, loop ast.Stmt) (ast.Expr, bool) {
	switch x := loop.(type) {
	case *ast.RangeStmt:
		if t := info.TypeOf(x.X); t != nil {
			if b, ok := t.Underlying().(*types.Basic); ok && b.Info()&types.IsInteger != 0 {
				return x.X, true
			}
		}
	case *ast.ForStmt:
		as, ok := x.Init.(*ast.AssignStmt)
		if !ok || len(as.Lhs) != len(as.Rhs) {
			return nil, false
		}
		cond, _ := ast.Unparen(x.Cond).(*ast.BinaryExpr)
		inc, _ := x.Post.(*ast.IncDecStmt)
		if cond == nil || inc == nil {
			return nil, false
		}
		// the counter is the header variable the condition tests; other header variables
		// (for i, cursor := 0, 0; ...) do not matter for the iteration count
		cond = orientCmp(cond, func(e ast.Expr) bool { return prog.IdentObj(info, e) == prog.IdentObj(info, inc.X) })
		iv := prog.IdentObj(info, cond.X)
		k := -1
		for i, l := range as.Lhs {
			if iv != nil && prog.IdentObj(info, l) == iv {
				k = i
			}
		}
		if k < 0 || prog.IdentObj(info, inc.X) != iv {
			return nil, false
		}
		as = &ast.AssignStmt{Lhs: []ast.Expr{as.Lhs[k]}, Rhs: []ast.Expr{as.Rhs[k]}, Tok: as.Tok, TokPos: as.TokPos}
		constIs := func(e ast.Expr, v string) bool {
			tv, ok := info.Types[e]
			return ok && tv.Value != nil && tv.Value.String() == v
		}
		switch {
		case inc.Tok == token.DEC && cond.Op == token.GTR && constIs(cond.Y, "0"):
			return as.Rhs[0], true
		case inc.Tok == token.DEC && cond.Op == token.GEQ && constIs(cond.Y, "1"):
			return as.Rhs[0], true
		case inc.Tok == token.INC && cond.Op == token.LSS && constIs(as.Rhs[0], "0"):
			return cond.Y, true
		case inc.Tok == token.INC && cond.Op == token.LEQ && constIs(as.Rhs[0], "1"):
			return cond.Y, true
		}
	}
	return nil, false
}
