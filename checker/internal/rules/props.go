package rules

// PropInfo summarises, for the evidence file, which clauses of a property are decided
// structurally and which are not (DESIGN.md section 5).
type PropInfo struct {
	Decided    string
	NotDecided string
}

var Properties = map[string]PropInfo{}

func prop(id, decided, notDecided string) { Properties[id] = PropInfo{decided, notDecided} }
