package rules

import (
	"go/ast"

	"verif/checker/internal/prog"
)

func init() {
	// C17.h: SST file names are table numbers. Flush and compaction share one TableWriter and run
	// on different task queues, so the number of a table must be taken by one atomic
	// read-modify-write; a number that is read first and advanced later is handed to two tables,
	// and the second Save overwrites the first table's file.
	register(&Obligation{ID: "C17.h", Props: []string{"C17", "C18", "C09"}, Template: "fresh-id",
		Desc: "TableWriter.Write names its file with a number reserved by one atomic Add on TableWriter.id; the counter is not read or written by any other operation outside the constructor",
		Run: func(r *Run) {
			f := r.P.Func("dkv/sst", "(*TableWriter).Write")
			info := f.Pkg.TypesInfo
			idF := r.P.Field("dkv/sst", "TableWriter", "id")
			newFile := 0
			inspect(f.Decl.Body, func(nd ast.Node) bool {
				call, ok := nd.(*ast.CallExpr)
				if !ok {
					return true
				}
				sel, ok := ast.Unparen(call.Fun).(*ast.SelectorExpr)
				if !ok || sel.Sel.Name != "New" || len(call.Args) != 1 {
					return true
				}
				if fn := r.P.CalleeFunc(info, call); fn == nil || fn.Name() != "New" || fn.Pkg() == nil || fn.Pkg().Name() != "storage" {
					return true
				}
				newFile++
				r.Site(call.Pos(), "TableWriter.Write creates the table file")
				// the number in the name: follow the Sprintf argument to the counter operation
				fromAdd, fromOther := false, ""
				var walk func(e ast.Expr, depth int)
				walk = func(e ast.Expr, depth int) {
					if depth > 4 {
						return
					}
					ast.Inspect(e, func(m ast.Node) bool {
						switch x := m.(type) {
						case *ast.CallExpr:
							if s, isSel := ast.Unparen(x.Fun).(*ast.SelectorExpr); isSel && prog.SelField(info, s.X) == idF {
								if s.Sel.Name == "Add" {
									fromAdd = true
								} else {
									fromOther = s.Sel.Name
								}
								return false
							}
						case *ast.Ident:
							if d := deref(info, x); ast.Unparen(d) != ast.Expr(x) {
								walk(d, depth+1)
							}
						}
						return true
					})
				}
				walk(call.Args[0], 0)
				switch {
				case fromOther != "":
					r.Fail(f.Name()+":table-number", call.Pos(), nil, "the table file is named with a number obtained by id.%s(), not reserved by an atomic Add: a flush and a compaction writing at the same time (they share the writer and run on different task queues) get the same number, and the later Save overwrites the other table's file", fromOther)
				case !fromAdd:
					r.Fail(f.Name()+":table-number", call.Pos(), nil, "the table file is not named with a number reserved by an atomic Add on TableWriter.id")
				}
				return true
			})
			if newFile == 0 {
				r.Error("undecided: TableWriter.Write creates no file with FileSystem.New")
			}
			for _, fa := range r.fieldAccesses(idF) {
				where := r.scopeName(r.P.ScopeAt(fa.Use.Ident.Pos()))
				r.Site(fa.Use.Ident.Pos(), "use of TableWriter.id in "+where)
				switch {
				case fa.Kind == "composite-key", fa.Kind == "select:Add":
				case fa.Kind == "select:Store" && where == "dkv/sst.NewTableWriter":
				default:
					r.Fail("TableWriter.id:"+where+":"+fa.Kind, fa.Use.Ident.Pos(), nil, "TableWriter.id is used by %s in %s: table numbers are only ever taken with one atomic Add (a separate read and a later advance give two concurrent writes the same file name)", fa.Kind, where)
				}
			}
		}})

	// C16.h: the listing cursor of the Kinesis splitter doubles as the checkpointed position. It may
	// only move when shards are handed out (TrackAssigned) or when a checkpoint is loaded: withheld
	// child shards are found again after a restore only because their ids lie above it.
	register(&Obligation{ID: "C16.h", Props: []string{"C16"}, Template: "who-may-write",
		Desc: "SplitTracker.LastAssignedSplitID is written only by TrackAssigned (with the last shard it marks assigned) and by LoadSplits (from the checkpoint); discovery (AddSplits) never moves it",
		Run: func(r *Run) {
			fld := r.P.Field("connectors/kinesis", "SplitTracker", "LastAssignedSplitID")
			allowed := map[string]string{
				"connectors/kinesis.(*SplitTracker).TrackAssigned": "marks shards assigned",
				"connectors/kinesis.(*SplitTracker).LoadSplits":    "restores the checkpointed position",
			}
			nW := 0
			for _, fa := range r.fieldAccesses(fld) {
				if !fa.Write {
					continue
				}
				nW++
				where := r.scopeName(r.P.ScopeAt(fa.Use.Ident.Pos()))
				r.Site(fa.Use.Ident.Pos(), "write of SplitTracker.LastAssignedSplitID in "+where)
				if _, ok := allowed[where]; !ok {
					r.Fail("SplitTracker.LastAssignedSplitID:written-in:"+where, fa.Use.Ident.Pos(), nil, "%s moves the last-assigned position: it is what a checkpoint records and where shard listing resumes after a restore, so shards that were discovered but not yet handed out (children withheld while their parent is read) are never listed again and their records are never read", where)
				}
			}
			if nW < 2 {
				r.Error("floor: %d writes of SplitTracker.LastAssignedSplitID (2 confirmed by hand)", nW)
			}
		}})
}
