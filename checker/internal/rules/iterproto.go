package rules

import (
	"go/ast"
	"go/token"
	"go/types"
	"strings"

	"verif/checker/internal/prog"
)

// Iterator protocol (range-over-func): inside a function literal whose single parameter is
// a `yield func(...) bool`, every call of yield is either
//
//	if !yield(x) { ...; return }      (or break out of the producing loop), or
//	yield(x) as the last action before return / the end of the literal.
//
// `if yield(x) { return }` stops although the consumer asked for more (everything after the
// first element is silently dropped); a yield whose result is ignored in the middle keeps
// producing after the consumer stopped.
func (r *Run) iterProtocol(rel string, floor int) {
	pkg := r.P.Pkg(rel)
	info := pkg.TypesInfo
	n := 0
	for i, file := range pkg.Syntax {
		name := pkg.CompiledGoFiles[i]
		if strings.HasSuffix(name, ".pb.go") || strings.HasSuffix(name, "_test.go") {
			continue
		}
		ast.Inspect(file, func(nd ast.Node) bool {
			// an iterator body: a literal func(yield func(...) bool), or - after "turn the closure
			// into a named method" - a new declared function without results that takes such a yield
			var lit *ast.FuncLit
			var yid *ast.Ident
			isYieldType := func(id *ast.Ident) bool {
				o := info.Defs[id]
				if o == nil {
					return false
				}
				sig, ok := o.Type().Underlying().(*types.Signature)
				if !ok || sig.Results().Len() != 1 {
					return false
				}
				b, ok := sig.Results().At(0).Type().Underlying().(*types.Basic)
				return ok && b.Kind() == types.Bool
			}
			switch x := nd.(type) {
			case *ast.FuncLit:
				if x.Type.Params == nil || len(x.Type.Params.List) != 1 || len(x.Type.Params.List[0].Names) != 1 || x.Type.Results != nil {
					return true
				}
				lit, yid = x, x.Type.Params.List[0].Names[0]
			case *ast.FuncDecl:
				fo, _ := info.Defs[x.Name].(*types.Func)
				if x.Body == nil || x.Type.Results != nil || x.Type.Params == nil || fo == nil || !isNewHelper(r.P, r.P.FuncInfoOf(fo)) {
					return true
				}
				for _, fld := range x.Type.Params.List {
					for _, nm := range fld.Names {
						if isYieldType(nm) {
							if yid != nil {
								return true // two callbacks: not an iterator body
							}
							yid = nm
						}
					}
				}
				if yid == nil {
					return true
				}
				lit = synthLit(r.P.FuncInfoOf(fo))
			default:
				return true
			}
			if !isYieldType(yid) {
				return true
			}
			yobj := info.Defs[yid]
			where := r.scopeName(r.P.ScopeAt(lit.Body.Pos()))
			isYield := func(e ast.Expr) *ast.CallExpr {
				c, ok := ast.Unparen(e).(*ast.CallExpr)
				if ok && prog.IdentObj(info, c.Fun) == yobj {
					return c
				}
				return nil
			}
			// walk statements with their following sibling
			var walk func(list []ast.Stmt, tail bool)
			checkCallsIn := func(n ast.Node) {
				// any other occurrence of yield(...) inside expressions is outside the accepted idioms
				ast.Inspect(n, func(m ast.Node) bool {
					if inner, ok := m.(*ast.FuncLit); ok && inner != lit {
						return false
					}
					if c, ok := m.(*ast.CallExpr); ok && prog.IdentObj(info, c.Fun) == yobj {
						r.Fail(where+":yield-shape", c.Pos(), nil, "%s: yield is called in a position other than `if !yield(x) { return }` or a final `yield(x)`: its answer is not honoured", where)
					}
					return true
				})
			}
			endsFlow := func(st ast.Stmt) bool {
				switch x := st.(type) {
				case *ast.ReturnStmt:
					return true
				case *ast.BranchStmt:
					return x.Tok == token.BREAK || x.Tok == token.GOTO
				}
				return false
			}
			walk = func(list []ast.Stmt, tail bool) {
				for k, st := range list {
					last := k == len(list)-1
					// tailK: after this statement the literal returns (directly, or because the next statement ends the flow)
					tailK := (last && tail) || (!last && endsFlow(list[k+1]))
					switch x := st.(type) {
					case *ast.ExprStmt:
						if c := isYield(x.X); c != nil {
							n++
							r.Site(c.Pos(), where+": yield")
							if !tailK {
								r.Fail(where+":yield-ignored", c.Pos(), nil, "%s: the answer of yield is ignored and production continues: the iterator keeps calling yield after the consumer stopped", where)
							}
							continue
						}
						checkCallsIn(x)
					case *ast.IfStmt:
						if x.Init != nil {
							checkCallsIn(x.Init)
						}
						cond := normNot(ast.Unparen(x.Cond)) // !(A || yield(x)) is !A && !yield(x)
						// `if A && !yield(x) { return }`: yield is asked only when A holds, and a false
						// answer stops production — the last conjunct decides
						for {
							b, ok := cond.(*ast.BinaryExpr)
							if !ok || b.Op != token.LAND {
								break
							}
							hasYield := false
							ast.Inspect(b.X, func(m ast.Node) bool {
								if c, ok := m.(*ast.CallExpr); ok && prog.IdentObj(info, c.Fun) == yobj {
									hasYield = true
								}
								return true
							})
							if hasYield {
								break
							}
							cond = ast.Unparen(b.Y)
						}
						if u, ok := cond.(*ast.UnaryExpr); ok && u.Op == token.NOT {
							if c := isYield(u.X); c != nil {
								n++
								r.Site(c.Pos(), where+": if !yield")
								if len(x.Body.List) == 0 || !endsFlow(x.Body.List[len(x.Body.List)-1]) {
									r.Fail(where+":yield-no-stop", c.Pos(), nil, "%s: `if !yield(...)` does not stop producing (no return / break in its body)", where)
								}
								for _, a := range c.Args {
									checkCallsIn(a)
								}
								walk(x.Body.List, false)
								if eb, ok := x.Else.(*ast.BlockStmt); ok {
									walk(eb.List, tailK)
								}
								continue
							}
						}
						if c := isYield(cond); c != nil {
							n++
							r.Site(c.Pos(), where+": if yield")
							stops := len(x.Body.List) > 0 && endsFlow(x.Body.List[len(x.Body.List)-1])
							if stops {
								r.Fail(where+":yield-inverted", c.Pos(), nil, "%s: the iterator stops when yield returns TRUE (the consumer wants more) and goes on when it returns false: everything after the first element is dropped", where)
							}
							walk(x.Body.List, false)
							continue
						}
						checkCallsIn(x.Cond)
						walk(x.Body.List, tailK)
						switch e := x.Else.(type) {
						case *ast.BlockStmt:
							walk(e.List, tailK)
						case *ast.IfStmt:
							walk([]ast.Stmt{e}, tailK)
						}
					case *ast.ForStmt:
						if x.Cond != nil {
							checkCallsIn(x.Cond)
						}
						walk(x.Body.List, false)
					case *ast.RangeStmt:
						checkCallsIn(x.X)
						walk(x.Body.List, false)
					case *ast.BlockStmt:
						walk(x.List, tailK)
					case *ast.SwitchStmt:
						for _, cc := range x.Body.List {
							walk(cc.(*ast.CaseClause).Body, tailK)
						}
					case *ast.TypeSwitchStmt:
						for _, cc := range x.Body.List {
							walk(cc.(*ast.CaseClause).Body, tailK)
						}
					case *ast.SelectStmt:
						for _, cc := range x.Body.List {
							walk(cc.(*ast.CommClause).Body, tailK)
						}
					case *ast.LabeledStmt:
						walk([]ast.Stmt{x.Stmt}, tailK)
					case *ast.DeferStmt, *ast.GoStmt:
						// not part of the producing flow
					default:
						checkCallsIn(st)
					}
				}
			}
			walk(lit.Body.List, true)
			return true
		})
	}
	if n < floor {
		r.Error("floor: %s: only %d yield sites analysed (at least %d confirmed by hand)", rel, n, floor)
	}
}

func init() {
	for _, it := range []struct {
		id, pkg string
		props   []string
		floor   int
	}{
		{"C07.n", "dkv/sst", []string{"C07", "C03", "C18", "C17"}, 8},
		{"C07.o", "dkv", []string{"C07", "C03"}, 1},
		{"C07.p", "dkv/memtable", []string{"C07", "C03", "C19"}, 1},
		{"C07.q", "dkv/mergesort", []string{"C07", "C03", "C18"}, 1},
		{"C19.h", "util/iteru", []string{"C19", "C07", "C10"}, 3},
		{"C17.u", "dkv/wal", []string{"C17", "C08"}, 3},
	} {
		it := it
		register(&Obligation{ID: it.id, Props: it.props, Template: "iterator-protocol",
			Desc: "iterators of " + it.pkg + " honour the range-over-func protocol: every yield is `if !yield(x) { return }` (stop exactly when the consumer says stop) or the final action; none stops when yield returns true (which silently drops every element after the first) and none ignores the answer mid-stream",
			Run:  func(r *Run) { r.iterProtocol(it.pkg, it.floor) }})
	}
}

// normNot pushes negations inward (De Morgan, double negation) so that conditions are compared
// in one form: !(A || B) -> !A && !B, !(A && B) -> !A || !B, !!A -> A. Only the boolean
// skeleton is rebuilt; the leaves are the original nodes.
func normNot(e ast.Expr) ast.Expr {
	e = ast.Unparen(e)
	switch x := e.(type) {
	case *ast.BinaryExpr:
		if x.Op == token.LAND || x.Op == token.LOR {
			return &ast.BinaryExpr{X: normNot(x.X), OpPos: x.OpPos, Op: x.Op, Y: normNot(x.Y)}
		}
	case *ast.UnaryExpr:
		if x.Op != token.NOT {
			return e
		}
		in := ast.Unparen(x.X)
		switch y := in.(type) {
		case *ast.UnaryExpr:
			if y.Op == token.NOT {
				return normNot(y.X)
			}
		case *ast.BinaryExpr:
			neg := func(z ast.Expr) ast.Expr { return normNot(&ast.UnaryExpr{OpPos: x.OpPos, Op: token.NOT, X: z}) }
			switch y.Op {
			case token.LOR:
				return &ast.BinaryExpr{X: neg(y.X), OpPos: y.OpPos, Op: token.LAND, Y: neg(y.Y)}
			case token.LAND:
				return &ast.BinaryExpr{X: neg(y.X), OpPos: y.OpPos, Op: token.LOR, Y: neg(y.Y)}
			}
		}
	}
	return e
}
