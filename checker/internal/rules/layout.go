package rules

import (
	"fmt"
	"go/ast"
	"go/token"
	"go/types"
	"sort"
	"strings"

	"verif/checker/internal/prog"
)

// Fixed-layout byte keys (T6b). An encoder that fills a `make([]byte, total)` buffer on
// straight-line code is abstracted to an ordered list of segments whose offsets and
// widths are linear forms over len(<parameter>) symbols; a running offset variable is
// evaluated symbolically. Nothing is executed.

type lin map[string]int // coefficient per atom; "" = constant term

func (l lin) String() string {
	var ks []string
	for k, v := range l {
		if v != 0 {
			ks = append(ks, k)
		}
	}
	sort.Strings(ks)
	var parts []string
	for _, k := range ks {
		v := l[k]
		switch {
		case k == "":
			parts = append(parts, fmt.Sprint(v))
		case v == 1:
			parts = append(parts, k)
		default:
			parts = append(parts, fmt.Sprintf("%d*%s", v, k))
		}
	}
	if len(parts) == 0 {
		return "0"
	}
	return strings.Join(parts, "+")
}

func (l lin) add(o lin) lin {
	out := lin{}
	for k, v := range l {
		out[k] += v
	}
	for k, v := range o {
		out[k] += v
	}
	for k, v := range out {
		if v == 0 {
			delete(out, k)
		}
	}
	return out
}

func (l lin) eq(o lin) bool { return sameLinear(l, o) }

type segment struct {
	Start lin
	Width lin
	Kind  string // "KG($0)", "const:0x00", "BE32(len($0))", "bytes($0)", "U8(len($1))", "TIME($1)"
	Pos   token.Pos
}

type layoutResult struct {
	Wrong    []string // definite layout violations (a write that does not fit its window)
	Total    lin
	Segments []segment
	Problems []string
}

// paramName maps a parameter object to "$i".
func paramNames(f *prog.FuncInfo) map[types.Object]string {
	out := map[types.Object]string{}
	sig := f.Obj.Type().(*types.Signature)
	for i := 0; i < sig.Params().Len(); i++ {
		out[sig.Params().At(i)] = fmt.Sprintf("$%d", i)
	}
	return out
}

type layoutEval struct {
	r      *Run
	f      *prog.FuncInfo
	info   *types.Info
	params map[types.Object]string
	ints   map[types.Object]lin // symbolic int locals
	buf    types.Object
	alias  map[types.Object]lin // slice parameters of inlined helpers that stand for buf[base:]
	depth  int
	res    *layoutResult
	// lastResults: the result expressions of the last return statement of the helper being run
	lastResults []ast.Expr
}

// wrong records a definite violation (as opposed to a shape outside the fragment).
func (le *layoutEval) wrong(pos token.Pos, format string, a ...any) {
	le.res.Wrong = append(le.res.Wrong, le.r.P.Pos(pos)+": "+fmt.Sprintf(format, a...))
}

// fits: a write of w bytes into a window of the given width. A wider window is harmless (the
// write still covers exactly [start, start+w)); a narrower one is a definite error.
func (le *layoutEval) fits(pos token.Pos, what string, width lin, w int) bool {
	if width.eq(lin{"": w}) {
		return true
	}
	if n, ok := constOf(width); ok {
		if n > w {
			return true
		}
		le.wrong(pos, "%s needs %d bytes but its window has only %d", what, w, n)
		return false
	}
	return true // open-ended window (buf[k:]): the write covers [k, k+w)
}

func constOf(l lin) (int, bool) {
	for k, v := range l {
		if k != "" && v != 0 {
			return 0, false
		}
	}
	return l[""], true
}

func (le *layoutEval) problem(pos token.Pos, format string, a ...any) {
	le.res.Problems = append(le.res.Problems, le.r.P.Pos(pos)+": "+fmt.Sprintf(format, a...))
}

// name renders an operand: parameter -> $i, otherwise source text.
func (le *layoutEval) name(e ast.Expr) string {
	e = stripConv(le.info, e)
	if o := prog.IdentObj(le.info, e); o != nil {
		if n, ok := le.params[o]; ok {
			return n
		}
	}
	return types.ExprString(e)
}

// linOf evaluates an int expression to a linear form.
func (le *layoutEval) linOf(e ast.Expr) (lin, bool) {
	e = stripConv(le.info, e)
	if tv, ok := le.info.Types[e]; ok && tv.Value != nil {
		var v int
		if _, err := sscanInt(tv.Value.String(), &v); err == nil {
			return lin{"": v}.add(lin{}), true
		}
	}
	switch x := e.(type) {
	case *ast.Ident:
		if o := le.info.Uses[x]; o != nil {
			if l, ok := le.ints[o]; ok {
				return l, true
			}
		}
		return nil, false
	case *ast.BinaryExpr:
		a, ok1 := le.linOf(x.X)
		b, ok2 := le.linOf(x.Y)
		if !ok1 || !ok2 {
			return nil, false
		}
		switch x.Op {
		case token.ADD:
			return a.add(b), true
		case token.SUB:
			nb := lin{}
			for k, v := range b {
				nb[k] = -v
			}
			return a.add(nb), true
		}
		return nil, false
	case *ast.CallExpr:
		if id, ok := x.Fun.(*ast.Ident); ok && id.Name == "len" && len(x.Args) == 1 {
			return lin{"len(" + le.name(x.Args[0]) + ")": 1}, true
		}
		if id, ok := x.Fun.(*ast.Ident); ok && id.Name == "copy" && len(x.Args) == 2 {
			// value of copy(dst, src) when dst is large enough: len(src)
			return lin{"len(" + le.name(x.Args[1]) + ")": 1}, true
		}
	}
	return nil, false
}

// bufRange resolves buf, buf[a:], buf[a:b] to (start, width-or-nil).
func (le *layoutEval) bufRange(e ast.Expr) (start lin, width lin, ok bool) {
	e = ast.Unparen(e)
	if base, ok := le.bufBase(e); ok {
		return base, nil, true
	}
	sl, isSl := e.(*ast.SliceExpr)
	if !isSl {
		return nil, nil, false
	}
	base, isBuf := le.bufBase(sl.X)
	if !isBuf {
		return nil, nil, false
	}
	start = lin{}
	if sl.Low != nil {
		s, ok := le.linOf(sl.Low)
		if !ok {
			return nil, nil, false
		}
		start = s
	}
	if sl.High != nil {
		h, ok := le.linOf(sl.High)
		if !ok {
			return nil, nil, false
		}
		neg := lin{}
		for k, v := range start {
			neg[k] = -v
		}
		width = h.add(neg)
	}
	return start.add(base), width, true
}

// bufBase: e names the key buffer (offset 0) or a helper parameter bound to buf[base:].
func (le *layoutEval) bufBase(e ast.Expr) (lin, bool) {
	o := prog.IdentObj(le.info, ast.Unparen(e))
	if o == nil {
		return nil, false
	}
	if o == le.buf {
		return lin{}, true
	}
	if b, ok := le.alias[o]; ok {
		return b, true
	}
	return nil, false
}

func (le *layoutEval) seg(pos token.Pos, start, width lin, kind string) {
	le.res.Segments = append(le.res.Segments, segment{Start: start, Width: width, Kind: kind, Pos: pos})
}

// write interprets one call / assignment that stores into the buffer.
func (le *layoutEval) call(call *ast.CallExpr) (lin, bool) {
	fn := le.r.P.CalleeFunc(le.info, call)
	// kg.PutBytes(buf...)
	if fn != nil && fn.Name() == "PutBytes" && fn.Pkg() != nil && prog.RelPkg(fn.Pkg().Path()) == "partitioning" && len(call.Args) == 1 {
		start, width, ok := le.bufRange(call.Args[0])
		if !ok {
			le.problem(call.Pos(), "PutBytes target is not the key buffer")
			return nil, false
		}
		if width != nil {
			le.fits(call.Pos(), "the key group", width, 2)
		}
		recv := ""
		if sel, ok := ast.Unparen(call.Fun).(*ast.SelectorExpr); ok {
			def := resolveLocal(le.info, le.f.Decl.Body, sel.X)
			if c2, ok := ast.Unparen(def).(*ast.CallExpr); ok && len(c2.Args) == 1 {
				if f2 := le.r.P.CalleeFunc(le.info, c2); f2 != nil && f2.Name() == "KeyGroup" {
					recv = "KG(" + le.name(c2.Args[0]) + ")"
				}
			}
			if recv == "" {
				recv = "KG(" + le.name(sel.X) + ")"
			}
		}
		le.seg(call.Pos(), start, lin{"": 2}, recv+":BE")
		return nil, true
	}
	// binary.BigEndian.PutUintNN(buf[..], v) / LittleEndian
	if sel, ok := ast.Unparen(call.Fun).(*ast.SelectorExpr); ok && len(call.Args) == 2 {
		order := ""
		if isSelectorOf(le.info, sel.X, "encoding/binary", "BigEndian") {
			order = "BE"
		} else if isSelectorOf(le.info, sel.X, "encoding/binary", "LittleEndian") {
			order = "LE"
		}
		if order != "" && strings.HasPrefix(sel.Sel.Name, "PutUint") {
			bits := strings.TrimPrefix(sel.Sel.Name, "PutUint")
			w := map[string]int{"16": 2, "32": 4, "64": 8}[bits]
			start, width, ok := le.bufRange(call.Args[0])
			if !ok || w == 0 {
				le.problem(call.Pos(), "unsupported %s target", sel.Sel.Name)
				return nil, false
			}
			if width != nil {
				le.fits(call.Pos(), sel.Sel.Name, width, w)
			}
			val := stripConv(le.info, call.Args[1])
			vs := le.name(val)
			if l, ok := le.linOf(val); ok {
				vs = l.String()
			}
			le.seg(call.Pos(), start, lin{"": w}, fmt.Sprintf("%s%s(%s)", order, bits, vs))
			return nil, true
		}
	}
	// binu.PutTimeBytes(buf[a:b], t)
	if fn != nil && fn.Name() == "PutTimeBytes" && len(call.Args) == 2 {
		start, width, ok := le.bufRange(call.Args[0])
		if !ok {
			le.problem(call.Pos(), "PutTimeBytes target is not the key buffer")
			return nil, false
		}
		if width != nil {
			le.fits(call.Pos(), "the timestamp", width, 8)
		}
		le.seg(call.Pos(), start, lin{"": 8}, "TIME("+le.name(call.Args[1])+")")
		return nil, true
	}
	// copy(buf[..], x)
	if id, ok := call.Fun.(*ast.Ident); ok && id.Name == "copy" && len(call.Args) == 2 {
		start, _, ok := le.bufRange(call.Args[0])
		if !ok {
			return nil, false
		}
		n := le.name(call.Args[1])
		w := lin{"len(" + n + ")": 1}
		le.seg(call.Pos(), start, w, "bytes("+n+")")
		return w, true
	}
	return nil, false
}

// extractLayout abstracts encoder f.
func (r *Run) extractLayout(f *prog.FuncInfo) *layoutResult {
	le := &layoutEval{r: r, f: f, info: f.Pkg.TypesInfo, params: paramNames(f), ints: map[types.Object]lin{}, alias: map[types.Object]lin{}, res: &layoutResult{}}
	le.block(f.Decl.Body.List)
	if le.buf == nil {
		le.problem(f.Decl.Pos(), "no make([]byte, n) buffer found")
	}
	return le.res
}

// helper runs the body of an extracted helper in place: slice parameters given the key buffer (or
// buf[k:]) alias it, integer parameters take the argument's linear form, other parameters are
// rendered as the caller's operand; the helper's integer result (if any) is the call's value.
func (le *layoutEval) helper(call *ast.CallExpr) (ret lin, hasRet bool, handled bool) {
	hf := le.r.P.FuncInfoOf(le.r.P.CalleeFunc(le.info, call))
	if !isNewHelper(le.r.P, hf) || le.depth >= 2 || hf.Pkg.TypesInfo != le.info || hf.Decl.Type.Params == nil {
		return nil, false, false
	}
	touches := false
	k := 0
	for _, fld := range hf.Decl.Type.Params.List {
		for _, n := range fld.Names {
			obj := le.info.Defs[n]
			if k < len(call.Args) && obj != nil {
				arg := call.Args[k]
				if start, width, ok := le.bufRange(arg); ok && width == nil {
					le.alias[obj] = start
					touches = true
				} else if l, ok := le.linOf(arg); ok {
					le.ints[obj] = l
				} else {
					le.params[obj] = le.name(arg)
				}
			}
			k++
		}
	}
	if !touches {
		return nil, false, false
	}
	le.depth++
	ret, hasRet = le.block(hf.Decl.Body.List)
	le.depth--
	return ret, hasRet, true
}

// helperTuple runs an extracted helper that returns several values (typically the freshly made
// buffer and the offset behind a prefix it wrote) and hands back the result expressions of its
// return statement, to be read in the helper's environment (which is shared with the caller's).
func (le *layoutEval) helperTuple(call *ast.CallExpr) ([]ast.Expr, bool) {
	hf := le.r.P.FuncInfoOf(le.r.P.CalleeFunc(le.info, call))
	if !isNewHelper(le.r.P, hf) || le.depth >= 2 || hf.Pkg.TypesInfo != le.info {
		return nil, false
	}
	k := 0
	if hf.Decl.Type.Params != nil {
		for _, fld := range hf.Decl.Type.Params.List {
			for _, n := range fld.Names {
				obj := le.info.Defs[n]
				if k < len(call.Args) && obj != nil {
					arg := call.Args[k]
					if start, width, ok := le.bufRange(arg); ok && width == nil {
						le.alias[obj] = start
					} else if l, ok := le.linOf(arg); ok {
						le.ints[obj] = l
					} else {
						le.params[obj] = le.name(arg)
					}
				}
				k++
			}
		}
	}
	// named integer results start at zero
	var named []ast.Expr
	if hf.Decl.Type.Results != nil {
		for _, fld := range hf.Decl.Type.Results.List {
			for _, n := range fld.Names {
				obj := le.info.Defs[n]
				if obj == nil {
					continue
				}
				named = append(named, n)
				if b, ok := obj.Type().Underlying().(*types.Basic); ok && b.Info()&types.IsInteger != 0 {
					le.ints[obj] = lin{}
				}
			}
		}
	}
	le.depth++
	le.lastResults = nil
	le.block(hf.Decl.Body.List)
	le.depth--
	rets := le.lastResults
	if len(rets) == 0 && len(named) > 0 {
		rets = named // bare return of named results
	}
	return rets, len(rets) > 0
}

// block interprets a straight-line statement list; the linear form of a returned integer is
// handed back (helpers).
func (le *layoutEval) block(list []ast.Stmt) (ret lin, hasRet bool) {
	for _, st := range list {
		switch x := st.(type) {
		case *ast.AssignStmt:
			// buf, offset := helper(...): an extracted helper that allocates the buffer, writes a
			// prefix and returns (buffer, next offset)
			if len(x.Lhs) > 1 && len(x.Rhs) == 1 {
				if call, ok := ast.Unparen(x.Rhs[0]).(*ast.CallExpr); ok {
					if rets, ok := le.helperTuple(call); ok && len(rets) == len(x.Lhs) {
						for i, l := range x.Lhs {
							o := prog.IdentObjPlain(le.info, l)
							if o == nil {
								continue
							}
							if base, isBuf := le.bufBase(rets[i]); isBuf {
								le.alias[o] = base
							} else if v, isLin := le.linOf(rets[i]); isLin {
								le.ints[o] = v
							}
						}
						continue
					}
				}
			}
			if len(x.Lhs) == 1 && len(x.Rhs) == 1 {
				lhs, rhs := x.Lhs[0], x.Rhs[0]
				// buf := make([]byte, total)
				if call, ok := ast.Unparen(rhs).(*ast.CallExpr); ok {
					if id, ok := call.Fun.(*ast.Ident); ok && id.Name == "make" && len(call.Args) == 2 && le.buf == nil {
						if t, ok := le.linOf(call.Args[1]); ok {
							le.buf = prog.IdentObj(le.info, lhs)
							le.res.Total = t
							continue
						}
						le.problem(x.Pos(), "buffer length is not a linear expression")
						continue
					}
				}
				// buf[E] = V
				if ix, ok := ast.Unparen(lhs).(*ast.IndexExpr); ok && le.buf != nil {
					if base, isBuf := le.bufBase(ix.X); isBuf {
						start, ok := le.linOf(ix.Index)
						if !ok {
							le.problem(x.Pos(), "byte store at a non-linear offset")
							continue
						}
						start = start.add(base)
						kind := ""
						v := stripConv(le.info, rhs)
						if tv, ok := le.info.Types[v]; ok && tv.Value != nil {
							var c int
							sscanInt(tv.Value.String(), &c)
							kind = fmt.Sprintf("const:0x%02x", c)
						} else if l, ok := le.linOf(v); ok {
							kind = "U8(" + l.String() + ")"
						} else {
							kind = "U8(" + le.name(v) + ")"
						}
						le.seg(x.Pos(), start, lin{"": 1}, kind)
						continue
					}
				}
				// offset := E / offset = E / offset += E
				if o := prog.IdentObj(le.info, lhs); o != nil {
					if b, ok := o.Type().Underlying().(*types.Basic); ok && b.Info()&types.IsInteger != 0 {
						var val lin
						okv := false
						if call, ok := ast.Unparen(rhs).(*ast.CallExpr); ok {
							if hv, has, handled := le.helper(call); handled {
								val, okv = hv, has
							} else if w, ok := le.call(call); ok && w != nil {
								val, okv = w, true
							}
						}
						if !okv {
							val, okv = le.linOf(rhs)
						}
						if !okv {
							delete(le.ints, o)
							continue
						}
						switch x.Tok {
						case token.DEFINE, token.ASSIGN:
							le.ints[o] = val
						case token.ADD_ASSIGN:
							if cur, ok := le.ints[o]; ok {
								le.ints[o] = cur.add(val)
							}
						default:
							delete(le.ints, o)
						}
						continue
					}
				}
			}
		case *ast.ExprStmt:
			if call, ok := ast.Unparen(x.X).(*ast.CallExpr); ok {
				if _, _, handled := le.helper(call); !handled {
					le.call(call)
				}
			}
		case *ast.IncDecStmt:
			if o := prog.IdentObj(le.info, x.X); o != nil {
				if cur, ok := le.ints[o]; ok {
					d := 1
					if x.Tok == token.DEC {
						d = -1
					}
					le.ints[o] = cur.add(lin{"": d})
				}
			}
		case *ast.ReturnStmt:
			if le.depth > 0 && len(x.Results) == 1 {
				if l, ok := le.linOf(x.Results[0]); ok {
					ret, hasRet = l, true
				}
			}
			if le.depth > 0 {
				le.lastResults = x.Results
			}
		case *ast.DeclStmt, *ast.EmptyStmt:
		default:
			le.problem(st.Pos(), "unsupported statement %T in a key encoder (branching encoders are outside the fragment)", st)
		}
	}
	return ret, hasRet
}

// checkLayout compares an extracted layout with the expected ordered (width, kind) list
// and requires the segments to tile [0,total) without gaps or overlaps.
func (r *Run) checkLayout(f *prog.FuncInfo, want []segment) *layoutResult {
	res := r.extractLayout(f)
	name := f.Name()
	r.Site(f.Decl.Pos(), name+": key layout "+renderLayout(res))
	for _, w := range res.Wrong {
		r.Fail(name+":window", f.Decl.Pos(), nil, "%s: %s: the write panics or the key is laid out differently from what the decoders and prefix scans expect", name, w)
	}
	for _, p := range res.Problems {
		r.Error("undecided: %s: %s", name, p)
	}
	if len(res.Problems) > 0 {
		return res
	}
	// sort segments by walking: find the segment whose start equals the running end
	var ordered []segment
	cur := lin{}
	rest := append([]segment(nil), res.Segments...)
	for len(rest) > 0 {
		found := -1
		for i, s := range rest {
			if s.Start.eq(cur) {
				found = i
				break
			}
		}
		if found < 0 {
			r.Fail(name+":layout-gap", f.Decl.Pos(), nil, "the key layout of %s has a gap or overlap at offset %s: %s", name, cur, renderLayout(res))
			return res
		}
		ordered = append(ordered, rest[found])
		cur = cur.add(rest[found].Width)
		rest = append(rest[:found], rest[found+1:]...)
	}
	if !cur.eq(res.Total) {
		r.Fail(name+":layout-total", f.Decl.Pos(), nil, "the segments of %s end at %s but the buffer has %s bytes", name, cur, res.Total)
	}
	res.Segments = ordered
	if len(ordered) != len(want) {
		r.Fail(name+":layout-shape", f.Decl.Pos(), nil, "%s writes %d segments, the key format has %d: got %s", name, len(ordered), len(want), renderLayout(res))
		return res
	}
	for i, w := range want {
		g := ordered[i]
		if !g.Width.eq(w.Width) || g.Kind != w.Kind {
			r.Fail(fmt.Sprintf("%s:layout-segment:%d", name, i), g.Pos, nil, "segment %d of %s is [%s bytes: %s], the key format requires [%s bytes: %s]", i, name, g.Width, g.Kind, w.Width, w.Kind)
		}
	}
	return res
}

func renderLayout(res *layoutResult) string {
	var parts []string
	for _, s := range res.Segments {
		parts = append(parts, fmt.Sprintf("[@%s %s:%s]", s.Start, s.Width, s.Kind))
	}
	return strings.Join(parts, "") + " total=" + res.Total.String()
}
