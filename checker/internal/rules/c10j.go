package rules

import (
	"go/ast"
	"go/constant"
	"go/token"
	"go/types"

	"verif/checker/internal/pathsim"
	"verif/checker/internal/prog"
)

// pushAtoms classifies the conditions KeyGroupPriorityQueue.Push may test before it touches the
// cache: atom 0 `pq.allDataInCache`, atom 1 "data <= last cached element", atom 2 "data < last
// cached element". The last cached element is the result of a SortedCache method that reads the
// tree's maximum; the comparison is bytes.Compare(..) against a constant, in any orientation.
func (r *Run) pushAtoms(push *prog.FuncInfo) func(c *pathsim.Ctx, e ast.Expr) (int, bool, bool) {
	all := r.P.Field("workers/operator", "KeyGroupPriorityQueue", "allDataInCache")
	// methods of SortedCache that only read the maximum of the tree
	lastFns := map[types.Object]bool{}
	for _, fi := range r.P.AllFuncs() {
		if fi.Decl == nil || fi.Decl.Body == nil || fi.Decl.Recv == nil || fi.Pkg == nil || fi.Pkg.Types.Name() != "ds" {
			continue
		}
		if !recvIsNamed(fi, "SortedCache") {
			continue
		}
		reads, writes := false, false
		ast.Inspect(fi.Decl.Body, func(nd ast.Node) bool {
			switch x := nd.(type) {
			case *ast.CallExpr:
				if sel, ok := ast.Unparen(x.Fun).(*ast.SelectorExpr); ok {
					switch sel.Sel.Name {
					case "Max":
						reads = true
					case "DeleteMax", "DeleteMin", "Delete", "ReplaceOrInsert", "Clear":
						writes = true
					}
				}
			case *ast.AssignStmt:
				for _, l := range x.Lhs {
					if _, isSel := ast.Unparen(l).(*ast.SelectorExpr); isSel {
						writes = true
					}
				}
			}
			return true
		})
		if reads && !writes {
			lastFns[fi.Obj] = true
		}
	}
	isData := func(c *pathsim.Ctx, e ast.Expr) bool { return r.isParam(push, e, 0) }
	isLast := func(c *pathsim.Ctx, e ast.Expr) bool {
		call, idx := valueOrigin(c.Info, e, 0)
		return call != nil && idx == 0 && lastFns[r.P.CalleeFunc(c.Info, call)]
	}
	return func(c *pathsim.Ctx, e ast.Expr) (int, bool, bool) {
		e = ast.Unparen(e)
		if prog.SelField(c.Info, e) == all {
			return 0, false, true
		}
		b, ok := e.(*ast.BinaryExpr)
		if !ok {
			return 0, false, false
		}
		// bytes.Compare(x, y) OP k, either side
		call, isCall := isCallToNamed(c.Info, b.X, "bytes", "Compare")
		kExpr, op := b.Y, b.Op
		if !isCall {
			call, isCall = isCallToNamed(c.Info, b.Y, "bytes", "Compare")
			kExpr, op = b.X, flipCmp(b.Op)
		}
		if !isCall || len(call.Args) != 2 {
			return 0, false, false
		}
		tv, has := c.Info.Types[kExpr]
		if !has || tv.Value == nil || tv.Value.Kind() != constant.Int {
			return 0, false, false
		}
		k, exact := constant.Int64Val(tv.Value)
		if !exact {
			return 0, false, false
		}
		// the set of compare results (-1, 0, 1) for which the condition holds, as a bit set
		// (bit 0: x < y, bit 1: x == y, bit 2: x > y)
		set := 0
		for i, v := range []int64{-1, 0, 1} {
			hold := false
			switch op {
			case token.LSS:
				hold = v < k
			case token.LEQ:
				hold = v <= k
			case token.GTR:
				hold = v > k
			case token.GEQ:
				hold = v >= k
			case token.EQL:
				hold = v == k
			case token.NEQ:
				hold = v != k
			default:
				return 0, false, false
			}
			if hold {
				set |= 1 << i
			}
		}
		switch {
		case isData(c, call.Args[0]) && isLast(c, call.Args[1]):
		case isLast(c, call.Args[0]) && isData(c, call.Args[1]):
			set = (set&1)<<2 | set&2 | (set&4)>>2 // mirror
		default:
			return 0, false, false
		}
		switch set {
		case 0b011: // data <= last
			return 1, false, true
		case 0b100: // data > last
			return 1, true, true
		case 0b001: // data < last
			return 2, false, true
		case 0b110: // data >= last
			return 2, true, true
		}
		return 0, false, false
	}
}

func recvIsNamed(fi *prog.FuncInfo, name string) bool {
	sig, ok := fi.Obj.Type().(*types.Signature)
	if !ok || sig.Recv() == nil {
		return false
	}
	t := sig.Recv().Type()
	if p, isPtr := t.(*types.Pointer); isPtr {
		t = p.Elem()
	}
	n, isNamed := t.(*types.Named)
	return isNamed && n.Obj().Name() == name
}

// pushInvalidate: a call of another method of the queue may rewrite allDataInCache (loadFromDB
// does); a call that changes the cache's contents changes its last element.
func (r *Run) pushInvalidate(c *pathsim.Ctx, s pathsim.State, ev *pathsim.Event) pathsim.State {
	if ev.Kind != pathsim.EvCall || ev.Call == nil {
		return s
	}
	cache := r.P.Field("workers/operator", "KeyGroupPriorityQueue", "cache")
	if fn, ok := ev.Callee.(*types.Func); ok {
		if fi := r.P.FuncInfoOf(fn); fi != nil && fi.Decl != nil && fi.Decl.Recv != nil && recvIsNamed(fi, "KeyGroupPriorityQueue") {
			s.V[0] = pathsim.Unknown
		}
	}
	if sel, ok := ast.Unparen(ev.Call.Fun).(*ast.SelectorExpr); ok && prog.SelField(c.Info, sel.X) == cache {
		switch sel.Sel.Name {
		case "Push", "Pop", "PopLast", "Delete":
			s.V[1], s.V[2] = pathsim.Unknown, pathsim.Unknown
		}
	}
	return s
}

// C10.j: while some timers of the key group exist only in the DKV (allDataInCache is false) the
// cache must hold a prefix of the key group's timers in key order, because Peek / Pop serve the
// cache's minimum without looking at the DKV. An element may therefore enter the cache only when
// everything is cached or when it does not sort after the cache's last element.
func init() {
	register(&Obligation{ID: "C10.j", Props: []string{"C10"}, Template: "guard",
		Desc: "KeyGroupPriorityQueue.Push puts an element into the cache only on paths that established allDataInCache, or that the element does not sort after the cache's last element: otherwise a timer later than timers evicted to the DKV is served before them",
		Run: func(r *Run) {
			push := r.P.Func("workers/operator", "(*KeyGroupPriorityQueue).Push")
			cache := r.P.Field("workers/operator", "KeyGroupPriorityQueue", "cache")
			all := r.P.Field("workers/operator", "KeyGroupPriorityQueue", "allDataInCache")
			n := 0
			spec := &pathsim.Spec{Atom: r.pushAtoms(push), AtomDeps: map[int][]types.Object{0: {all}}}
			spec.Step = func(c *pathsim.Ctx, s pathsim.State, ev *pathsim.Event) []pathsim.State {
				if methodCallOn(cache, "Push")(c, ev) {
					n++
					if s.V[0] != pathsim.True && s.V[1] != pathsim.True && s.V[2] != pathsim.True {
						c.Violate(ev.Pos, "[cache-not-prefix] the element enters the cache although some timers may exist only in the DKV (allDataInCache not established) and it was not compared with the cache's last element: a timer later than the evicted ones is then popped before them, and the evicted ones fire late")
					}
				}
				return []pathsim.State{r.pushInvalidate(c, s, ev)}
			}
			r.Sim(push.Decl, push.Name()+":prefix", spec)
			r.Site(push.Decl.Pos(), "Push: cache insertion guarded")
			if n == 0 {
				r.Fail(push.Name()+":no-cache", push.Decl.Pos(), nil, "Push never inserts into the cache")
			}
		}})
}
