package rules

import (
	"go/ast"
	"go/types"

	"verif/checker/internal/orderdom"
	"verif/checker/internal/pathsim"
	"verif/checker/internal/prog"
)

func init() {
	prop("C11",
		"(a) the source runner's maximum forwarded timestamp only moves forward; (b) its watermark is that maximum minus (allowed lateness + 1ns), so it never reaches the maximum; (c) the maximum is advanced for every keyed event before the event is routed and the watermark is stamped on the same goroutine when the watermark placeholder is sent; (d) the operator's composite watermark is the minimum over all upstream source runners, each initialised to the epoch, recomputed after recording the sender's new value, and no upstream is ever removed from the set the minimum ranges over; (e) the handler is told that composite watermark; (f) no timer later than the composite fires (C10.a).",
		"'follows the timestamp closely' (a progress / timing clause); that watermarks arrive at all.")

	register(&Obligation{ID: "C11.a", Props: []string{"C11"}, Template: "monotone",
		Desc: "wmark.(*Watermarker).AdvanceTime replaces maxTimestamp by the event timestamp iff the event timestamp is later; nothing else writes maxTimestamp",
		Run: func(r *Run) {
			f := r.P.Func("workers/wmark", "(*Watermarker).AdvanceTime")
			maxF := r.P.Field("workers/wmark", "Watermarker", "maxTimestamp")
			info := f.Pkg.TypesInfo
			recv := f.Decl.Recv.List[0].Names[0].Name
			p0 := f.Obj.Type().(*types.Signature).Params().At(0).Name()
			// evaluate as "effect" = the store of maxTimestamp
			var cond ast.Expr
			var store *ast.AssignStmt
			inspect(f.Decl.Body, func(nd ast.Node) bool {
				if is, ok := nd.(*ast.IfStmt); ok {
					for _, st := range is.Body.List {
						if as, ok := st.(*ast.AssignStmt); ok && len(as.Lhs) == 1 && prog.SelField(info, as.Lhs[0]) == maxF {
							cond, store = is.Cond, as
						}
					}
				}
				return true
			})
			if store == nil {
				// maybe max(...) form
				ok := false
				inspect(f.Decl.Body, func(nd ast.Node) bool {
					if as, isAs := nd.(*ast.AssignStmt); isAs && len(as.Lhs) == 1 && prog.SelField(info, as.Lhs[0]) == maxF {
						store = as
					}
					return true
				})
				if store != nil {
					r.Error("undecided: AdvanceTime updates maxTimestamp outside an `if later` guard")
				} else {
					r.Fail(f.Name()+":no-store", f.Decl.Pos(), nil, "AdvanceTime never advances maxTimestamp: the watermark stays at the epoch and no timer ever fires")
				}
				_ = ok
				return
			}
			r.orderDomExpr(info, cond, f.Name()+":advance-condition", map[string]string{p0: "event", recv + ".maxTimestamp": "max"}, nil,
				func(e odEnv) orderdom.Value { return orderdom.Bool(e.Rank["event"] > e.Rank["max"]) }, "eventTimestamp > maxTimestamp")
			if !r.isParam(f, store.Rhs[0], 0) {
				r.Fail(f.Name()+":store-value", store.Pos(), nil, "maxTimestamp is set to something other than the event timestamp")
			}
			for _, fa := range r.fieldAccesses(maxF) {
				if !fa.Write || prog.IsTestSupport(fa.Use.Pkg.PkgPath) {
					continue
				}
				where := r.scopeName(fa.Use.Scope)
				r.Site(fa.Use.Ident.Pos(), "maxTimestamp written in "+where)
				if where != f.Name() {
					r.Fail("maxTimestamp-write<-"+where, fa.Use.Ident.Pos(), nil, "maxTimestamp is written in %s: only AdvanceTime (which only moves it forward) may", where)
				}
			}
		}})

	register(&Obligation{ID: "C11.b", Props: []string{"C11"}, Template: "linear-form",
		Desc: "wmark.(*Watermarker).CurrentWatermark returns maxTimestamp.Add(-(allowedLateness + 1ns)): strictly below the largest forwarded timestamp, by exactly the allowed lateness plus one nanosecond",
		Run: func(r *Run) {
			f := r.P.Func("workers/wmark", "(*Watermarker).CurrentWatermark")
			info := f.Pkg.TypesInfo
			maxF := r.P.Field("workers/wmark", "Watermarker", "maxTimestamp")
			lateF := r.P.Field("workers/wmark", "Watermarker", "allowedLateness")
			r.Site(f.Decl.Pos(), "CurrentWatermark expression")
			var rets []*ast.ReturnStmt
			ast.Inspect(f.Decl.Body, func(nd ast.Node) bool { // the function's own returns, not those of helpers it calls
				if _, ok := nd.(*ast.FuncLit); ok {
					return false
				}
				if rs, ok := nd.(*ast.ReturnStmt); ok {
					rets = append(rets, rs)
				}
				return true
			})
			if len(rets) == 0 {
				r.Error("undecided: CurrentWatermark shape")
				return
			}
			// every return has the form: a special case (epoch before the first event, a clamp) makes
			// the sequence of watermarks non-monotone or lets it reach a forwarded timestamp
			for _, ret := range rets {
				if len(ret.Results) != 1 {
					r.Error("undecided: CurrentWatermark shape")
					return
				}
				e := resolveLocal(info, f.Decl.Body, ret.Results[0])
				call, ok := ast.Unparen(e).(*ast.CallExpr)
				bad := func(msg string) {
					r.Fail(f.Name()+":form", ret.Pos(), nil, "CurrentWatermark is not maxTimestamp - (allowedLateness + 1ns): %s", msg)
				}
				if !ok {
					bad("not a call of Time.Add")
					continue
				}
				sel, ok := ast.Unparen(call.Fun).(*ast.SelectorExpr)
				if !ok || sel.Sel.Name != "Add" || prog.SelField(info, sel.X) != maxF || len(call.Args) != 1 {
					bad("the base is not maxTimestamp.Add(...)")
					continue
				}
				// normalise the offset: unary minus over a sum
				lin, okLin := linearOfSigned(info, f.Decl.Body, call.Args[0])
				if !okLin {
					r.Error("undecided: the watermark offset is not a linear expression")
					return
				}
				recv := f.Decl.Recv.List[0].Names[0].Name
				want := map[string]int{recv + "." + lateF.Name(): -1, "": -1}
				if !sameLinear(lin, want) {
					bad("offset has the form " + renderLinear(lin) + ", want -allowedLateness - 1 (ns)")
				}
			}
		}})

	register(&Obligation{ID: "C11.c", Props: []string{"C11", "C04"}, Template: "who-may+must-precede",
		Desc: "Watermarker.AdvanceTime is called only in sendOperatorEvent, for each keyed event before it is routed; CurrentWatermark is read only there, when the watermark placeholder is sent on the same goroutine; the stamped watermark is what is broadcast",
		Run: func(r *Run) {
			adv := r.P.FuncObj("workers/wmark", "(*Watermarker).AdvanceTime")
			cur := r.P.FuncObj("workers/wmark", "(*Watermarker).CurrentWatermark")
			so := r.P.Func("workers/sourcerunner", "(*SourceRunner).sendOperatorEvent")
			r.whoMayCall(adv, false, map[string]string{so.Name(): ""})
			r.whoMayCall(cur, false, map[string]string{so.Name(): ""})
			// "route": cluster.routeEvent(key, event) or the same two lines inlined (routeCallOf)
			bodyRoutes := func(n ast.Node) bool {
				found := false
				inspect(n, func(m ast.Node) bool {
					if call, ok := m.(*ast.CallExpr); ok {
						if _, _, is := r.routeCallOf(so.Pkg.TypesInfo, call); is {
							found = true
						}
					}
					return !found
				})
				return found
			}
			info := so.Pkg.TypesInfo
			// per element of the async result: AdvanceTime(event.Timestamp) precedes routeEvent
			var loop ast.Stmt // range or counted loop whose body routes the events
			inspect(so.Decl.Body, func(nd ast.Node) bool {
				switch x := nd.(type) {
				case *ast.RangeStmt:
					if bodyRoutes(x.Body) {
						loop = x
					}
				case *ast.ForStmt:
					if bodyRoutes(x.Body) {
						loop = x
					}
				}
				return true
			})
			if loop == nil {
				r.Fail(so.Name()+":no-route-loop", so.Decl.Pos(), nil, "sendOperatorEvent no longer routes keyed events")
				return
			}
			// "the event being forwarded": the variable whose Key is the routing key
			baseOf := func(c *pathsim.Ctx, e ast.Expr, field string) types.Object {
				var obj types.Object
				inspectValue(c.Info, e, func(m ast.Node) bool { // (through `t := ev.Timestamp.AsTime()` locals)
					if sel, ok := m.(*ast.SelectorExpr); ok && sel.Sel.Name == field && obj == nil {
						obj = derefObj(c.Info, sel.X)
					}
					return true
				})
				return obj
			}
			var advanced, routedObj types.Object
			spec := &pathsim.Spec{Step: func(c *pathsim.Ctx, s pathsim.State, ev *pathsim.Event) []pathsim.State {
				if ((ev.Kind == pathsim.EvRangeIter || ev.Kind == pathsim.EvLoopIter) && ev.Node == ast.Node(loop)) || (ev.Kind == pathsim.EvLoopExit && ev.Node == ast.Node(loop)) {
					if s.B == 1 && s.A == 0 {
						c.Violate(ev.Pos, "[route-without-advance] a keyed event is routed in an iteration that does not feed its timestamp to the watermark source: the watermark source never accounts for it, so a watermark at or beyond that timestamp can be emitted although the event was forwarded after it")
					}
					if s.B == 1 && s.A == 1 && routedObj != nil && advanced != nil && routedObj != advanced {
						c.Violate(ev.Pos, "[advance-arg] AdvanceTime is not given the timestamp of the event being forwarded")
					}
					s.A, s.B = 0, 0
					return []pathsim.State{s}
				}
				if callTo(adv)(c, ev) {
					advanced = nil
					if len(ev.Call.Args) == 1 {
						advanced = baseOf(c, ev.Call.Args[0], "Timestamp")
					}
					if advanced == nil {
						c.Violate(ev.Pos, "[advance-arg] AdvanceTime is not given the timestamp of the event being forwarded")
					}
					s.A = 1
					return []pathsim.State{s}
				}
				routeKey := ast.Expr(nil)
				if ev.Kind == pathsim.EvCall && ev.Call != nil && !ev.Go && !ev.Deferred {
					if k, _, is := r.routeCallOf(c.Info, ev.Call); is {
						routeKey = k
					}
				}
				if routeKey != nil {
					// B: an event was routed in this iteration; A: its timestamp was fed to the watermark source.
					// Both happen on the single consumer goroutine between two items of outputStream, so their
					// relative order inside the iteration is immaterial; what matters is that no routed event
					// leaves the iteration without having advanced the watermark source.
					s.B = 1
					if routed := baseOf(c, routeKey, "Key"); routed != nil {
						routedObj = routed
					}
					return []pathsim.State{s}
				}
				return nil
			}}
			r.Sim(so.Decl, so.Name(), spec)
			r.Site(loop.Pos(), "sendOperatorEvent: AdvanceTime precedes routeEvent per event")
			// the watermark message is stamped IN PLACE when it is sent on, and the same pointer is
			// put into every operator's pending batch: every placeholder queued on outputStream must
			// therefore be a freshly allocated message, never a shared one
			outF := r.P.Field("workers/sourcerunner", "SourceRunner", "outputStream")
			wmWrap := r.P.TypeName("proto/workerpb", "Event_Watermark")
			wmMsg := r.P.TypeName("proto/workerpb", "Watermark")
			nFresh := 0
			for _, fa := range r.fieldAccesses(outF) {
				if fa.Kind != "send" || prog.IsTestSupport(fa.Use.Pkg.PkgPath) {
					continue
				}
				send := fa.Stmt.(*ast.SendStmt)
				pinfo := fa.Use.Pkg.TypesInfo
				isFreshLit := func(e ast.Expr) bool {
					u, ok := ast.Unparen(e).(*ast.UnaryExpr)
					if !ok || u.Op.String() != "&" {
						return false
					}
					_, ok = ast.Unparen(u.X).(*ast.CompositeLit)
					return ok
				}
				sent := freshValue(pinfo, send.Value, send.Pos())
				if isFreshLit(sent) {
					if mentionsType(pinfo, sent, wmWrap) {
						// nested Watermark must be fresh too
						freshInner := false
						inspect(sent, func(m ast.Node) bool {
							if kv, ok := m.(*ast.KeyValueExpr); ok {
								if id, ok := kv.Key.(*ast.Ident); ok && id.Name == "Watermark" && isFreshLit(kv.Value) && mentionsType(pinfo, kv.Value, wmMsg) {
									freshInner = true
								}
							}
							return true
						})
						r.Site(send.Pos(), "watermark placeholder is freshly allocated")
						nFresh++
						if !freshInner {
							r.Fail(so.Name()+":shared-watermark-message", send.Pos(), nil, "a watermark placeholder wraps a Watermark message that is not allocated at the send: sendOperatorEvent stamps it in place while earlier copies of the same pointer are still waiting in operator batches, so an earlier watermark is rewritten to a later (too large) value")
						}
					}
					continue
				}
				// not a literal: could be a shared placeholder
				t := pinfo.TypeOf(send.Value)
				_ = t
				where := r.scopeName(fa.Use.Scope)
				r.Site(send.Pos(), "non-literal value queued on outputStream in "+where)
				r.Fail(where+":shared-placeholder", send.Pos(), nil, "a value that is not allocated at the send site (%s) is queued on outputStream: placeholders are mutated in place downstream (watermark stamping) and their pointers are shared between operator batches, so a reused message changes events that were already queued", types.ExprString(send.Value))
			}
			if nFresh < 2 {
				r.Fail(so.Name()+":watermark-placeholders", so.Decl.Pos(), nil, "expected the ticker case and the end-of-input case to queue a fresh watermark placeholder each (found %d)", nFresh)
			}
			// watermark case: Timestamp = CurrentWatermark(), then broadcast that message
			wmT := r.P.TypeName("proto/workerpb", "Event_Watermark")
			bc := r.P.FuncObj("workers/sourcerunner", "(*operatorCluster).broadcastEvent")
			inspect(so.Decl.Body, func(nd ast.Node) bool {
				cc, ok := nd.(*ast.CaseClause)
				if !ok {
					return true
				}
				isWM := false
				for _, e := range cc.List {
					if mentionsType(info, e, wmT) {
						isWM = true
					}
				}
				if !isWM {
					return true
				}
				r.Site(cc.Pos(), "watermark case stamps CurrentWatermark and broadcasts it")
				stamped, sent := false, false
				for _, st := range cc.Body {
					inspect(st, func(m ast.Node) bool {
						if as, ok := m.(*ast.AssignStmt); ok && len(as.Lhs) == 1 {
							if sel, ok := ast.Unparen(as.Lhs[0]).(*ast.SelectorExpr); ok && sel.Sel.Name == "Timestamp" && r.exprCalls(info, as.Rhs[0], cur) {
								stamped = true
							}
						}
						if call, ok := m.(*ast.CallExpr); ok && r.P.CalleeFunc(info, call) == bc {
							if !stamped {
								r.Fail(so.Name()+":broadcast-before-stamp", call.Pos(), nil, "the watermark is broadcast before it is stamped with the current watermark")
							}
							sent = true
						}
						return true
					})
				}
				if stamped && !sent {
					// the broadcast hoisted behind the switch: the case hands the watermark to a variable
					// that the shared broadcastEvent call after the switch sends
					var carrier types.Object
					for _, st := range cc.Body {
						if as, ok := st.(*ast.AssignStmt); ok && len(as.Lhs) == 1 && len(as.Rhs) == 1 {
							if sel, ok := ast.Unparen(as.Rhs[0]).(*ast.SelectorExpr); ok && sel.Sel.Name == "Watermark" {
								carrier = prog.IdentObjPlain(info, as.Lhs[0])
							}
						}
					}
					if carrier != nil {
						inspect(so.Decl.Body, func(m ast.Node) bool {
							if call, ok := m.(*ast.CallExpr); ok && call.Pos() > cc.End() && r.P.CalleeFunc(info, call) == bc && len(call.Args) == 1 && prog.IdentObjPlain(info, call.Args[0]) == carrier {
								sent = true
							}
							return true
						})
					}
				}
				if !stamped || !sent {
					r.Fail(so.Name()+":watermark-case", cc.Pos(), nil, "the watermark case must stamp Timestamp = CurrentWatermark() and broadcast it (stamped=%v sent=%v)", stamped, sent)
				}
				return true
			})
		}})

	register(&Obligation{ID: "C11.d", Props: []string{"C11", "C10"}, Template: "value-identity+order-domain",
		Desc: "TimerRegistry.AdvanceWatermark records the sender's watermark, then takes the minimum over all upstreams (iteru.MinFunc with time.Time.Compare) as composite and caches it; NewTimerRegistry initialises every upstream id with the epoch; iteru.MinFunc keeps the smallest element",
		Run: func(r *Run) {
			f := r.P.Func("workers/operator", "(*TimerRegistry).AdvanceWatermark")
			info := f.Pkg.TypesInfo
			ups := r.P.Field("workers/operator", "TimerRegistry", "upstreams")
			wm := r.P.Field("workers/operator", "TimerRegistry", "watermark")
			minFunc := r.P.FuncObj("util/iteru", "MinFunc")
			var storePos, minPos, cachePos = ast.Node(nil), ast.Node(nil), ast.Node(nil)
			var comp types.Object
			cacheUnchecked := false
			inspect(f.Decl.Body, func(nd ast.Node) bool {
				if _, isLit := nd.(*ast.FuncLit); isLit {
					return false
				}
				as, ok := nd.(*ast.AssignStmt)
				if !ok || len(as.Lhs) != 1 || len(as.Rhs) != 1 {
					return true
				}
				if ix, ok := ast.Unparen(as.Lhs[0]).(*ast.IndexExpr); ok && prog.SelField(info, ix.X) == ups {
					storePos = as
					if !r.isParam(f, ix.Index, 0) {
						r.Fail(f.Name()+":upstream-key", as.Pos(), nil, "the watermark is recorded under a key other than the sender id")
					}
					// value derives from the message's Timestamp
					uses := false
					inspectValue(info, as.Rhs[0], func(m ast.Node) bool {
						if sel, ok := m.(*ast.SelectorExpr); ok && (sel.Sel.Name == "Timestamp" || sel.Sel.Name == "GetTimestamp") {
							uses = true
						}
						return true
					})
					if !uses {
						r.Fail(f.Name()+":upstream-value", as.Pos(), nil, "the recorded upstream watermark is not the message's timestamp")
					}
				}
				minRhs := ast.Unparen(as.Rhs[0])
				if c, ok := minRhs.(*ast.CallExpr); ok {
					if b := helperReturnExpr(info, c); b != nil {
						minRhs = ast.Unparen(b) // an extracted helper whose body is `return iteru.MinFunc(...)`
					}
				}
				if call, ok := minRhs.(*ast.CallExpr); ok && r.P.CalleeFunc(info, call) == minFunc {
					minPos = as
					comp = prog.IdentObj(info, as.Lhs[0])
					okArgs := false
					if len(call.Args) == 2 {
						if inner, ok := isCallToNamed(info, call.Args[0], "maps", "Values"); ok && len(inner.Args) == 1 && prog.SelField(info, inner.Args[0]) == ups {
							if sel, ok := ast.Unparen(call.Args[1]).(*ast.SelectorExpr); ok && sel.Sel.Name == "Compare" && isSelectorOfType(info, sel, "time", "Time") {
								okArgs = true
							}
							// the same comparator written out: func(a, b time.Time) int { return a.Compare(b) }
							if lit, ok := ast.Unparen(call.Args[1]).(*ast.FuncLit); ok && len(lit.Body.List) == 1 && lit.Type.Params.NumFields() == 2 {
								var ps []types.Object
								for _, fld := range lit.Type.Params.List {
									for _, n := range fld.Names {
										ps = append(ps, info.Defs[n])
									}
								}
								if ret, ok := lit.Body.List[0].(*ast.ReturnStmt); ok && len(ret.Results) == 1 && len(ps) == 2 {
									if c2, ok := ast.Unparen(ret.Results[0]).(*ast.CallExpr); ok && len(c2.Args) == 1 {
										if s2, ok := ast.Unparen(c2.Fun).(*ast.SelectorExpr); ok && s2.Sel.Name == "Compare" && prog.IdentObjPlain(info, s2.X) == ps[0] && prog.IdentObjPlain(info, c2.Args[0]) == ps[1] {
											okArgs = true
										}
									}
								}
							}
						}
					}
					if !okArgs {
						r.Fail(f.Name()+":min-args", as.Pos(), nil, "the composite watermark is not iteru.MinFunc(maps.Values(upstreams), time.Time.Compare)")
					}
				}
				if prog.SelField(info, as.Lhs[0]) == wm {
					cachePos = as
					if comp != nil && prog.IdentObj(info, as.Rhs[0]) != comp {
						r.Fail(f.Name()+":cache-value", as.Pos(), nil, "the cached watermark is not the composite just computed")
					}
					if comp == nil {
						cacheUnchecked = true
					}
				}
				return true
			})
			// the hand-written minimum: a loop over the upstreams that keeps the earliest value
			if minPos == nil {
				ast.Inspect(f.Decl.Body, func(nd ast.Node) bool {
					if _, isLit := nd.(*ast.FuncLit); isLit {
						return false
					}
					rs, ok := nd.(*ast.RangeStmt)
					if !ok || prog.SelField(info, rs.X) != ups || rs.Value == nil {
						return true
					}
					best := r.keepBestDir(info, rs.Body, f.Name()+":min-loop", -1,
						func(e ast.Expr) bool { return usesTimeCompare(info, e) },
						func(x string) []string { return []string{x} },
						"no value yet || upstream watermark < current minimum")
					if best != nil {
						minPos, comp = rs, best
					}
					return true
				})
				// the cache assignment was visited before comp was known: re-check it
				if comp != nil && cachePos != nil && cacheUnchecked {
					cacheUnchecked = false
					if as := cachePos.(*ast.AssignStmt); prog.IdentObj(info, as.Rhs[0]) != comp {
						r.Fail(f.Name()+":cache-value", as.Pos(), nil, "the cached watermark is not the composite just computed")
					}
				}
			}
			if cacheUnchecked && cachePos != nil {
				r.Fail(f.Name()+":cache-value", cachePos.Pos(), nil, "the cached watermark is not the composite just computed")
			}
			r.Site(f.Decl.Pos(), "AdvanceWatermark: record, minimum, cache")
			if storePos == nil || minPos == nil || cachePos == nil {
				r.Fail(f.Name()+":steps", f.Decl.Pos(), nil, "AdvanceWatermark must record the sender's watermark, compute the minimum over upstreams and cache it (record=%v min=%v cache=%v)", storePos != nil, minPos != nil, cachePos != nil)
			} else if !(storePos.Pos() < minPos.Pos() && minPos.Pos() < cachePos.Pos()) {
				r.Fail(f.Name()+":order", f.Decl.Pos(), nil, "the minimum must be computed after recording the sender's new watermark and cached afterwards")
			}
			// NewTimerRegistry: every id -> time.Unix(0,0)
			nr := r.P.Func("workers/operator", "NewTimerRegistry")
			ni := nr.Pkg.TypesInfo
			okInit := false
			for _, lp := range fullLoopsOver(ni, nr.Decl.Body, func(e ast.Expr) bool { return r.isParam(nr, e, 1) }) {
				inspect(lp.Body, func(m ast.Node) bool {
					if as, ok := m.(*ast.AssignStmt); ok && len(as.Lhs) == 1 && len(as.Rhs) == 1 {
						if ix, ok := ast.Unparen(as.Lhs[0]).(*ast.IndexExpr); ok && lp.IsElem(ix.Index) {
							if call, ok := isCallToNamed(ni, as.Rhs[0], "time", "Unix"); ok && len(call.Args) == 2 {
								a, b := ni.Types[call.Args[0]], ni.Types[call.Args[1]]
								if a.Value != nil && b.Value != nil && a.Value.String() == "0" && b.Value.String() == "0" {
									okInit = true
								}
							}
						}
					}
					return true
				})
			}
			r.Site(nr.Decl.Pos(), "NewTimerRegistry initialises every upstream with the epoch")
			if !okInit {
				r.Fail(nr.Name()+":epoch-init", nr.Decl.Pos(), nil, "upstream watermarks are not initialised to time.Unix(0, 0) for every source runner id: a runner that has not reported would not hold the minimum back")
			}
			// the set of upstreams never shrinks: a runner that has stopped reporting (finished, slow,
			// gone) keeps holding the minimum at its last watermark. The field is written only by the
			// constructor and by AdvanceWatermark's element store.
			for _, fa := range r.fieldAccesses(ups) {
				sc := r.P.ScopeAt(fa.Use.Ident.Pos())
				where := r.scopeName(sc)
				r.Site(fa.Use.Ident.Pos(), "use of TimerRegistry.upstreams in "+where)
				bad := ""
				switch fa.Kind {
				case "delete":
					bad = "an upstream is deleted"
				case "assign":
					if where != nr.Name() {
						bad = "the upstreams map is replaced"
					}
				case "addr":
					bad = "the address of the upstreams map is taken"
				case "elem-store":
					if where != nr.Name() && where != f.Name() {
						bad = "an upstream's watermark is stored outside AdvanceWatermark"
					}
				case "read":
					// an argument of clear / maps.DeleteFunc / maps.Clear
					path := r.P.PathTo(fa.Use.File, fa.Use.Ident.Pos(), fa.Use.Ident.End())
					for k := len(path) - 1; k >= 0; k-- {
						call, isCall := path[k].(*ast.CallExpr)
						if !isCall {
							continue
						}
						ci := fa.Use.Pkg.TypesInfo
						if id, isID := ast.Unparen(call.Fun).(*ast.Ident); isID && id.Name == "clear" && ci.Uses[id] == types.Universe.Lookup("clear") {
							bad = "the upstreams map is cleared"
						}
						if _, isDel := isCallToNamed(ci, call, "maps", "DeleteFunc"); isDel {
							bad = "upstreams are deleted (maps.DeleteFunc)"
						}
						break
					}
				}
				if bad != "" {
					r.Fail("TimerRegistry.upstreams:shrinks:"+where, fa.Use.Ident.Pos(), nil, "%s in %s: the composite watermark is the minimum over ALL upstream source runners; once a runner is dropped the minimum jumps past its last watermark, timers later than the true minimum fire and the handler is told a watermark that runner never reached", bad, where)
				}
			}
			// iteru.MinFunc keep-lowest
			mf := r.P.Func("util/iteru", "MinFunc")
			mi := mf.Pkg.TypesInfo
			var guard *ast.IfStmt
			inspect(mf.Decl.Body, func(nd ast.Node) bool {
				if is, ok := nd.(*ast.IfStmt); ok && guard == nil {
					if _, inLoop := nd.(*ast.IfStmt); inLoop {
						inspect(is.Cond, func(m ast.Node) bool {
							if call, ok := m.(*ast.CallExpr); ok && r.isParam(mf, call.Fun, 1) {
								guard = is
							}
							return true
						})
					}
				}
				return true
			})
			if guard == nil {
				r.Error("undecided: iteru.MinFunc shape")
				return
			}
			// cmp(cur, *min) < 0  with symbols: treat cmp(a,b) as three-way compare of a and b
			var callCmp *ast.CallExpr
			inspect(guard.Cond, func(m ast.Node) bool {
				if call, ok := m.(*ast.CallExpr); ok && r.isParam(mf, call.Fun, 1) {
					callCmp = call
				}
				return true
			})
			a0, a1 := types.ExprString(callCmp.Args[0]), types.ExprString(callCmp.Args[1])
			names := map[string]string{types.ExprString(callCmp): "c", "min == nil": "?none", "min != nil": "?some"}
			r.orderDomExpr(mi, guard.Cond, mf.Name()+":keep-lowest", names,
				func(e odEnv) bool { return e.Bool["?none"] != e.Bool["?some"] },
				func(e odEnv) orderdom.Value { return orderdom.Bool(e.Bool["?none"] || e.Rank["c"] < e.Rank["#0"]) },
				"no minimum yet || cmp(cur, min) < 0")
			// argument order: cmp(cur, *min) where cur is the range variable
			var loop *ast.RangeStmt
			inspect(mf.Decl.Body, func(nd ast.Node) bool {
				if rs, ok := nd.(*ast.RangeStmt); ok && loop == nil {
					loop = rs
				}
				return true
			})
			curName := ""
			if loop != nil {
				if id, ok := loop.Key.(*ast.Ident); ok {
					curName = id.Name
				}
			}
			if a0 != curName || a1 != "*min" {
				r.Fail(mf.Name()+":cmp-args", guard.Pos(), nil, "MinFunc must compare cmp(current, *min) (found cmp(%s, %s)): with the arguments swapped it keeps the maximum", a0, a1)
			}
		}})

	register(&Obligation{ID: "C11.e", Props: []string{"C11"}, Template: "value-identity",
		Desc: "Operator.processEventBatch tells the handler the timer registry's composite watermark",
		Run: func(r *Run) {
			f := r.P.Func("workers/operator", "(*Operator).processEventBatch")
			info := f.Pkg.TypesInfo
			wm := r.P.Field("workers/operator", "TimerRegistry", "watermark")
			reg := r.P.Field("workers/operator", "Operator", "timerRegistry")
			ok := false
			inspect(f.Decl.Body, func(nd ast.Node) bool {
				kv, isKV := nd.(*ast.KeyValueExpr)
				if !isKV {
					return true
				}
				if id, isID := kv.Key.(*ast.Ident); !isID || id.Name != "Watermark" {
					return true
				}
				r.Site(kv.Pos(), "ProcessEventBatchRequest.Watermark")
				inspectValue(info, kv.Value, func(m ast.Node) bool { // (a local read from the registry in this function counts)
					if sel, isSel := m.(*ast.SelectorExpr); isSel && prog.SelField(info, sel) == wm && prog.SelField(info, sel.X) == reg {
						ok = true
					}
					return true
				})
				return true
			})
			if !ok {
				r.Fail(f.Name()+":handler-watermark", f.Decl.Pos(), nil, "the handler is not told o.timerRegistry.watermark (the minimum over upstreams)")
			}
		}})
}

// isSelectorOfType matches the method expression T.M where T is pkg.name (time.Time.Compare).
func isSelectorOfType(info *types.Info, sel *ast.SelectorExpr, pkgPath, name string) bool {
	tv, ok := info.Types[sel.X]
	if !ok || !tv.IsType() {
		return false
	}
	n, ok := tv.Type.(*types.Named)
	return ok && n.Obj().Pkg() != nil && n.Obj().Pkg().Path() == pkgPath && n.Obj().Name() == name
}

// linearOfSigned is linearOf with support for unary minus.
func linearOfSigned(info *types.Info, body ast.Node, e ast.Expr) (map[string]int, bool) {
	e = stripConv(info, e)
	if u, ok := e.(*ast.UnaryExpr); ok && u.Op.String() == "-" {
		m, ok := linearOfSigned(info, body, u.X)
		if !ok {
			return nil, false
		}
		out := map[string]int{}
		for k, v := range m {
			out[k] = -v
		}
		return out, true
	}
	return linearOf(info, body, e)
}

func renderLinear(m map[string]int) string {
	s := ""
	for k, v := range m {
		if k == "" {
			k = "1"
		}
		s += " " + itoa(v) + "*" + k
	}
	return s
}

func itoa(v int) string {
	if v < 0 {
		return "-" + itoa(-v)
	}
	if v < 10 {
		return string(rune('0' + v))
	}
	return itoa(v/10) + string(rune('0'+v%10))
}
