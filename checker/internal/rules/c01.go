package rules

import (
	"go/ast"
	"go/token"
	"go/types"

	"verif/checker/internal/pathsim"
	"verif/checker/internal/prog"
)

// callOfCallTo matches f(...)(...) where the inner call's static callee is fn: the
// "wait function" idiom of dkv.(*DB).Checkpoint.
func callOfCallTo(fn *types.Func) evPred {
	return func(c *pathsim.Ctx, ev *pathsim.Event) bool {
		if ev.Kind != pathsim.EvCall || ev.Call == nil {
			return false
		}
		// f(x)() directly, or w := f(x); w()
		inner, ok := deref(c.Info, ev.Call.Fun).(*ast.CallExpr)
		if !ok {
			return false
		}
		return c.P.CalleeFunc(c.Info, inner) == fn
	}
}

// guardAtom describes one guard atom for the generic T2 helper.
type guardAtom struct {
	Name  string
	Match func(c *pathsim.Ctx, e ast.Expr) (neg bool, ok bool)
	Deps  []types.Object
}

// guarded (T2): effect E is reachable only on paths where phi over the atoms is
// established true. phi receives the three-valued valuation.
func (r *Run) guarded(fn ast.Node, construct, tagE string, atoms []guardAtom, isE evPred, phi func(v []pathsim.Tri) bool, phiText string) int {
	seenE := map[token.Pos]bool{}
	spec := &pathsim.Spec{AtomDeps: map[int][]types.Object{}}
	for i, a := range atoms {
		spec.AtomDeps[i] = a.Deps
	}
	spec.Atom = func(c *pathsim.Ctx, e ast.Expr) (int, bool, bool) {
		for i, a := range atoms {
			if neg, ok := a.Match(c, e); ok {
				return i, neg, true
			}
		}
		return 0, false, false
	}
	spec.Step = func(c *pathsim.Ctx, s pathsim.State, ev *pathsim.Event) []pathsim.State {
		if isE(c, ev) {
			seenE[ev.Pos] = true
			v := make([]pathsim.Tri, len(atoms))
			for i := range atoms {
				v[i] = s.V[i]
			}
			if !phi(v) {
				desc := ""
				for i, a := range atoms {
					desc += " " + a.Name + "=" + [...]string{"false", "untested", "true"}[v[i]+1]
				}
				c.Violate(ev.Pos, "[%s] %s is reachable on a path where the guard %s is not established (%s )", tagE, tagE, phiText, desc)
			}
		}
		return nil
	}
	r.Sim(fn, construct, spec)
	for pos := range seenE {
		r.Site(pos, construct+": "+tagE+" guarded by "+phiText)
	}
	return len(seenE)
}

// callAtom matches a call (in condition position) to fn.
func callAtom(name string, fn *types.Func, deps ...types.Object) guardAtom {
	return guardAtom{Name: name, Deps: deps, Match: func(c *pathsim.Ctx, e ast.Expr) (bool, bool) {
		call, ok := ast.Unparen(e).(*ast.CallExpr)
		if !ok {
			return false, false
		}
		return false, c.P.CalleeFunc(c.Info, call) == fn
	}}
}

func init() {
	prop("C01",
		"(a) the operator flushes its pending event batch, with the flush error tested, before every DKV checkpoint; (b) the DKV checkpoint and the completion report happen only with all barriers received and after the checkpoint wait function returned nil; (c) the id/URI/key-group range reported to the job derive from the checkpoint just taken; (d) the source runner snapshots reader cursors before queuing the barrier; (e) source reads and cursor snapshots are confined to the source runner's event loop; (f) Deploy hands operator i the old checkpoints that AssignRanges computed for index i and AssignRanges receives sorted ranges; (g) one CurrentCheckpoint() result feeds Deploy and the splitter; (h) WAL replay applies every owned entry; plus C08's DKV checkpoint obligations.",
		"equality of handler-visible state with a failure-free run; behaviour at individual crash points; sink duplication.")

	register(&Obligation{ID: "C01.a", Props: []string{"C01", "C02"}, Template: "must-precede.err-checked",
		Desc: "handleCheckpointBarrier: every path to (*dkv.DB).Checkpoint has flushed the pending event batch (processEventBatch) and tested its error",
		Run: func(r *Run) {
			f := r.P.Func("workers/operator", "(*Operator).handleCheckpointBarrier")
			flush := r.P.FuncObj("workers/operator", "(*Operator).processEventBatch")
			ckpt := r.P.FuncObj("dkv", "(*DB).Checkpoint")
			n := r.errChecked(f.Decl, f.Name(), "processEventBatch", "db.Checkpoint", callTo(flush), callTo(ckpt))
			if n == 0 {
				r.Fail(f.Name()+":no-checkpoint", f.Decl.Pos(), nil, "handleCheckpointBarrier no longer calls (*dkv.DB).Checkpoint: barriers would be acknowledged without a state checkpoint")
			}
		}})

	register(&Obligation{ID: "C01.b", Props: []string{"C01", "C02"}, Template: "guard",
		Desc: "handleCheckpointBarrier: db.Checkpoint only with hasAllBarriers() true; OperatorCheckpointComplete only after the checkpoint wait function returned a nil error",
		Run: func(r *Run) {
			f := r.P.Func("workers/operator", "(*Operator).handleCheckpointBarrier")
			// "all barriers received": checkpoint.hasAllBarriers() (whose body C02.c pins to
			// len(srIDs) == 0) or that test written in place when the predicate was inlined
			var has *types.Func
			if hf := r.P.TryFunc("workers/operator", "(*checkpoint).hasAllBarriers"); hf != nil {
				has = hf.Obj
			}
			srIDsF := r.P.Field("workers/operator", "checkpoint", "srIDs")
			ckpt := r.P.FuncObj("dkv", "(*DB).Checkpoint")
			ckField := r.P.Field("workers/operator", "Operator", "checkpoint")
			allAtom := guardAtom{Name: "hasAllBarriers()", Deps: []types.Object{ckField}, Match: func(c *pathsim.Ctx, e ast.Expr) (bool, bool) {
				if call, ok := ast.Unparen(e).(*ast.CallExpr); ok && has != nil && c.P.CalleeFunc(c.Info, call) == has {
					return false, true
				}
				return lenIsZero(c.Info, e, srIDsF)
			}}
			n := r.guarded(f.Decl, f.Name(), "db.Checkpoint", []guardAtom{allAtom}, callTo(ckpt),
				func(v []pathsim.Tri) bool { return v[0] == pathsim.True }, "hasAllBarriers()")
			if n == 0 {
				r.Fail(f.Name()+":no-checkpoint", f.Decl.Pos(), nil, "no call of (*dkv.DB).Checkpoint")
			}
			done := r.P.FuncObj("proto", "Job.OperatorCheckpointComplete")
			m := r.errChecked(f.Decl, f.Name(), "db.Checkpoint()()", "job.OperatorCheckpointComplete", callOfCallTo(ckpt), callTo(done))
			if m == 0 {
				r.Fail(f.Name()+":no-completion", f.Decl.Pos(), nil, "no call of Job.OperatorCheckpointComplete")
			}
			// and the completion itself needs all barriers
			r.guarded(f.Decl, f.Name(), "job.OperatorCheckpointComplete", []guardAtom{allAtom}, callTo(done),
				func(v []pathsim.Tri) bool { return v[0] == pathsim.True }, "hasAllBarriers()")
		}})

	register(&Obligation{ID: "C01.d", Props: []string{"C01", "C16"}, Template: "must-precede.err-checked",
		Desc: "SourceRunner.processEvents, barrier case: the cursor snapshot (createCheckpoint -> SourceReader.Checkpoint) precedes, with its error tested, the send of the barrier on outputStream",
		Run: func(r *Run) {
			f := r.P.Func("workers/sourcerunner", "(*SourceRunner).processEvents")
			create := r.P.TryFunc("workers/sourcerunner", "(*SourceRunner).createCheckpoint")
			readerCk := r.P.FuncObj("connectors", "SourceReader.Checkpoint")
			out := r.P.Field("workers/sourcerunner", "SourceRunner", "outputStream")
			barrierT := r.P.TypeName("proto/workerpb", "Event_CheckpointBarrier")
			// the snapshot event: the wrapper createCheckpoint (which must always call
			// SourceReader.Checkpoint), or — when the wrapper has been inlined into the event loop —
			// SourceReader.Checkpoint itself
			isSnapshot := callTo(readerCk)
			snapName := "sourceReader.Checkpoint"
			if create != nil {
				if !r.alwaysDoes(create, callTo(readerCk)) {
					r.Fail(create.Name()+":reader.Checkpoint", create.Decl.Pos(), nil, "createCheckpoint does not call SourceReader.Checkpoint on every path: the reported split positions would not be the reader's cursors")
				}
				r.Site(create.Decl.Pos(), "wrapper createCheckpoint always performs SourceReader.Checkpoint")
				isSnapshot, snapName = callTo(create.Obj), "createCheckpoint"
			}
			isBarrierSend := func(c *pathsim.Ctx, ev *pathsim.Event) bool {
				if ev.Kind != pathsim.EvSend || prog.SelField(c.Info, ev.Chan) != out {
					return false
				}
				return mentionsType(c.Info, ev.Value, barrierT)
			}
			n := r.errChecked(f.Decl, f.Name(), snapName, "outputStream<-barrier", isSnapshot, isBarrierSend)
			if n == 0 {
				r.Fail(f.Name()+":no-barrier-send", f.Decl.Pos(), nil, "processEvents never queues a checkpoint barrier on outputStream")
			}
		}})

	register(&Obligation{ID: "C01.h", Props: []string{"C01", "C06", "C08"}, Template: "replay-completeness",
		Desc: "dkv.(*DB).Start: every WAL entry owned by this instance reaches Put or Delete (tombstones to Delete), replay errors are returned",
		Run: func(r *Run) {
			f := r.P.Func("dkv", "(*DB).Start")
			put := r.P.FuncObj("dkv", "(*DB).Put")
			del := r.P.FuncObj("dkv", "(*DB).Delete")
			owns := r.P.FuncObj("dkv/kv", "DataOwnership.OwnsKey")
			isDel := r.P.FuncObj("dkv/wal", "Entry.IsDelete")
			delField := r.P.Field("dkv/wal", "Entry", "Deleted")
			// find the range loop over the WAL entries: the loop whose body calls Put/Delete
			var loops []*ast.RangeStmt
			inspect(f.Decl.Body, func(n ast.Node) bool {
				if rs, ok := n.(*ast.RangeStmt); ok {
					found := false
					inspect(rs.Body, func(m ast.Node) bool {
						if call, ok := m.(*ast.CallExpr); ok {
							if fn := r.P.CalleeFunc(f.Pkg.TypesInfo, call); fn == put || fn == del {
								found = true
							}
						}
						return true
					})
					if found {
						loops = append(loops, rs)
					}
				}
				return true
			})
			if len(loops) == 0 {
				r.Fail(f.Name()+":no-replay-loop", f.Decl.Pos(), nil, "DB.Start has no loop applying WAL entries through Put/Delete")
				return
			}
			// innermost such loop
			loop := loops[len(loops)-1]
			r.Site(loop.Pos(), "WAL replay loop in DB.Start")
			atoms := []guardAtom{
				callAtom("OwnsKey", owns),
				{Name: "entry.Deleted", Match: func(c *pathsim.Ctx, e ast.Expr) (bool, bool) {
					if prog.SelField(c.Info, e) == delField {
						return false, true
					}
					if call, ok := ast.Unparen(e).(*ast.CallExpr); ok && c.P.CalleeFunc(c.Info, call) == isDel {
						return false, true
					}
					return false, false
				}},
			}
			// Simulate one iteration: the body as a function literal-like block.
			spec := &pathsim.Spec{AtomDeps: map[int][]types.Object{}}
			spec.Atom = func(c *pathsim.Ctx, e ast.Expr) (int, bool, bool) {
				for i, a := range atoms {
					if neg, ok := a.Match(c, e); ok {
						return i, neg, true
					}
				}
				return 0, false, false
			}
			spec.Step = func(c *pathsim.Ctx, s pathsim.State, ev *pathsim.Event) []pathsim.State {
				if ev.Kind == pathsim.EvRangeIter && ev.Node == ast.Node(loop) {
					// new entry: reset per-entry knowledge
					s.A = 2 // in iteration, nothing applied yet
					s.V[0], s.V[1] = pathsim.Unknown, pathsim.Unknown
					return []pathsim.State{s}
				}
				if ev.Kind == pathsim.EvCall {
					fn, _ := ev.Callee.(*types.Func)
					if fn == put || fn == del {
						if s.A == 2 {
							if s.V[0] != pathsim.True {
								c.Violate(ev.Pos, "[apply-unowned] a replayed WAL entry is applied without having established that this instance owns its key (OwnsKey): after a rescale the operator would load other operators' state from the shared WAL")
							}
							if fn == put && s.V[1] == pathsim.True {
								c.Violate(ev.Pos, "[tombstone-as-put] a tombstone entry is replayed through Put")
							}
							if fn == del && s.V[1] == pathsim.False {
								c.Violate(ev.Pos, "[put-as-delete] a put entry is replayed through Delete")
							}
							s.A = 3
							return []pathsim.State{s}
						}
					}
				}
				return nil
			}
			// Wrap: simulate the whole function but detect end-of-iteration by the next
			// EvRangeIter / EvLoopExit with A==2 and OwnsKey not known false.
			inner := spec.Step
			spec.Step = func(c *pathsim.Ctx, s pathsim.State, ev *pathsim.Event) []pathsim.State {
				if (ev.Kind == pathsim.EvRangeIter || ev.Kind == pathsim.EvLoopExit) && ev.Node == ast.Node(loop) && s.A == 2 && s.V[0] != pathsim.False {
					c.Violate(loop.Pos(), "[skip-owned] an iteration of the replay loop can end without applying an entry that was not established unowned")
				}
				if ev.Kind == pathsim.EvLoopExit && ev.Node == ast.Node(loop) {
					s.A = 0
					return []pathsim.State{s}
				}
				return inner(c, s, ev)
			}
			r.Sim(f.Decl, f.Name(), spec)
		}})
}

// mentionsType reports whether expression e syntactically constructs or names type tn.
func mentionsType(info *types.Info, e ast.Expr, tn *types.TypeName) bool {
	found := false
	inspect(e, func(n ast.Node) bool {
		if id, ok := n.(*ast.Ident); ok {
			if info.Uses[id] == tn {
				found = true
			}
		}
		return !found
	})
	return found
}

func init() {
	register(&Obligation{ID: "C01.c", Props: []string{"C01", "C02", "C12", "C06"}, Template: "value-identity",
		Desc: "handleCheckpointBarrier: the DKV checkpoint is taken for the in-progress checkpoint's id, and the completion report carries that id, the operator's own id and key-group range, and the URI returned by the checkpoint just taken",
		Run: func(r *Run) {
			f := r.P.Func("workers/operator", "(*Operator).handleCheckpointBarrier")
			info := f.Pkg.TypesInfo
			ckpt := r.P.FuncObj("dkv", "(*DB).Checkpoint")
			ckF := r.P.Field("workers/operator", "Operator", "checkpoint")
			idF := r.P.Field("workers/operator", "checkpoint", "checkpointID")
			opID := r.P.Field("workers/operator", "Operator", "id")
			kgr := r.P.Field("workers/operator", "Operator", "keyGroupRange")
			uriF := r.P.Field("dkv/recovery", "CheckpointHandle", "URI")
			isCkID := func(e ast.Expr) bool {
				sel, ok := deref(info, e).(*ast.SelectorExpr)
				return ok && prog.SelField(info, sel) == idF && prog.SelField(info, sel.X) == ckF
			}
			var handle types.Object
			inspect(f.Decl.Body, func(nd ast.Node) bool {
				switch x := nd.(type) {
				case *ast.CallExpr:
					if r.P.CalleeFunc(info, x) == ckpt {
						r.Site(x.Pos(), "db.Checkpoint argument")
						if len(x.Args) != 1 || !isCkID(x.Args[0]) {
							r.Fail(f.Name()+":checkpoint-id-arg", x.Pos(), nil, "the DKV checkpoint is not taken under the in-progress checkpoint's id (o.checkpoint.checkpointID): the job could not match it with the barrier it sent")
						}
					}
				case *ast.AssignStmt:
					if len(x.Rhs) == 1 && len(x.Lhs) == 2 {
						if outer, ok := ast.Unparen(x.Rhs[0]).(*ast.CallExpr); ok {
							if inner, ok := deref(info, outer.Fun).(*ast.CallExpr); ok && r.P.CalleeFunc(info, inner) == ckpt {
								handle = prog.IdentObj(info, x.Lhs[0])
							}
							// an extracted helper whose result is the checkpoint's result (`return db.Checkpoint(id)()`)
							if hf := r.P.FuncInfoOf(r.P.CalleeFunc(info, outer)); isNewHelper(r.P, hf) {
								ast.Inspect(hf.Decl.Body, func(m ast.Node) bool {
									if ret, ok := m.(*ast.ReturnStmt); ok && len(ret.Results) == 1 {
										if o2, ok := ast.Unparen(ret.Results[0]).(*ast.CallExpr); ok {
											if i2, ok := ast.Unparen(o2.Fun).(*ast.CallExpr); ok && r.P.CalleeFunc(info, i2) == ckpt {
												handle = prog.IdentObj(info, x.Lhs[0])
											}
										}
									}
									return true
								})
							}
						}
					}
				}
				return true
			})
			ocT := r.P.TypeName("proto/snapshotpb", "OperatorCheckpoint")
			found := false
			inspect(f.Decl.Body, func(nd ast.Node) bool {
				cl, ok := nd.(*ast.CompositeLit)
				if !ok || info.TypeOf(cl) != ocT.Type() {
					return true
				}
				found = true
				r.Site(cl.Pos(), "completion report fields")
				got := map[string]ast.Expr{}
				for _, el := range cl.Elts {
					if kv, ok := el.(*ast.KeyValueExpr); ok {
						got[kv.Key.(*ast.Ident).Name] = kv.Value
					}
				}
				if e, ok := got["CheckpointId"]; !ok || !isCkID(e) {
					r.Fail(f.Name()+":report-id", cl.Pos(), nil, "the completion report does not carry the in-progress checkpoint's id")
				}
				if e, ok := got["OperatorId"]; !ok || prog.SelField(info, e) != opID {
					r.Fail(f.Name()+":report-operator", cl.Pos(), nil, "the completion report does not carry this operator's id")
				}
				okURI := false
				if e, ok := got["DkvFileUri"]; ok {
					if sel, ok := deref(info, e).(*ast.SelectorExpr); ok && prog.SelField(info, sel) == uriF && handle != nil && derefObj(info, sel.X) == handle {
						okURI = true
					}
				}
				if !okURI {
					r.Fail(f.Name()+":report-uri", cl.Pos(), nil, "the completion report's DkvFileUri is not the URI of the checkpoint handle just produced")
				}
				okRange := 0
				if e, ok := got["KeyGroupRange"]; ok {
					inspect(e, func(m ast.Node) bool {
						if kv, ok := m.(*ast.KeyValueExpr); ok {
							name := kv.Key.(*ast.Ident).Name
							v := stripConv(info, kv.Value)
							if sel, ok := ast.Unparen(v).(*ast.SelectorExpr); ok && prog.SelField(info, sel.X) == kgr && sel.Sel.Name == name {
								okRange++
							}
						}
						return true
					})
				}
				if okRange != 2 {
					r.Fail(f.Name()+":report-range", cl.Pos(), nil, "the completion report's key-group range is not the operator's own {Start, End}: on restore the checkpoint would be handed to the wrong operators")
				}
				return true
			})
			if !found {
				r.Fail(f.Name()+":no-report", f.Decl.Pos(), nil, "no OperatorCheckpoint completion report is built")
			}
		}})

	register(&Obligation{ID: "C01.g", Props: []string{"C01", "C13", "C16"}, Template: "value-identity",
		Desc: "jobs.(*Job).start reads the current checkpoint once and uses that same value for Assembly.Deploy (operator state) and for the source checkpoint given to SourceSplitter.Start (source positions)",
		Run: func(r *Run) {
			f := r.P.Func("jobs", "(*Job).start")
			info := f.Pkg.TypesInfo
			cur := r.P.FuncObj("storage/snapshots", "(*Store).CurrentCheckpoint")
			deploy := r.P.FuncObj("jobs", "(*Assembly).Deploy")
			startFn := r.P.FuncObj("connectors", "SourceSplitter.Start")
			n := 0
			var ck types.Object
			inspect(f.Decl.Body, func(nd ast.Node) bool {
				switch x := nd.(type) {
				case *ast.CallExpr:
					if r.P.CalleeFunc(info, x) == cur {
						n++
					}
				case *ast.AssignStmt:
					if len(x.Rhs) == 1 && len(x.Lhs) == 1 {
						if call, ok := ast.Unparen(x.Rhs[0]).(*ast.CallExpr); ok && r.P.CalleeFunc(info, call) == cur {
							ck = prog.IdentObj(info, x.Lhs[0])
						}
					}
				}
				return true
			})
			r.Site(f.Decl.Pos(), "Job.start: one CurrentCheckpoint() result")
			if n != 1 || ck == nil {
				r.Fail(f.Name()+":single-read", f.Decl.Pos(), nil, "Job.start must read the current checkpoint exactly once (found %d reads): two reads can straddle a publication, restoring operator state and source positions from different checkpoints", n)
				return
			}
			uses := func(e ast.Node) bool {
				found := false
				inspect(e, func(m ast.Node) bool {
					if id, ok := m.(*ast.Ident); ok && info.Uses[id] == ck {
						found = true
					}
					return true
				})
				return found
			}
			okDeploy, okStart := false, false
			inspect(f.Decl.Body, func(nd ast.Node) bool {
				call, ok := nd.(*ast.CallExpr)
				if !ok {
					return true
				}
				switch r.P.CalleeFunc(info, call) {
				case deploy:
					r.Site(call.Pos(), "Deploy checkpoint argument")
					if len(call.Args) == 2 && prog.IdentObj(info, call.Args[1]) == ck {
						okDeploy = true
					}
				case startFn:
					r.Site(call.Pos(), "SourceSplitter.Start checkpoint argument")
					if len(call.Args) == 1 {
						if o := prog.IdentObj(info, call.Args[0]); o != nil {
							// every definition of that variable derives from ck
							derives, any := true, false
							inspect(f.Decl.Body, func(m ast.Node) bool {
								if as, ok := m.(*ast.AssignStmt); ok {
									for i, l := range as.Lhs {
										if prog.IdentObj(info, l) == o && i < len(as.Rhs) {
											any = true
											if !uses(as.Rhs[i]) {
												derives = false
											}
										}
									}
								}
								return true
							})
							okStart = any && derives
						} else if uses(call.Args[0]) {
							// an expression computed from the checkpoint directly (a helper call, an index)
							okStart = true
						}
					}
				}
				return true
			})
			if !okDeploy {
				r.Fail(f.Name()+":deploy-arg", f.Decl.Pos(), nil, "Assembly.Deploy is not given the checkpoint read at the start of Job.start")
			}
			// the job enters Running (which arms the checkpoint ticker and admits savepoint requests)
			// only after the splitter was started successfully with the restored positions: a checkpoint
			// taken before would pair the restored operator state with empty source positions
			status := r.P.Field("jobs", "Job", "status")
			running := r.P.Pkg("jobs").Types.Scope().Lookup("StatusRunning")
			var runLit *ast.FuncLit
			inspect(f.Decl.Body, func(nd ast.Node) bool {
				fl, ok := nd.(*ast.FuncLit)
				if !ok || runLit != nil {
					return true
				}
				inspect(fl.Body, func(m ast.Node) bool {
					if call, ok := m.(*ast.CallExpr); ok && len(call.Args) == 1 {
						if sel, ok := ast.Unparen(call.Fun).(*ast.SelectorExpr); ok && sel.Sel.Name == "Set" && prog.SelField(info, sel.X) == status && prog.IdentObj(info, call.Args[0]) == running {
							runLit = fl
						}
					}
					return true
				})
				return true
			})
			if runLit != nil {
				r.Site(runLit.Pos(), "Job.start: Running only after SourceSplitter.Start succeeded")
				r.errChecked(f.Decl, f.Name(), "SourceSplitter.Start", "task that sets StatusRunning", callTo(startFn),
					func(c *pathsim.Ctx, ev *pathsim.Event) bool { return ev.Kind == pathsim.EvFuncLit && ev.Lit == runLit })
			}
			if !okStart {
				r.Fail(f.Name()+":splitter-arg", f.Decl.Pos(), nil, "SourceSplitter.Start is not given a source checkpoint taken from the same job checkpoint that was deployed")
			}
			// Deploy happens (successfully) before the splitter starts assigning splits
			r.errChecked(f.Decl, f.Name(), "assembly.Deploy", "sourceSplitter.Start", callTo(deploy), callTo(startFn))
		}})
}
