package rules

import (
	"go/ast"
	"go/token"
	"go/types"

	"verif/checker/internal/pathsim"
	"verif/checker/internal/prog"
)

// litDoes reports whether a literal's body (any depth) contains a call to fn or a send on
// channel field ch.
func (r *Run) litDoes(info *types.Info, lit *ast.FuncLit, fn *types.Func, ch *types.Var) bool {
	found := false
	inspect(lit.Body, func(nd ast.Node) bool {
		switch x := nd.(type) {
		case *ast.CallExpr:
			if fn != nil && r.P.CalleeFunc(info, x) == fn {
				found = true
			}
		case *ast.SendStmt:
			if ch != nil && prog.SelField(info, x.Chan) == ch {
				found = true
			}
		}
		return !found
	})
	return found
}

func init() {
	prop("C13",
		"(a) on start the store selects the completed checkpoint with the highest id among the stored snapshot files (by comparing ids, or through an order-preserving file naming); (b) obsolete snapshot files are removed and operators told what to retain only after the new snapshot file was written successfully, and the obsolete set is collected before the new snapshot joins the completed list; (c) the completed list is only replaced by a snapshot with a higher id; (d) RetainOnly keeps the named checkpoints, queues the others for destruction and refuses to drop everything (C09.f); (e) storage removal errors are not discarded.",
		"crash points between individual storage operations (needs a storage model); timing of the asynchronous steps beyond the ordering and guards named above.")

	register(&Obligation{ID: "C13.a", Props: []string{"C13", "C12", "C01"}, Template: "latest-selection",
		Desc: "Store.LoadCheckpoint picks the stored job snapshot with the highest checkpoint id: it either compares the ids of all *.snapshot files, or takes the first listed file under a file naming that sorts newest first",
		Run: func(r *Run) {
			f := r.P.Func("storage/snapshots", "(*Store).LoadCheckpoint")
			info := f.Pkg.TypesInfo
			list := r.P.FuncObj("storage/locations", "StorageLocation.List")
			var loop *ast.RangeStmt
			inspect(f.Decl.Body, func(nd ast.Node) bool {
				if rs, ok := nd.(*ast.RangeStmt); ok {
					if call, ok := ast.Unparen(rs.X).(*ast.CallExpr); ok && r.P.CalleeFunc(info, call) == list {
						loop = rs
					}
				}
				return true
			})
			if loop == nil {
				r.Error("undecided: LoadCheckpoint no longer ranges over fileStore.List()")
				return
			}
			r.Site(loop.Pos(), "LoadCheckpoint: selection loop over stored files")
			// does the loop stop at the first *.snapshot?
			firstHit := false
			inspect(loop.Body, func(nd ast.Node) bool {
				if is, ok := nd.(*ast.IfStmt); ok {
					if !containsString(info, is.Cond, ".snapshot") {
						return true
					}
					inspect(is.Body, func(m ast.Node) bool {
						if b, ok := m.(*ast.BranchStmt); ok && b.Tok == token.BREAK {
							firstHit = true
						}
						if ret, ok := m.(*ast.ReturnStmt); ok {
							// a successful return (no error carried) ends the selection at this file; an
							// error return does not select anything
							success := true
							if n := len(ret.Results); n > 0 {
								if tv, ok := info.Types[ret.Results[n-1]]; ok && isErrorType(tv.Type) && !tv.IsNil() {
									success = false
								}
								if id, ok := ast.Unparen(ret.Results[n-1]).(*ast.Ident); ok {
									if v, ok := info.Uses[id].(*types.Var); ok && isErrorType(v.Type()) {
										success = false
									}
								}
							}
							if success {
								firstHit = true
							}
						}
						return true
					})
				}
				return true
			})
			if firstHit {
				// only sound with an order-preserving, descending name encoding
				ps := r.P.Func("storage/snapshots", "pathSegment")
				if !r.isOrderPreservingDescending(ps) {
					r.Fail(f.Name()+":first-listed", loop.Pos(), nil, "LoadCheckpoint takes the first *.snapshot of the listing, but pathSegment is not an order-preserving encoding of (MaxUint64 - id) (base64url does not sort like the bytes it encodes: ids 1,2,3,4 end in '4','0','w','s'), so the first listed file is not the newest checkpoint")
				}
				return
			}
			// keep-highest idiom: a guard comparing checkpoint ids controls the replacement of the candidate
			idField := r.P.Field("proto/snapshotpb", "JobCheckpoint", "Id")
			getID := r.P.FuncObj("proto/snapshotpb", "(*JobCheckpoint).GetId")
			best := r.keepBest(info, loop.Body, f.Name()+":keep-highest-id",
				func(e ast.Expr) bool { return exprUsesField(info, e, idField) || r.exprCalls(info, e, getID) },
				func(x string) []string { return []string{x + ".Id", x + ".GetId()"} },
				"no candidate yet || snapshot.Id > best.Id")
			if best == nil {
				// collect-then-select: every snapshot of the listing is appended to a slice (no guard
				// between the decode and the append), and the loaded one is slices.MaxFunc of that slice
				// under a comparator that orders by id ascending
				if r.collectThenMaxByID(f, loop, idField, getID) {
					return
				}
				r.Fail(f.Name()+":no-selection", loop.Pos(), nil, "LoadCheckpoint neither stops at the first *.snapshot nor keeps the snapshot with the highest id")
				return
			}
			// the selected snapshot is what gets loaded
			used := false
			inspect(f.Decl.Body, func(nd ast.Node) bool {
				if id, ok := nd.(*ast.Ident); ok && id.Pos() > loop.End() && info.Uses[id] == best {
					used = true
				}
				return true
			})
			if !used {
				r.Fail(f.Name()+":selected-unused", loop.Pos(), nil, "the snapshot with the highest id is selected but not the one loaded")
			}
		}})

	register(&Obligation{ID: "C13.b", Props: []string{"C13", "C09"}, Template: "must-precede.err-checked",
		Desc: "Store.finishSnapshotAsync: obsolete snapshot files are removed and the retained-ids notification is sent only after the new snapshot file was written with a nil error; the obsolete ids are collected before the new snapshot replaces the completed list; the notification names the new snapshot's id",
		Run: func(r *Run) {
			f := r.P.Func("storage/snapshots", "(*Store).finishSnapshotAsync")
			info := f.Pkg.TypesInfo
			write := r.P.FuncObj("storage/locations", "StorageLocation.Write")
			remove := r.P.FuncObj("storage/locations", "StorageLocation.Remove")
			retained := r.P.Field("storage/snapshots", "Store", "retainedCheckpointsUpdated")
			comp := r.P.Field("storage/snapshots", "storeState", "completedSnapshots")
			isCleanup := func(c *pathsim.Ctx, ev *pathsim.Event) bool {
				switch ev.Kind {
				case pathsim.EvFuncLit:
					return r.litDoes(c.Info, ev.Lit, remove, retained)
				case pathsim.EvCall:
					if callTo(remove)(c, ev) {
						return true
					}
					// the goroutine's literal turned into a named method: go s.removeObsolete(ids)
					if ev.Go && ev.Call != nil {
						if hf := c.P.FuncInfoOf(c.P.CalleeFunc(c.Info, ev.Call)); isNewHelper(c.P, hf) {
							return r.litDoes(c.Info, synthLit(hf), remove, retained)
						}
					}
					return false
				case pathsim.EvSend:
					return prog.SelField(c.Info, ev.Chan) == retained
				}
				return false
			}
			n := r.errChecked(f.Decl, f.Name(), "fileStore.Write", "remove-obsolete/notify-retained", callTo(write), isCleanup)
			if n < 2 {
				r.Fail(f.Name()+":no-cleanup", f.Decl.Pos(), nil, "finishSnapshotAsync must both remove obsolete snapshot files and notify the retained checkpoint ids (found %d such steps)", n)
			}
			// obsolete ids are collected from completedSnapshots before it is replaced
			spec := &pathsim.Spec{Step: func(c *pathsim.Ctx, s pathsim.State, ev *pathsim.Event) []pathsim.State {
				if ev.Kind == pathsim.EvAssign && len(ev.Lhs) == 1 && prog.SelField(c.Info, ev.Lhs[0]) == comp {
					s.A = 1
					return []pathsim.State{s}
				}
				if ev.Kind == pathsim.EvRangeIter {
					if rs, ok := ev.Node.(*ast.RangeStmt); ok && prog.SelField(c.Info, rs.X) == comp && s.A == 1 {
						c.Violate(ev.Pos, "[obsolete-after-replace] the obsolete ids are collected after the new snapshot joined the completed list: the snapshot just written would be deleted")
					}
				}
				if isCleanup(c, ev) && s.A == 1 {
					// fine: cleanup may be scheduled after the replacement as long as the ids were collected before
				}
				return nil
			}}
			r.Sim(f.Decl, f.Name(), spec)
			// the notification carries exactly the new snapshot's id
			snapParam := f.Obj.Type().(*types.Signature).Params().At(0)
			idF := r.P.Field("storage/snapshots", "jobSnapshot", "id")
			okNotify := false
			inspect(f.Decl.Body, func(nd ast.Node) bool {
				send, ok := nd.(*ast.SendStmt)
				if !ok || prog.SelField(info, send.Chan) != retained {
					return true
				}
				r.Site(send.Pos(), "retained-ids notification value")
				if cl, ok := ast.Unparen(send.Value).(*ast.CompositeLit); ok && len(cl.Elts) == 1 {
					if sel, ok := ast.Unparen(cl.Elts[0]).(*ast.SelectorExpr); ok && prog.SelField(info, sel) == idF && prog.IdentObj(info, sel.X) == types.Object(snapParam) {
						okNotify = true
					}
				}
				return true
			})
			if !okNotify {
				r.Fail(f.Name()+":retained-value", f.Decl.Pos(), nil, "operators must be told to retain exactly the checkpoint that was just published ([]uint64{snap.id})")
			}
			// the completed list becomes exactly [snap]
			okReplace := false
			inspect(f.Decl.Body, func(nd ast.Node) bool {
				as, ok := nd.(*ast.AssignStmt)
				if !ok || len(as.Lhs) != 1 || prog.SelField(info, as.Lhs[0]) != comp {
					return true
				}
				if cl, ok := ast.Unparen(as.Rhs[0]).(*ast.CompositeLit); ok && len(cl.Elts) == 1 && prog.IdentObj(info, cl.Elts[0]) == types.Object(snapParam) {
					okReplace = true
				}
				return true
			})
			r.Site(f.Decl.Pos(), "completed list replaced by the published snapshot")
			if !okReplace {
				r.Fail(f.Name()+":completed-value", f.Decl.Pos(), nil, "after publication the completed list must be exactly the published snapshot: a restart in this process would otherwise redeploy from an older checkpoint")
			}
			// the obsolete paths are built with the same name scheme as the written file
			ps := r.P.FuncObj("storage/snapshots", "pathSegment")
			nps := 0
			inspect(f.Decl.Body, func(nd ast.Node) bool {
				if call, ok := nd.(*ast.CallExpr); ok && r.P.CalleeFunc(info, call) == ps {
					nps++
				}
				return true
			})
			if nps < 2 {
				r.Fail(f.Name()+":name-scheme", f.Decl.Pos(), nil, "written and removed snapshot files must both be named through pathSegment (found %d uses)", nps)
			}
		}})

	register(&Obligation{ID: "C13.c", Props: []string{"C13"}, Template: "monotone-by-id",
		Desc: "Store.finishSnapshotAsync replaces the completed list (and deletes / announces) only when the published snapshot's id is higher than every completed snapshot's id: overlapping publications must not let an older checkpoint delete or supersede a newer one",
		Run: func(r *Run) {
			f := r.P.Func("storage/snapshots", "(*Store).finishSnapshotAsync")
			info := f.Pkg.TypesInfo
			comp := r.P.Field("storage/snapshots", "storeState", "completedSnapshots")
			idF := r.P.Field("storage/snapshots", "jobSnapshot", "id")
			r.Site(f.Decl.Pos(), "id comparison guarding the replacement of completedSnapshots")
			// accepted: some comparison between two jobSnapshot.id values on the path to the replacement
			compares := false
			inspect(f.Decl.Body, func(nd ast.Node) bool {
				b, ok := nd.(*ast.BinaryExpr)
				if !ok {
					return true
				}
				switch b.Op {
				case token.LSS, token.LEQ, token.GTR, token.GEQ:
					if prog.SelField(info, b.X) == idF && prog.SelField(info, b.Y) == idF {
						compares = true
					}
				}
				return true
			})
			if !compares {
				var pos token.Pos = f.Decl.Pos()
				inspect(f.Decl.Body, func(nd ast.Node) bool {
					if as, ok := nd.(*ast.AssignStmt); ok && len(as.Lhs) == 1 && prog.SelField(info, as.Lhs[0]) == comp {
						pos = as.Pos()
					}
					return true
				})
				r.Fail(f.Name()+":replace-without-id-compare", pos, nil, "the completed list is replaced and older files are deleted without comparing checkpoint ids: when the publication of checkpoint n+1 overtakes that of n, n deletes n+1's file and announces itself as the only checkpoint to retain")
			}
		}})

	register(&Obligation{ID: "C13.e", Props: []string{"C13", "C09"}, Template: "error-discipline",
		Desc: "storage removal: S3Location.Remove accumulates and returns deletion errors; the job's retained-checkpoint update does not discard the operators' error",
		Run: func(r *Run) {
			f := r.P.Func("storage/locations", "(*S3Location).Remove")
			info := f.Pkg.TypesInfo
			r.Site(f.Decl.Pos(), "S3Location.Remove error accumulation")
			inspect(f.Decl.Body, func(nd ast.Node) bool {
				es, ok := nd.(*ast.ExprStmt)
				if !ok {
					return true
				}
				if _, ok := isCallToNamed(info, es.X, "errors", "Join"); ok {
					r.Fail(f.Name()+":errors.Join-discarded", es.Pos(), nil, "the result of errors.Join is discarded: deletion failures are never reported, Remove always returns nil")
				}
				return true
			})
		}})
}

func containsString(info *types.Info, e ast.Node, s string) bool {
	found := false
	inspect(e, func(nd ast.Node) bool {
		if ex, ok := nd.(ast.Expr); ok {
			if tv, ok := info.Types[ex]; ok && tv.Value != nil && tv.Value.ExactString() == "\""+s+"\"" {
				found = true
			}
		}
		return !found
	})
	return found
}

// isOrderPreservingDescending: pathSegment(id) must be a fixed-width, order-preserving
// text encoding of an order-reversed id: fmt.Sprintf with %0Nx / %0Nd (N >= 16 / 20), or
// hex.EncodeToString of the big-endian bytes, applied to MaxUint64 - id (or ^id).
func (r *Run) isOrderPreservingDescending(f *prog.FuncInfo) bool {
	info := f.Pkg.TypesInfo
	ok := false
	inspect(f.Decl.Body, func(nd ast.Node) bool {
		call, isCall := nd.(*ast.CallExpr)
		if !isCall {
			return true
		}
		if _, isHex := isCallToNamed(info, call, "encoding/hex", "EncodeToString"); isHex {
			ok = true
		}
		if c, isFmt := isCallToNamed(info, call, "fmt", "Sprintf"); isFmt && len(c.Args) >= 1 {
			if tv, has := info.Types[c.Args[0]]; has && tv.Value != nil {
				switch tv.Value.ExactString() {
				case `"%016x"`, `"%016X"`, `"%020d"`:
					ok = true
				}
			}
		}
		return true
	})
	if !ok {
		return false
	}
	// the encoded value must be order-reversed
	reversed := false
	inspect(f.Decl.Body, func(nd ast.Node) bool {
		switch x := nd.(type) {
		case *ast.BinaryExpr:
			if x.Op == token.SUB && r.isParam(f, x.Y, 0) {
				reversed = true
			}
		case *ast.UnaryExpr:
			if x.Op == token.XOR && r.isParam(f, x.X, 0) {
				reversed = true
			}
		}
		return true
	})
	return reversed
}

// collectThenMaxByID recognises `for ... { snaps = append(snaps, snap) }; best = slices.MaxFunc(snaps,
// func(a, b) int { return cmp.Compare(a.Id, b.Id) })` (also a.Id - b.Id style comparators are NOT
// accepted: only cmp.Compare of the two ids in parameter order).
func (r *Run) collectThenMaxByID(f *prog.FuncInfo, loop ast.Stmt, idField *types.Var, getID *types.Func) bool {
	info := f.Pkg.TypesInfo
	var body *ast.BlockStmt
	switch x := loop.(type) {
	case *ast.RangeStmt:
		body = x.Body
	case *ast.ForStmt:
		body = x.Body
	default:
		return false
	}
	// the collecting slice: appended at the top level of the loop body (not under an if)
	var coll types.Object
	for _, st := range body.List {
		as, ok := st.(*ast.AssignStmt)
		if !ok || len(as.Lhs) != 1 || len(as.Rhs) != 1 {
			continue
		}
		call, ok := ast.Unparen(as.Rhs[0]).(*ast.CallExpr)
		if !ok || len(call.Args) != 2 {
			continue
		}
		if id, isID := call.Fun.(*ast.Ident); !isID || id.Name != "append" || info.Uses[id] != types.Universe.Lookup("append") {
			continue
		}
		if o := prog.IdentObjPlain(info, as.Lhs[0]); o != nil && prog.IdentObjPlain(info, call.Args[0]) == o {
			coll = o
		}
	}
	if coll == nil {
		return false
	}
	found := false
	inspect(f.Decl.Body, func(nd ast.Node) bool {
		call, ok := isCallToNamed(info, nodeExpr(nd), "slices", "MaxFunc")
		if !ok || len(call.Args) != 2 || call.Pos() < loop.End() || prog.IdentObjPlain(info, call.Args[0]) != coll {
			return true
		}
		lit := funcValueLit(r.P, info, call.Args[1])
		if lit == nil || lit.Type.Params == nil {
			return true
		}
		var ps []types.Object
		for _, fld := range lit.Type.Params.List {
			for _, n := range fld.Names {
				ps = append(ps, info.Defs[n])
			}
		}
		if len(ps) != 2 || len(lit.Body.List) != 1 {
			return true
		}
		ret, isRet := lit.Body.List[0].(*ast.ReturnStmt)
		if !isRet || len(ret.Results) != 1 {
			return true
		}
		cc, isCmp := isCallToNamed(info, ret.Results[0], "cmp", "Compare")
		if !isCmp || len(cc.Args) != 2 {
			return true
		}
		idOf := func(e ast.Expr) types.Object {
			switch x := ast.Unparen(e).(type) {
			case *ast.SelectorExpr:
				if prog.SelField(info, x) == idField {
					return prog.IdentObjPlain(info, x.X)
				}
			case *ast.CallExpr:
				if r.P.CalleeFunc(info, x) == getID {
					if sel, isSel := ast.Unparen(x.Fun).(*ast.SelectorExpr); isSel {
						return prog.IdentObjPlain(info, sel.X)
					}
				}
			}
			return nil
		}
		if idOf(cc.Args[0]) == ps[0] && idOf(cc.Args[1]) == ps[1] && ps[0] != nil {
			r.Site(call.Pos(), "LoadCheckpoint selects slices.MaxFunc by id over all listed snapshots")
			found = true
		}
		return true
	})
	return found
}
