package rules

import (
	"go/ast"
	"go/token"
	"go/types"

	"verif/checker/internal/orderdom"
	"verif/checker/internal/pathsim"
	"verif/checker/internal/prog"
)

// nilFieldAtom: atom "x.f == nil" (neg for != nil).
func nilFieldAtom(name string, f *types.Var) guardAtom {
	return guardAtom{Name: name, Deps: []types.Object{f}, Match: func(c *pathsim.Ctx, e ast.Expr) (bool, bool) {
		x, notNil, ok := pathsim.IsNilCompare(c.Info, e)
		if !ok || prog.SelField(c.Info, x) != f {
			return false, false
		}
		return notNil, true
	}}
}

// eqAtom: atom "A == B" where isA / isB classify the operands (either order; != negates).
func eqAtom(name string, isA, isB func(c *pathsim.Ctx, e ast.Expr) bool, deps ...types.Object) guardAtom {
	return guardAtom{Name: name, Deps: deps, Match: func(c *pathsim.Ctx, e ast.Expr) (bool, bool) {
		b, ok := ast.Unparen(e).(*ast.BinaryExpr)
		if !ok || (b.Op != token.EQL && b.Op != token.NEQ) {
			return false, false
		}
		if (isA(c, b.X) && isB(c, b.Y)) || (isA(c, b.Y) && isB(c, b.X)) {
			return b.Op == token.NEQ, true
		}
		return false, false
	}}
}

// fieldOrGetter matches x.F or x.GetF().
func fieldOrGetter(f *types.Var, getter *types.Func) func(c *pathsim.Ctx, e ast.Expr) bool {
	return func(c *pathsim.Ctx, e ast.Expr) bool {
		if prog.SelField(c.Info, e) == f {
			return true
		}
		if call, ok := ast.Unparen(e).(*ast.CallExpr); ok && getter != nil && c.P.CalleeFunc(c.Info, call) == getter {
			return true
		}
		return false
	}
}

func anyExpr(fs ...func(c *pathsim.Ctx, e ast.Expr) bool) func(c *pathsim.Ctx, e ast.Expr) bool {
	return func(c *pathsim.Ctx, e ast.Expr) bool {
		for _, f := range fs {
			if f(c, e) {
				return true
			}
		}
		return false
	}
}

// identAtom: atom is a boolean local variable (resolved lazily by name within the function).
func identAtom(name string, obj func() types.Object) guardAtom {
	return guardAtom{Name: name, Match: func(c *pathsim.Ctx, e ast.Expr) (bool, bool) {
		o := obj()
		if o == nil {
			return false, false
		}
		return false, prog.IdentObj(c.Info, e) == o
	}}
}

func init() {
	prop("C12",
		"(a) acknowledgements mutate the pending job snapshot only under the store mutex, with a pending snapshot whose id equals the acknowledged id; (b) an unknown or duplicate sender changes nothing; (c) publication starts only when every operator and source runner flag is set and the pending slot is cleared right after; (d) a new checkpoint starts only when none is pending, takes the incremented id, and ids are only incremented (restore: the loaded id); (e) job snapshot files are written only by the publication path and the completed list only there and at load; (f) the published document carries every operator checkpoint and split state.",
		"the count 'exactly one entry per operator' over histories (it follows from (b) but is not itself checked); behaviour of storage back ends.")

	register(&Obligation{ID: "C12.a", Props: []string{"C12"}, Template: "guard+guarded-by",
		Desc: "Store.AddOperatorSnapshot / AddSourceSnapshot: every use of the pending snapshot happens with stateMu held, pendingSnapshot != nil and pendingSnapshot.id == the acknowledged checkpoint id",
		Run: func(r *Run) {
			pend := r.P.Field("storage/snapshots", "storeState", "pendingSnapshot")
			idF := r.P.Field("storage/snapshots", "jobSnapshot", "id")
			opID := fieldOrGetter(r.P.Field("proto/snapshotpb", "OperatorCheckpoint", "CheckpointId"), r.P.FuncObj("proto/snapshotpb", "(*OperatorCheckpoint).GetCheckpointId"))
			srID := fieldOrGetter(r.P.Field("proto/jobpb", "SourceRunnerCheckpointCompleteRequest", "CheckpointId"), r.P.FuncObj("proto/jobpb", "(*SourceRunnerCheckpointCompleteRequest).GetCheckpointId"))
			isPendID := func(c *pathsim.Ctx, e ast.Expr) bool {
				sel, ok := deref(c.Info, e).(*ast.SelectorExpr) // (also a local that holds it, directly or out of a helper)
				return ok && prog.SelField(c.Info, sel) == idF && prog.SelField(c.Info, sel.X) == pend
			}
			atoms := []guardAtom{
				nilFieldAtom("pendingSnapshot==nil", pend),
				eqAtom("pending.id==req.id", isPendID, anyExpr(opID, srID), pend),
			}
			for _, n := range []string{"(*Store).AddOperatorSnapshot", "(*Store).AddSourceSnapshot"} {
				f := r.P.Func("storage/snapshots", n)
				// effect: any method call on / field use through s.state.pendingSnapshot, and any
				// assignment to it, other than inside the two guard conditions themselves
				isUse := func(c *pathsim.Ctx, ev *pathsim.Event) bool {
					switch ev.Kind {
					case pathsim.EvCall:
						if sel, ok := ast.Unparen(ev.Call.Fun).(*ast.SelectorExpr); ok && prog.SelField(c.Info, sel.X) == pend {
							return true
						}
						for _, a := range ev.Call.Args {
							if prog.SelField(c.Info, a) == pend {
								return true
							}
						}
					case pathsim.EvAssign:
						for _, l := range ev.Lhs {
							if prog.SelField(c.Info, l) == pend {
								return true
							}
						}
					}
					return false
				}
				n1 := r.guarded(f.Decl, f.Name(), "use-of-pendingSnapshot", atoms, isUse,
					func(v []pathsim.Tri) bool { return v[0] == pathsim.False && v[1] == pathsim.True }, "pendingSnapshot != nil && pendingSnapshot.id == request id")
				if n1 < 3 {
					r.Error("%s: expected add/isComplete/finish/clear uses of the pending snapshot, found %d", f.Name(), n1)
				}
			}
			r.guardedBy(guardSpec{
				Type:  "snapshots.Store",
				Mutex: r.P.Field("storage/snapshots", "Store", "stateMu"),
				RW:    false,
				Fields: []*types.Var{pend, r.P.Field("storage/snapshots", "storeState", "completedSnapshots"),
					r.P.Field("storage/snapshots", "storeState", "checkpointID"), r.P.Field("storage/snapshots", "Store", "sourceSplitters")},
				Exempt: map[string]string{
					"storage/snapshots.NewStore":                "constructor",
					"storage/snapshots.(*Store).LoadCheckpoint": "called from jobs.New before the store is shared with any goroutine",
				},
			})
		}})

	register(&Obligation{ID: "C12.b", Props: []string{"C12", "C01"}, Template: "sibling-guard",
		Desc: "jobSnapshot.addOperatorSnapshot / addSourceRunnerSnapshot: the completion flag and the collected data change only for a known sender that has not acknowledged yet (unknown and duplicate senders return before any mutation)",
		Run: func(r *Run) {
			type sib struct {
				fn, flags string
				data      []string
			}
			for _, s := range []sib{
				{"(*jobSnapshot).addOperatorSnapshot", "operatorIDsComplete", []string{"operatorCheckpoints"}},
				{"(*jobSnapshot).addSourceRunnerSnapshot", "sourceRunnerIDsComplete", []string{"splitStates"}},
			} {
				f := r.P.Func("storage/snapshots", s.fn)
				info := f.Pkg.TypesInfo
				flags := r.P.Field("storage/snapshots", "jobSnapshot", s.flags)
				mut := map[*types.Var]bool{flags: true}
				for _, d := range s.data {
					mut[r.P.Field("storage/snapshots", "jobSnapshot", d)] = true
				}
				var wasVar, okVar types.Object
				inspect(f.Decl.Body, func(nd ast.Node) bool {
					as, ok := nd.(*ast.AssignStmt)
					if !ok || len(as.Lhs) != 2 || len(as.Rhs) != 1 {
						return true
					}
					if ix, ok := ast.Unparen(as.Rhs[0]).(*ast.IndexExpr); ok && prog.SelField(info, ix.X) == flags {
						wasVar, okVar = prog.IdentObj(info, as.Lhs[0]), prog.IdentObj(info, as.Lhs[1])
					}
					return true
				})
				if wasVar == nil || okVar == nil {
					r.Fail(f.Name()+":no-lookup", f.Decl.Pos(), nil, "%s no longer looks the sender up in %s with the comma-ok form", f.Name(), s.flags)
					continue
				}
				atoms := []guardAtom{
					identAtom("known-sender", func() types.Object { return okVar }),
					identAtom("already-acknowledged", func() types.Object { return wasVar }),
				}
				spec := &pathsim.Spec{Watch: mut}
				spec.Atom = func(c *pathsim.Ctx, e ast.Expr) (int, bool, bool) {
					for i, a := range atoms {
						if neg, ok := a.Match(c, e); ok {
							return i, neg, true
						}
					}
					return 0, false, false
				}
				nMut := 0
				spec.Step = func(c *pathsim.Ctx, st pathsim.State, ev *pathsim.Event) []pathsim.State {
					if ev.Kind == pathsim.EvField && ev.Write {
						nMut++
						if st.V[0] != pathsim.True {
							c.Violate(ev.Pos, "[unknown-sender:%s] %s is modified for a sender that was not established to be expected", ev.Field.Name(), ev.Field.Name())
						}
						if st.V[1] != pathsim.False {
							c.Violate(ev.Pos, "[duplicate-sender:%s] %s is modified although the sender may already have acknowledged: a duplicate acknowledgement is recorded twice", ev.Field.Name(), ev.Field.Name())
						}
					}
					return nil
				}
				r.Sim(f.Decl, f.Name(), spec)
				r.Site(f.Decl.Pos(), f.Name()+": mutations guarded by known && !duplicate")
				if nMut < 2 {
					r.Fail(f.Name()+":records", f.Decl.Pos(), nil, "%s must set the completion flag and record the acknowledged data", f.Name())
				}
				// the flag set is flags[sender] = true for the same key as the lookup
				okSet := false
				inspect(f.Decl.Body, func(nd ast.Node) bool {
					as, ok := nd.(*ast.AssignStmt)
					if !ok || len(as.Lhs) != 1 || len(as.Rhs) != 1 {
						return true
					}
					if ix, ok := ast.Unparen(as.Lhs[0]).(*ast.IndexExpr); ok && prog.SelField(info, ix.X) == flags {
						if tv, ok := info.Types[as.Rhs[0]]; ok && tv.Value != nil && tv.Value.String() == "true" {
							okSet = true
						}
					}
					return true
				})
				if !okSet {
					r.Fail(f.Name()+":flag-true", f.Decl.Pos(), nil, "%s does not mark the sender as completed (flag = true)", f.Name())
				}
			}
		}})

	register(&Obligation{ID: "C12.c", Props: []string{"C12", "C01"}, Template: "guard+must-follow",
		Desc: "publication (finishSnapshot) is reachable only when isComplete() is true and is followed by clearing the pending slot; isComplete requires every source-runner flag and every operator flag",
		Run: func(r *Run) {
			pend := r.P.Field("storage/snapshots", "storeState", "pendingSnapshot")
			isComplete := r.P.FuncObj("storage/snapshots", "(*jobSnapshot).isComplete")
			finish := r.P.FuncObj("storage/snapshots", "(*Store).finishSnapshot")
			for _, n := range []string{"(*Store).AddOperatorSnapshot", "(*Store).AddSourceSnapshot"} {
				f := r.P.Func("storage/snapshots", n)
				k := r.guarded(f.Decl, f.Name(), "finishSnapshot", []guardAtom{callAtom("isComplete()", isComplete, pend)}, callTo(finish),
					func(v []pathsim.Tri) bool { return v[0] == pathsim.True }, "pendingSnapshot.isComplete()")
				if k == 0 {
					r.Fail(f.Name()+":no-finish", f.Decl.Pos(), nil, "%s never publishes a completed snapshot", f.Name())
				}
				// argument is the pending snapshot; and the slot is cleared before returning
				spec := &pathsim.Spec{Step: func(c *pathsim.Ctx, s pathsim.State, ev *pathsim.Event) []pathsim.State {
					if callTo(finish)(c, ev) {
						if len(ev.Call.Args) != 1 || prog.SelField(c.Info, ev.Call.Args[0]) != pend {
							c.Violate(ev.Pos, "[finish-arg] finishSnapshot is not given the pending snapshot")
						}
						s.A = 1
						return []pathsim.State{s}
					}
					if ev.Kind == pathsim.EvAssign && len(ev.Lhs) == 1 && prog.SelField(c.Info, ev.Lhs[0]) == pend && s.A == 1 {
						if tv, ok := c.Info.Types[ev.Rhs[0]]; ok && tv.IsNil() {
							s.A = 0
							return []pathsim.State{s}
						}
					}
					if (ev.Kind == pathsim.EvReturn || ev.Kind == pathsim.EvExit) && s.A == 1 {
						c.Violate(ev.Pos, "[finish-without-clear] the function returns after publishing without clearing pendingSnapshot: no further checkpoint can start (ErrCheckpointInProgress forever) and late acknowledgements republish")
					}
					return nil
				}}
				r.Sim(f.Decl, f.Name(), spec)
			}
			// a new run abandons whatever the previous run left pending: RegisterSourceSplitter (called by
			// Job.start for every run) clears the pending slot on every path, savepoint or not; a
			// survivor would be completed by late acknowledgements of the previous assembly and block
			// every new checkpoint until then
			rs := r.P.Func("storage/snapshots", "(*Store).RegisterSourceSplitter")
			r.Site(rs.Decl.Pos(), "RegisterSourceSplitter abandons the pending snapshot")
			if n := r.assignsFieldOnAllPaths(rs.Decl, rs.Name(), pend, func(c *pathsim.Ctx, rhs ast.Expr) bool {
				tv, ok := c.Info.Types[rhs]
				return ok && tv.IsNil()
			}, "abandon-pending", "a restart can keep the previous run's pending snapshot: acknowledgements of the old assembly can complete it and it blocks new checkpoints (ErrCheckpointInProgress)"); n == 0 {
				r.Fail(rs.Name()+":abandon-pending:none", rs.Decl.Pos(), nil, "RegisterSourceSplitter no longer clears the pending snapshot of the previous run")
			}
			// isComplete: conjunction over both flag maps
			ic := r.P.Func("storage/snapshots", "(*jobSnapshot).isComplete")
			info := ic.Pkg.TypesInfo
			every := r.P.FuncObj("util/iteru", "Every")
			r.Site(ic.Decl.Pos(), "isComplete conjoins both completion maps")
			// every call Every(maps.Values(s.<flags>)) in the body is an operand named after its map; the
			// function's result must be the conjunction of the two, whatever the control flow spelling
			names := map[string]string{}
			inspect(ic.Decl.Body, func(nd ast.Node) bool {
				call, isCall := nd.(*ast.CallExpr)
				if !isCall || r.P.CalleeFunc(info, call) != every || len(call.Args) != 1 {
					return true
				}
				if inner, okc := isCallToNamed(info, call.Args[0], "maps", "Values"); okc && len(inner.Args) == 1 {
					if f := prog.SelField(info, inner.Args[0]); f != nil {
						names[types.ExprString(call)] = f.Name()
					}
				}
				return true
			})
			m := orderdom.New(info, names)
			// the hand-written form of Every: `for _, done := range s.<flags> { if !done { return false } }`
			nLoops := 0
			m.RangeEvery = func(rs *ast.RangeStmt) string {
				if f := prog.SelField(info, rs.X); f != nil {
					if mp, ok := f.Type().Underlying().(*types.Map); ok {
						if b, ok := mp.Elem().Underlying().(*types.Basic); ok && b.Info()&types.IsBoolean != 0 {
							nLoops++
							names["range:"+f.Name()] = f.Name()
							return f.Name()
						}
					}
				}
				return ""
			}
			res := m.CheckFunc(ic.Decl.Body, nil, func(e odEnv) orderdom.Value {
				return orderdom.Bool(e.Bool["sourceRunnerIDsComplete"] && e.Bool["operatorIDsComplete"])
			})
			switch {
			case res.Undecided != "":
				r.Error("undecided: %s: %s", ic.Name(), res.Undecided)
			case res.Mismatch != nil || len(names) < 2:
				detail := "an operand is missing"
				if res.Mismatch != nil {
					detail = res.Mismatch.String()
				}
				r.Fail(ic.Name()+":shape", ic.Decl.Pos(), nil, "isComplete is not `Every(values(sourceRunnerIDsComplete)) && Every(values(operatorIDsComplete))` (%s): a job checkpoint could be published before every node acknowledged", detail)
			}
			// iteru.Every is a conjunction: returns false on the first false, true at the end
			ev := r.P.Func("util/iteru", "Every")
			r.checkEvery(ev)
		}})

	register(&Obligation{ID: "C12.d", Props: []string{"C12", "C14", "C13"}, Template: "guard+monotone",
		Desc: "CreateCheckpoint / CreateSavepoint install a new pending snapshot only when none is pending, with the freshly incremented id; checkpointID is only ever incremented, except in LoadCheckpoint where it is set to the loaded checkpoint's id",
		Run: func(r *Run) {
			pend := r.P.Field("storage/snapshots", "storeState", "pendingSnapshot")
			ckID := r.P.Field("storage/snapshots", "storeState", "checkpointID")
			newSnap := r.P.FuncObj("storage/snapshots", "newJobSnapshot")
			for _, n := range []string{"(*Store).CreateCheckpoint", "(*Store).CreateSavepoint"} {
				f := r.P.Func("storage/snapshots", n)
				isInstall := func(c *pathsim.Ctx, ev *pathsim.Event) bool {
					if ev.Kind != pathsim.EvAssign || len(ev.Lhs) != 1 || len(ev.Rhs) != 1 {
						return false
					}
					return prog.SelField(c.Info, ev.Lhs[0]) == pend
				}
				k := r.guarded(f.Decl, f.Name(), "pendingSnapshot=new", []guardAtom{nilFieldAtom("pendingSnapshot==nil", pend)}, isInstall,
					func(v []pathsim.Tri) bool { return v[0] == pathsim.True }, "pendingSnapshot == nil")
				if k == 0 {
					r.Fail(f.Name()+":no-install", f.Decl.Pos(), nil, "%s never installs a pending snapshot", f.Name())
				}
				// id++ precedes newJobSnapshot(id, ...) and the id argument is the counter
				isInc := func(c *pathsim.Ctx, ev *pathsim.Event) bool {
					if ev.Kind != pathsim.EvAssign || len(ev.Lhs) != 1 || prog.SelField(c.Info, ev.Lhs[0]) != ckID {
						return false
					}
					return ev.Tok == token.INC
				}
				isNew := func(c *pathsim.Ctx, ev *pathsim.Event) bool { return callTo(newSnap)(c, ev) }
				r.mustPrecede(f.Decl, f.Name(), "checkpointID++", "newJobSnapshot", isInc, isNew)
				inspect(f.Decl.Body, func(nd ast.Node) bool {
					if call, ok := nd.(*ast.CallExpr); ok && r.P.CalleeFunc(f.Pkg.TypesInfo, call) == newSnap {
						if len(call.Args) < 1 || prog.SelField(f.Pkg.TypesInfo, call.Args[0]) != ckID {
							r.Fail(f.Name()+":new-id", call.Pos(), nil, "the new pending snapshot is not created with the store's checkpoint id counter")
						}
					}
					return true
				})
				// the returned id on the "created" path is the counter
			}
			// monotone: every write of checkpointID
			for _, fa := range r.fieldAccesses(ckID) {
				if !fa.Write || prog.IsTestSupport(fa.Use.Pkg.PkgPath) {
					continue
				}
				where := r.scopeName(fa.Use.Scope)
				r.Site(fa.Use.Ident.Pos(), "checkpointID "+fa.Kind+" in "+where)
				switch {
				case fa.Kind == "incdec":
					if inc, ok := fa.Stmt.(*ast.IncDecStmt); ok && inc.Tok == token.INC {
						continue
					}
					r.Fail("checkpointID-dec<-"+where, fa.Use.Ident.Pos(), nil, "checkpointID is decremented in %s", where)
				case fa.Kind == "assign" && where == "storage/snapshots.(*Store).LoadCheckpoint":
					as := fa.Stmt.(*ast.AssignStmt)
					idField := r.P.Field("proto/snapshotpb", "JobCheckpoint", "Id")
					getID := r.P.FuncObj("proto/snapshotpb", "(*JobCheckpoint).GetId")
					okv := false
					if len(as.Rhs) == 1 {
						if prog.SelField(fa.Use.Pkg.TypesInfo, as.Rhs[0]) == idField {
							okv = true
						}
						if call, ok := ast.Unparen(as.Rhs[0]).(*ast.CallExpr); ok && r.P.CalleeFunc(fa.Use.Pkg.TypesInfo, call) == getID {
							okv = true
						}
					}
					if !okv || as.Tok != token.ASSIGN {
						r.Fail("checkpointID-restore", fa.Use.Ident.Pos(), nil, "LoadCheckpoint must restore the id counter from the loaded checkpoint's Id: ids would repeat after a restart")
					}
				default:
					r.Fail("checkpointID-write<-"+where, fa.Use.Ident.Pos(), nil, "checkpointID is written (%s) in %s: ids must only grow by increment", fa.Kind, where)
				}
			}
			// LoadCheckpoint does restore the counter
			lc := r.P.Func("storage/snapshots", "(*Store).LoadCheckpoint")
			restored := false
			inspect(lc.Decl.Body, func(nd ast.Node) bool {
				if as, ok := nd.(*ast.AssignStmt); ok && len(as.Lhs) == 1 && prog.SelField(lc.Pkg.TypesInfo, as.Lhs[0]) == ckID {
					restored = true
				}
				return true
			})
			if !restored {
				r.Fail("checkpointID-restore", lc.Decl.Pos(), nil, "LoadCheckpoint no longer restores the checkpoint id counter: after a restart ids start again at 1 and collide with stored checkpoints")
			}
			// ... on EVERY path that installs a loaded checkpoint (savepoint branch and directory scan alike)
			completed := r.P.Field("storage/snapshots", "storeState", "completedSnapshots")
			var loadedVar types.Object // the local `var loaded *JobCheckpoint` that starts nil
			inspect(lc.Decl.Body, func(nd ast.Node) bool {
				if ds, ok := nd.(*ast.DeclStmt); ok && loadedVar == nil {
					if gd, ok := ds.Decl.(*ast.GenDecl); ok {
						for _, sp := range gd.Specs {
							if vs, ok := sp.(*ast.ValueSpec); ok && len(vs.Values) == 0 && len(vs.Names) == 1 {
								if _, isPtr := lc.Pkg.TypesInfo.Defs[vs.Names[0]].Type().(*types.Pointer); isPtr {
									loadedVar = lc.Pkg.TypesInfo.Defs[vs.Names[0]]
								}
							}
						}
					}
				}
				return true
			})
			spec := &pathsim.Spec{
				Atom: func(c *pathsim.Ctx, e ast.Expr) (int, bool, bool) {
					if x, notNil, ok := pathsim.IsNilCompare(c.Info, e); ok && loadedVar != nil && prog.IdentObj(c.Info, x) == loadedVar {
						return 0, notNil, true // atom 0: loaded == nil
					}
					return 0, false, false
				},
				Step: func(c *pathsim.Ctx, st pathsim.State, ev *pathsim.Event) []pathsim.State {
					switch ev.Kind {
					case pathsim.EvAssign:
						for _, l := range ev.Lhs {
							if prog.SelField(c.Info, l) == ckID {
								st.A = 1
							}
							if prog.SelField(c.Info, l) == completed {
								st.B = 1
							}
						}
						return []pathsim.State{st}
					case pathsim.EvReturn, pathsim.EvExit:
						if st.B == 1 && st.A == 0 {
							c.Violate(ev.Pos, "[checkpointID-restore-path] LoadCheckpoint installs a loaded checkpoint as the completed snapshot on this path without setting the id counter from it: the next checkpoint or savepoint re-uses an id that is already stored (e.g. after a restore from a savepoint)")
						}
					}
					return nil
				},
			}
			if loadedVar != nil {
				spec.AtomDeps = map[int][]types.Object{0: {loadedVar}}
				spec.Init.V[0] = pathsim.True
			}
			r.Sim(lc.Decl, lc.Name()+":checkpointID-restore-path", spec)
		}})

	register(&Obligation{ID: "C12.e", Props: []string{"C12", "C13"}, Template: "who-may",
		Desc: "job snapshots are published only through finishSnapshot -> finishSnapshotAsync, reached only from the two acknowledgement handlers; completedSnapshots is written only by finishSnapshotAsync and LoadCheckpoint",
		Run: func(r *Run) {
			fin := r.P.FuncObj("storage/snapshots", "(*Store).finishSnapshot")
			finA := r.P.FuncObj("storage/snapshots", "(*Store).finishSnapshotAsync")
			r.whoMayCall(fin, false, map[string]string{
				"storage/snapshots.(*Store).AddOperatorSnapshot": "", "storage/snapshots.(*Store).AddSourceSnapshot": ""})
			r.whoMayCall(finA, false, map[string]string{"storage/snapshots.(*Store).finishSnapshot": ""})
			comp := r.P.Field("storage/snapshots", "storeState", "completedSnapshots")
			for _, fa := range r.fieldAccesses(comp) {
				if !fa.Write || prog.IsTestSupport(fa.Use.Pkg.PkgPath) {
					continue
				}
				where := r.scopeName(fa.Use.Scope)
				r.Site(fa.Use.Ident.Pos(), "completedSnapshots written in "+where)
				if where != "storage/snapshots.(*Store).finishSnapshotAsync" && where != "storage/snapshots.(*Store).LoadCheckpoint" {
					r.Fail("completedSnapshots-write<-"+where, fa.Use.Ident.Pos(), nil, "completedSnapshots is written in %s", where)
				}
			}
			// fileStore.Write in package snapshots only in finishSnapshotAsync
			write := r.P.FuncObj("storage/locations", "StorageLocation.Write")
			for _, cs := range r.callSitesOf(write, false) {
				if prog.RelPkg(cs.Use.Pkg.PkgPath) != "storage/snapshots" {
					continue
				}
				where := r.scopeName(cs.Use.Scope)
				r.Site(cs.Use.Ident.Pos(), "StorageLocation.Write in "+where)
				if where != "storage/snapshots.(*Store).finishSnapshotAsync" {
					r.Fail("snapshot-write<-"+where, cs.Use.Ident.Pos(), nil, "a file is written to the snapshot store in %s, outside the publication path", where)
				}
			}
			r.Floor(5, "publication call sites")
		}})

	register(&Obligation{ID: "C12.f", Props: []string{"C12", "C14"}, Template: "field-coverage",
		Desc: "jobSnapshot.toProto emits the snapshot's id, all operator checkpoints, all split states and the splitter state; LoadCheckpoint reads the same four back",
		Run: func(r *Run) {
			tp := r.P.Func("storage/snapshots", "(*jobSnapshot).toProto")
			info := tp.Pkg.TypesInfo
			want := map[string]string{"Id": "id", "OperatorCheckpoints": "operatorCheckpoints", "SplitStates": "splitStates", "SplitterState": "splitterState", "CheckpointId": "id"}
			got := map[string]string{}
			inspect(tp.Decl.Body, func(nd ast.Node) bool {
				if kv, ok := nd.(*ast.KeyValueExpr); ok {
					if id, ok := kv.Key.(*ast.Ident); ok {
						if f := prog.SelField(info, kv.Value); f != nil {
							got[id.Name] = f.Name()
						}
					}
				}
				return true
			})
			r.Site(tp.Decl.Pos(), "toProto field coverage")
			for k, v := range want {
				if got[k] != v {
					r.Fail(tp.Name()+":"+k, tp.Decl.Pos(), nil, "toProto does not emit %s from jobSnapshot.%s (found %q): the published checkpoint would lack it", k, v, got[k])
				}
			}
			lc := r.P.Func("storage/snapshots", "(*Store).LoadCheckpoint")
			li := lc.Pkg.TypesInfo
			wantBack := map[string]string{"id": "Id", "operatorCheckpoints": "OperatorCheckpoints", "splitStates": "SplitStates", "splitterState": "SplitterState"}
			gotBack := map[string]string{}
			inspect(lc.Decl.Body, func(nd ast.Node) bool {
				if kv, ok := nd.(*ast.KeyValueExpr); ok {
					if id, ok := kv.Key.(*ast.Ident); ok {
						if f := prog.SelField(li, kv.Value); f != nil {
							gotBack[id.Name] = f.Name()
						}
					}
				}
				return true
			})
			r.Site(lc.Decl.Pos(), "LoadCheckpoint field coverage")
			for k, v := range wantBack {
				if gotBack[k] != v {
					r.Fail(lc.Name()+":"+k, lc.Decl.Pos(), nil, "LoadCheckpoint does not restore jobSnapshot.%s from %s (found %q)", k, v, gotBack[k])
				}
			}
		}})
}

// checkEvery: iteru.Every returns false as soon as one element is false and true otherwise.
func (r *Run) checkEvery(f *prog.FuncInfo) {
	info := f.Pkg.TypesInfo
	r.Site(f.Decl.Pos(), "iteru.Every is a conjunction")
	var loop *ast.RangeStmt
	inspect(f.Decl.Body, func(nd ast.Node) bool {
		if rs, ok := nd.(*ast.RangeStmt); ok && loop == nil {
			loop = rs
		}
		return true
	})
	bad := func(msg string) {
		r.Fail(f.Name()+":conjunction", f.Decl.Pos(), nil, "iteru.Every is not a conjunction over its elements: %s", msg)
	}
	if loop == nil {
		bad("no loop")
		return
	}
	elem := prog.IdentObj(info, loop.Key)
	if loop.Value != nil {
		elem = prog.IdentObj(info, loop.Value)
	}
	// inside: if !v { return false }
	okInner := false
	inspect(loop.Body, func(nd ast.Node) bool {
		is, ok := nd.(*ast.IfStmt)
		if !ok {
			return true
		}
		u, ok := ast.Unparen(is.Cond).(*ast.UnaryExpr)
		if !ok || u.Op != token.NOT || prog.IdentObj(info, u.X) != elem {
			return true
		}
		for _, st := range is.Body.List {
			if ret, ok := st.(*ast.ReturnStmt); ok && len(ret.Results) == 1 {
				if tv, ok := info.Types[ret.Results[0]]; ok && tv.Value != nil && tv.Value.String() == "false" {
					okInner = true
				}
				if prog.IdentObj(info, ret.Results[0]) == elem { // v is false on this branch
					okInner = true
				}
			}
		}
		return true
	})
	if !okInner {
		bad("no `if !v { return false }` in the loop")
	}
	last := f.Decl.Body.List[len(f.Decl.Body.List)-1]
	if ret, ok := last.(*ast.ReturnStmt); !ok || len(ret.Results) != 1 {
		bad("does not end with return true")
	} else if tv, ok := info.Types[ret.Results[0]]; !ok || tv.Value == nil || tv.Value.String() != "true" {
		bad("does not end with return true")
	}
}
