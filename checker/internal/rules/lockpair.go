package rules

import (
	"fmt"
	"go/ast"
	"go/types"
	"strings"

	"verif/checker/internal/pathsim"
	"verif/checker/internal/prog"
)

// lock-release pairing: in every function (and function literal) of the package, a mutex
// that is locked is unlocked again on every path to a return (directly, or by a deferred
// Unlock registered on that path). A path that returns with the lock held blocks every
// later user of the mutex forever. Mutexes are identified by the field / variable they are
// stored in; RLock pairs with RUnlock.
func (r *Run) lockPairing(rel string, accept map[string]string, floor int) {
	pkg := r.P.Pkg(rel)
	info := pkg.TypesInfo
	nLocks := 0
	mutexOf := func(call *ast.CallExpr) (obj types.Object, kind string) {
		sel, ok := ast.Unparen(call.Fun).(*ast.SelectorExpr)
		if !ok {
			return nil, ""
		}
		switch sel.Sel.Name {
		case "Lock", "Unlock", "RLock", "RUnlock":
		default:
			return nil, ""
		}
		fn, _ := info.Uses[sel.Sel].(*types.Func)
		if fn == nil || fn.Pkg() == nil || fn.Pkg().Path() != "sync" {
			return nil, ""
		}
		if f := prog.SelField(info, sel.X); f != nil {
			return f, sel.Sel.Name
		}
		if o := prog.IdentObj(info, sel.X); o != nil {
			return o, sel.Sel.Name
		}
		return nil, ""
	}
	for i, file := range pkg.Syntax {
		name := pkg.CompiledGoFiles[i]
		if strings.HasSuffix(name, ".pb.go") || strings.HasSuffix(name, "_test.go") {
			continue
		}
		var bodies []struct {
			n    ast.Node
			name string
		}
		for _, d := range file.Decls {
			fd, ok := d.(*ast.FuncDecl)
			if !ok || fd.Body == nil {
				continue
			}
			fname := prog.RelPkg(pkg.PkgPath) + "." + declName(fd)
			bodies = append(bodies, struct {
				n    ast.Node
				name string
			}{fd, fname})
			k := 0
			ast.Inspect(fd.Body, func(nd ast.Node) bool {
				if lit, ok := nd.(*ast.FuncLit); ok {
					k++
					bodies = append(bodies, struct {
						n    ast.Node
						name string
					}{lit, fmt.Sprintf("%s$lit%d", fname, k)})
				}
				return true
			})
		}
		for _, b := range bodies {
			var body *ast.BlockStmt
			switch x := b.n.(type) {
			case *ast.FuncDecl:
				body = x.Body
			case *ast.FuncLit:
				body = x.Body
			}
			// mutexes locked directly in this body (not in nested literals)
			locked := map[types.Object]string{}
			ast.Inspect(body, func(nd ast.Node) bool {
				if lit, ok := nd.(*ast.FuncLit); ok && ast.Node(lit) != b.n {
					return false
				}
				if call, ok := nd.(*ast.CallExpr); ok {
					if m, kind := mutexOf(call); m != nil && (kind == "Lock" || kind == "RLock") {
						locked[m] = kind
					}
				}
				return true
			})
			for m := range locked {
				m := m
				nLocks++
				key := strings.TrimPrefix(b.name, rel+".") + ":" + m.Name()
				if reason, ok := accept[key]; ok {
					r.SiteStr("accepted (" + reason + "): " + key)
					continue
				}
				r.SiteStr(b.name + ": lock/unlock pairing of " + m.Name())
				spec := &pathsim.Spec{Step: func(c *pathsim.Ctx, s pathsim.State, ev *pathsim.Event) []pathsim.State {
					switch ev.Kind {
					case pathsim.EvCall:
						if ev.Call == nil {
							return nil
						}
						mm, kind := mutexOf(ev.Call)
						if mm != m {
							return nil
						}
						switch kind {
						case "Lock", "RLock":
							if !ev.Deferred && !ev.Go {
								s.A = 1
								return []pathsim.State{s}
							}
						case "Unlock", "RUnlock":
							if ev.Deferred {
								s.B = 1 // released at return
							} else {
								s.A = 0
							}
							return []pathsim.State{s}
						}
					case pathsim.EvReturn, pathsim.EvExit:
						if s.A == 1 && s.B == 0 {
							c.Violate(ev.Pos, "[held:%s] the function returns with %s still locked: every later user of the mutex blocks forever", m.Name(), m.Name())
						}
					}
					return nil
				}}
				r.Sim(b.n, b.name, spec)
			}
		}
	}
	if nLocks < floor {
		r.Error("floor: %s: only %d lock sites analysed (at least %d confirmed by hand)", rel, nLocks, floor)
	}
}

func init() {
	for _, it := range []struct {
		id, pkg string
		props   []string
		floor   int
		accept  map[string]string
	}{
		{"C20.l", "batching", []string{"C20", "C04"}, 6, nil},
		{"C12.l", "storage/snapshots", []string{"C12", "C13", "C15"}, 6, nil},
		{"C07.s", "dkv", []string{"C07", "C08"}, 4, nil},
		{"C08.l", "dkv/wal", []string{"C08", "C17"}, 3, nil},
		{"C07.t", "dkv/memtable", []string{"C07"}, 3, nil},
		{"C07.u", "dkv/sst", []string{"C07", "C09"}, 1, nil},
		{"C16.l", "connectors/kinesis", []string{"C16"}, 5, nil},
		{"C01.l", "workers/operator", []string{"C01", "C15", "C02"}, 3, nil},
	} {
		it := it
		register(&Obligation{ID: it.id, Props: it.props, Template: "lock-pairing",
			Desc: "every mutex locked in " + it.pkg + " is released on every path to a return (directly or by a deferred unlock): a return with the lock held blocks all later users of the structure forever",
			Run:  func(r *Run) { r.lockPairing(it.pkg, it.accept, it.floor) }})
	}
}
