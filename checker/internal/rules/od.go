package rules

import (
	"fmt"
	"go/ast"
	"go/token"
	"go/types"

	"verif/checker/internal/orderdom"
	"verif/checker/internal/prog"
)

type odEnv = orderdom.Env

// orderDomFunc (T19): the body of fi is a pure comparison predicate over the operands in
// names (canonical source text -> spec name); it must agree with spec on every weak
// ordering of its operands that satisfies side.
func (r *Run) orderDomFunc(fi *prog.FuncInfo, names map[string]string, side func(odEnv) bool, spec func(odEnv) orderdom.Value, specText string) {
	m := orderdom.New(fi.Pkg.TypesInfo, names)
	res := m.CheckFunc(fi.Decl.Body, side, spec)
	r.finishOD(fi.Name(), fi.Decl.Pos(), res, specText)
}

// orderDomEffect is orderDomFunc where reaching a call accepted by isEffect counts as the
// result Sym("effect") and falling off the end as nil.
func (r *Run) orderDomEffect(fi *prog.FuncInfo, isEffect func(call *ast.CallExpr) bool, names map[string]string, side func(odEnv) bool, spec func(odEnv) orderdom.Value, specText string) {
	m := orderdom.New(fi.Pkg.TypesInfo, names)
	m.Effect = isEffect
	res := m.CheckFunc(fi.Decl.Body, side, spec)
	r.finishOD(fi.Name(), fi.Decl.Pos(), res, specText)
}

// orderDomExpr is orderDomFunc for a single expression inside function `where`.
func (r *Run) orderDomExpr(info *types.Info, e ast.Expr, where string, names map[string]string, side func(odEnv) bool, spec func(odEnv) orderdom.Value, specText string) {
	m := orderdom.New(info, names)
	res := m.CheckExpr(e, side, spec)
	r.finishOD(where, e.Pos(), res, specText)
}

func (r *Run) finishOD(where string, pos token.Pos, res orderdom.Result, specText string) {
	r.Site(pos, fmt.Sprintf("%s: %d orderings of %v %v against spec %q", where, res.Orderings, res.OrdSyms, res.BoolSyms, specText))
	if res.Undecided != "" {
		r.Error("undecided: %s: %s", where, res.Undecided)
		return
	}
	if res.Orderings == 0 {
		r.Error("undecided: %s: no ordering evaluated", where)
		return
	}
	if res.Mismatch != nil {
		r.Fail(where+":order-domain", pos, nil, "%s differs from its specification %q: %s", where, specText, res.Mismatch.String())
	}
}
