package rules

import (
	"fmt"
	"go/ast"
	"go/token"
	"go/types"

	"verif/checker/internal/orderdom"
	"verif/checker/internal/prog"
)

type odEnv = orderdom.Env

// orderDomFunc (T19): the body of fi is a pure comparison predicate over the operands in
// names (canonical source text -> spec name); it must agree with spec on every weak
// ordering of its operands that satisfies side.
func (r *Run) orderDomFunc(fi *prog.FuncInfo, names map[string]string, side func(odEnv) bool, spec func(odEnv) orderdom.Value, specText string) {
	m := orderdom.New(fi.Pkg.TypesInfo, names)
	res := m.CheckFunc(fi.Decl.Body, side, spec)
	r.finishOD(fi.Name(), fi.Decl.Pos(), res, specText)
}

// orderDomEffect is orderDomFunc where reaching a call accepted by isEffect counts as the
// result Sym("effect") and falling off the end as nil.
func (r *Run) orderDomEffect(fi *prog.FuncInfo, isEffect func(call *ast.CallExpr) bool, names map[string]string, side func(odEnv) bool, spec func(odEnv) orderdom.Value, specText string) {
	m := orderdom.New(fi.Pkg.TypesInfo, names)
	m.Effect = isEffect
	res := m.CheckFunc(fi.Decl.Body, side, spec)
	r.finishOD(fi.Name(), fi.Decl.Pos(), res, specText)
}

// orderDomExpr is orderDomFunc for a single expression inside function `where`.
func (r *Run) orderDomExpr(info *types.Info, e ast.Expr, where string, names map[string]string, side func(odEnv) bool, spec func(odEnv) orderdom.Value, specText string) {
	m := orderdom.New(info, names)
	res := m.CheckExpr(e, side, spec)
	r.finishOD(where, e.Pos(), res, specText)
}

func (r *Run) finishOD(where string, pos token.Pos, res orderdom.Result, specText string) {
	r.Site(pos, fmt.Sprintf("%s: %d orderings of %v %v against spec %q", where, res.Orderings, res.OrdSyms, res.BoolSyms, specText))
	if res.Undecided != "" {
		r.Error("undecided: %s: %s", where, res.Undecided)
		return
	}
	if res.Orderings == 0 {
		r.Error("undecided: %s: no ordering evaluated", where)
		return
	}
	if res.Mismatch != nil {
		r.Fail(where+":order-domain", pos, nil, "%s differs from its specification %q: %s", where, specText, res.Mismatch.String())
	}
}

// keepBest decides the "keep the best candidate" idiom of a selection loop: within one iteration
// the running result `best` (a local declared outside the loop) is replaced by the candidate
// exactly when there is no result yet or key(candidate) > key(best) — in whatever arrangement of
// guards, early continues or merged conditions the body spells it. usesKey tells whether an
// expression reads the ordering key; keyNames maps the canonical source text of the key of x
// ("x.SeqNum()", "x.Id", ...) given x's text. Returns the running-result variable (nil if none).
func (r *Run) keepBest(info *types.Info, loopBody *ast.BlockStmt, where string, usesKey func(ast.Expr) bool, keyTexts func(x string) []string, specText string) types.Object {
	return r.keepBestDir(info, loopBody, where, +1, usesKey, keyTexts, specText)
}

// keepBestDir: dir = +1 keeps the candidate with the highest key, -1 the one with the lowest.
// "No result yet" is `best == nil` or the negation of a boolean local that is set to true
// together with the running result (found := false; ...; best, found = x, true).
func (r *Run) keepBestDir(info *types.Info, loopBody *ast.BlockStmt, where string, dir int, usesKey func(ast.Expr) bool, keyTexts func(x string) []string, specText string) types.Object {
	// the running result: an outer local assigned in the body, mentioned by a condition that reads the key
	outer := func(o types.Object) bool {
		v, ok := o.(*types.Var)
		return ok && !v.IsField() && (v.Pos() < loopBody.Pos() || v.Pos() > loopBody.End())
	}
	mentions := func(e ast.Node, o types.Object) bool {
		found := false
		ast.Inspect(e, func(n ast.Node) bool {
			if id, ok := n.(*ast.Ident); ok && info.Uses[id] == o {
				found = true
			}
			return !found
		})
		return found
	}
	var best types.Object
	cands := map[string]bool{}
	ast.Inspect(loopBody, func(n ast.Node) bool {
		if _, ok := n.(*ast.FuncLit); ok {
			return false
		}
		as, ok := n.(*ast.AssignStmt)
		if !ok || as.Tok != token.ASSIGN || len(as.Lhs) != len(as.Rhs) {
			return true
		}
		for i, l := range as.Lhs {
			o := prog.IdentObj(info, l)
			if o == nil || !outer(o) {
				continue
			}
			if b, ok := o.Type().Underlying().(*types.Basic); ok && b.Info()&types.IsBoolean != 0 {
				continue // a "found" flag, not the running result
			}
			keyed := false
			ast.Inspect(loopBody, func(m ast.Node) bool {
				if is, ok := m.(*ast.IfStmt); ok && usesKey(is.Cond) && mentions(is.Cond, o) {
					keyed = true
				}
				if sw, ok := m.(*ast.SwitchStmt); ok && sw.Tag == nil {
					for _, cl := range sw.Body.List {
						for _, ce := range cl.(*ast.CaseClause).List {
							if usesKey(ce) && mentions(ce, o) {
								keyed = true
							}
						}
					}
				}
				return !keyed
			})
			if keyed {
				best = o
				cands[types.ExprString(as.Rhs[i])] = true
			}
		}
		return true
	})
	if best == nil {
		return nil
	}
	if len(cands) != 1 {
		r.Fail(where+":candidates", loopBody.Pos(), nil, "the running result %s is replaced by %d different values", best.Name(), len(cands))
		return best
	}
	var cn string
	for c := range cands {
		cn = c
	}
	// one iteration: the top-level statements from the first that mentions the running result
	// (descending into a guard that merely filters the candidates: `if isCandidate { ...selection... }`)
	var tail []ast.Stmt
	list := loopBody.List
	for depth := 0; depth < 4; depth++ {
		tail = nil
		for i, st := range list {
			if mentions(st, best) {
				tail = list[i:]
				break
			}
		}
		if len(tail) == 0 {
			break
		}
		is, ok := tail[0].(*ast.IfStmt)
		later := false
		for _, st := range tail[1:] {
			if mentions(st, best) {
				later = true
			}
		}
		if !ok || later || is.Else != nil || mentions(is.Cond, best) || (is.Init != nil && mentions(is.Init, best)) {
			break
		}
		list = is.Body.List
	}
	if len(tail) == 0 {
		return nil
	}
	bn := best.Name()
	names := map[string]string{bn + " == nil": "?none", bn + " != nil": "?some"}
	for _, t := range keyTexts(cn) {
		names[t] = "cand"
	}
	for _, t := range keyTexts(bn) {
		names[t] = "best"
	}
	// a "found" flag: an outer boolean local that is assigned the constant true in the loop body
	ast.Inspect(loopBody, func(n ast.Node) bool {
		as, ok := n.(*ast.AssignStmt)
		if !ok || as.Tok != token.ASSIGN || len(as.Lhs) != len(as.Rhs) {
			return true
		}
		for i, l := range as.Lhs {
			o := prog.IdentObj(info, l)
			if o == nil || o == best || !outer(o) {
				continue
			}
			if tv, ok := info.Types[as.Rhs[i]]; ok && tv.Value != nil && tv.Value.String() == "true" {
				names[o.Name()] = "?some"
			}
		}
		return true
	})
	m := orderdom.New(info, names)
	m.AssignEffect = func(o types.Object) bool { return o == best }
	res := m.CheckBody(tail,
		func(e odEnv) bool { return e.Rank["cand"] != e.Rank["best"] && e.Bool["?none"] != e.Bool["?some"] },
		func(e odEnv) orderdom.Value {
			if e.Bool["?none"] || (dir > 0 && e.Rank["cand"] > e.Rank["best"]) || (dir < 0 && e.Rank["cand"] < e.Rank["best"]) {
				return orderdom.Sym("effect")
			}
			return orderdom.Sym("end")
		})
	r.finishOD(where, tail[0].Pos(), res, specText)
	return best
}
