package rules

import (
	"go/ast"
	"go/token"
	"go/types"

	"verif/checker/internal/pathsim"
	"verif/checker/internal/prog"
)

// compactionSites describes one "merge inputs -> write run -> change set" block.
type compactionSite struct {
	cs        types.Object // the *ChangeSet local
	csPos     token.Pos
	block     ast.Node // enclosing block to search in
	addCall   *ast.CallExpr
	rmCall    *ast.CallExpr
	writeCall *ast.CallExpr
}

func init() {
	prop("C18",
		"(a) every compaction removes exactly the tables it merged; (b) the new tables of a level below 0 are written from a merge that includes ALL tables of that level, so the level stays one sorted run, and the run is the merge of exactly the selected tables; (c) a change set is returned only when neither the scan nor the table writer failed; (d) change sets are applied to the current level list under the database lock and level lists are immutable (C07.d, C08.f); the merge keeps the newest version and tombstones (C07.g, C03.d); (e) a major compaction that stops inside a level selects nothing from newer levels, and selects oldest tables first; (f) every compaction step starts from the current level list; (g) the table writer's entry buffer never overwrites in place the chunk views it has handed to Write.",
		"validity of level layouts over all histories and compactor settings; the size arithmetic of the triggers.")

	register(&Obligation{ID: "C18.a", Props: []string{"C18"}, Template: "value-identity",
		Desc: "sst compaction (major and both minor branches): the tables removed by the change set are exactly the slice whose tables were scanned into the merge, the new run is WriteRun(MergeEntries(those scans)), and the tables are added to the level whose tables were all part of the merge",
		Run: func(r *Run) {
			addT := r.P.FuncObj("dkv/sst", "(*ChangeSet).AddTables")
			rmT := r.P.FuncObj("dkv/sst", "(*ChangeSet).RemoveTables")
			writeRun := r.P.FuncObj("dkv/sst", "(*TableWriter).WriteRun")
			merge := r.P.FuncObj("dkv/kv", "MergeEntries")
			scanFn := r.P.FuncObj("dkv/sst", "(*Table).ScanPrefix")
			at := r.P.FuncObj("dkv/sst", "(*LevelList).At")
			allTables := r.P.FuncObj("dkv/sst", "Level.AllTables")
			total := 0
			for _, fname := range []string{"(*Compactor).majorCompaction", "(*Compactor).minorCompaction"} {
				f := r.P.Func("dkv/sst", fname)
				info := f.Pkg.TypesInfo
				// every RemoveTables call
				inspect(f.Decl.Body, func(nd ast.Node) bool {
					call, ok := nd.(*ast.CallExpr)
					if !ok || r.P.CalleeFunc(info, call) != rmT {
						return true
					}
					total++
					r.Site(call.Pos(), f.Name()+": change set removal")
					if len(call.Args) != 1 {
						r.Fail(f.Name()+":remove-shape", call.Pos(), nil, "RemoveTables is not given one spread slice")
						return true
					}
					removed := prog.IdentObj(info, call.Args[0])
					if removed == nil {
						r.Fail(f.Name()+":remove-arg", call.Pos(), nil, "RemoveTables is not given the merged-tables slice variable")
						return true
					}
					// enclosing block: the innermost BlockStmt containing the call
					path := r.P.PathTo(f.File, call.Pos(), call.End())
					var block *ast.BlockStmt
					for _, p := range path {
						if b, ok := p.(*ast.BlockStmt); ok {
							block = b
						}
					}
					// the scan loop: for i, t := range removed { iters[i] = t.ScanPrefix(nil, &scanErr) }
					var iters types.Object
					scanned := false
					for _, lp := range fullLoopsOver(info, block, func(e ast.Expr) bool { return derefObj(info, e) == removed }) {
						inspect(lp.Body, func(k ast.Node) bool {
							if as, ok := k.(*ast.AssignStmt); ok && len(as.Lhs) == 1 && len(as.Rhs) == 1 {
								if c, ok := ast.Unparen(as.Rhs[0]).(*ast.CallExpr); ok && r.P.CalleeFunc(info, c) == scanFn {
									if ix, ok := ast.Unparen(as.Lhs[0]).(*ast.IndexExpr); ok {
										iters = prog.IdentObj(info, ix.X)
										scanned = true
										if sel, isSel := ast.Unparen(c.Fun).(*ast.SelectorExpr); !isSel || !lp.IsElem(sel.X) {
											r.Fail(f.Name()+":scans-other", c.Pos(), nil, "the scan loop over the removed tables scans something other than the table of the current iteration")
										}
										// full scan: prefix nil
										if len(c.Args) < 1 {
											return true
										}
										if tv, ok := info.Types[c.Args[0]]; !ok || !tv.IsNil() {
											r.Fail(f.Name()+":partial-scan", c.Pos(), nil, "a compaction input is scanned with a prefix: entries outside it are dropped when the table is removed")
										}
									}
								}
							}
							if b, ok := k.(*ast.BranchStmt); ok {
								r.Fail(f.Name()+":skips-input", b.Pos(), nil, "the scan loop can skip a table (%s) that is nevertheless removed: its data is lost", b.Tok)
							}
							return true
						})
					}
					if !scanned {
						r.Fail(f.Name()+":removed-not-merged:"+removed.Name(), call.Pos(), nil, "the tables removed by the change set (%s) are not the tables scanned into the merge: tables would be dropped without their data being rewritten, or merged tables kept (duplicates resurrecting old values)", removed.Name())
						return true
					}
					// WriteRun(MergeEntries(iters)) -> new tables -> AddTables(level, new...)
					var newTables types.Object
					inspect(block, func(m ast.Node) bool {
						as, ok := m.(*ast.AssignStmt)
						if !ok || len(as.Rhs) != 1 {
							return true
						}
						c, ok := ast.Unparen(as.Rhs[0]).(*ast.CallExpr)
						if !ok || r.P.CalleeFunc(info, c) != writeRun || len(c.Args) < 1 {
							return true
						}
						src := resolveLocal(info, block, c.Args[0])
						sameSlice := func(e ast.Expr) bool {
							if prog.IdentObj(info, e) == iters {
								return true
							}
							// the scans were collected by an extracted helper that returns its slice
							if hc, ok := ast.Unparen(resolveLocal(info, block, e)).(*ast.CallExpr); ok {
								if hf := r.P.FuncInfoOf(r.P.CalleeFunc(info, hc)); isNewHelper(r.P, hf) {
									same := false
									ast.Inspect(hf.Decl.Body, func(q ast.Node) bool {
										if rs, ok := q.(*ast.ReturnStmt); ok && len(rs.Results) == 1 && prog.IdentObj(info, rs.Results[0]) == iters {
											same = true
										}
										return true
									})
									return same
								}
							}
							return false
						}
						if mc, ok := ast.Unparen(src).(*ast.CallExpr); ok && r.P.CalleeFunc(info, mc) == merge && len(mc.Args) == 1 && sameSlice(mc.Args[0]) {
							newTables = prog.IdentObj(info, as.Lhs[0])
						}
						return true
					})
					if newTables == nil {
						r.Fail(f.Name()+":run-source:"+removed.Name(), call.Pos(), nil, "the new run is not WriteRun(kv.MergeEntries(<scans of the removed tables>))")
						return true
					}
					var addLevel ast.Expr
					inspect(block, func(m ast.Node) bool {
						c, ok := m.(*ast.CallExpr)
						if ok && r.P.CalleeFunc(info, c) == addT && len(c.Args) == 2 && prog.IdentObj(info, c.Args[1]) == newTables {
							addLevel = c.Args[0]
						}
						return true
					})
					if addLevel == nil {
						r.Fail(f.Name()+":added:"+removed.Name(), call.Pos(), nil, "the tables written from the merge are not the ones added by the change set")
						return true
					}
					// the target level's tables are all part of the merged slice: removed's definition includes levels.At(<same level>).AllTables()
					def := resolveLocal(info, block, &ast.Ident{Name: removed.Name(), NamePos: call.Args[0].Pos()})
					_ = def
					lvlText := types.ExprString(addLevel)
					includesTarget := false
					check := func(n ast.Node) {
						inspect(n, func(k ast.Node) bool {
							c, ok := k.(*ast.CallExpr)
							if !ok || r.P.CalleeFunc(info, c) != allTables {
								return true
							}
							if sel, ok := ast.Unparen(c.Fun).(*ast.SelectorExpr); ok {
								if ac, ok := ast.Unparen(sel.X).(*ast.CallExpr); ok && r.P.CalleeFunc(info, ac) == at && len(ac.Args) == 1 && types.ExprString(ac.Args[0]) == lvlText {
									includesTarget = true
								}
							}
							return true
						})
					}
					// all statements that define or append to `removed`
					inspect(f.Decl.Body, func(m ast.Node) bool {
						switch x := m.(type) {
						case *ast.AssignStmt:
							for _, l := range x.Lhs {
								if prog.IdentObj(info, l) == removed {
									check(x)
								}
							}
						case *ast.RangeStmt:
							uses := false
							inspect(x.Body, func(k ast.Node) bool {
								if as, ok := k.(*ast.AssignStmt); ok {
									for _, l := range as.Lhs {
										if prog.IdentObj(info, l) == removed {
											uses = true
										}
									}
								}
								return true
							})
							if uses {
								before := includesTarget
								check(x.X)
								if includesTarget && !before {
									// the loop over the target level's tables takes every one of them: no
									// table is skipped and the append is unconditional
									partial := ""
									ast.Inspect(x.Body, func(k ast.Node) bool {
										switch y := k.(type) {
										case *ast.BranchStmt:
											partial = "a table can be skipped (" + y.Tok.String() + ")"
										case *ast.IfStmt, *ast.SwitchStmt:
											inspect(y, func(q ast.Node) bool {
												if as, ok := q.(*ast.AssignStmt); ok {
													for _, l := range as.Lhs {
														if prog.IdentObj(info, l) == removed {
															partial = "the table is taken only under a condition"
														}
													}
												}
												return true
											})
										case *ast.FuncLit:
											return false
										}
										return true
									})
									if partial != "" {
										r.Fail(f.Name()+":target-level-partial:"+removed.Name(), x.Pos(), nil, "only some tables of the target level are merged (%s): the new run is added next to the tables left in place, the level is no longer one key-ordered run and its binary search misses keys that are still stored", partial)
									}
								}
							}
						}
						return true
					})
					if !includesTarget {
						r.Fail(f.Name()+":target-level:"+removed.Name(), call.Pos(), nil, "new tables are added to level %s, but the merge does not include all tables of that level: the level would hold overlapping tables out of key order, and its binary search misses keys", lvlText)
					}
					return true
				})
			}
			if total != 3 {
				r.Error("expected 3 compaction change sets (major, minor L0->L1, minor Ln->Ln+1), found %d", total)
			}
		}})

	register(&Obligation{ID: "C18.f", Props: []string{"C18", "C07"}, Template: "value-identity",
		Desc: "every compaction step works on the level list as it is when the step starts: the argument of Compactor.Compact in dkv.(*DB).rotateMemtable's compaction task is db.currentSSTables() evaluated inside the loop iteration (directly, or through a local defined once inside the loop body), never a list captured when the task was queued or carried over from the previous step",
		Run: func(r *Run) {
			f := r.P.Func("dkv", "(*DB).rotateMemtable")
			info := f.Pkg.TypesInfo
			compact := r.P.FuncObj("dkv/sst", "(*Compactor).Compact")
			current := r.P.FuncObj("dkv", "(*DB).currentSSTables")
			n := 0
			inspect(f.Decl.Body, func(nd ast.Node) bool {
				loop, ok := nd.(*ast.ForStmt)
				if !ok {
					return true
				}
				inspect(loop.Body, func(m ast.Node) bool {
					call, ok := m.(*ast.CallExpr)
					if !ok || r.P.CalleeFunc(info, call) != compact || len(call.Args) != 1 {
						return true
					}
					n++
					r.Site(call.Pos(), "Compact(level list read at the start of the step)")
					arg := resolveLocal(info, loop.Body, call.Args[0]) // only definitions INSIDE the loop body count
					c2, isCall := ast.Unparen(arg).(*ast.CallExpr)
					if obj := prog.IdentObj(info, call.Args[0]); obj != nil && (obj.Pos() < loop.Body.Pos() || obj.Pos() > loop.Body.End()) {
						isCall = false // a variable that lives across iterations (or was captured when the task was queued)
					}
					if !isCall || r.P.CalleeFunc(info, c2) != current {
						r.Fail(f.Name()+"$compaction:fresh-input", call.Pos(), nil, "the compaction step does not start from db.currentSSTables() read in this iteration: a step queued behind a running one (or following its own swap) would compact a stale level list, re-merge tables that were already merged and removed, and add a second, overlapping run of older data to the target level")
					}
					return true
				})
				return true
			})
			if n == 0 {
				r.Error("undecided: rotateMemtable has no loop calling Compactor.Compact")
			}
		}})

	register(&Obligation{ID: "C18.c", Props: []string{"C18", "C03", "C07"}, Template: "must-precede.err-checked",
		Desc: "a compaction returns a change set only if the scan error and the table writer's error were both tested nil",
		Run: func(r *Run) {
			writeRun := r.P.FuncObj("dkv/sst", "(*TableWriter).WriteRun")
			for _, fname := range []string{"(*Compactor).majorCompaction", "(*Compactor).minorCompaction"} {
				f := r.P.Func("dkv/sst", fname)
				info := f.Pkg.TypesInfo
				// scanErr variables
				scanErrs := map[types.Object]bool{}
				inspect(f.Decl.Body, func(nd ast.Node) bool {
					if vs, ok := nd.(*ast.ValueSpec); ok && len(vs.Values) == 0 {
						for _, n := range vs.Names {
							if o := info.Defs[n]; o != nil && isErrorType(o.Type()) {
								scanErrs[o] = true
							}
						}
					}
					return true
				})
				// named results: a bare return hands back the change set iff one was assigned on a path to it
				bareCS := r.bareReturnsWithResult(f, 0)
				isCSReturn := func(c *pathsim.Ctx, ev *pathsim.Event) bool {
					if ev.Kind == pathsim.EvReturn && len(ev.Results) == 0 && c.Depth == 0 {
						return bareCS[ev.Pos]
					}
					if ev.Kind != pathsim.EvReturn || len(ev.Results) != 2 {
						return false
					}
					tv0, ok0 := c.Info.Types[ev.Results[0]]
					tv1, ok1 := c.Info.Types[ev.Results[1]]
					return ok0 && !tv0.IsNil() && ok1 && tv1.IsNil()
				}
				n := r.errChecked(f.Decl, f.Name(), "TableWriter.WriteRun", "return changeSet,nil", callTo(writeRun), isCSReturn)
				if n == 0 {
					r.Fail(f.Name()+":no-changeset", f.Decl.Pos(), nil, "%s never returns a change set", f.Name())
				}
				// scanErr tested on the way to returning the change set, after the run was written
				spec := &pathsim.Spec{}
				spec.Atom = func(c *pathsim.Ctx, e ast.Expr) (int, bool, bool) {
					x, notNil, ok := pathsim.IsNilCompare(c.Info, e)
					if ok && scanErrs[prog.IdentObj(c.Info, x)] {
						return 0, !notNil, true
					}
					// *p in an extracted helper that was handed &scanErr
					if st, isStar := ast.Unparen(x).(*ast.StarExpr); ok && isStar {
						if u, isAddr := deref(c.Info, st.X).(*ast.UnaryExpr); isAddr && u.Op == token.AND && scanErrs[prog.IdentObj(c.Info, u.X)] {
							return 0, !notNil, true
						}
					}
					return 0, false, false
				}
				spec.Step = func(c *pathsim.Ctx, s pathsim.State, ev *pathsim.Event) []pathsim.State {
					if callTo(writeRun)(c, ev) {
						s.V[0] = pathsim.Unknown // the scan runs inside WriteRun: earlier tests do not count
						return []pathsim.State{s}
					}
					if isCSReturn(c, ev) && s.V[0] != pathsim.False {
						c.Violate(ev.Pos, "[scan-error-untested] a change set is returned without testing the scan error after the run was written: a read failure half-way through a table would drop the unread rest when the inputs are removed")
					}
					return nil
				}
				r.Sim(f.Decl, f.Name(), spec)
				r.Site(f.Decl.Pos(), f.Name()+": scan error tested before the change set is returned")
				// the scans write into the declared scanErr (address passed)
				okAddr := false
				inspect(f.Decl.Body, func(nd ast.Node) bool {
					if u, ok := nd.(*ast.UnaryExpr); ok && u.Op == token.AND && scanErrs[prog.IdentObj(info, u.X)] {
						okAddr = true
					}
					return true
				})
				if !okAddr {
					r.Fail(f.Name()+":scan-error-sink", f.Decl.Pos(), nil, "the table scans do not report into the scan error variable that is tested")
				}
			}
		}})

	register(&Obligation{ID: "C18.e", Props: []string{"C18"}, Template: "selection-discipline",
		Desc: "sst.majorCompaction walks the non-base levels from the oldest upwards, within a level selects tables oldest first, and once it stops selecting inside a level it selects nothing from a newer level; the base level's tables are always part of the merge",
		Run: func(r *Run) {
			f := r.P.Func("dkv/sst", "(*Compactor).majorCompaction")
			info := f.Pkg.TypesInfo
			ascend := r.P.FuncObj("dkv/sst", "(*LevelList).AscendLevels")
			oldToNew := r.P.FuncObj("dkv/sst", "OrderOldToNew")
			var outer *ast.RangeStmt
			inspect(f.Decl.Body, func(nd ast.Node) bool {
				if rs, ok := nd.(*ast.RangeStmt); ok && outer == nil {
					if call, ok := ast.Unparen(rs.X).(*ast.CallExpr); ok && r.P.CalleeFunc(info, call) == ascend {
						outer = rs
						if len(call.Args) != 1 {
							r.Fail(f.Name()+":levels-arg", call.Pos(), nil, "AscendLevels must skip exactly the base level")
						} else if tv, ok := info.Types[call.Args[0]]; !ok || tv.Value == nil || tv.Value.String() != "1" {
							r.Fail(f.Name()+":levels-arg", call.Pos(), nil, "AscendLevels must skip exactly the base level (offset 1)")
						}
					}
				}
				return true
			})
			if outer == nil {
				r.Error("undecided: majorCompaction no longer walks levels with AscendLevels")
				return
			}
			r.Site(outer.Pos(), "majorCompaction selection loops")
			var inner *ast.RangeStmt
			inspect(outer.Body, func(nd ast.Node) bool {
				if rs, ok := nd.(*ast.RangeStmt); ok && inner == nil {
					inner = rs
				}
				return true
			})
			if inner == nil {
				r.Error("undecided: majorCompaction has no per-table selection loop")
				return
			}
			// oldest first
			src := resolveLocal(info, outer.Body, inner.X)
			okOrder := false
			for _, nm := range []string{"SortedFunc", "SortedStableFunc"} {
				if call, ok := isCallToNamed(info, src, "slices", nm); ok && len(call.Args) == 2 && prog.IdentObj(info, call.Args[1]) == types.Object(oldToNew) {
					okOrder = true // sorts a copy collected from the iterator
				}
			}
			// or: a copy of the level's tables, sorted in place before the loop
			if v := prog.IdentObj(info, inner.X); !okOrder && v != nil {
				sortedInPlace := false
				for _, st := range outer.Body.List {
					if st.Pos() >= inner.Pos() {
						break
					}
					es, isExpr := st.(*ast.ExprStmt)
					if !isExpr {
						continue
					}
					for _, nm := range []string{"SortFunc", "SortStableFunc"} {
						if call, ok := isCallToNamed(info, es.X, "slices", nm); ok && len(call.Args) == 2 && prog.IdentObj(info, call.Args[0]) == v && prog.IdentObj(info, call.Args[1]) == types.Object(oldToNew) {
							sortedInPlace = true
						}
					}
				}
				if sortedInPlace {
					fresh := false
					def := ast.Unparen(deref(info, inner.X))
					for _, nm := range []string{"Collect", "Clone", "AppendSeq", "Sorted"} {
						if _, ok := isCallToNamed(info, def, "slices", nm); ok {
							fresh = true
						}
					}
					if call, ok := def.(*ast.CallExpr); ok {
						if id, isID := call.Fun.(*ast.Ident); isID && id.Name == "append" && len(call.Args) >= 1 {
							// append([]*Table(nil), xs...) / append([]*Table{}, xs...)
							switch a := ast.Unparen(call.Args[0]).(type) {
							case *ast.CompositeLit:
								fresh = len(a.Elts) == 0
							case *ast.CallExpr:
								if tv, has := info.Types[a.Fun]; has && tv.IsType() && len(a.Args) == 1 {
									if av, has := info.Types[a.Args[0]]; has && av.IsNil() {
										fresh = true
									}
								}
							}
						}
					}
					if fresh {
						okOrder = true
					} else {
						okOrder = true // the order is right; the aliasing is reported on its own
						r.Fail(f.Name()+":sorts-level-in-place", inner.Pos(), nil, "the tables of a level are sorted by age in place on %s, which is not a copy made here: if it is the level's own slice, the level is left in age order instead of key order and lookups binary-search it wrongly", types.ExprString(def))
					}
				}
			}
			if !okOrder {
				r.Fail(f.Name()+":oldest-first", inner.Pos(), nil, "within a level the tables are not selected oldest first (slices.SortedFunc(level.AllTables(), OrderOldToNew))")
			}
			// selected slice
			var sel types.Object
			inspect(inner.Body, func(nd ast.Node) bool {
				if as, ok := nd.(*ast.AssignStmt); ok && len(as.Lhs) == 1 && len(as.Rhs) == 1 {
					if call, ok := ast.Unparen(as.Rhs[0]).(*ast.CallExpr); ok {
						if id, ok := call.Fun.(*ast.Ident); ok && id.Name == "append" {
							sel = prog.IdentObj(info, as.Lhs[0])
						}
					}
				}
				return true
			})
			if sel == nil {
				r.Error("undecided: majorCompaction selection slice")
				return
			}
			// path rule: after the inner loop was left by break, no append to sel inside the outer loop
			spec := &pathsim.Spec{Step: func(c *pathsim.Ctx, s pathsim.State, ev *pathsim.Event) []pathsim.State {
				if ev.Kind == pathsim.EvLoopExit && ev.Node == ast.Node(inner) && ev.Break {
					s.A = 1
					return []pathsim.State{s}
				}
				if ev.Kind == pathsim.EvLoopExit && ev.Node == ast.Node(outer) {
					s.A = 0
					return []pathsim.State{s}
				}
				if ev.Kind == pathsim.EvAssign && s.A == 1 && len(ev.Lhs) == 1 && prog.IdentObj(c.Info, ev.Lhs[0]) == sel && ev.Node.Pos() > outer.Pos() && ev.Node.End() < outer.End() {
					c.Violate(ev.Pos, "[select-after-stop] after the selection stopped inside a level (older tables of that level stay behind), a table of a newer level is still selected: its data is merged into the base level beneath the older tables left in between")
				}
				return nil
			}}
			r.Sim(f.Decl, f.Name(), spec)
			// base tables always included
			at := r.P.FuncObj("dkv/sst", "(*LevelList).At")
			okBase := false
			inspect(f.Decl.Body, func(nd ast.Node) bool {
				rs, ok := nd.(*ast.RangeStmt)
				if !ok || rs.Pos() < outer.End() {
					return true
				}
				found := false
				inspect(rs.X, func(m ast.Node) bool {
					if call, ok := m.(*ast.CallExpr); ok && r.P.CalleeFunc(info, call) == at && len(call.Args) == 1 {
						if tv, ok := info.Types[call.Args[0]]; ok && tv.Value != nil && tv.Value.String() == "-1" {
							found = true
						}
					}
					return true
				})
				if found {
					inspect(rs.Body, func(m ast.Node) bool {
						if as, ok := m.(*ast.AssignStmt); ok && len(as.Lhs) == 1 && prog.IdentObj(info, as.Lhs[0]) == sel {
							okBase = true
						}
						return true
					})
				}
				return true
			})
			if !okBase {
				// the same without a loop: sel = slices.AppendSeq(sel, levels.At(-1).AllTables())
				inspect(f.Decl.Body, func(nd ast.Node) bool {
					as, ok := nd.(*ast.AssignStmt)
					if !ok || len(as.Lhs) != 1 || len(as.Rhs) != 1 || prog.IdentObj(info, as.Lhs[0]) != sel || as.Pos() < outer.End() {
						return true
					}
					c, ok := isCallToNamed(info, as.Rhs[0], "slices", "AppendSeq")
					if !ok || len(c.Args) != 2 || prog.IdentObj(info, c.Args[0]) != sel {
						return true
					}
					inspect(c.Args[1], func(m ast.Node) bool {
						if call, ok := m.(*ast.CallExpr); ok && r.P.CalleeFunc(info, call) == at && len(call.Args) == 1 {
							if tv, ok := info.Types[call.Args[0]]; ok && tv.Value != nil && tv.Value.String() == "-1" {
								okBase = true
							}
						}
						return true
					})
					return true
				})
			}
			if !okBase {
				r.Fail(f.Name()+":base-included", f.Decl.Pos(), nil, "the base level's tables are not added to the merge")
			}
		}})

	register(&Obligation{ID: "C18.g", Props: []string{"C18", "C17", "C07"}, Template: "aliasing",
		Desc: "the table writer's entry buffer hands out lazy views of its backing array (all / flushChunk return slices.Values over entries or a prefix of it, consumed later by TableWriter.Write): while such a view is outstanding the backing array is not written in place - entries is only appended to, re-sliced forward, or replaced by a fresh slice",
		Run: func(r *Run) {
			entries := r.P.Field("dkv/sst", "entryBuffer", "entries")
			pkg := r.P.Pkg("dkv/sst")
			info := pkg.TypesInfo
			// does a view alias the array? (a function of entryBuffer returns slices.Values(x) with x the
			// field or a slice of it, not a clone)
			aliases := false
			isEntries := func(e ast.Expr) bool {
				e = deref(info, e)
				if prog.SelField(info, e) == entries {
					return true
				}
				if sl, ok := ast.Unparen(e).(*ast.SliceExpr); ok && prog.SelField(info, sl.X) == entries {
					return true
				}
				return false
			}
			for _, file := range pkg.Syntax {
				inspect(file, func(nd ast.Node) bool {
					if call, ok := nd.(*ast.CallExpr); ok {
						if c, ok := isCallToNamed(info, call, "slices", "Values"); ok && len(c.Args) == 1 && isEntries(c.Args[0]) {
							aliases = true
							r.Site(c.Pos(), "lazy view of entryBuffer.entries")
						}
					}
					return true
				})
			}
			if !aliases {
				r.Note("entryBuffer no longer hands out views that alias its array")
				return
			}
			n := 0
			for _, fa := range r.fieldAccesses(entries) {
				if prog.IsTestSupport(fa.Use.Pkg.PkgPath) || !fa.Write {
					continue
				}
				n++
				where := r.scopeName(fa.Use.Scope)
				r.Site(fa.Use.Ident.Pos(), "entryBuffer.entries "+fa.Kind+" in "+where)
				path := r.P.PathTo(fa.Use.File, fa.Use.Ident.Pos(), fa.Use.Ident.End())
				ok := false
				why := fa.Kind
				for k := len(path) - 1; k >= 0 && !ok; k-- {
					switch x := path[k].(type) {
					case *ast.KeyValueExpr:
						ok = true // constructor literal
					case *ast.AssignStmt:
						for i, l := range x.Lhs {
							if prog.SelField(info, l) != entries || i >= len(x.Rhs) {
								continue
							}
							rhs := deref(info, x.Rhs[i])
							switch y := rhs.(type) {
							case *ast.SliceExpr:
								// b.entries = b.entries[k:] moves forward; the array is untouched
								ok = prog.SelField(info, y.X) == entries
							case *ast.CallExpr:
								if id, isID := y.Fun.(*ast.Ident); isID && id.Name == "append" && len(y.Args) >= 1 {
									// appending to the buffer itself writes beyond every view handed out so far;
									// appending to a prefix of it (entries[:0]) overwrites the view
									ok = prog.SelField(info, y.Args[0]) == entries
									if !ok {
										why = "append onto a sub-slice of entries"
									}
								} else if id, isID := y.Fun.(*ast.Ident); isID && id.Name == "make" {
									ok = true
								} else if _, isClone := isCallToNamed(info, y, "slices", "Clone"); isClone {
									ok = true
								}
							default:
								if tv, has := info.Types[rhs]; has && tv.IsNil() {
									ok = true
								}
							}
						}
						k = -1
					}
				}
				if !ok {
					r.Fail("entryBuffer.entries-write<-"+where, fa.Use.Ident.Pos(), nil, "entryBuffer.entries is written in place (%s) in %s while chunk views handed to TableWriter.Write still alias the array: the entries of a table being written are replaced by later ones (keys lost from the compaction output, others duplicated)", why, where)
				}
			}
			if n < 2 {
				r.Error("floor: %d writes of entryBuffer.entries (3 confirmed by hand)", n)
			}
			// copy(b.entries..., ...) is an in-place write too
			for _, file := range pkg.Syntax {
				inspect(file, func(nd ast.Node) bool {
					call, ok := nd.(*ast.CallExpr)
					if !ok || len(call.Args) != 2 {
						return true
					}
					if id, isID := call.Fun.(*ast.Ident); isID && id.Name == "copy" && isEntries(call.Args[0]) {
						r.Fail("entryBuffer.entries-copy", call.Pos(), nil, "copy into entryBuffer.entries overwrites chunk views that are still being written")
					}
					return true
				})
			}
		}})
}
