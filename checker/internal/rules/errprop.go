package rules

import (
	"fmt"
	"go/ast"
	"go/token"
	"go/types"
	"sort"
	"strings"

	"verif/checker/internal/prog"
)

// Error propagation ("no error of the storage / codec layer is dropped"), decided per
// function on the typed syntax tree:
//
//	(1) dropped: an error variable that receives the result of a call is used (tested,
//	    returned, passed on, stored, sent) before it is overwritten by the next definition or
//	    the function ends; a call whose error result is discarded with `_` or by using the
//	    call as a statement is reported unless the callee is in the accepted list.
//	(2) ignored: an `if err != nil` (or `errors.Is(err, X)`) branch on such a variable does
//	    something with the failure: it returns, panics, continues/breaks a loop, passes the
//	    error on (call argument, send, assignment) — a branch that is empty or only logs is
//	    reported unless listed.
//
// Sites are identified position-free as <function>:<callee>[#n].

type errSite struct {
	fn     string
	callee string
	pos    token.Pos
	kind   string // "dropped" | "ignored" | "discarded"
	msg    string
}

// errPropScan analyses every function declared in the given files.
func (r *Run) errPropScan(rel string, fileFilter func(name string) bool) (sites []errSite, nDefs int) {
	pkg := r.P.Pkg(rel)
	info := pkg.TypesInfo
	for i, file := range pkg.Syntax {
		name := pkg.CompiledGoFiles[i]
		if strings.HasSuffix(name, ".pb.go") || strings.HasSuffix(name, "_test.go") || (fileFilter != nil && !fileFilter(name)) {
			continue
		}
		for _, d := range file.Decls {
			fd, ok := d.(*ast.FuncDecl)
			if !ok || fd.Body == nil {
				continue
			}
			fname := prog.RelPkg(pkg.PkgPath) + "." + declName(fd)
			// a function that did not exist when the exception table was confirmed (an extracted
			// helper) is reported under, and excused like, the function that calls it
			if obj, ok := info.Defs[fd.Name].(*types.Func); ok {
				if fi := r.P.FuncInfoOf(obj); fi != nil && !baselineFuncs()[fi.Name()] {
					cur := fi
					for depth := 0; depth < 3; depth++ {
						c := r.singleCaller(cur)
						if c == nil || c == cur {
							break
						}
						cur = c
						if baselineFuncs()[cur.Name()] {
							break
						}
					}
					fname = cur.Name()
				}
			}
			s, n := errPropFunc(r.P, info, fname, fd.Type, fd.Body)
			sites = append(sites, s...)
			nDefs += n
		}
	}
	return
}

func declName(fd *ast.FuncDecl) string {
	if fd.Recv != nil && len(fd.Recv.List) > 0 {
		t := fd.Recv.List[0].Type
		star := ""
		if s, ok := t.(*ast.StarExpr); ok {
			t, star = s.X, "*"
		}
		if ix, ok := t.(*ast.IndexExpr); ok {
			t = ix.X
		}
		if ix, ok := t.(*ast.IndexListExpr); ok {
			t = ix.X
		}
		if star != "" {
			return "(*" + types.ExprString(t) + ")." + fd.Name.Name
		}
		return types.ExprString(t) + "." + fd.Name.Name
	}
	return fd.Name.Name
}

func calleeName(p *prog.Prog, info *types.Info, call *ast.CallExpr) string {
	if fn := p.CalleeFunc(info, call); fn != nil {
		return prog.ShortFuncName(fn)
	}
	return types.ExprString(call.Fun)
}

type errRef struct {
	pos    token.Pos
	isDef  bool
	call   *ast.CallExpr // defining call (nil for other definitions)
	stmt   ast.Stmt
	endDef token.Pos
}

func errPropFunc(p *prog.Prog, info *types.Info, fname string, outer *ast.FuncType, body *ast.BlockStmt) (sites []errSite, nDefs int) {
	refs := map[types.Object][]errRef{}
	defIdent := map[*ast.Ident]bool{}
	count := map[string]int{}
	site := func(kind, callee string, pos token.Pos, msg string) {
		k := callee
		count[kind+k]++
		if count[kind+k] > 1 {
			k = fmt.Sprintf("%s#%d", callee, count[kind+k])
		}
		sites = append(sites, errSite{fn: fname, callee: k, pos: pos, kind: kind, msg: msg})
	}
	errResultIndex := func(call *ast.CallExpr) int {
		tv, ok := info.Types[call]
		if !ok || tv.IsType() {
			return -1
		}
		if ft, ok := info.Types[call.Fun]; ok && ft.IsType() {
			return -1 // conversion
		}
		switch t := tv.Type.(type) {
		case *types.Tuple:
			for i := 0; i < t.Len(); i++ {
				if isErrorType(t.At(i).Type()) {
					return i
				}
			}
		default:
			if isErrorType(t) {
				return 0
			}
		}
		return -1
	}
	// pass 1: definitions of error variables from calls; discarded error results
	ast.Inspect(body, func(nd ast.Node) bool {
		switch x := nd.(type) {
		case *ast.AssignStmt:
			if len(x.Rhs) == 1 {
				if call, ok := ast.Unparen(x.Rhs[0]).(*ast.CallExpr); ok {
					if ei := errResultIndex(call); ei >= 0 && ei < len(x.Lhs) {
						if id, ok := x.Lhs[ei].(*ast.Ident); ok {
							if id.Name == "_" {
								site("discarded", calleeName(p, info, call), call.Pos(), "the error result is assigned to _")
							} else if obj := prog.IdentObj(info, id); obj != nil {
								refs[obj] = append(refs[obj], errRef{pos: id.Pos(), isDef: true, call: call, stmt: x, endDef: x.End()})
								defIdent[id] = true
								nDefs++
							}
						}
						return true
					}
				}
			}
			// other assignments to an error-typed identifier end the previous definition's live range
			for _, l := range x.Lhs {
				if id, ok := l.(*ast.Ident); ok && id.Name != "_" {
					if obj := prog.IdentObj(info, id); obj != nil && isErrorType(obj.Type()) {
						refs[obj] = append(refs[obj], errRef{pos: id.Pos(), isDef: true, stmt: x, endDef: x.End()})
						defIdent[id] = true
					}
				}
			}
		case *ast.ExprStmt:
			if call, ok := x.X.(*ast.CallExpr); ok {
				if ei := errResultIndex(call); ei >= 0 && !neverFails(calleeName(p, info, call)) {
					site("discarded", calleeName(p, info, call), call.Pos(), "the call is used as a statement and its error result is lost")
				}
			}
		case *ast.DeferStmt, *ast.GoStmt:
			// deferred / spawned calls cannot return their error to this frame
		}
		return true
	})
	// pass 2: uses
	ast.Inspect(body, func(nd ast.Node) bool {
		id, ok := nd.(*ast.Ident)
		if !ok || defIdent[id] {
			return true
		}
		if obj := info.Uses[id]; obj != nil {
			if _, tracked := refs[obj]; tracked {
				refs[obj] = append(refs[obj], errRef{pos: id.Pos()})
			}
		}
		return true
	})
	for obj, l := range refs {
		sort.Slice(l, func(i, j int) bool { return l[i].pos < l[j].pos })
		// a named result is also "used" by a bare return that follows the definition
		named := false
		if v, ok := obj.(*types.Var); ok && v.Pos() < body.Pos() {
			named = true
		}
		if named {
			ast.Inspect(body, func(nd ast.Node) bool {
				if _, isLit := nd.(*ast.FuncLit); isLit {
					return false
				}
				if ret, ok := nd.(*ast.ReturnStmt); ok && len(ret.Results) == 0 {
					l = append(l, errRef{pos: ret.Pos()})
				}
				return true
			})
			sort.Slice(l, func(i, j int) bool { return l[i].pos < l[j].pos })
		}
		for i, d := range l {
			if !d.isDef || d.call == nil {
				continue
			}
			used := false
			for _, u := range l[i+1:] {
				if u.isDef {
					// a later definition ends this one's live range only when it runs after it: one in a
					// sibling branch (if / else-if / case arms each assigning err, one shared return at
					// the end) does not
					if u.stmt != nil && d.stmt != nil {
						if lo, hi := enclosingList(p, u.stmt); lo.IsValid() && !(lo <= d.stmt.Pos() && d.stmt.End() <= hi) {
							continue
						}
					}
					break
				}
				used = true
				break
			}
			// a use textually before (loop head) counts only if the definition is inside a loop: rare; not accepted
			if !used {
				site("dropped", calleeName(p, info, d.call), d.call.Pos(), "the error returned by this call is overwritten or goes out of scope without being looked at")
			}
		}
	}
	// pass 3: branches that test an error and do nothing with it
	var stack []*ast.FuncType
	var visit func(n ast.Node)
	visit = func(n ast.Node) {
		ast.Inspect(n, func(nd ast.Node) bool {
			switch x := nd.(type) {
			case *ast.FuncLit:
				stack = append(stack, x.Type)
				visit(x.Body)
				stack = stack[:len(stack)-1]
				return false
			case *ast.IfStmt:
				obj, positive := errTestOf(info, x.Cond)
				if obj == nil || !positive {
					return true
				}
				if _, tracked := refs[obj]; !tracked {
					return true
				}
				sentinel := sentinelOf(x.Cond)
				if sentinel == "io.EOF" {
					return true // end of input is not a failure; what EOF must turn into is decided by the readers' own rules (C07.l, C17.a/b)
				}
				var ft *ast.FuncType
				if len(stack) > 0 {
					ft = stack[len(stack)-1]
				} else {
					ft = outer
				}
				if !branchHandles(info, ft, x.Body, obj) {
					callee := "?"
					for _, d := range refs[obj] {
						if d.isDef && d.call != nil && d.pos < x.Body.Pos() {
							callee = calleeName(p, info, d.call)
						}
					}
					if sentinel != "" {
						callee += ":is(" + sentinel + ")"
					}
					site("ignored", callee, x.Pos(), "a way out of the failure branch neither returns an error, panics, leaves the loop nor passes the error on")
				}
			}
			return true
		})
	}
	visit(body)
	// pass 4: a failure test narrowed by a further condition (`err != nil && !errors.Is(err, X)`,
	// `err != nil && retryable(err)`): failures outside the narrowed set fall through the branch.
	// They count as ignored unless a later statement of the same block looks at the error again
	// (tests it, returns it or passes it on).
	ast.Inspect(body, func(nd ast.Node) bool {
		blk, ok := nd.(*ast.BlockStmt)
		if !ok {
			return true
		}
		for i, st := range blk.List {
			is, ok := st.(*ast.IfStmt)
			if !ok {
				continue
			}
			b, ok := ast.Unparen(is.Cond).(*ast.BinaryExpr)
			if !ok || b.Op != token.LAND {
				continue
			}
			var obj types.Object
			var other ast.Expr
			for _, pair := range [][2]ast.Expr{{b.X, b.Y}, {b.Y, b.X}} {
				if o, positive := errTestOf(info, pair[0]); o != nil && positive && sentinelOf(pair[0]) == "" {
					obj, other = o, pair[1]
				}
			}
			if obj == nil {
				continue
			}
			if _, tracked := refs[obj]; !tracked {
				continue
			}
			later := false
			for _, st2 := range blk.List[i+1:] {
				ast.Inspect(st2, func(m ast.Node) bool {
					if id, ok := m.(*ast.Ident); ok && info.Uses[id] == obj {
						later = true
					}
					return !later
				})
			}
			// an else branch that deals with the remaining failures
			if is.Else != nil {
				ast.Inspect(is.Else, func(m ast.Node) bool {
					if id, ok := m.(*ast.Ident); ok && info.Uses[id] == obj {
						later = true
					}
					return !later
				})
			}
			if later {
				continue
			}
			callee := "?"
			for _, d := range refs[obj] {
				if d.isDef && d.call != nil && d.pos < is.Body.Pos() {
					callee = calleeName(p, info, d.call)
				}
			}
			site("ignored", callee+":unless("+types.ExprString(other)+")", is.Pos(), "the failure branch is taken only for some errors; the others fall through it and are never looked at again")
		}
		return true
	})
	return
}

// errTestOf: cond is `e != nil`, `nil != e`, `errors.Is(e, X)`, `e == X` (sentinel) -> (e, true);
// `e == nil` -> (e, false).
func errTestOf(info *types.Info, cond ast.Expr) (types.Object, bool) {
	cond = ast.Unparen(cond)
	if b, ok := cond.(*ast.BinaryExpr); ok && (b.Op == token.NEQ || b.Op == token.EQL) {
		for _, pair := range [][2]ast.Expr{{b.X, b.Y}, {b.Y, b.X}} {
			obj := prog.IdentObj(info, pair[0])
			if obj == nil || !isErrorType(obj.Type()) {
				continue
			}
			if tv, ok := info.Types[pair[1]]; ok && tv.IsNil() {
				return obj, b.Op == token.NEQ
			}
			return obj, b.Op == token.EQL // comparison with a sentinel
		}
	}
	if call, ok := cond.(*ast.CallExpr); ok && len(call.Args) == 2 {
		if sel, ok := ast.Unparen(call.Fun).(*ast.SelectorExpr); ok && (sel.Sel.Name == "Is" || sel.Sel.Name == "As") {
			if obj := prog.IdentObj(info, call.Args[0]); obj != nil && isErrorType(obj.Type()) {
				return obj, true
			}
		}
	}
	return nil, false
}

// neverFails: callees documented to always return a nil error.
func neverFails(callee string) bool {
	for _, p := range []string{"strings.(*Builder).Write", "bytes.(*Buffer).Write", "hash.Hash", "math/rand"} {
		if strings.HasPrefix(callee, p) {
			return true
		}
	}
	return false
}

// sentinelOf names the sentinel of `errors.Is(e, X)` / `e == X` tests ("" for nil tests).
func sentinelOf(cond ast.Expr) string {
	cond = ast.Unparen(cond)
	if call, ok := cond.(*ast.CallExpr); ok && len(call.Args) == 2 {
		return types.ExprString(call.Args[1])
	}
	if b, ok := cond.(*ast.BinaryExpr); ok {
		for _, e := range []ast.Expr{b.X, b.Y} {
			if s := types.ExprString(e); s != "nil" && strings.Contains(s, ".") {
				return s
			}
		}
	}
	return ""
}

func isLogCallExpr(call *ast.CallExpr) bool {
	s := types.ExprString(call.Fun)
	for _, p := range []string{"slog.", "log.", ".Debug", ".Info", ".Warn", ".Error", "fmt.Print"} {
		if strings.Contains(s, p) {
			return true
		}
	}
	return false
}

// passesOn: the simple statement hands an error (obj or any error-typed value) to something that
// is not a logger: call argument, assignment, send.
func passesOn(info *types.Info, st ast.Stmt, obj types.Object) bool {
	mentions := func(n ast.Node) bool {
		found := false
		ast.Inspect(n, func(m ast.Node) bool {
			if id, ok := m.(*ast.Ident); ok && info.Uses[id] == obj {
				found = true
			}
			return !found
		})
		return found
	}
	switch x := st.(type) {
	case *ast.SendStmt:
		return true
	case *ast.ExprStmt:
		if call, ok := x.X.(*ast.CallExpr); ok && !isLogCallExpr(call) {
			for _, a := range call.Args {
				if mentions(a) {
					return true
				}
				if tv, ok := info.Types[a]; ok && isErrorType(tv.Type) && !tv.IsNil() {
					return true
				}
			}
		}
	case *ast.AssignStmt:
		for _, rh := range x.Rhs {
			if mentions(rh) {
				return true
			}
			if tv, ok := info.Types[rh]; ok && isErrorType(tv.Type) && !tv.IsNil() {
				return true
			}
		}
	case *ast.IfStmt:
		// `if !yield(..., err) { return }`: the condition hands the error to a call (not a mere test of it)
		if o2, _ := errTestOf(info, x.Cond); o2 == nil {
			handed := false
			ast.Inspect(x.Cond, func(m ast.Node) bool {
				if call, ok := m.(*ast.CallExpr); ok && !isLogCallExpr(call) {
					for _, a := range call.Args {
						if mentions(a) {
							handed = true
						}
					}
				}
				return !handed
			})
			return handed
		}
	}
	return false
}

func isTerminalCall(st ast.Stmt) bool {
	es, ok := st.(*ast.ExprStmt)
	if !ok {
		return false
	}
	call, ok := es.X.(*ast.CallExpr)
	if !ok {
		return false
	}
	if id, ok := call.Fun.(*ast.Ident); ok && id.Name == "panic" {
		return true
	}
	if sel, ok := ast.Unparen(call.Fun).(*ast.SelectorExpr); ok && (sel.Sel.Name == "Fatal" || sel.Sel.Name == "Fatalf" || sel.Sel.Name == "Exit") {
		return true
	}
	return false
}

// branchHandles: every way out of the failure branch reports the failure. A return that
// carries a non-nil error (or a bare return with named results), a panic, and leaving /
// continuing a loop are reports; a return that carries no error (bare return in a function
// without results, `return 0`, `return nil`) is one only if a simple statement before it in
// the same block passes an error on. A branch without any way out must pass the error on.
func branchHandles(info *types.Info, ft *ast.FuncType, body *ast.BlockStmt, obj types.Object) bool {
	namedErr := false
	if ft != nil && ft.Results != nil {
		for _, f := range ft.Results.List {
			if tv, ok := info.Types[f.Type]; ok && isErrorType(tv.Type) && len(f.Names) > 0 {
				namedErr = true
			}
		}
	}
	ok := true
	terminals := 0
	var walk func(b *ast.BlockStmt)
	checkList := func(list []ast.Stmt) {
		for i, st := range list {
			switch x := st.(type) {
			case *ast.ReturnStmt:
				terminals++
				good := false
				if len(x.Results) == 0 && namedErr {
					good = true
				}
				for _, res := range x.Results {
					if tv, has := info.Types[res]; has && isErrorType(tv.Type) && !tv.IsNil() {
						good = true
					}
					if call, isCall := ast.Unparen(res).(*ast.CallExpr); isCall {
						// return f(...): a call whose results include an error
						if tv, has := info.Types[call]; has {
							if tup, isTup := tv.Type.(*types.Tuple); isTup {
								for k := 0; k < tup.Len(); k++ {
									if isErrorType(tup.At(k).Type()) {
										good = true
									}
								}
							}
						}
					}
				}
				if !good && !hasErrResult(info, ft) {
					// a function without an error result reports the failure as (..., false)
					for _, res := range x.Results {
						if tv, has := info.Types[res]; has && tv.Value != nil && tv.Value.String() == "false" {
							good = true
						}
					}
				}
				if !good {
					for _, prev := range list[:i] {
						if passesOn(info, prev, obj) {
							good = true
						}
					}
				}
				if !good {
					ok = false
				}
			case *ast.BranchStmt:
				terminals++
			case *ast.ExprStmt:
				if isTerminalCall(x) {
					terminals++
				}
			case *ast.IfStmt:
				if o2, _ := errTestOf(info, x.Cond); o2 == obj {
					continue // judged on its own
				}
				walk(x.Body)
				if eb, isB := x.Else.(*ast.BlockStmt); isB {
					walk(eb)
				}
				if ei, isI := x.Else.(*ast.IfStmt); isI {
					walk(&ast.BlockStmt{List: []ast.Stmt{ei}})
				}
			case *ast.BlockStmt:
				walk(x)
			case *ast.ForStmt:
				walk(x.Body)
			case *ast.RangeStmt:
				walk(x.Body)
			case *ast.SwitchStmt:
				for _, cc := range x.Body.List {
					walk(&ast.BlockStmt{List: cc.(*ast.CaseClause).Body})
				}
			}
		}
	}
	walk = func(b *ast.BlockStmt) { checkList(b.List) }
	walk(body)
	if !ok {
		return false
	}
	if terminals == 0 {
		for _, st := range body.List {
			if passesOn(info, st, obj) {
				return true
			}
		}
		return false
	}
	return true
}

// errPropObligation registers one obligation over a package (or some of its files).
type errPropSpec struct {
	ID, Pkg string
	Props   []string
	Files   []string          // base names; empty = whole package
	Accept  map[string]string // "<kind>:<function>:<callee>" -> one line of reason
	Floor   int
	What    string
}

func registerErrProp(s errPropSpec) {
	register(&Obligation{ID: s.ID, Props: s.Props, Template: "error-propagation",
		Desc: "no error is dropped in " + s.What + ": every error returned by a call is looked at before it is overwritten or leaves scope, error results are not discarded, and a failure branch returns, panics, leaves the loop or passes the error on (accepted exceptions are listed one symbol at a time with a reason)",
		Run: func(r *Run) {
			var filter func(string) bool
			if len(s.Files) > 0 {
				filter = func(name string) bool {
					for _, f := range s.Files {
						if strings.HasSuffix(name, "/"+f) {
							return true
						}
					}
					return false
				}
			}
			sites, nDefs := r.errPropScan(s.Pkg, filter)
			r.SiteStr(fmt.Sprintf("%s: %d error definitions from calls analysed", s.Pkg, nDefs))
			usedAccept := map[string]bool{}
			for _, e := range sites {
				key := e.kind + ":" + strings.TrimPrefix(e.fn, s.Pkg+".") + ":" + e.callee
				if reason, ok := s.Accept[key]; ok {
					usedAccept[key] = true
					r.Site(e.pos, "accepted ("+reason+"): "+key)
					continue
				}
				r.Fail(e.fn+":"+e.kind+":"+e.callee, e.pos, nil, "%s: error of %s %s: %s", e.fn, e.callee, e.kind, e.msg)
			}
			for k := range s.Accept {
				if !usedAccept[k] {
					r.Note("accepted exception %q no longer occurs", k)
				}
			}
			if nDefs < s.Floor {
				r.Error("floor: %s: only %d error definitions analysed (at least %d confirmed by hand)", s.Pkg, nDefs, s.Floor)
			}
		}})
}

// enclosingList returns the extent of the innermost statement list (block, case or comm clause)
// that directly contains st.
func enclosingList(p *prog.Prog, st ast.Node) (token.Pos, token.Pos) {
	f := p.FileAt(st.Pos())
	if f == nil {
		return token.NoPos, token.NoPos
	}
	path := p.PathTo(f, st.Pos(), st.End())
	for k := len(path) - 1; k >= 0; k-- {
		if path[k] == st {
			continue
		}
		switch x := path[k].(type) {
		case *ast.BlockStmt:
			return x.Pos(), x.End()
		case *ast.CaseClause:
			return x.Pos(), x.End()
		case *ast.CommClause:
			return x.Pos(), x.End()
		}
	}
	return token.NoPos, token.NoPos
}

func hasErrResult(info *types.Info, ft *ast.FuncType) bool {
	if ft == nil || ft.Results == nil {
		return false
	}
	for _, f := range ft.Results.List {
		if tv, ok := info.Types[f.Type]; ok && isErrorType(tv.Type) {
			return true
		}
	}
	return false
}
