package rules

import (
	"fmt"
	"go/ast"
	"go/token"
	"go/types"
	"regexp"
	"sort"
	"strings"

	"verif/checker/internal/orderdom"
	"verif/checker/internal/pathsim"
	"verif/checker/internal/prog"
)

func init() {
	prop("C17",
		"(a) the SST record writer and both readers (point lookup, prefix scan) agree on the record layout per record shape; the footer writer and loader agree (meta blocks in the same order, 12-byte tail holding the meta offset), and the bloom / search-index encoders agree with their decoders; (b) bloom Add and MightHave probe the same bit positions; (c) an entry's index offset and bloom bits are recorded before the writes that advance the table size, and first / last keys are recorded; (d) the WAL codec and truncation rules (C08.c, C08.d, C08.e); (e) the search index samples entry 0 and every 16th entry and Search brackets the key between the sampled offsets; (f) every fields.* write / Read / Skip triple agrees on width and byte order; range predicates (C07.i); (g) the run splitter's buffer protocol: flushChunk only after a cut() since the previous flushChunk on every path, cut records count and size together, flushChunk returns the prefix / keeps the suffix / subtracts the recorded size, every pulled entry is buffered and the end of input writes the whole buffer; (h) a table's file number is reserved by one atomic Add on the writer's counter (flush and compaction share the writer); (i) byte strings travel through the JSON checkpoints file as []byte, never as strings.",
		"the sizes at which the splitter cuts (target size / 1.5x look-ahead, numeric) and disjointness of split tables over all inputs; bloom false-positive behaviour; equality of contents over all inputs.")

	register(&Obligation{ID: "C17.a", Props: []string{"C17", "C07", "C03", "C08"}, Template: "codec-agreement",
		Desc: "SST layout: writeEntry vs Table.Get's scan loop vs Table.ScanPrefix's loop per record; writeFooter vs loadFooter; SearchIndex.Encode vs SearchIndexDecode; bloom Encode vs Decode",
		Run: func(r *Run) {
			we := r.P.Func("dkv/sst", "writeEntry")
			get := r.P.Func("dkv/sst", "(*Table).Get")
			scan := r.P.Func("dkv/sst", "(*Table).ScanPrefix")
			scanLit := firstLit(scan.Decl.Body)
			if scanLit == nil {
				r.Error("undecided: Table.ScanPrefix no longer returns an iterator literal")
				return
			}
			gl := r.fieldLoops(get.Decl.Body)
			sl := r.fieldLoops(scanLit.Body)
			if len(gl) != 1 || len(sl) != 1 {
				r.Error("undecided: expected one record loop in Table.Get (%d) and in Table.ScanPrefix (%d)", len(gl), len(sl))
				return
			}
			r.codecAgree("sst-record",
				[]codecRegion{{Fn: we.Decl, Name: "writeEntry"}},
				[]codecRegion{{Fn: get.Decl, Loop: gl[0], Name: "Table.Get/scan-loop"}, {Fn: scanLit, Loop: sl[0], Name: "Table.ScanPrefix/loop"}})
			// search index and bloom codecs
			binRead := func(c *pathsim.Ctx, ev *pathsim.Event) string {
				if ev.Call == nil {
					return ""
				}
				if call, ok := isCallToNamed(c.Info, ev.Call, "encoding/binary", "Read"); ok && len(call.Args) == 3 {
					if !isSelectorOf(c.Info, call.Args[1], "encoding/binary", "LittleEndian") {
						return "BINREAD-other-order"
					}
					t := c.Info.TypeOf(call.Args[2])
					if p, ok := t.(*types.Pointer); ok {
						if b, ok := p.Elem().Underlying().(*types.Basic); ok {
							switch b.Kind() {
							case types.Uint64:
								return "U64"
							case types.Uint32:
								return "U32"
							}
						}
					}
					return "BINREAD-other"
				}
				return ""
			}
			r.codecAgree("search-index",
				[]codecRegion{{Fn: r.P.Func("dkv/sst", "(*SearchIndex).Encode").Decl, Name: "SearchIndex.Encode"}},
				[]codecRegion{{Fn: r.P.Func("dkv/sst", "SearchIndexDecode").Decl, Name: "SearchIndexDecode", Extra: binRead}})
			r.codecAgree("bloom-filter",
				[]codecRegion{{Fn: r.P.Func("dkv/bloom", "(*Filter).Encode").Decl, Name: "bloom.Filter.Encode"}},
				[]codecRegion{{Fn: r.P.Func("dkv/bloom", "Decode").Decl, Name: "bloom.Decode", Extra: binRead}})
			// footer: writer = [BLOOM INDEX U64 U32], loader = seek(size-12) U64 seek(meta) BLOOM INDEX
			wf := r.P.Func("dkv/sst", "(*Table).writeFooter")
			lf := r.P.Func("dkv/sst", "(*Table).loadFooter")
			bEnc := r.P.FuncObj("dkv/bloom", "(*Filter).Encode")
			iEnc := r.P.FuncObj("dkv/sst", "(*SearchIndex).Encode")
			bDec := r.P.FuncObj("dkv/bloom", "Decode")
			iDec := r.P.FuncObj("dkv/sst", "SearchIndexDecode")
			move := r.P.FuncObj("dkv/storage", "(*Cursor).Move")
			seqOf := func(f *prog.FuncInfo) []string {
				var out []string
				info := f.Pkg.TypesInfo
				inspect(f.Decl.Body, func(nd ast.Node) bool {
					call, ok := nd.(*ast.CallExpr)
					if !ok {
						return true
					}
					fn := r.P.CalleeFunc(info, call)
					switch {
					case fn == bEnc || fn == bDec:
						out = append(out, "BLOOM")
					case fn == iEnc || fn == iDec:
						out = append(out, "INDEX")
					case fn == move && len(call.Args) == 1:
						if l, ok := linearOf(info, f.Decl.Body, call.Args[0]); ok {
							out = append(out, "SEEK("+lin(l).String()+")")
						} else {
							out = append(out, "SEEK(?)")
						}
					default:
						if t := fieldToken(fn); t != "" {
							arg := ""
							if len(call.Args) == 2 {
								arg = "(" + types.ExprString(stripConv(info, call.Args[1])) + ")"
							}
							out = append(out, t+arg)
						}
					}
					return true
				})
				return out
			}
			ws, ls := seqOf(wf), seqOf(lf)
			r.Site(wf.Decl.Pos(), "writeFooter sequence: "+strings.Join(ws, " "))
			r.Site(lf.Decl.Pos(), "loadFooter sequence: "+strings.Join(ls, " "))
			wantW := "BLOOM INDEX U64(t.entriesSize) U32(1)"
			wantL := "SEEK(-12+t.Size()) U64 SEEK(metaOffset) BLOOM INDEX"
			if strings.Join(ws, " ") != wantW {
				r.Fail(wf.Name()+":footer-sequence", wf.Decl.Pos(), nil, "writeFooter writes [%s]; the footer format is [%s] (meta blocks, then 8-byte meta offset, then 4-byte version)", strings.Join(ws, " "), wantW)
			}
			if strings.Join(ls, " ") != wantL {
				r.Fail(lf.Name()+":footer-sequence", lf.Decl.Pos(), nil, "loadFooter reads [%s]; to mirror the writer it must read [%s]", strings.Join(ls, " "), wantL)
			}
			// entriesSize is captured before any footer byte is written, and the footer size is added to the table size
			wi := wf.Pkg.TypesInfo
			es := r.P.Field("dkv/sst", "Table", "entriesSize")
			var esPos, firstWrite token.Pos
			inspect(wf.Decl.Body, func(nd ast.Node) bool {
				if as, ok := nd.(*ast.AssignStmt); ok && len(as.Lhs) == 1 && prog.SelField(wi, as.Lhs[0]) == es {
					esPos = as.Pos()
				}
				if call, ok := nd.(*ast.CallExpr); ok && firstWrite == token.NoPos {
					if fn := r.P.CalleeFunc(wi, call); fn == bEnc || fn == iEnc || fieldToken(fn) != "" {
						firstWrite = call.Pos()
					}
				}
				return true
			})
			if esPos == token.NoPos || esPos > firstWrite {
				r.Fail(wf.Name()+":entries-size", wf.Decl.Pos(), nil, "entriesSize (the meta offset) must be captured before the first footer byte is written")
			}
			tw := r.P.Func("dkv/sst", "(*TableWriter).Write")
			size := r.P.Field("dkv/sst", "Table", "size")
			okSize := false
			inspect(tw.Decl.Body, func(nd ast.Node) bool {
				if as, ok := nd.(*ast.AssignStmt); ok && as.Tok == token.ADD_ASSIGN && len(as.Lhs) == 1 && prog.SelField(tw.Pkg.TypesInfo, as.Lhs[0]) == size && (r.exprCalls(tw.Pkg.TypesInfo, as.Rhs[0], wf.Obj) || r.exprCalls(tw.Pkg.TypesInfo, deref(tw.Pkg.TypesInfo, stripConv(tw.Pkg.TypesInfo, as.Rhs[0])), wf.Obj)) {
					okSize = true
				}
				return true
			})
			r.Site(tw.Decl.Pos(), "TableWriter.Write adds the footer size to the table size")
			if !okSize {
				r.Fail(tw.Name()+":footer-size", tw.Decl.Pos(), nil, "the table size does not include the footer: loadFooter seeks to Size()-12 and would read inside the entries")
			}
		}})

	register(&Obligation{ID: "C17.b", Props: []string{"C17"}, Template: "sibling-agreement",
		Desc: "bloom.(*Filter).Add and MightHave compute the same bit index (murmur.Hash(data, i) % size for i in 0..hashCount) and setBit / getBit address the same word and bit",
		Run: func(r *Run) {
			norm := func(f *prog.FuncInfo) (string, string) {
				info := f.Pkg.TypesInfo
				loopSrc, idx := "", ""
				inspect(f.Decl.Body, func(nd ast.Node) bool {
					if rs, ok := nd.(*ast.RangeStmt); ok && loopSrc == "" {
						loopSrc = types.ExprString(rs.X)
						i := prog.IdentObj(info, rs.Key)
						inspect(rs.Body, func(m ast.Node) bool {
							call, ok := m.(*ast.CallExpr)
							if !ok || len(call.Args) != 1 {
								return true
							}
							sel, ok := ast.Unparen(call.Fun).(*ast.SelectorExpr)
							if !ok || (sel.Sel.Name != "setBit" && sel.Sel.Name != "getBit") {
								return true
							}
							e := resolveLocal(info, rs.Body, call.Args[0])
							s := types.ExprString(e)
							// inline the hash local
							if b, ok := ast.Unparen(e).(*ast.BinaryExpr); ok {
								x := resolveLocal(info, rs.Body, b.X)
								s = types.ExprString(x) + " " + b.Op.String() + " " + types.ExprString(b.Y)
							}
							if i != nil {
								s = regexp.MustCompile(`\b`+regexp.QuoteMeta(i.Name())+`\b`).ReplaceAllString(s, "$$i")
							}
							idx = s
							return true
						})
					}
					return true
				})
				return loopSrc, idx
			}
			add := r.P.Func("dkv/bloom", "(*Filter).Add")
			mh := r.P.Func("dkv/bloom", "(*Filter).MightHave")
			l1, i1 := norm(add)
			l2, i2 := norm(mh)
			r.Site(add.Decl.Pos(), fmt.Sprintf("bloom Add: for i in %s: bit %s", l1, i1))
			r.Site(mh.Decl.Pos(), fmt.Sprintf("bloom MightHave: for i in %s: bit %s", l2, i2))
			if i1 == "" || i2 == "" {
				r.Error("undecided: bloom Add / MightHave shape")
				return
			}
			if l1 != l2 || i1 != i2 {
				r.Fail("dkv/bloom.Filter:index-agreement", mh.Decl.Pos(), nil, "Add sets bits %q for i in %q but MightHave tests %q for i in %q: the filter can deny a key that is present, so Get reports it absent", i1, l1, i2, l2)
			}
			if i1 != "murmur.Hash(data, $i) % bf.size" {
				r.Fail("dkv/bloom.Filter:index-form", add.Decl.Pos(), nil, "the bloom bit index is %q, not murmur.Hash(data, i) %% size: filters of existing tables would no longer match", i1)
			}
			// setBit / getBit
			sb := r.P.Func("dkv/bloom", "(*Filter).setBit")
			gb := r.P.Func("dkv/bloom", "(*Filter).getBit")
			words := func(f *prog.FuncInfo) string {
				var parts []string
				inspect(f.Decl.Body, func(nd ast.Node) bool {
					if as, ok := nd.(*ast.AssignStmt); ok && as.Tok == token.DEFINE && len(as.Lhs) == 1 {
						parts = append(parts, types.ExprString(as.Lhs[0])+"="+types.ExprString(as.Rhs[0]))
					}
					return true
				})
				return strings.Join(parts, ";")
			}
			r.Site(sb.Decl.Pos(), "setBit / getBit addressing: "+words(sb))
			if words(sb) != words(gb) || words(sb) != "index=pos / 64;bitPos=pos % 64" {
				r.Fail("dkv/bloom.Filter:bit-addressing", gb.Decl.Pos(), nil, "setBit addresses %q, getBit addresses %q (both must be word pos/64, bit pos%%64)", words(sb), words(gb))
			}
			// MightHave returns false on the first clear bit, true at the end
			mi := mh.Pkg.TypesInfo
			okNeg := false
			inspect(mh.Decl.Body, func(nd ast.Node) bool {
				if is, ok := nd.(*ast.IfStmt); ok {
					if u, ok := ast.Unparen(is.Cond).(*ast.UnaryExpr); ok && u.Op == token.NOT {
						for _, st := range is.Body.List {
							if ret, ok := st.(*ast.ReturnStmt); ok && len(ret.Results) == 1 {
								if tv, ok := mi.Types[ret.Results[0]]; ok && tv.Value != nil && tv.Value.String() == "false" {
									okNeg = true
								}
							}
						}
					}
				}
				return true
			})
			last := mh.Decl.Body.List[len(mh.Decl.Body.List)-1]
			okPos := false
			if ret, ok := last.(*ast.ReturnStmt); ok && len(ret.Results) == 1 {
				if tv, ok := mi.Types[ret.Results[0]]; ok && tv.Value != nil && tv.Value.String() == "true" {
					okPos = true
				}
			}
			if !okNeg || !okPos {
				r.Fail(mh.Name()+":polarity", mh.Decl.Pos(), nil, "MightHave must answer false exactly when some probed bit is clear")
			}
			// Table.Get consults the filter before scanning and treats a miss as not found only
			tg := r.P.Func("dkv/sst", "(*Table).Get")
			ti := tg.Pkg.TypesInfo
			okUse := false
			inspect(tg.Decl.Body, func(nd ast.Node) bool {
				if is, ok := nd.(*ast.IfStmt); ok {
					if u, ok := ast.Unparen(is.Cond).(*ast.UnaryExpr); ok && u.Op == token.NOT && r.exprCalls(ti, u.X, mh.Obj) {
						if call, ok := ast.Unparen(u.X).(*ast.CallExpr); ok && len(call.Args) == 1 && r.isParam(tg, call.Args[0], 0) {
							okUse = true
						}
					}
				}
				return true
			})
			r.Site(tg.Decl.Pos(), "Table.Get consults the filter with the lookup key")
			if !okUse {
				r.Fail(tg.Name()+":filter-use", tg.Decl.Pos(), nil, "Table.Get must skip the table only when !filter.MightHave(key) for the key being looked up")
			}
		}})

	register(&Obligation{ID: "C17.c", Props: []string{"C17"}, Template: "must-precede",
		Desc: "sst.writeEntry records the entry's offset in the search index and its key in the bloom filter before the writes that advance t.size; the first entry sets startKey, every entry sets endKey; every field write is added to t.size",
		Run: func(r *Run) {
			f := r.P.Func("dkv/sst", "writeEntry")
			info := f.Pkg.TypesInfo
			size := r.P.Field("dkv/sst", "Table", "size")
			idxOff := r.P.FuncObj("dkv/sst", "(*SearchIndex).IndexOffset")
			add := r.P.FuncObj("dkv/bloom", "(*Filter).Add")
			isSizeAdv := func(c *pathsim.Ctx, ev *pathsim.Event) bool {
				return ev.Kind == pathsim.EvAssign && ev.Tok == token.ADD_ASSIGN && len(ev.Lhs) == 1 && prog.SelField(c.Info, ev.Lhs[0]) == size
			}
			n1 := r.mustPrecede(f.Decl, f.Name(), "searchIndex.IndexOffset", "t.size+=", callTo(idxOff), isSizeAdv)
			r.mustPrecede(f.Decl, f.Name(), "filter.Add", "t.size+=", callTo(add), isSizeAdv)
			if n1 < 3 {
				r.Fail(f.Name()+":size-accounting", f.Decl.Pos(), nil, "writeEntry must add every written field to t.size (found %d additions, need key, seqNum, tombstone [, value])", n1)
			}
			// every fields.MustWrite* result is added to size
			inspect(f.Decl.Body, func(nd ast.Node) bool {
				if es, ok := nd.(*ast.ExprStmt); ok {
					if call, ok := ast.Unparen(es.X).(*ast.CallExpr); ok && fieldToken(r.P.CalleeFunc(info, call)) != "" {
						r.Fail(f.Name()+":unaccounted-write", call.Pos(), nil, "a field is written without adding its width to t.size: every later index offset is short by that much and lookups read garbage")
					}
				}
				return true
			})
			// IndexOffset(t.size), filter.Add(entry.Key())
			inspect(f.Decl.Body, func(nd ast.Node) bool {
				call, ok := nd.(*ast.CallExpr)
				if !ok {
					return true
				}
				switch r.P.CalleeFunc(info, call) {
				case idxOff:
					r.Site(call.Pos(), "IndexOffset argument")
					if len(call.Args) != 1 || prog.SelField(info, call.Args[0]) != size {
						r.Fail(f.Name()+":index-offset-arg", call.Pos(), nil, "the search index must record t.size (the offset where this entry starts)")
					}
				case add:
					r.Site(call.Pos(), "filter.Add argument")
					if len(call.Args) != 1 || !strings.HasSuffix(types.ExprString(deref(info, call.Args[0])), ".Key()") {
						r.Fail(f.Name()+":filter-arg", call.Pos(), nil, "the bloom filter must be fed the entry's key")
					}
				}
				return true
			})
			start := r.P.Field("dkv/sst", "Table", "startKey")
			endK := r.P.Field("dkv/sst", "Table", "endKey")
			okEnd, okStart := false, false
			inspect(f.Decl.Body, func(nd ast.Node) bool {
				switch x := nd.(type) {
				case *ast.IfStmt:
					if neg, ok := lenLikeZero(info, x.Cond, size); ok && !neg {
						for _, st := range x.Body.List {
							if as, ok := st.(*ast.AssignStmt); ok && len(as.Lhs) == 1 && prog.SelField(info, as.Lhs[0]) == start {
								okStart = true
							}
						}
					}
				case *ast.AssignStmt:
					if len(x.Lhs) == 1 && prog.SelField(info, x.Lhs[0]) == endK {
						path := r.P.PathTo(f.File, x.Pos(), x.End())
						inIf := false
						for _, p := range path {
							if _, ok := p.(*ast.IfStmt); ok {
								inIf = true
							}
						}
						if !inIf {
							okEnd = true
						}
					}
				}
				return true
			})
			r.Site(f.Decl.Pos(), "writeEntry records startKey (first entry) and endKey (every entry)")
			if !okStart || !okEnd {
				r.Fail(f.Name()+":key-range", f.Decl.Pos(), nil, "writeEntry must set startKey for the first entry (size == 0) and endKey for every entry (start=%v end=%v): the table's key range is what lookups use to select it", okStart, okEnd)
			}
		}})

	register(&Obligation{ID: "C17.e", Props: []string{"C17", "C07"}, Template: "sampling+bracketing",
		Desc: "SearchIndex.IndexOffset records an offset for entry 0 and every searchIndexSpacing-th entry; Search binary-searches the sampled keys with bytes.Compare(sampledKey, target), steps back one sample on an inexact match, and brackets the scan between that sample's offset and the next one (or the end); Table.Get scans exactly that bracket",
		Run: func(r *Run) {
			f := r.P.Func("dkv/sst", "(*SearchIndex).IndexOffset")
			info := f.Pkg.TypesInfo
			written := r.P.Field("dkv/sst", "SearchIndex", "itemsWritten")
			offsets := r.P.Field("dkv/sst", "SearchIndex", "offsets")
			spacing := r.P.Pkg("dkv/sst").Types.Scope().Lookup("searchIndexSpacing")
			okCond, okInc, okApp := false, false, false
			var condPos, incPos token.Pos
			inspect(f.Decl.Body, func(nd ast.Node) bool {
				switch x := nd.(type) {
				case *ast.IfStmt:
					if b, ok := ast.Unparen(x.Cond).(*ast.BinaryExpr); ok && b.Op == token.EQL {
						if m, ok := ast.Unparen(b.X).(*ast.BinaryExpr); ok && m.Op == token.REM && prog.SelField(info, m.X) == written && prog.IdentObj(info, m.Y) == spacing {
							if tv, ok := info.Types[b.Y]; ok && tv.Value != nil && tv.Value.String() == "0" {
								okCond, condPos = true, x.Pos()
								for _, st := range x.Body.List {
									if as, ok := st.(*ast.AssignStmt); ok && len(as.Lhs) == 1 && prog.SelField(info, as.Lhs[0]) == offsets && exprMentionsParam(info, f, as.Rhs[0], 0) {
										okApp = true
									}
								}
							}
						}
					}
				case *ast.IncDecStmt:
					if x.Tok == token.INC && prog.SelField(info, x.X) == written {
						path := r.P.PathTo(f.File, x.Pos(), x.End())
						inIf := false
						for _, p := range path {
							if _, ok := p.(*ast.IfStmt); ok {
								inIf = true
							}
						}
						if !inIf {
							okInc, incPos = true, x.Pos()
						}
					}
				}
				return true
			})
			r.Site(f.Decl.Pos(), "IndexOffset sampling rule")
			if !okCond || !okInc || !okApp || incPos < condPos {
				r.Fail(f.Name()+":sampling", f.Decl.Pos(), nil, "IndexOffset must append the offset when itemsWritten %% searchIndexSpacing == 0 and then count the entry unconditionally (cond=%v append=%v count=%v): otherwise entry 0 is not sampled or samples drift, and Search brackets the wrong region", okCond, okApp, okInc)
			}
			if c, ok := spacing.(*types.Const); !ok || c.Val().String() == "0" {
				r.Fail("dkv/sst.searchIndexSpacing", f.Decl.Pos(), nil, "searchIndexSpacing must be a positive constant")
			}
			// Search
			s := r.P.Func("dkv/sst", "(*SearchIndex).Search")
			si := s.Pkg.TypesInfo
			// comparator literal: bytes.Compare(key, targetKey)
			var cmpLit *ast.FuncLit
			for _, l := range litsIn(s.Decl.Body) {
				if len(l.Type.Params.List) >= 1 {
					cmpLit = l
				}
			}
			if cmpLit == nil {
				r.Error("undecided: SearchIndex.Search comparator")
				return
			}
			var retCmp *ast.CallExpr
			inspect(cmpLit.Body, func(nd ast.Node) bool {
				if ret, ok := nd.(*ast.ReturnStmt); ok && len(ret.Results) == 1 {
					if call, ok := isCallToNamed(si, ret.Results[0], "bytes", "Compare"); ok {
						retCmp = call
					}
				}
				return true
			})
			r.Site(cmpLit.Pos(), "Search comparator")
			if retCmp == nil {
				r.Fail(s.Name()+":comparator", cmpLit.Pos(), nil, "the search comparator is not bytes.Compare(sampled key, target key)")
			} else {
				// first operand: the key read at the offset; second: the comparator's target parameter
				var pnames []string
				for _, fl := range cmpLit.Type.Params.List {
					for _, nm := range fl.Names {
						pnames = append(pnames, nm.Name)
					}
				}
				if len(pnames) == 2 && types.ExprString(retCmp.Args[1]) != pnames[1] {
					r.Fail(s.Name()+":comparator-order", retCmp.Pos(), nil, "the comparator must return bytes.Compare(sampledKey, target); with the operands swapped the binary search walks the wrong way")
				}
			}
			// step back on inexact
			okStep := false
			inspect(s.Decl.Body, func(nd ast.Node) bool {
				if is, ok := nd.(*ast.IfStmt); ok {
					if u, ok := ast.Unparen(is.Cond).(*ast.UnaryExpr); ok && u.Op == token.NOT {
						for _, st := range is.Body.List {
							if dec, ok := st.(*ast.IncDecStmt); ok && dec.Tok == token.DEC {
								okStep = true
							}
						}
					}
				}
				return true
			})
			r.Site(s.Decl.Pos(), "Search steps back to the preceding sample on an inexact match")
			if !okStep {
				r.Fail(s.Name()+":step-back", s.Decl.Pos(), nil, "on an inexact match Search must start from the preceding sample (foundIndex--): starting at the following sample skips the bracket that contains the key")
			}
			// start = offsets[found], end = offsets[found+1] or MaxInt64 when found is the last sample —
			// decided on values, whatever the locals are called and however the two cases are spelled
			var found types.Object
			inspect(s.Decl.Body, func(nd ast.Node) bool {
				if as, ok := nd.(*ast.AssignStmt); ok && len(as.Lhs) == 2 && len(as.Rhs) == 1 {
					if _, ok := isCallToNamed(si, as.Rhs[0], "slices", "BinarySearchFunc"); ok {
						found = prog.IdentObj(si, as.Lhs[0])
					}
				}
				return true
			})
			// all values a result expression can take: itself, or every right-hand side assigned to the local it names
			valuesOf := func(e ast.Expr) []ast.Expr {
				e = ast.Unparen(e)
				id, ok := e.(*ast.Ident)
				if !ok {
					return []ast.Expr{e}
				}
				obj := si.Uses[id]
				var vals []ast.Expr
				ast.Inspect(s.Decl.Body, func(nd ast.Node) bool {
					switch x := nd.(type) {
					case *ast.AssignStmt:
						for i, l := range x.Lhs {
							if prog.IdentObj(si, l) == obj && len(x.Lhs) == len(x.Rhs) {
								vals = append(vals, x.Rhs[i])
							}
						}
					case *ast.ValueSpec:
						for i, n := range x.Names {
							if si.Defs[n] == obj && i < len(x.Values) {
								vals = append(vals, x.Values[i])
							}
						}
					}
					return true
				})
				if len(vals) == 0 {
					return []ast.Expr{e}
				}
				return vals
			}
			classify := func(e ast.Expr) string {
				e = stripConv(si, e)
				if tv, ok := si.Types[e]; ok && tv.Value != nil {
					if tv.Value.String() == "9223372036854775807" {
						return "max"
					}
					return "const:" + tv.Value.String()
				}
				if ix, ok := ast.Unparen(e).(*ast.IndexExpr); ok && prog.SelField(si, ix.X) == offsets && found != nil {
					if l, ok := linearOf(si, s.Decl.Body, ix.Index); ok && l[found.Name()] == 1 && len(l) <= 2 {
						return "offsets[found" + map[int]string{0: "", 1: "+1", -1: "-1"}[l[""]] + "]"
					}
				}
				return "?" + types.ExprString(e)
			}
			starts, ends := map[string]bool{}, map[string]bool{}
			nRet := 0
			inspect(s.Decl.Body, func(nd ast.Node) bool {
				if _, isLit := nd.(*ast.FuncLit); isLit {
					return false
				}
				ret, ok := nd.(*ast.ReturnStmt)
				if !ok || len(ret.Results) != 3 {
					return true
				}
				if tv, ok := si.Types[ret.Results[2]]; !ok || !tv.IsNil() {
					return true // error return
				}
				// the "no index at all" case scans everything
				if classify(ret.Results[0]) == "const:0" && classify(ret.Results[1]) == "max" {
					return true
				}
				nRet++
				for _, v := range valuesOf(ret.Results[0]) {
					starts[classify(v)] = true
				}
				for _, v := range valuesOf(ret.Results[1]) {
					ends[classify(v)] = true
				}
				return true
			})
			okStart := len(starts) == 1 && starts["offsets[found]"]
			okEnd := len(ends) == 2 && ends["offsets[found+1]"] && ends["max"]
			// the last-sample test guards the unbounded end
			okGuard := false
			inspect(s.Decl.Body, func(nd ast.Node) bool {
				if is, ok := nd.(*ast.IfStmt); ok {
					// found == len(offsets)-1 in any arrangement: lhs - rhs is found - len(offsets) + 1
					if b, ok := ast.Unparen(is.Cond).(*ast.BinaryExpr); ok && (b.Op == token.EQL || b.Op == token.GEQ || b.Op == token.NEQ || b.Op == token.LSS) && found != nil {
						lx, ok1 := linearOf(si, s.Decl.Body, b.X)
						ly, ok2 := linearOf(si, s.Decl.Body, b.Y)
						if ok1 && ok2 {
							d := map[string]int{}
							for k, v := range lx {
								d[k] += v
							}
							for k, v := range ly {
								d[k] -= v
							}
							nz, lenTerm := 0, 0
							for k, v := range d {
								if v == 0 {
									continue
								}
								nz++
								if strings.HasPrefix(k, "len(") && v == -1 {
									lenTerm++
								}
							}
							if d[found.Name()] == 1 && d[""] == 1 && lenTerm == 1 && nz == 3 {
								okGuard = true
							}
						}
					}
				}
				return true
			})
			if found == nil || nRet == 0 || !okStart || !okEnd || !okGuard {
				r.Fail(s.Name()+":bracket", s.Decl.Pos(), nil, "the scan bracket must be [offsets[found], offsets[found+1]) and unbounded exactly when found is the last sample (start values %v, end values %v, last-sample test %v)", keysOf(starts), keysOf(ends), okGuard)
			}
			// Table.Get: cur.Move(start); for cur.Offset() < end
			tg := r.P.Func("dkv/sst", "(*Table).Get")
			ti := tg.Pkg.TypesInfo
			var startV, endV types.Object
			inspect(tg.Decl.Body, func(nd ast.Node) bool {
				if as, ok := nd.(*ast.AssignStmt); ok && len(as.Lhs) == 3 && len(as.Rhs) == 1 {
					if call, ok := ast.Unparen(as.Rhs[0]).(*ast.CallExpr); ok && r.P.CalleeFunc(ti, call) == s.Obj {
						startV, endV = prog.IdentObj(ti, as.Lhs[0]), prog.IdentObj(ti, as.Lhs[1])
					}
				}
				return true
			})
			loops := r.fieldLoops(tg.Decl.Body)
			okBracket := false
			if len(loops) == 1 {
				if fs, ok := loops[0].(*ast.ForStmt); ok {
					cond := fs.Cond
					if cond == nil && len(fs.Body.List) > 0 {
						// for { if cur.Offset() >= end { break } ... }
						if is, ok := fs.Body.List[0].(*ast.IfStmt); ok && is.Else == nil && len(is.Body.List) == 1 {
							if br, ok := is.Body.List[0].(*ast.BranchStmt); ok && br.Tok == token.BREAK {
								cond = normNot(&ast.UnaryExpr{Op: token.NOT, X: is.Cond})
								if u, ok := cond.(*ast.UnaryExpr); ok && u.Op == token.NOT {
									if b, ok := ast.Unparen(u.X).(*ast.BinaryExpr); ok && b.Op == token.GEQ {
										cond = &ast.BinaryExpr{X: b.X, Op: token.LSS, Y: b.Y}
									}
								}
							}
						}
					}
					if cond != nil {
						if b, ok := ast.Unparen(cond).(*ast.BinaryExpr); ok {
							b = orientCmp(b, func(e ast.Expr) bool { return strings.HasSuffix(types.ExprString(e), ".Offset()") })
							if b.Op == token.LSS && prog.IdentObj(ti, b.Y) == endV && strings.HasSuffix(types.ExprString(b.X), ".Offset()") {
								okBracket = true
							}
						}
					}
				}
			}
			move := r.P.FuncObj("dkv/storage", "(*Cursor).Move")
			okMove := false
			inspect(tg.Decl.Body, func(nd ast.Node) bool {
				if _, isLit := nd.(*ast.FuncLit); isLit {
					return false
				}
				if call, ok := nd.(*ast.CallExpr); ok && r.P.CalleeFunc(ti, call) == move && len(call.Args) == 1 && startV != nil && prog.IdentObj(ti, call.Args[0]) == startV {
					okMove = true
				}
				return true
			})
			r.Site(tg.Decl.Pos(), "Table.Get scans [start, end) returned by Search")
			if !okBracket || !okMove {
				r.Fail(tg.Name()+":bracket", tg.Decl.Pos(), nil, "Table.Get must move the cursor to Search's start offset and scan while cursor.Offset() < end (move=%v bound=%v)", okMove, okBracket)
			}
			// key equality test in the scan: bytes.Equal(currentKey, key)
		}})

	register(&Obligation{ID: "C17.f", Props: []string{"C17", "C08"}, Template: "sibling-agreement",
		Desc: "dkv/fields: for each field kind the writer, Read and Skip use the same width and byte order (Uint64: 8 LE, Uint32: 4 LE, VarBytes: 4-byte LE length + data, Tombstone: 1 byte with 1 = deleted)",
		Run: func(r *Run) {
			type spec struct {
				kind  string
				width int
				fns   []string
			}
			for _, sp := range []spec{
				{"Uint64", 8, []string{"writeUint64", "ReadUint64", "SkipUint64"}},
				{"Uint32", 4, []string{"writeUint32", "ReadUint32"}},
				{"VarBytes", 4, []string{"writeVarBytes", "ReadVarBytes", "SkipVarBytes"}},
				{"Tombstone", 1, []string{"writeTombstone", "ReadTombstone", "SkipTombstone"}},
			} {
				for _, fn := range sp.fns {
					f := r.P.Func("dkv/fields", fn)
					info := f.Pkg.TypesInfo
					r.Site(f.Decl.Pos(), "fields."+fn+" width / byte order")
					var widths []string
					var orders []string
					var methods []string
					inspect(f.Decl.Body, func(nd ast.Node) bool {
						call, ok := nd.(*ast.CallExpr)
						if !ok {
							return true
						}
						if id, ok := call.Fun.(*ast.Ident); ok && id.Name == "make" && len(call.Args) == 2 {
							if tv, ok := info.Types[call.Args[1]]; ok && tv.Value != nil {
								widths = append(widths, tv.Value.String())
							}
						}
						if c, ok := isCallToNamed(info, call, "io", "CopyN"); ok && len(c.Args) == 3 {
							if tv, ok := info.Types[c.Args[2]]; ok && tv.Value != nil {
								widths = append(widths, tv.Value.String())
							}
						}
						if sel, ok := ast.Unparen(call.Fun).(*ast.SelectorExpr); ok {
							if isSelectorOf(info, sel.X, "encoding/binary", "LittleEndian") {
								orders = append(orders, "LE")
								methods = append(methods, sel.Sel.Name)
							}
							if isSelectorOf(info, sel.X, "encoding/binary", "BigEndian") {
								orders = append(orders, "BE")
								methods = append(methods, sel.Sel.Name)
							}
						}
						return true
					})
					if len(widths) == 0 || widths[0] != fmt.Sprint(sp.width) {
						r.Fail("dkv/fields."+fn+":width", f.Decl.Pos(), nil, "fields.%s uses width %v, the %s field is %d bytes wide: writer and readers would disagree on every later offset", fn, widths, sp.kind, sp.width)
					}
					for _, o := range orders {
						if o != "LE" {
							r.Fail("dkv/fields."+fn+":byte-order", f.Decl.Pos(), nil, "fields.%s uses big-endian while the field format is little-endian", fn)
						}
					}
					for _, m := range methods {
						bits := strings.TrimPrefix(strings.TrimPrefix(m, "Put"), "Uint")
						want := fmt.Sprint(sp.width * 8)
						if sp.kind == "VarBytes" {
							want = "32"
						}
						if bits != want {
							r.Fail("dkv/fields."+fn+":int-width", f.Decl.Pos(), nil, "fields.%s uses %s for a %s-bit field", fn, m, want)
						}
					}
				}
			}
			// tombstone polarity: writer stores 1 iff deleted, reader returns marker == 1
			wt := r.P.Func("dkv/fields", "writeTombstone")
			rt := r.P.Func("dkv/fields", "ReadTombstone")
			okW, okR := false, false
			inspect(wt.Decl.Body, func(nd ast.Node) bool {
				if is, ok := nd.(*ast.IfStmt); ok && r.isParam(wt, is.Cond, 1) {
					for _, st := range is.Body.List {
						if as, ok := st.(*ast.AssignStmt); ok && len(as.Rhs) == 1 {
							if tv, ok := wt.Pkg.TypesInfo.Types[as.Rhs[0]]; ok && tv.Value != nil && tv.Value.String() == "1" {
								okW = true
							}
						}
					}
				}
				return true
			})
			inspect(rt.Decl.Body, func(nd ast.Node) bool {
				if b, ok := nd.(*ast.BinaryExpr); ok && b.Op == token.EQL {
					if tv, ok := rt.Pkg.TypesInfo.Types[b.Y]; ok && tv.Value != nil && tv.Value.String() == "1" {
						okR = true
					}
				}
				return true
			})
			r.Site(wt.Decl.Pos(), "tombstone marker polarity")
			if !okW || !okR {
				r.Fail("dkv/fields.Tombstone:polarity", wt.Decl.Pos(), nil, "the tombstone marker must be 1 for deleted in the writer (%v) and tested == 1 in the reader (%v)", okW, okR)
			}
			// Must* wrappers call their writer with the same arguments
			for _, k := range []string{"Uint64", "Uint32", "VarBytes", "Tombstone"} {
				m := r.P.Func("dkv/fields", "MustWrite"+k)
				w := r.P.FuncObj("dkv/fields", "write"+k)
				if !r.exprCalls(m.Pkg.TypesInfo, m.Decl.Body, w) {
					r.Fail("dkv/fields.MustWrite"+k+":delegates", m.Decl.Pos(), nil, "MustWrite%s does not delegate to write%s", k, k)
				}
			}
			_ = orderdom.Int
		}})
}

// lenLikeZero matches `x.f == 0` for an integer field (size == 0).
func lenLikeZero(info *types.Info, e ast.Expr, f *types.Var) (neg bool, ok bool) {
	b, isB := ast.Unparen(e).(*ast.BinaryExpr)
	if !isB || prog.SelField(info, b.X) != f {
		return false, false
	}
	tv, has := info.Types[b.Y]
	if !has || tv.Value == nil || tv.Value.String() != "0" {
		return false, false
	}
	switch b.Op {
	case token.EQL:
		return false, true
	case token.NEQ, token.GTR:
		return true, true
	}
	return false, false
}

func exprMentionsParam(info *types.Info, f *prog.FuncInfo, e ast.Node, idx int) bool {
	sig := f.Obj.Type().(*types.Signature)
	if idx >= sig.Params().Len() {
		return false
	}
	p := sig.Params().At(idx)
	found := false
	inspect(e, func(nd ast.Node) bool {
		if id, ok := nd.(*ast.Ident); ok && info.Uses[id] == types.Object(p) {
			found = true
		}
		return true
	})
	return found
}

func keysOf(m map[string]bool) []string {
	var l []string
	for k := range m {
		l = append(l, k)
	}
	sort.Strings(l)
	return l
}
