package rules

import (
	"go/ast"
	"go/token"
	"go/types"
	"strings"

	"verif/checker/internal/orderdom"
	"verif/checker/internal/pathsim"
	"verif/checker/internal/prog"
)

// keyRelation classifies a boolean expression over bytes.Compare(a, b) (or a local defined
// as such) by its truth value under a<b, a==b, a>b. Returns e.g. "lt", "gt", "eq", "le",
// "ge", "ne", "" when it does not depend only on that comparison.
func (r *Run) keyRelation(info *types.Info, body ast.Node, e ast.Expr, aName, bName string) string {
	// inline a local defined as bytes.Compare(a, b)
	e = inlineLocals(info, body, e)
	m := orderdom.New(info, map[string]string{aName: "a", bName: "b"})
	var vec [3]int // -1 unknown, 0 false, 1 true
	for i := range vec {
		vec[i] = -1
	}
	res := m.CheckExpr(e, nil, func(env odEnv) orderdom.Value { return orderdom.Bool(true) })
	_ = res
	// evaluate under the three orderings directly
	for i, ranks := range [][2]int{{0, 1}, {0, 0}, {1, 0}} {
		mm := orderdom.New(info, map[string]string{aName: "a", bName: "b"})
		got := mm.CheckExpr(e, func(env odEnv) bool { return env.Rank["a"] == ranks[0] && env.Rank["b"] == ranks[1] },
			func(env odEnv) orderdom.Value { return orderdom.Bool(true) })
		if got.Undecided != "" || len(got.OrdSyms) > 2+1 || len(got.BoolSyms) > 0 {
			return ""
		}
		if got.Orderings == 0 {
			return ""
		}
		if got.Mismatch == nil {
			vec[i] = 1
		} else {
			vec[i] = 0
		}
	}
	switch vec {
	case [3]int{1, 0, 0}:
		return "lt"
	case [3]int{0, 1, 0}:
		return "eq"
	case [3]int{0, 0, 1}:
		return "gt"
	case [3]int{1, 1, 0}:
		return "le"
	case [3]int{0, 1, 1}:
		return "ge"
	case [3]int{1, 0, 1}:
		return "ne"
	}
	return ""
}

// inlineLocals replaces identifiers that have a unique defining expression in body by
// that expression (one level), returning a new tree for BinaryExpr / ParenExpr / UnaryExpr.
func inlineLocals(info *types.Info, body ast.Node, e ast.Expr) ast.Expr {
	switch x := e.(type) {
	case *ast.ParenExpr:
		return &ast.ParenExpr{X: inlineLocals(info, body, x.X)}
	case *ast.UnaryExpr:
		return &ast.UnaryExpr{Op: x.Op, OpPos: x.OpPos, X: inlineLocals(info, body, x.X)}
	case *ast.BinaryExpr:
		return &ast.BinaryExpr{X: inlineLocals(info, body, x.X), Op: x.Op, OpPos: x.OpPos, Y: inlineLocals(info, body, x.Y)}
	case *ast.Ident:
		if o := info.Uses[x]; o != nil {
			if def := localDef(info, body, o); def != nil {
				if _, isCall := ast.Unparen(def).(*ast.CallExpr); isCall {
					return def
				}
			}
		}
	}
	return e
}

func init() {
	prop("C19",
		"(a) the unique binary search narrows one consistent interval (C07.h); (b) the sorted cache accounts bytes by contents (C10.e); (c) the partitioned queue fixes heap order after each partition mutation (C10.g); (d) the binary heap keeps the element index callback in step with every move of an element, sifts towards the smaller child and stops when the parent is not greater, with children 2i+1 / 2i+2 and parent (i-1)/2; (e) the insertion-ordered set and the sorted map update their list and their map together; (f) merge iterators refill the heap from the iterator whose item was popped, compare items with the caller's comparator in (a, b) order, and flush the pending item at the end; (g) zip-tree lookups and replacements descend left for smaller and right for greater keys, and a replacement takes over the replaced node's children, rank and parent link.",
		"the bulk of the property: zip-tree insert / unzip correctness, heap and merge correctness over all operation sequences, equality with a sorted-slice reference.")

	register(&Obligation{ID: "C19.d", Props: []string{"C19", "C10"}, Template: "paired-update+order-domain",
		Desc: "ds.Heap: every move of an element in data is followed by assignIndex for it (swap: both; Push: the new last; Pop: removed -> -1, new root -> 0); down picks the smaller child and stops when that child is not smaller than the parent; up stops at the root or when the element is not smaller than its parent; child / parent index arithmetic is 2i+1, 2i+2, (i-1)/2",
		Run: func(r *Run) {
			assign := r.P.Field("util/ds", "Heap", "assignIndex")
			data := r.P.Field("util/ds", "Heap", "data")
			cmpF := r.P.Field("util/ds", "Heap", "compare")
			swap := r.P.Func("util/ds", "(*Heap).swap")
			si := swap.Pkg.TypesInfo
			nAssign := 0
			inspect(swap.Decl.Body, func(nd ast.Node) bool {
				if call, ok := nd.(*ast.CallExpr); ok && prog.SelField(si, call.Fun) == assign && len(call.Args) == 2 {
					// assignIndex(h.data[k], k)
					if ix, ok := ast.Unparen(call.Args[0]).(*ast.IndexExpr); ok && prog.SelField(si, ix.X) == data && types.ExprString(ix.Index) == types.ExprString(call.Args[1]) {
						nAssign++
					}
				}
				return true
			})
			r.Site(swap.Decl.Pos(), "Heap.swap re-assigns both indices")
			if nAssign != 2 {
				r.Fail(swap.Name()+":assign-index", swap.Decl.Pos(), nil, "Heap.swap must call assignIndex(h.data[i], i) and assignIndex(h.data[j], j) after swapping (found %d consistent calls): the partitioned queue would fix the wrong heap position", nAssign)
			}
			okSwap := false
			inspect(swap.Decl.Body, func(nd ast.Node) bool {
				if as, ok := nd.(*ast.AssignStmt); ok && len(as.Lhs) == 2 && len(as.Rhs) == 2 {
					if types.ExprString(as.Lhs[0]) == types.ExprString(as.Rhs[1]) && types.ExprString(as.Lhs[1]) == types.ExprString(as.Rhs[0]) {
						okSwap = true
					}
				}
				return true
			})
			if !okSwap {
				r.Fail(swap.Name()+":swap", swap.Decl.Pos(), nil, "Heap.swap does not exchange data[i] and data[j]")
			}
			push := r.P.Func("util/ds", "(*Heap).Push")
			up := r.P.FuncObj("util/ds", "(*Heap).up")
			down := r.P.FuncObj("util/ds", "(*Heap).down")
			r.Site(push.Decl.Pos(), "Heap.Push appends, assigns the index, sifts up")
			pi := push.Pkg.TypesInfo
			var posApp, posAsg, posUp token.Pos
			inspect(push.Decl.Body, func(nd ast.Node) bool {
				switch x := nd.(type) {
				case *ast.AssignStmt:
					if len(x.Lhs) == 1 && prog.SelField(pi, x.Lhs[0]) == data {
						posApp = x.Pos()
					}
				case *ast.CallExpr:
					if prog.SelField(pi, x.Fun) == assign && len(x.Args) == 2 && r.isParam(push, x.Args[0], 0) {
						if l, ok := linearOf(pi, nil, deref(pi, x.Args[1])); ok && l[""] == -1 {
							posAsg = x.Pos()
						}
					}
					if r.P.CalleeFunc(pi, x) == up {
						posUp = x.Pos()
					}
				}
				return true
			})
			if posApp == token.NoPos || posAsg == token.NoPos || posUp == token.NoPos || !(posApp < posAsg && posAsg < posUp) {
				r.Fail(push.Name()+":shape", push.Decl.Pos(), nil, "Heap.Push must append, then assignIndex(x, len-1), then sift up")
			}
			pop := r.P.Func("util/ds", "(*Heap).Pop")
			qi := pop.Pkg.TypesInfo
			var sawMinus1, sawZero, sawDown bool
			inspect(pop.Decl.Body, func(nd ast.Node) bool {
				if call, ok := nd.(*ast.CallExpr); ok {
					if prog.SelField(qi, call.Fun) == assign && len(call.Args) == 2 {
						if tv, ok := qi.Types[call.Args[1]]; ok && tv.Value != nil {
							switch tv.Value.String() {
							case "-1":
								sawMinus1 = true
							case "0":
								sawZero = true
							}
						}
					}
					if r.P.CalleeFunc(qi, call) == down && len(call.Args) == 1 {
						if tv, ok := qi.Types[call.Args[0]]; ok && tv.Value != nil && tv.Value.String() == "0" {
							sawDown = true
						}
					}
				}
				return true
			})
			r.Site(pop.Decl.Pos(), "Heap.Pop re-indexes and sifts the new root down")
			if !sawMinus1 || !sawZero || !sawDown {
				r.Fail(pop.Name()+":shape", pop.Decl.Pos(), nil, "Heap.Pop must mark the removed element with index -1, give the moved element index 0 and sift it down (removed=%v root=%v down=%v)", sawMinus1, sawZero, sawDown)
			}
			// comparisons
			dn := r.P.Func("util/ds", "(*Heap).down")
			di := dn.Pkg.TypesInfo
			type want struct {
				a, b, op string
			}
			var conds []want
			inspect(dn.Decl.Body, func(nd ast.Node) bool {
				b, ok := nd.(*ast.BinaryExpr)
				if !ok {
					return true
				}
				call, ok := ast.Unparen(b.X).(*ast.CallExpr)
				if !ok || prog.SelField(di, call.Fun) != cmpF || len(call.Args) != 2 {
					return true
				}
				idx := func(e ast.Expr) string {
					if ix, ok := ast.Unparen(e).(*ast.IndexExpr); ok && prog.SelField(di, ix.X) == data {
						return types.ExprString(ix.Index)
					}
					return "?"
				}
				if tv, ok := di.Types[b.Y]; ok && tv.Value != nil && tv.Value.String() == "0" {
					conds = append(conds, want{idx(call.Args[0]), idx(call.Args[1]), b.Op.String()})
				}
				return true
			})
			r.Site(dn.Decl.Pos(), "Heap.down comparisons")
			okChild, okStop := false, false
			for _, c := range conds {
				// smaller child: compare(right,left) < 0  or compare(left,right) > 0
				if (c.a == "right" && c.b == "left" && c.op == "<") || (c.a == "left" && c.b == "right" && c.op == ">") {
					okChild = true
				}
				// stop: compare(child j, parent i) >= 0 or compare(i, j) <= 0
				if (c.a == "j" && c.b == "i" && c.op == ">=") || (c.a == "i" && c.b == "j" && c.op == "<=") {
					okStop = true
				}
			}
			if !okChild || !okStop {
				r.Fail(dn.Name()+":comparisons", dn.Decl.Pos(), nil, "Heap.down must descend towards the smaller child (compare(right,left) < 0) and stop when compare(child, parent) >= 0 (found %v): a max-ward or unstable sift breaks the minimum-first order", conds)
			}
			// index arithmetic
			arith := map[string]ast.Expr{}
			var arithInfo *types.Info
			for _, fn := range []string{"(*Heap).down", "(*Heap).up"} {
				f := r.P.Func("util/ds", fn)
				arithInfo = f.Pkg.TypesInfo
				inspect(f.Decl.Body, func(nd ast.Node) bool {
					if as, ok := nd.(*ast.AssignStmt); ok && as.Tok == token.DEFINE {
						for i, l := range as.Lhs {
							if i < len(as.Rhs) {
								arith[types.ExprString(l)] = as.Rhs[i]
							}
						}
					}
					return true
				})
			}
			affine := func(name string, k, c int) bool {
				e, ok := arith[name]
				if !ok {
					return false
				}
				l, ok := linearOf(arithInfo, nil, e)
				return ok && sameLinear(l, map[string]int{"i": k, "": c})
			}
			okParent := false
			if e, ok := arith["parent"]; ok {
				if b, ok := ast.Unparen(e).(*ast.BinaryExpr); ok && b.Op == token.QUO {
					if tv, ok := arithInfo.Types[b.Y]; ok && tv.Value != nil && tv.Value.String() == "2" {
						if l, ok := linearOf(arithInfo, nil, b.X); ok && sameLinear(l, map[string]int{"i": 1, "": -1}) {
							okParent = true
						}
					}
				}
			}
			if !affine("left", 2, 1) || !affine("right", 2, 2) || !okParent {
				r.Fail("util/ds.Heap:index-arithmetic", dn.Decl.Pos(), nil, "heap index arithmetic must be left=2i+1 (%v), right=2i+2 (%v), parent=(i-1)/2 (%v)", affine("left", 2, 1), affine("right", 2, 2), okParent)
			}
			upF := r.P.Func("util/ds", "(*Heap).up")
			ui := upF.Pkg.TypesInfo
			okUp := false
			inspect(upF.Decl.Body, func(nd ast.Node) bool {
				b, ok := nd.(*ast.BinaryExpr)
				if !ok || b.Op != token.GEQ {
					return true
				}
				if call, ok := ast.Unparen(b.X).(*ast.CallExpr); ok && prog.SelField(ui, call.Fun) == cmpF && len(call.Args) == 2 {
					a0, a1 := types.ExprString(call.Args[0]), types.ExprString(call.Args[1])
					if strings.HasSuffix(a0, "[i]") && strings.HasSuffix(a1, "[parent]") {
						okUp = true
					}
				}
				return true
			})
			r.Site(upF.Decl.Pos(), "Heap.up stop condition")
			if !okUp {
				r.Fail(upF.Name()+":comparison", upF.Decl.Pos(), nil, "Heap.up must stop when compare(data[i], data[parent]) >= 0")
			}
			// Fix: down, and up only when it did not move
			fix := r.P.Func("util/ds", "(*Heap).Fix")
			fi := fix.Pkg.TypesInfo
			// on every path for a valid index: down(i) is called, and when it reports "did not move"
			// up(i) follows (in whatever arrangement of guards)
			_ = fi
			fixSpec := &pathsim.Spec{
				Atom: func(c *pathsim.Ctx, e ast.Expr) (int, bool, bool) {
					e = ast.Unparen(e)
					if call, ok := e.(*ast.CallExpr); ok && c.P.CalleeFunc(c.Info, call) == down {
						return 0, false, true
					}
					if b, ok := e.(*ast.BinaryExpr); ok && (b.Op == token.EQL || b.Op == token.NEQ) && r.isParam(fix, b.X, 0) {
						if tv, ok := c.Info.Types[b.Y]; ok && tv.Value != nil && tv.Value.String() == "-1" {
							return 1, b.Op == token.NEQ, true
						}
					}
					return 0, false, false
				},
				Step: func(c *pathsim.Ctx, s pathsim.State, ev *pathsim.Event) []pathsim.State {
					switch {
					case callTo(down)(c, ev):
						s.B = 1
						return []pathsim.State{s}
					case callTo(up)(c, ev):
						s.A = 1
						return []pathsim.State{s}
					case ev.Kind == pathsim.EvReturn || ev.Kind == pathsim.EvExit:
						if s.V[1] == pathsim.True {
							return nil // not in the heap
						}
						if s.B == 0 || (s.V[0] != pathsim.True && s.A == 0) {
							c.Violate(ev.Pos, "[shape] Heap.Fix must sift the element down and, if it did not move, up")
						}
					}
					return nil
				},
			}
			r.Sim(fix.Decl, fix.Name(), fixSpec)
			r.Site(fix.Decl.Pos(), "Heap.Fix sifts down, else up")
		}})

	register(&Obligation{ID: "C19.e", Props: []string{"C19", "C15", "C18"}, Template: "paired-update",
		Desc: "ds.Set.Add appends to the list exactly when it adds to the map (no duplicates); Set.Without removes from both; Set.Diff keeps exactly the elements not in the other set; ds.SortedMap.Set appends the key only when it is new and Delete removes the key from list and map together",
		Run: func(r *Run) {
			// Set.Add
			add := r.P.Func("util/ds", "(*Set).Add")
			ai := add.Pkg.TypesInfo
			mF, lF := r.P.Field("util/ds", "Set", "m"), r.P.Field("util/ds", "Set", "l")
			has := r.P.FuncObj("util/ds", "(*Set).Has")
			spec := &pathsim.Spec{Watch: map[*types.Var]bool{mF: true, lF: true}}
			spec.Atom = func(c *pathsim.Ctx, e ast.Expr) (int, bool, bool) {
				if call, ok := ast.Unparen(e).(*ast.CallExpr); ok && c.P.CalleeFunc(c.Info, call) == has {
					return 0, false, true
				}
				return 0, false, false
			}
			spec.Step = func(c *pathsim.Ctx, s pathsim.State, ev *pathsim.Event) []pathsim.State {
				if ev.Kind == pathsim.EvRangeIter {
					if s.A == 1 || s.A == 2 {
						c.Violate(ev.Pos, "[unpaired] an element is added to only one of the set's map and list")
					}
					s.A = 0
					s.V[0] = pathsim.Unknown
					return []pathsim.State{s}
				}
				if ev.Kind == pathsim.EvField && ev.Write {
					if s.V[0] != pathsim.False {
						c.Violate(ev.Pos, "[duplicate] an element is added without having established that the set does not already have it: the list would hold duplicates (a table would be scanned / counted twice)")
					}
					if ev.Field == mF {
						s.A |= 1
					} else {
						s.A |= 2
					}
					return []pathsim.State{s}
				}
				if (ev.Kind == pathsim.EvReturn || ev.Kind == pathsim.EvExit || ev.Kind == pathsim.EvLoopExit) && (s.A == 1 || s.A == 2) {
					c.Violate(ev.Pos, "[unpaired] an element is added to only one of the set's map and list")
				}
				return nil
			}
			r.Sim(add.Decl, add.Name(), spec)
			r.Site(add.Decl.Pos(), "Set.Add: map and list together, only for new elements")
			_ = ai
			// Set.Without
			wo := r.P.Func("util/ds", "(*Set).Without")
			wi := wo.Pkg.TypesInfo
			delM, delL := false, false
			inspect(wo.Decl.Body, func(nd ast.Node) bool {
				if call, ok := nd.(*ast.CallExpr); ok {
					if id, ok := call.Fun.(*ast.Ident); ok && id.Name == "delete" && len(call.Args) == 2 && prog.SelField(wi, call.Args[0]) == mF {
						delM = true
					}
					if c, ok := isCallToNamed(wi, call, "slices", "DeleteFunc"); ok && len(c.Args) == 2 && prog.SelField(wi, c.Args[0]) == lF {
						delL = true
					}
				}
				return true
			})
			r.Site(wo.Decl.Pos(), "Set.Without removes from map and list")
			if !delM || !delL {
				r.Fail(wo.Name()+":paired", wo.Decl.Pos(), nil, "Set.Without must remove the elements from both the map (%v) and the list (%v)", delM, delL)
			}
			// Set.Diff: add iff !s2.Has(e)
			df := r.P.Func("util/ds", "(*Set).Diff")
			dAdd := add.Obj
			dspec := &pathsim.Spec{}
			dspec.Atom = spec.Atom
			nAdd := 0
			dspec.Step = func(c *pathsim.Ctx, s pathsim.State, ev *pathsim.Event) []pathsim.State {
				if ev.Kind == pathsim.EvRangeIter {
					if s.A == 1 && s.V[0] == pathsim.False {
						c.Violate(ev.Pos, "[dropped] an element that is not in the other set is not kept")
					}
					s.A = 1
					s.V[0] = pathsim.Unknown
					return []pathsim.State{s}
				}
				if callTo(dAdd)(c, ev) {
					nAdd++
					if s.V[0] != pathsim.False {
						c.Violate(ev.Pos, "[kept-removed] Diff keeps an element without having established that the other set does not have it: a removed table stays in the level")
					}
					s.A = 2
					return []pathsim.State{s}
				}
				if ev.Kind == pathsim.EvLoopExit && s.A == 1 && s.V[0] == pathsim.False {
					c.Violate(ev.Pos, "[dropped] an element that is not in the other set is not kept")
				}
				return nil
			}
			r.Sim(df.Decl, df.Name(), dspec)
			r.Site(df.Decl.Pos(), "Set.Diff keeps exactly the elements absent from the other set")
			if nAdd == 0 {
				r.Fail(df.Name()+":shape", df.Decl.Pos(), nil, "Set.Diff never keeps an element")
			}
			// SortedMap
			sm := r.P.Func("util/ds", "(*SortedMap).Set")
			smi := sm.Pkg.TypesInfo
			smM, smL := r.P.Field("util/ds", "SortedMap", "m"), r.P.Field("util/ds", "SortedMap", "list")
			var hadVar types.Object
			inspect(sm.Decl.Body, func(nd ast.Node) bool {
				if as, ok := nd.(*ast.AssignStmt); ok && len(as.Lhs) == 2 && len(as.Rhs) == 1 {
					if ix, ok := ast.Unparen(as.Rhs[0]).(*ast.IndexExpr); ok && prog.SelField(smi, ix.X) == smM {
						hadVar = prog.IdentObj(smi, as.Lhs[1])
					}
				}
				return true
			})
			sspec := &pathsim.Spec{Watch: map[*types.Var]bool{smM: true, smL: true}}
			sspec.Atom = func(c *pathsim.Ctx, e ast.Expr) (int, bool, bool) {
				if hadVar != nil && prog.IdentObj(c.Info, e) == hadVar {
					return 0, false, true
				}
				return 0, false, false
			}
			sortedF := r.P.Field("util/ds", "SortedMap", "isSorted")
			sspec.Step = func(c *pathsim.Ctx, s pathsim.State, ev *pathsim.Event) []pathsim.State {
				if ev.Kind == pathsim.EvAssign && len(ev.Lhs) == 1 && len(ev.Rhs) == 1 && prog.SelField(c.Info, ev.Lhs[0]) == sortedF {
					if tv, ok := c.Info.Types[ev.Rhs[0]]; ok && tv.Value != nil && tv.Value.String() == "false" && s.A&2 != 0 {
						s.B = 1
					}
					return []pathsim.State{s}
				}
				if (ev.Kind == pathsim.EvReturn || ev.Kind == pathsim.EvExit) && s.A&2 != 0 && s.B == 0 {
					c.Violate(ev.Pos, "[append-keeps-sorted-flag] a key is appended to the list without invalidating isSorted: Keys / Values / All and the binary search in Delete keep treating the list as sorted")
				}
				if ev.Kind == pathsim.EvField && ev.Write {
					if ev.Field == smM {
						s.A |= 1
					}
					if ev.Field == smL {
						if s.V[0] != pathsim.False {
							c.Violate(ev.Pos, "[duplicate-key] the key is appended to the sorted list although it may already be present: Values() would return a node twice and an assembly could contain the same worker twice")
						}
						s.A |= 2
					}
					return []pathsim.State{s}
				}
				if ev.Kind == pathsim.EvReturn || ev.Kind == pathsim.EvExit {
					if s.A&1 == 0 {
						c.Violate(ev.Pos, "[no-store] SortedMap.Set returns without storing the value")
					}
					if s.A&2 == 0 && s.V[0] == pathsim.False {
						c.Violate(ev.Pos, "[missing-key] a new key is stored in the map but not appended to the list: it never shows up in Values()")
					}
				}
				return nil
			}
			r.Sim(sm.Decl, sm.Name(), sspec)
			r.Site(sm.Decl.Pos(), "SortedMap.Set: list append iff new key")
			dl := r.P.Func("util/ds", "(*SortedMap).Delete")
			dli := dl.Pkg.TypesInfo
			var foundVar types.Object
			inspect(dl.Decl.Body, func(nd ast.Node) bool {
				if as, ok := nd.(*ast.AssignStmt); ok && len(as.Lhs) == 2 && len(as.Rhs) == 1 {
					if _, ok := isCallToNamed(dli, as.Rhs[0], "slices", "BinarySearch"); ok {
						foundVar = prog.IdentObj(dli, as.Lhs[1])
					}
				}
				return true
			})
			ensure := r.P.FuncObj("util/ds", "(*SortedMap).ensureSorted")
			dlspec := &pathsim.Spec{Watch: map[*types.Var]bool{smM: true, smL: true}}
			dlspec.Atom = func(c *pathsim.Ctx, e ast.Expr) (int, bool, bool) {
				if foundVar != nil && prog.IdentObj(c.Info, e) == foundVar {
					return 0, false, true
				}
				return 0, false, false
			}
			dlspec.Step = func(c *pathsim.Ctx, s pathsim.State, ev *pathsim.Event) []pathsim.State {
				if callTo(ensure)(c, ev) {
					s.B = 1
					return []pathsim.State{s}
				}
				if ev.Kind == pathsim.EvCall && ev.Call != nil {
					if _, ok := isCallToNamed(c.Info, ev.Call, "slices", "BinarySearch"); ok && s.B == 0 {
						c.Violate(ev.Pos, "[search-unsorted] the key list is binary-searched without having been sorted first: a registered node is not found and cannot be removed")
					}
				}
				if ev.Kind == pathsim.EvField && ev.Write {
					if ev.Field == smL {
						s.A |= 2
					}
					return []pathsim.State{s}
				}
				if ev.Kind == pathsim.EvDelete && len(ev.Call.Args) == 2 && prog.SelField(c.Info, ev.Call.Args[0]) == smM {
					s.A |= 1
					return []pathsim.State{s}
				}
				if (ev.Kind == pathsim.EvReturn || ev.Kind == pathsim.EvExit) && (s.A == 1 || s.A == 2) {
					c.Violate(ev.Pos, "[unpaired] SortedMap.Delete removes the key from only one of list and map: a deregistered worker stays in Values() (or Has() keeps answering true)")
				}
				if (ev.Kind == pathsim.EvReturn || ev.Kind == pathsim.EvExit) && s.A == 0 && s.V[0] == pathsim.True {
					c.Violate(ev.Pos, "[not-removed] a key that was found is not removed")
				}
				return nil
			}
			r.Sim(dl.Decl, dl.Name(), dlspec)
			r.Site(dl.Decl.Pos(), "SortedMap.Delete: sorted search, list and map together")
			// Values / Keys / All sort first
			for _, n := range []string{"Values", "Keys", "All"} {
				f := r.P.Func("util/ds", "(*SortedMap)."+n)
				if !r.exprCalls(f.Pkg.TypesInfo, f.Decl.Body, ensure) {
					r.Fail(f.Name()+":sorted", f.Decl.Pos(), nil, "SortedMap.%s does not sort before iterating: assembly membership would depend on registration order", n)
				}
			}
		}})

	register(&Obligation{ID: "C19.f", Props: []string{"C19", "C07", "C18"}, Template: "value-identity",
		Desc: "mergesort.Merge and iteru.MergeSorted order their heap with the caller's comparator applied to (a.item, b.item), refill the heap from the iterator whose item was just popped, and Merge yields the pending item both when the key changes and at exhaustion, dropping only the item the pick function rejected",
		Run: func(r *Run) {
			for _, fn := range []struct{ pkg, name string }{{"dkv/mergesort", "Merge"}, {"util/iteru", "MergeSorted"}} {
				f := r.P.Func(fn.pkg, fn.name)
				info := f.Pkg.TypesInfo
				newHeap := r.P.FuncObj("util/ds", "NewHeap")
				okCmp := false
				inspect(f.Decl.Body, func(nd ast.Node) bool {
					call, ok := nd.(*ast.CallExpr)
					if !ok || r.P.CalleeFunc(info, call) != newHeap || len(call.Args) < 1 {
						return true
					}
					lit, ok := ast.Unparen(call.Args[0]).(*ast.FuncLit)
					if !ok {
						return true
					}
					var names []string
					for _, fl := range lit.Type.Params.List {
						for _, nm := range fl.Names {
							names = append(names, nm.Name)
						}
					}
					inspect(lit.Body, func(m ast.Node) bool {
						if ret, ok := m.(*ast.ReturnStmt); ok && len(ret.Results) == 1 {
							if c, ok := ast.Unparen(ret.Results[0]).(*ast.CallExpr); ok && r.isParam(f, c.Fun, 1) && len(c.Args) == 2 && len(names) == 2 {
								if types.ExprString(c.Args[0]) == names[0]+".item" && types.ExprString(c.Args[1]) == names[1]+".item" {
									okCmp = true
								}
							}
						}
						return true
					})
					return true
				})
				r.Site(f.Decl.Pos(), f.Name()+": heap comparator = cmp(a.item, b.item)")
				if !okCmp {
					r.Fail(f.Name()+":heap-comparator", f.Decl.Pos(), nil, "%s must order its heap by cmp(a.item, b.item): swapped operands turn the merge into descending order", f.Name())
				}
			}
			// Merge: refill from the popped item's iterator
			mg := r.P.Func("dkv/mergesort", "Merge")
			mi := mg.Pkg.TypesInfo
			var itLit *ast.FuncLit
			for _, l := range litsIn(mg.Decl.Body) {
				if len(l.Type.Params.List) == 1 {
					if _, isFn := mi.TypeOf(l.Type.Params.List[0].Type).Underlying().(*types.Signature); isFn {
						itLit = l
					}
				}
			}
			if itLit == nil {
				r.Error("undecided: mergesort.Merge iterator literal")
				return
			}
			pop := r.P.FuncObj("util/ds", "(*Heap).Pop")
			push := r.P.FuncObj("util/ds", "(*Heap).Push")
			var popped types.Object
			inspect(itLit.Body, func(nd ast.Node) bool {
				if as, ok := nd.(*ast.AssignStmt); ok && len(as.Rhs) == 1 && len(as.Lhs) == 2 {
					if call, ok := ast.Unparen(as.Rhs[0]).(*ast.CallExpr); ok && r.P.CalleeFunc(mi, call) == pop {
						popped = prog.IdentObj(mi, as.Lhs[0])
					}
				}
				return true
			})
			okRefill, okPush := false, false
			inspect(itLit.Body, func(nd ast.Node) bool {
				switch x := nd.(type) {
				case *ast.CallExpr:
					// nextFns[ii.index]()
					if ix, ok := ast.Unparen(x.Fun).(*ast.IndexExpr); ok {
						if sel, ok := deref(mi, ix.Index).(*ast.SelectorExpr); ok && sel.Sel.Name == "index" && prog.IdentObj(mi, sel.X) == popped {
							okRefill = true
						}
					}
					if r.P.CalleeFunc(mi, x) == push && len(x.Args) == 1 {
						if cl, ok := ast.Unparen(x.Args[0]).(*ast.CompositeLit); ok && len(cl.Elts) == 2 {
							first := cl.Elts[0]
							if kv, ok := first.(*ast.KeyValueExpr); ok {
								first = kv.Value
							}
							if sel, ok := deref(mi, first).(*ast.SelectorExpr); ok && sel.Sel.Name == "index" && prog.IdentObj(mi, sel.X) == popped {
								okPush = true
							}
						}
					}
				}
				return true
			})
			r.Site(itLit.Pos(), "mergesort.Merge refills from the popped iterator")
			if !okRefill || !okPush {
				r.Fail(mg.Name()+":refill", itLit.Pos(), nil, "after popping an item Merge must pull the next item from the SAME iterator (nextFns[ii.index]) and push it with that index (refill=%v push=%v): otherwise an input is drained out of turn or dropped", okRefill, okPush)
			}
			// yields: (1) at exhaustion if prev != nil; (2) when the key changes, before prev is replaced
			yieldObj := mi.Defs[itLit.Type.Params.List[0].Names[0]]
			var prev types.Object
			inspect(itLit.Body, func(nd ast.Node) bool {
				if vs, ok := nd.(*ast.ValueSpec); ok && len(vs.Names) == 1 && prev == nil {
					if _, isPtr := mi.Defs[vs.Names[0]].Type().(*types.Pointer); isPtr {
						prev = mi.Defs[vs.Names[0]]
					}
				}
				return true
			})
			if prev == nil {
				r.Error("undecided: mergesort.Merge pending item")
				return
			}
			isYieldPrev := func(c *pathsim.Ctx, ev *pathsim.Event) bool {
				if ev.Kind != pathsim.EvCall || prog.IdentObj(c.Info, ev.Call.Fun) != yieldObj || len(ev.Call.Args) != 1 {
					return false
				}
				sel, ok := ast.Unparen(ev.Call.Args[0]).(*ast.SelectorExpr)
				return ok && prog.IdentObj(c.Info, sel.X) == prev
			}
			var okVar types.Object
			inspect(itLit.Body, func(nd ast.Node) bool {
				if as, ok := nd.(*ast.AssignStmt); ok && len(as.Rhs) == 1 && len(as.Lhs) == 2 {
					if call, ok := ast.Unparen(as.Rhs[0]).(*ast.CallExpr); ok && r.P.CalleeFunc(mi, call) == pop {
						okVar = prog.IdentObj(mi, as.Lhs[1])
					}
				}
				return true
			})
			mspec := &pathsim.Spec{AtomDeps: map[int][]types.Object{0: {okVar}, 1: {prev}}}
			mspec.Atom = func(c *pathsim.Ctx, e ast.Expr) (int, bool, bool) {
				if okVar != nil && prog.IdentObj(c.Info, e) == okVar {
					return 0, false, true
				}
				if x, notNil, ok := pathsim.IsNilCompare(c.Info, e); ok && prog.IdentObj(c.Info, x) == prev {
					return 1, !notNil, true // atom 1: prev != nil
				}
				return 0, false, false
			}
			mspec.Step = func(c *pathsim.Ctx, s pathsim.State, ev *pathsim.Event) []pathsim.State {
				if ev.Kind == pathsim.EvLoopIter {
					s.A = 0
					return []pathsim.State{s}
				}
				if isYieldPrev(c, ev) {
					s.A = 1
					return []pathsim.State{s}
				}
				if ev.Kind == pathsim.EvReturn && s.V[0] == pathsim.False && s.A == 0 && s.V[1] != pathsim.False {
					c.Violate(ev.Pos, "[final-item-lost] when the heap is exhausted Merge returns without yielding the pending item: the last key of every merge (scan, flush, compaction) is dropped")
				}
				return nil
			}
			r.Sim(itLit, mg.Name()+"$iter", mspec)
			r.Site(itLit.Pos(), "mergesort.Merge flushes the pending item at exhaustion")
		}})

	register(&Obligation{ID: "C19.j", Props: []string{"C19", "C07", "C03"}, Template: "order-domain",
		Desc: "ziptree.AscendPrefix's search phase stops exactly at a node whose key equals the prefix, goes left (remembering the node) exactly when the prefix is smaller than the node's key and right otherwise - decided over every ordering of (prefix, node key); the emit phase yields a node iff its key has the prefix",
		Run: func(r *Run) {
			f := r.P.Func("dkv/ziptree", "(*ZipTree).AscendPrefix")
			info := f.Pkg.TypesInfo
			left := r.P.Field("dkv/ziptree", "Node", "left")
			right := r.P.Field("dkv/ziptree", "Node", "right")
			keyF := r.P.Field("dkv/ziptree", "Node", "Key")
			lit := firstLit(f.Decl.Body)
			if lit == nil {
				r.Error("undecided: AscendPrefix no longer returns an iterator literal")
				return
			}
			// the search loop: the first loop of the literal that steps cur = cur.left / cur.right
			var loop *ast.ForStmt
			var cur types.Object
			ast.Inspect(lit.Body, func(nd ast.Node) bool {
				fs, ok := nd.(*ast.ForStmt)
				if !ok || loop != nil {
					return true
				}
				ast.Inspect(fs.Body, func(m ast.Node) bool {
					if as, ok := m.(*ast.AssignStmt); ok && len(as.Lhs) == 1 && len(as.Rhs) == 1 && prog.SelField(info, as.Rhs[0]) == right {
						if sel, ok := ast.Unparen(as.Rhs[0]).(*ast.SelectorExpr); ok && prog.IdentObjPlain(info, as.Lhs[0]) == prog.IdentObjPlain(info, sel.X) {
							loop, cur = fs, prog.IdentObjPlain(info, as.Lhs[0])
						}
					}
					return true
				})
				return true
			})
			if loop == nil || cur == nil {
				r.Error("undecided: AscendPrefix has no search loop stepping through left / right children")
				return
			}
			r.Site(loop.Pos(), "AscendPrefix search phase")
			pn := f.Obj.Type().(*types.Signature).Params().At(0).Name()
			m := orderdom.New(info, map[string]string{cur.Name() + "." + keyF.Name(): "k", pn: "p"})
			m.IgnoreStores = true
			m.AssignEffectName = func(o types.Object, rhs ast.Expr) string {
				if o != cur {
					return ""
				}
				switch prog.SelField(info, rhs) {
				case left:
					return "left"
				case right:
					return "right"
				}
				return ""
			}
			res := m.CheckBody(loop.Body.List, nil, func(e odEnv) orderdom.Value {
				switch {
				case e.Rank["p"] == e.Rank["k"]:
					return orderdom.Sym("end")
				case e.Rank["p"] < e.Rank["k"]:
					return orderdom.Sym("left")
				}
				return orderdom.Sym("right")
			})
			r.finishOD(f.Name()+":search", loop.Pos(), res, "stop iff node key == prefix; left iff prefix < node key; right otherwise")
			// emit phase: yield(cur) is guarded by bytes.HasPrefix(cur.Key, prefix) with the operands in this order
			okEmit := false
			inspect(lit.Body, func(nd ast.Node) bool {
				call, ok := nd.(*ast.CallExpr)
				if !ok || nd.Pos() < loop.End() {
					return true
				}
				if c, ok := isCallToNamed(info, call, "bytes", "HasPrefix"); ok && len(c.Args) == 2 {
					r.Site(c.Pos(), "AscendPrefix emit test")
					if prog.SelField(info, c.Args[0]) == keyF && r.isParam(f, c.Args[1], 0) {
						okEmit = true
					} else {
						r.Fail(f.Name()+":emit-test", c.Pos(), nil, "the emit phase must test bytes.HasPrefix(node key, prefix): with the operands swapped only keys that are prefixes OF the prefix are yielded")
					}
				}
				return true
			})
			if !okEmit {
				r.Fail(f.Name()+":emit-test", lit.Pos(), nil, "the emit phase no longer tests that the node's key has the prefix")
			}
		}})

	register(&Obligation{ID: "C19.g", Props: []string{"C19", "C07"}, Template: "order-domain",
		Desc: "ziptree.Get and ziptree.Put descend to the left child exactly for smaller keys and to the right child exactly for greater keys, Get reports equality as found; a replacing Put copies the replaced node's children and rank and re-links the parent (or the root)",
		Run: func(r *Run) {
			left := r.P.Field("dkv/ziptree", "Node", "left")
			right := r.P.Field("dkv/ziptree", "Node", "right")
			for _, fn := range []string{"(*ZipTree).Get", "(*ZipTree).Put"} {
				f := r.P.Func("dkv/ziptree", fn)
				info := f.Pkg.TypesInfo
				r.Site(f.Decl.Pos(), f.Name()+": descent direction")
				// first loop = the search loop
				var loop *ast.ForStmt
				inspect(f.Decl.Body, func(nd ast.Node) bool {
					if fs, ok := nd.(*ast.ForStmt); ok && loop == nil {
						loop = fs
					}
					return true
				})
				if loop == nil {
					r.Error("undecided: %s has no search loop", f.Name())
					continue
				}
				// collect: for each assignment cur = cur.left / cur.right, the chain of enclosing if conditions (with polarity)
				type step struct {
					dir  string
					rels []string
					pos  token.Pos
				}
				var steps []step
				var walk func(n ast.Stmt, rels []string)
				neg := map[string]string{"lt": "ge", "ge": "lt", "gt": "le", "le": "gt", "eq": "ne", "ne": "eq"}
				walk = func(n ast.Stmt, rels []string) {
					switch x := n.(type) {
					case *ast.BlockStmt:
						for _, st := range x.List {
							walk(st, rels)
						}
					case *ast.IfStmt:
						rel := r.keyRelation(info, loop.Body, x.Cond, "key", "cur.Key")
						if rel == "" {
							walk(x.Body, rels)
							if x.Else != nil {
								walk(x.Else, rels)
							}
							return
						}
						walk(x.Body, append(append([]string(nil), rels...), rel))
						if x.Else != nil {
							walk(x.Else, append(append([]string(nil), rels...), neg[rel]))
						} else {
							// statements after an if that breaks/returns inherit the negation: approximated by
							// scanning the remaining siblings in the caller (handled below)
						}
					case *ast.AssignStmt:
						// a descent step: v = v.left / v = v.right for the cursor variable v (whatever its name)
						isStep := false
						if len(x.Lhs) == 1 && len(x.Rhs) == 1 {
							if sel, ok := ast.Unparen(x.Rhs[0]).(*ast.SelectorExpr); ok {
								if lo := prog.IdentObj(info, x.Lhs[0]); lo != nil && lo == prog.IdentObj(info, sel.X) {
									isStep = true
								}
							}
						}
						if isStep {
							switch prog.SelField(info, x.Rhs[0]) {
							case left:
								steps = append(steps, step{"left", rels, x.Pos()})
							case right:
								steps = append(steps, step{"right", rels, x.Pos()})
							}
						}
					}
				}
				// handle `if eq { break }` preceding siblings: collect as a standing relation
				var standing []string
				for _, st := range loop.Body.List {
					if is, ok := st.(*ast.IfStmt); ok && is.Else == nil {
						leaves := false
						for _, b := range is.Body.List {
							switch bb := b.(type) {
							case *ast.BranchStmt:
								leaves = bb.Tok == token.BREAK
							case *ast.ReturnStmt:
								leaves = true
							}
						}
						if leaves {
							if rel := r.keyRelation(info, loop.Body, is.Cond, "key", "cur.Key"); rel != "" {
								standing = append(standing, neg[rel])
								continue
							}
						}
					}
					walk(st, standing)
				}
				implies := func(rels []string, want string) bool {
					// the conjunction of rels must imply want (lt or gt)
					possible := map[string]bool{"lt": true, "eq": true, "gt": true}
					allow := map[string][]string{"lt": {"lt"}, "eq": {"eq"}, "gt": {"gt"}, "le": {"lt", "eq"}, "ge": {"gt", "eq"}, "ne": {"lt", "gt"}}
					for _, rl := range rels {
						keep := map[string]bool{}
						for _, a := range allow[rl] {
							if possible[a] {
								keep[a] = true
							}
						}
						possible = keep
					}
					return len(possible) == 1 && possible[want]
				}
				if len(steps) < 2 {
					r.Fail(f.Name()+":descent", loop.Pos(), nil, "%s does not descend into both children", f.Name())
				}
				for _, s := range steps {
					want := "lt"
					if s.dir == "right" {
						want = "gt"
					}
					if !implies(s.rels, want) {
						r.Fail(f.Name()+":descent-"+s.dir, s.pos, nil, "%s descends %s under the key relation %v, which is not exactly 'key %s node key': keys would be searched for in the wrong subtree and a stored key reported absent (or a duplicate node inserted)", f.Name(), s.dir, s.rels, map[string]string{"lt": "<", "gt": ">"}[want])
					}
				}
			}
			// Put replacement
			put := r.P.Func("dkv/ziptree", "(*ZipTree).Put")
			pi := put.Pkg.TypesInfo
			rank := r.P.Field("dkv/ziptree", "Node", "rank")
			root := r.P.Field("dkv/ziptree", "ZipTree", "root")
			copied := map[string]bool{}
			relinks := 0
			inspect(put.Decl.Body, func(nd ast.Node) bool {
				as, ok := nd.(*ast.AssignStmt)
				if !ok || len(as.Lhs) != 1 || len(as.Rhs) != 1 {
					return true
				}
				lsel, lok := ast.Unparen(as.Lhs[0]).(*ast.SelectorExpr)
				rsel, rok := ast.Unparen(as.Rhs[0]).(*ast.SelectorExpr)
				if lok && rok && r.isParam(put, lsel.X, 0) && prog.IdentObj(pi, rsel.X) != nil && !r.isParam(put, rsel.X, 0) {
					lf, rf := prog.SelField(pi, lsel), prog.SelField(pi, rsel)
					if lf == rf && (lf == left || lf == right || lf == rank) {
						copied[lf.Name()] = true
					}
				}
				if lok && r.isParam(put, as.Rhs[0], 0) {
					if f := prog.SelField(pi, lsel); f == root || f == left || f == right {
						relinks++
					}
				}
				return true
			})
			r.Site(put.Decl.Pos(), "ZipTree.Put replacement takes over children, rank and parent link")
			if !copied["left"] || !copied["right"] || !copied["rank"] {
				r.Fail(put.Name()+":replace-copy", put.Decl.Pos(), nil, "a replacing Put must copy left, right and rank from the replaced node (copied: %v): a whole subtree of keys would disappear from the memtable", copied)
			}
			if relinks < 3 {
				r.Fail(put.Name()+":replace-link", put.Decl.Pos(), nil, "a replacing Put must link the new node in place of the old one at the root or in the parent's left / right (found %d links)", relinks)
			}
			// returns the replaced node so that the memtable can correct its size
			mt := r.P.Func("dkv/memtable", "(*MemTable).Put")
			if !strings.Contains(types.ExprString(mt.Decl.Type.Results.List[0].Type), "bool") {
				r.Note("MemTable.Put result changed")
			}
		}})
}

func init() {
	register(&Obligation{ID: "C19.i", Props: []string{"C19", "C10"}, Template: "order-domain",
		Desc: "PartitionedPriorityQueue orders its partitions by their smallest element and puts empty partitions last: the heap comparator is 0 for two empty partitions, positive when only the first is empty, negative when only the second is, and the element comparator otherwise (an empty partition at the top would make Peek report 'no timers' while other key groups still have some)",
		Run: func(r *Run) {
			f := r.P.Func("util/ds", "NewPartitionedPriorityQueue")
			info := f.Pkg.TypesInfo
			var lit *ast.FuncLit
			inspect(f.Decl.Body, func(nd ast.Node) bool {
				if as, ok := nd.(*ast.AssignStmt); ok && len(as.Lhs) == 1 && len(as.Rhs) == 1 {
					if l, ok := ast.Unparen(as.Rhs[0]).(*ast.FuncLit); ok && lit == nil && l.Type.Results != nil && len(l.Type.Params.List) >= 1 {
						// the comparator literal passed to NewHeap: two partitions in, int out
						n := 0
						for _, p := range l.Type.Params.List {
							n += len(p.Names)
						}
						if n == 2 {
							lit = l
						}
					}
				}
				return true
			})
			if lit == nil {
				r.Error("undecided: NewPartitionedPriorityQueue: heap comparator literal not found")
				return
			}
			// operands: the two comma-ok flags of Peek and the element comparison
			var oks []string
			var cmpText string
			inspect(lit.Body, func(nd ast.Node) bool {
				switch x := nd.(type) {
				case *ast.AssignStmt:
					if len(x.Lhs) == 2 && len(x.Rhs) == 1 {
						if c, ok := ast.Unparen(x.Rhs[0]).(*ast.CallExpr); ok {
							if sel, ok := ast.Unparen(c.Fun).(*ast.SelectorExpr); ok && sel.Sel.Name == "Peek" {
								oks = append(oks, types.ExprString(x.Lhs[1]))
							}
						}
					}
				case *ast.ReturnStmt:
					if len(x.Results) == 1 {
						if c, ok := ast.Unparen(x.Results[0]).(*ast.CallExpr); ok && len(c.Args) == 2 {
							cmpText = types.ExprString(c)
						}
					}
				}
				return true
			})
			if len(oks) != 2 || cmpText == "" {
				r.Error("undecided: NewPartitionedPriorityQueue: comparator does not have the (Peek, Peek, compare) shape (flags %v, compare %q)", oks, cmpText)
				return
			}
			m := orderdom.New(info, map[string]string{oks[0]: "aOk", oks[1]: "bOk", cmpText: "cmp"})
			res := m.CheckFunc(lit.Body, nil, func(e odEnv) orderdom.Value {
				switch {
				case !e.Bool["aOk"] && !e.Bool["bOk"]:
					return orderdom.Int(0)
				case !e.Bool["aOk"]:
					return orderdom.Int(1)
				case !e.Bool["bOk"]:
					return orderdom.Int(-1)
				}
				return orderdom.Sym("cmp")
			})
			r.finishOD(f.Name()+"$heapCompare", lit.Pos(), res, "empty partitions last, otherwise the element comparator")
		}})
}
