package rules

import (
	"go/ast"
	"go/token"
	"go/types"

	"verif/checker/internal/pathsim"
	"verif/checker/internal/prog"
)

// C17.g: TableWriter.WriteRun splits a key-ordered run into tables with a small protocol on its
// entry buffer: add*, cut, add*, flushChunk, repeat; at the end of input everything buffered is
// written. The protocol's structural conditions:
//
//   - flushChunk uses the cut point and chunk size that cut() recorded, so between two
//     flushChunk calls (and before the first) cut() must have run on every path - a stale cut
//     point exceeds the buffer (panic) or splits at the wrong entry;
//   - cut() records both the entry count and the byte size at the same moment;
//   - flushChunk hands out exactly the entries before the cut point, keeps exactly the rest and
//     subtracts the recorded size;
//   - every entry pulled from the input is added to the buffer before the next one is pulled or
//     the function returns, and at end of input the whole buffer is written.
func init() {
	register(&Obligation{ID: "C17.g", Props: []string{"C17", "C18"}, Template: "typestate",
		Desc: "TableWriter.WriteRun: flushChunk only after a cut() since the previous flushChunk on every path; cut records count and size together; flushChunk returns entries[:cutAt], keeps entries[cutAt:] and subtracts chunkSize; every pulled entry is buffered and the end of input writes the whole buffer",
		Run: func(r *Run) {
			f := r.P.Func("dkv/sst", "(*TableWriter).WriteRun")
			info := f.Pkg.TypesInfo
			// cut() may have been inlined into WriteRun (two assignments): both forms are followed
			var cut types.Object
			cutFn := r.P.TryFunc("dkv/sst", "(*entryBuffer).cut")
			if cutFn != nil {
				cut = cutFn.Obj
			}
			entries := r.P.Field("dkv/sst", "entryBuffer", "entries")
			size := r.P.Field("dkv/sst", "entryBuffer", "size")
			cutAt := r.P.Field("dkv/sst", "entryBuffer", "cutAt")
			chunk := r.P.Field("dkv/sst", "entryBuffer", "chunkSize")
			flush := r.P.FuncObj("dkv/sst", "(*entryBuffer).flushChunk")
			add := r.P.FuncObj("dkv/sst", "(*entryBuffer).add")
			all := r.P.FuncObj("dkv/sst", "(*entryBuffer).all")
			write := r.P.FuncObj("dkv/sst", "(*TableWriter).Write")

			// the pulled entry and its ok flag: `entry, ok := next()` with next from iter.Pull
			var nextObj types.Object
			inspect(f.Decl.Body, func(nd ast.Node) bool {
				if as, ok := nd.(*ast.AssignStmt); ok && len(as.Lhs) == 2 && len(as.Rhs) == 1 {
					if _, isPull := isCallToNamed(info, as.Rhs[0], "iter", "Pull"); isPull {
						nextObj = prog.IdentObj(info, as.Lhs[0])
					}
				}
				return true
			})
			if nextObj == nil {
				r.Error("undecided: WriteRun no longer pulls its input with iter.Pull")
				return
			}
			isNext := func(c *pathsim.Ctx, call *ast.CallExpr) bool {
				return call != nil && len(call.Args) == 0 && prog.IdentObj(c.Info, call.Fun) == nextObj
			}
			// ok variables of the pulls
			okVars := map[types.Object]bool{}
			entryVars := map[types.Object]bool{}
			inspect(f.Decl.Body, func(nd ast.Node) bool {
				if as, ok := nd.(*ast.AssignStmt); ok && len(as.Lhs) == 2 && len(as.Rhs) == 1 {
					if call, isCall := ast.Unparen(as.Rhs[0]).(*ast.CallExpr); isCall && len(call.Args) == 0 && prog.IdentObj(info, call.Fun) == nextObj {
						if o := prog.IdentObjPlain(info, as.Lhs[0]); o != nil {
							entryVars[o] = true
						}
						if o := prog.IdentObjPlain(info, as.Lhs[1]); o != nil {
							okVars[o] = true
						}
						r.Site(as.Pos(), "WriteRun pulls an entry")
					}
				}
				return true
			})
			if len(okVars) == 0 {
				r.Error("undecided: WriteRun's pulls are not of the form entry, ok := next()")
				return
			}
			// the slice of written tables: `tables = append(tables, t)`
			var tablesObj types.Object
			inspect(f.Decl.Body, func(nd ast.Node) bool {
				if as, ok := nd.(*ast.AssignStmt); ok && len(as.Lhs) == 1 && len(as.Rhs) == 1 {
					if call, isCall := ast.Unparen(as.Rhs[0]).(*ast.CallExpr); isCall && len(call.Args) == 2 {
						if id, isID := call.Fun.(*ast.Ident); isID && id.Name == "append" {
							if o := prog.IdentObj(info, as.Lhs[0]); o != nil && prog.IdentObj(info, call.Args[0]) == o {
								tablesObj = o
							}
						}
					}
				}
				return true
			})
			const (
				fresh    = 1  // cut() ran since the last flushChunk
				pending  = 2  // an entry was pulled and not yet judged / buffered
				atSet    = 4  // (inlined cut) cutAt = len(entries) recorded since the last flushChunk
				szSet    = 8  // (inlined cut) chunkSize = size recorded since the last flushChunk
				wroteAll = 16 // Write(buffer.all()) ran after the last change of the buffer
				sinceCut = 32 // an entry was added since the last cut(): flushChunk leaves it in the buffer
			)
			isLenOf := func(c *pathsim.Ctx, e ast.Expr, isWhat func(ast.Expr) bool) bool {
				call, ok := ast.Unparen(e).(*ast.CallExpr)
				if !ok || len(call.Args) != 1 {
					return false
				}
				id, isID := call.Fun.(*ast.Ident)
				return isID && id.Name == "len" && c.Info.Uses[id] == types.Universe.Lookup("len") && isWhat(call.Args[0])
			}
			nEnd := 0
			nFlush, nCut := 0, 0
			// at entry the buffer is empty and no table has been written
			var init pathsim.State
			init.V[2], init.V[3] = pathsim.True, pathsim.False
			init.V[4], init.V[5], init.V[6] = pathsim.True, pathsim.True, pathsim.True
			boundAtom := map[string]int{}
			spec := &pathsim.Spec{Init: init}
			spec.Atom = func(c *pathsim.Ctx, e ast.Expr) (int, bool, bool) {
				if id, ok := ast.Unparen(e).(*ast.Ident); ok && okVars[c.Info.Uses[id]] {
					return 0, false, true
				}
				if x, notNil, isCmp := pathsimIsNil(c.Info, e); isCmp {
					if tv, has := c.Info.Types[x]; has && isErrorType(tv.Type) {
						return 1, !notNil, true
					}
				}
				// atom 4: buffer.size < <bound> — known true while the buffer is empty (bounds are positive)
				if b, ok := ast.Unparen(e).(*ast.BinaryExpr); ok && prog.SelField(c.Info, b.X) == size {
					// one atom per bound (size < target and size < maximum are different facts)
					key := types.ExprString(b.Y)
					idx, has := boundAtom[key]
					if !has && len(boundAtom) < 3 {
						idx = 4 + len(boundAtom)
						boundAtom[key] = idx
						has = true
					}
					if has {
						switch b.Op {
						case token.LSS:
							return idx, false, true
						case token.GEQ:
							return idx, true, true
						}
					}
				}
				// atom 2: the buffer is empty (len(buffer.entries) == 0 / buffer.size == 0);
				// atom 3: tables were written already (len(tables) > 0)
				if b, ok := ast.Unparen(e).(*ast.BinaryExpr); ok {
					if tv, has := c.Info.Types[b.Y]; has && tv.Value != nil && tv.Value.String() == "0" {
						isBuf := isLenOf(c, b.X, func(a ast.Expr) bool { return prog.SelField(c.Info, a) == entries }) || prog.SelField(c.Info, b.X) == size
						isTbl := tablesObj != nil && isLenOf(c, b.X, func(a ast.Expr) bool { return prog.IdentObj(c.Info, a) == tablesObj })
						idx := -1
						switch {
						case isBuf:
							idx = 2
						case isTbl:
							idx = 3
						}
						if idx > 0 {
							switch b.Op {
							case token.EQL:
								return idx, idx == 3, true // len(tables)==0 is the negation of atom 3
							case token.NEQ, token.GTR:
								return idx, idx == 2, true
							}
						}
					}
				}
				return 0, false, false
			}
			spec.Step = func(c *pathsim.Ctx, s pathsim.State, ev *pathsim.Event) []pathsim.State {
				switch ev.Kind {
				case pathsim.EvCall:
					switch {
					case isNext(c, ev.Call):
						if s.A&pending != 0 && s.V[0] != pathsim.False {
							c.Violate(ev.Pos, "[entry-dropped] the next entry is pulled although the previous one was not added to the buffer: an entry of the run is missing from the tables")
						}
						s.A |= pending
						s.V[0] = pathsim.Unknown
						return []pathsim.State{s}
					case ev.Callee == types.Object(write):
						if len(ev.Call.Args) == 1 {
							if inner, isInner := ast.Unparen(deref(c.Info, ev.Call.Args[0])).(*ast.CallExpr); isInner && r.P.CalleeFunc(c.Info, inner) == all {
								s.A |= wroteAll
								if s.V[2] != pathsim.False && s.V[3] != pathsim.False {
									c.Violate(ev.Pos, "[empty-table] at the end of the input Write(buffer.all()) is reachable with an empty buffer after tables were already written (the previous chunk ended exactly on the last entry: nothing was added between cut() and flushChunk): an empty trailing table is produced, whose prefix scan fails with unexpected EOF")
								}
							}
						}
						s.V[1] = pathsim.Unknown
						return []pathsim.State{s}
					case ev.Callee == types.Object(add):
						s.A &^= wroteAll
						s.A |= sinceCut
						s.V[2], s.V[4], s.V[5], s.V[6] = pathsim.False, pathsim.Unknown, pathsim.Unknown, pathsim.Unknown
						if len(ev.Call.Args) == 1 && entryVars[prog.IdentObj(c.Info, ev.Call.Args[0])] {
							if s.V[0] == pathsim.False {
								c.Violate(ev.Pos, "[add-after-end] an entry is added after the input reported its end (the zero entry)")
							}
							s.A &^= pending
						}
						return []pathsim.State{s}
					case cut != nil && ev.Callee == cut:
						nCut++
						s.A &^= sinceCut
						s.A |= fresh
						return []pathsim.State{s}
					case ev.Callee == types.Object(flush):
						nFlush++
						if s.A&fresh == 0 {
							c.Violate(ev.Pos, "[stale-cut] flushChunk is reachable without a cut() since the previous flushChunk: it reuses the previous table's cut point and chunk size (a cut point beyond the buffer panics, one inside it splits at the wrong entry and the buffer's size accounting drifts)")
						}
						s.A &^= fresh | atSet | szSet
						// what stays behind: the entries added after the cut
						if s.A&sinceCut != 0 {
							s.V[2], s.V[4], s.V[5], s.V[6] = pathsim.False, pathsim.Unknown, pathsim.Unknown, pathsim.Unknown
						} else {
							s.V[2], s.V[4], s.V[5], s.V[6] = pathsim.True, pathsim.True, pathsim.True, pathsim.True
						}
						return []pathsim.State{s}
					}
				case pathsim.EvAssign:
					// tables = append(tables, t): tables is non-empty from here on
					if len(ev.Lhs) == 1 && len(ev.Rhs) == 1 && tablesObj != nil && prog.IdentObj(c.Info, ev.Lhs[0]) == tablesObj {
						if call, isCall := ast.Unparen(ev.Rhs[0]).(*ast.CallExpr); isCall {
							if id, isID := call.Fun.(*ast.Ident); isID && id.Name == "append" {
								s.V[3] = pathsim.True
							}
						}
					}
					for i, l := range ev.Lhs {
						if len(ev.Rhs) != len(ev.Lhs) {
							break
						}
						switch prog.SelField(c.Info, l) {
						case cutAt:
							s.A &^= atSet | fresh
							if call, isCall := ast.Unparen(ev.Rhs[i]).(*ast.CallExpr); isCall && len(call.Args) == 1 {
								if id, isID := call.Fun.(*ast.Ident); isID && id.Name == "len" && prog.SelField(c.Info, call.Args[0]) == entries {
									s.A |= atSet
								}
							}
						case chunk:
							s.A &^= szSet | fresh
							if prog.SelField(c.Info, ev.Rhs[i]) == size {
								s.A |= szSet
							}
						default:
							continue
						}
						if s.A&atSet != 0 && s.A&szSet != 0 {
							s.A |= fresh
							s.A &^= sinceCut
							nCut++
						}
					}
					return []pathsim.State{s}
				case pathsim.EvReturn:
					if c.Depth > 0 {
						return nil
					}
					success := false
					switch len(ev.Results) {
					case 2:
						if tv, ok := c.Info.Types[ev.Results[1]]; ok && tv.IsNil() {
							success = true
						}
					case 0:
						success = s.V[1] != pathsim.True // bare return of named results: unless the error is known non-nil
					case 1:
						// `return c.writeRemaining(tables, buffer)`: the helper's results, one of which may be
						// the success (its body was simulated in place just before)
						if _, isCall := ast.Unparen(ev.Results[0]).(*ast.CallExpr); isCall {
							success = true
						}
					}
					if !success {
						return nil
					}
					if s.A&pending != 0 && s.V[0] != pathsim.False {
						c.Violate(ev.Pos, "[entry-dropped] WriteRun returns successfully although a pulled entry was not added to the buffer")
					}
					if s.V[0] == pathsim.False {
						nEnd++
						if s.A&wroteAll == 0 && s.V[2] != pathsim.True {
							c.Violate(ev.Pos, "[end-of-input] at the end of the input WriteRun returns successfully without having written everything that is buffered (Write(buffer.all())): the tail of the run is lost")
						}
					} else {
						c.Violate(ev.Pos, "[early-success] WriteRun returns successfully although the input was not seen to end: the rest of the run is never written")
					}
				}
				return nil
			}
			r.Sim(f.Decl, f.Name()+":split-protocol", spec)
			if nFlush == 0 || nCut == 0 {
				r.Fail(f.Name()+":split-protocol:shape", f.Decl.Pos(), nil, "WriteRun no longer cuts and flushes chunks (cut: %d, flushChunk: %d call sites)", nCut, nFlush)
			}
			if nEnd == 0 {
				r.Fail(f.Name()+":end-of-input", f.Decl.Pos(), nil, "WriteRun has no successful return at the end of its input")
			}

			// cut(): cutAt = len(entries), chunkSize = size
			cf := cutFn
			okAt, okSz := cf == nil, cf == nil
			var cutBody ast.Node = &ast.BlockStmt{}
			ci := info
			if cf != nil {
				cutBody, ci = cf.Decl.Body, cf.Pkg.TypesInfo
			}
			inspect(cutBody, func(nd ast.Node) bool {
				as, ok := nd.(*ast.AssignStmt)
				if !ok || len(as.Lhs) != len(as.Rhs) {
					return true
				}
				for i, l := range as.Lhs {
					switch prog.SelField(ci, l) {
					case cutAt:
						if call, isCall := ast.Unparen(as.Rhs[i]).(*ast.CallExpr); isCall && len(call.Args) == 1 {
							if id, isID := call.Fun.(*ast.Ident); isID && id.Name == "len" && prog.SelField(ci, call.Args[0]) == entries {
								okAt = true
							}
						}
					case chunk:
						if prog.SelField(ci, as.Rhs[i]) == size {
							okSz = true
						}
					}
				}
				return true
			})
			if cf != nil {
				r.Site(cf.Decl.Pos(), "entryBuffer.cut records count and size")
			}
			if !okAt || !okSz {
				r.Fail(cf.Name()+":records", cf.Decl.Pos(), nil, "entryBuffer.cut must record cutAt = len(entries) and chunkSize = size together (cutAt ok=%v, chunkSize ok=%v)", okAt, okSz)
			}

			// flushChunk(): returns entries[:cutAt], keeps entries[cutAt:], size -= chunkSize
			ff := r.P.Func("dkv/sst", "(*entryBuffer).flushChunk")
			fi := ff.Pkg.TypesInfo
			okKeep, okSub, okRet := false, false, false
			isSlice := func(e ast.Expr, low, high bool) bool {
				se, ok := ast.Unparen(deref(fi, e)).(*ast.SliceExpr)
				if !ok || prog.SelField(fi, se.X) != entries || se.Max != nil {
					return false
				}
				if low {
					return se.High == nil && se.Low != nil && prog.SelField(fi, se.Low) == cutAt
				}
				if high {
					lowZero := se.Low == nil
					if se.Low != nil {
						if tv, has := fi.Types[se.Low]; has && tv.Value != nil && tv.Value.String() == "0" {
							lowZero = true
						}
					}
					return lowZero && se.High != nil && prog.SelField(fi, se.High) == cutAt
				}
				return false
			}
			inspect(ff.Decl.Body, func(nd ast.Node) bool {
				switch x := nd.(type) {
				case *ast.AssignStmt:
					if len(x.Lhs) == 1 && len(x.Rhs) == 1 {
						if prog.SelField(fi, x.Lhs[0]) == entries && x.Tok.String() == "=" && isSlice(x.Rhs[0], true, false) {
							okKeep = true
						}
						if prog.SelField(fi, x.Lhs[0]) == size {
							switch x.Tok.String() {
							case "-=":
								okSub = prog.SelField(fi, x.Rhs[0]) == chunk
							case "=":
								if b, isBin := ast.Unparen(x.Rhs[0]).(*ast.BinaryExpr); isBin && b.Op.String() == "-" {
									okSub = prog.SelField(fi, b.X) == size && prog.SelField(fi, b.Y) == chunk
								}
							}
						}
					}
				case *ast.ReturnStmt:
					if len(x.Results) == 1 {
						if call, isCall := isCallToNamed(fi, x.Results[0], "slices", "Values"); isCall && len(call.Args) == 1 && isSlice(call.Args[0], false, true) {
							okRet = true
						}
						// the same sequence written out: func(yield) { for _, e := range chunk { if !yield(e) { return } } }
						if lit, isLit := ast.Unparen(x.Results[0]).(*ast.FuncLit); isLit && len(lit.Body.List) == 1 && lit.Type.Params != nil && len(lit.Type.Params.List) == 1 && len(lit.Type.Params.List[0].Names) == 1 {
							yield := fi.Defs[lit.Type.Params.List[0].Names[0]]
							if rs, isRange := lit.Body.List[0].(*ast.RangeStmt); isRange && rs.Value != nil && isSlice(rs.X, false, true) {
								elem := prog.IdentObjPlain(fi, rs.Value)
								yields, other := 0, false
								ast.Inspect(rs.Body, func(m ast.Node) bool {
									switch y := m.(type) {
									case *ast.CallExpr:
										if prog.IdentObjPlain(fi, y.Fun) == yield && len(y.Args) == 1 && prog.IdentObjPlain(fi, y.Args[0]) == elem {
											yields++
										} else {
											other = true
										}
									case *ast.BranchStmt:
										other = true
									}
									return true
								})
								if yields == 1 && !other && elem != nil {
									okRet = true
								}
							}
						}
					}
				}
				return true
			})
			r.Site(ff.Decl.Pos(), "entryBuffer.flushChunk splits at the cut point")
			if !okKeep || !okSub || !okRet {
				r.Fail(ff.Name()+":split", ff.Decl.Pos(), nil, "entryBuffer.flushChunk must hand out entries[:cutAt], keep entries[cutAt:] and subtract chunkSize (returns prefix=%v, keeps suffix=%v, subtracts=%v): otherwise entries at the boundary are lost or written twice", okRet, okKeep, okSub)
			}
		}})
}
