package rules

import (
	"go/ast"
	"go/token"
	"go/types"
	"sort"
	"strings"

	"verif/checker/internal/pathsim"
	"verif/checker/internal/prog"
)

func init() {
	prop("C16",
		"(a) the cursor snapshot precedes the barrier in the runner's output stream and reads / snapshots share one goroutine (C01.d, C01.e, C04.b); (b) a Kinesis split is handed out only if it is unassigned and none of its parents is still known; (c) the split tracker's maps and last-assigned id are accessed under its mutex; (d) restoring splitter state does not dereference nil and the shard (de)serialisers cover every field; (e) shards are recorded as assigned after, and only for, the assignment that was sent, and a restored shard reaches the assignment once; (f) split assignment and splitter start errors are not dropped (C15.e); (h) the last-assigned position, which is checkpointed and is where shard listing resumes, moves only when shards are handed out or a checkpoint is loaded.",
		"'assigned to exactly one runner' as a uniqueness property of runtime collections beyond the structural sources of duplication named above; the Kinesis API's behaviour.")

	register(&Obligation{ID: "C16.b", Props: []string{"C16"}, Template: "guard",
		Desc: "kinesis.(*SplitTracker).AvailableSplits appends a split only if it is not assigned and (has no parents or none of its parents is known); the parent test looks the parent ids up in knownSplits",
		Run: func(r *Run) {
			f := r.P.Func("connectors/kinesis", "(*SplitTracker).AvailableSplits")
			info := f.Pkg.TypesInfo
			assigned := r.P.Field("connectors/kinesis", "SplitTracker", "assignedSplits")
			known := r.P.Field("connectors/kinesis", "SplitTracker", "knownSplits")
			parents := r.P.Field("connectors/kinesis", "SourceSplitterShard", "ParentIDs")
			var loop *ast.RangeStmt
			inspect(f.Decl.Body, func(nd ast.Node) bool {
				if rs, ok := nd.(*ast.RangeStmt); ok && loop == nil && exprUsesField(info, rs.X, known) {
					loop = rs
				}
				return true
			})
			if loop == nil {
				r.Error("undecided: AvailableSplits no longer ranges over knownSplits")
				return
			}
			split := prog.IdentObj(info, loop.Value)
			var assignedVar, parentVar types.Object
			var result types.Object
			// "some parent of this split is known": slices.ContainsFunc(split.ParentIDs, <looks it up in knownSplits>)
			isParentTest := func(e ast.Expr) bool {
				call, ok := isCallToNamed(info, e, "slices", "ContainsFunc")
				if !ok || len(call.Args) != 2 {
					return false
				}
				sel, ok := ast.Unparen(call.Args[0]).(*ast.SelectorExpr)
				if !ok || prog.SelField(info, sel) != parents || derefObj(info, sel.X) != split {
					return false
				}
				lit := funcValueLit(r.P, info, call.Args[1]) // a literal or an extracted predicate method
				return lit != nil && exprUsesField(info, lit.Body, known)
			}
			inlineParentTest := false
			inspect(loop.Body, func(nd ast.Node) bool {
				if e, ok := nd.(ast.Expr); ok && isParentTest(e) {
					inlineParentTest = true
				}
				return true
			})
			inspect(loop.Body, func(nd ast.Node) bool {
				as, ok := nd.(*ast.AssignStmt)
				if !ok || len(as.Rhs) != 1 {
					return true
				}
				if len(as.Lhs) == 2 {
					if ix, ok := ast.Unparen(as.Rhs[0]).(*ast.IndexExpr); ok && prog.SelField(info, ix.X) == assigned {
						assignedVar = prog.IdentObj(info, as.Lhs[1])
						// key is split.ShardID
						if sel, ok := ast.Unparen(ix.Index).(*ast.SelectorExpr); !ok || prog.IdentObj(info, sel.X) != split || sel.Sel.Name != "ShardID" {
							r.Fail(f.Name()+":assigned-key", as.Pos(), nil, "the assigned test does not look up the split's own shard id")
						}
					}
				}
				if len(as.Lhs) == 1 {
					if isParentTest(deref(info, as.Rhs[0])) {
						parentVar = prog.IdentObj(info, as.Lhs[0])
					}
					if call, ok := ast.Unparen(as.Rhs[0]).(*ast.CallExpr); ok {
						if id, ok := call.Fun.(*ast.Ident); ok && id.Name == "append" {
							result = prog.IdentObj(info, as.Lhs[0])
						}
					}
				}
				return true
			})
			if assignedVar == nil || (parentVar == nil && !inlineParentTest) || result == nil {
				r.Fail(f.Name()+":shape", loop.Pos(), nil, "AvailableSplits must test (assigned) and (some parent is known) for every split (assigned test=%v, parent test=%v)", assignedVar != nil, parentVar != nil || inlineParentTest)
				return
			}
			atoms := []guardAtom{
				identAtom("assigned", func() types.Object { return assignedVar }),
				{Name: "len(ParentIDs)==0", Match: func(c *pathsim.Ctx, e ast.Expr) (bool, bool) { return lenIsZeroExpr(c.Info, e, parents) }},
				{Name: "hasKnownParent", Match: func(c *pathsim.Ctx, e ast.Expr) (bool, bool) {
					if parentVar != nil && prog.IdentObj(c.Info, e) == parentVar {
						return false, true
					}
					return false, isParentTest(ast.Unparen(e)) // the test written in the condition itself
				}},
			}
			spec := &pathsim.Spec{AtomDeps: map[int][]types.Object{0: {assignedVar}}}
			if parentVar != nil {
				spec.AtomDeps[2] = []types.Object{parentVar}
			}
			spec.Atom = func(c *pathsim.Ctx, e ast.Expr) (int, bool, bool) {
				for i, a := range atoms {
					if neg, ok := a.Match(c, e); ok {
						return i, neg, true
					}
				}
				return 0, false, false
			}
			n := 0
			spec.Step = func(c *pathsim.Ctx, s pathsim.State, ev *pathsim.Event) []pathsim.State {
				if ev.Kind == pathsim.EvRangeIter && ev.Node == ast.Node(loop) {
					s.V[0], s.V[1], s.V[2] = pathsim.Unknown, pathsim.Unknown, pathsim.Unknown
					return []pathsim.State{s}
				}
				if ev.Kind == pathsim.EvAssign && len(ev.Lhs) == 1 && prog.IdentObj(c.Info, ev.Lhs[0]) == result && ev.Node.Pos() > loop.Pos() && ev.Node.End() < loop.End() {
					n++
					if s.V[0] != pathsim.False {
						c.Violate(ev.Pos, "[assigned-handed-out] a split is returned as available without having established that it is not already assigned: it would get a second reader")
					}
					if !(s.V[1] == pathsim.True || s.V[2] == pathsim.False) {
						c.Violate(ev.Pos, "[child-before-parent] a split with parents is returned as available without having established that none of its parents is still known: a child shard would be read before its parent is finished")
					}
				}
				return nil
			}
			r.Sim(f.Decl, f.Name(), spec)
			r.Site(loop.Pos(), "AvailableSplits selection loop")
			if n == 0 {
				r.Fail(f.Name()+":never-available", loop.Pos(), nil, "AvailableSplits never returns a split")
			}
			// RemoveSplits forgets finished splits in both collections; NotifySplitsFinished calls it
			rm := r.P.Func("connectors/kinesis", "(*SplitTracker).RemoveSplits")
			ri := rm.Pkg.TypesInfo
			delKnown, delAssigned := false, false
			inspect(rm.Decl.Body, func(nd ast.Node) bool {
				if call, ok := nd.(*ast.CallExpr); ok {
					if sel, ok := ast.Unparen(call.Fun).(*ast.SelectorExpr); ok && sel.Sel.Name == "Delete" && prog.SelField(ri, sel.X) == known {
						delKnown = true
					}
					if id, ok := call.Fun.(*ast.Ident); ok && id.Name == "delete" && len(call.Args) == 2 && prog.SelField(ri, call.Args[0]) == assigned {
						delAssigned = true
					}
				}
				return true
			})
			r.Site(rm.Decl.Pos(), "RemoveSplits forgets finished splits")
			if !delKnown || !delAssigned {
				r.Fail(rm.Name()+":shape", rm.Decl.Pos(), nil, "RemoveSplits must remove a finished split from knownSplits (so children become available) and from assignedSplits")
			}
			nf := r.P.Func("connectors/kinesis", "(*SourceSplitter).NotifySplitsFinished")
			r.Site(nf.Decl.Pos(), "NotifySplitsFinished removes the finished splits")
			if !r.exprCalls(nf.Pkg.TypesInfo, nf.Decl.Body, rm.Obj) {
				r.Fail(nf.Name()+":remove", nf.Decl.Pos(), nil, "NotifySplitsFinished does not remove the finished splits from the tracker: their children are never handed out")
			}
		}})

	register(&Obligation{ID: "C16.c", Props: []string{"C16"}, Template: "guarded-by",
		Desc: "kinesis.SplitTracker.knownSplits, assignedSplits and LastAssignedSplitID are accessed only with SplitTracker.mu held (the splitter's discovery goroutine, the job's task queue and the checkpoint path all use the tracker)",
		Run: func(r *Run) {
			r.guardedBy(guardSpec{
				Type:  "SplitTracker",
				Mutex: r.P.Field("connectors/kinesis", "SplitTracker", "mu"),
				Fields: []*types.Var{r.P.Field("connectors/kinesis", "SplitTracker", "knownSplits"), r.P.Field("connectors/kinesis", "SplitTracker", "assignedSplits"),
					r.P.Field("connectors/kinesis", "SplitTracker", "LastAssignedSplitID")},
				Exempt: map[string]string{"connectors/kinesis.NewSplitTracker": "constructor"},
			})
			r.Floor(6, "functions touching the split tracker's state")
		}})

	register(&Obligation{ID: "C16.d", Props: []string{"C16"}, Template: "nil-receiver+field-coverage",
		Desc: "the Kinesis splitter's restore path calls no method on a pointer that is still its zero value, and SourceSplitterShard.toProto / newSourceSplitterShardFromProto cover every field in both directions",
		Run: func(r *Run) {
			pkg := r.P.Pkg("connectors/kinesis")
			n := 0
			for _, file := range pkg.Syntax {
				for _, d := range file.Decls {
					fd, ok := d.(*ast.FuncDecl)
					if !ok || fd.Body == nil {
						continue
					}
					n++
					r.nilReceiverCheck(pkg.TypesInfo, fd)
				}
			}
			r.SiteStr("connectors/kinesis: nil-receiver scan of every function")
			if n < 20 {
				r.Error("connectors/kinesis: only %d functions scanned", n)
			}
			fp := r.P.Func("connectors/kinesis", "newSourceSplitterShardFromProto")
			tp := r.P.Func("connectors/kinesis", "SourceSplitterShard.toProto")
			shardT := r.P.TypeName("connectors/kinesis", "SourceSplitterShard")
			pbT := r.P.TypeName("connectors/kinesis/kinesispb", "SourceSplitterShard")
			r.checkLiteralSetsAllFields(fp, shardT, nil)
			r.checkLiteralSetsAllFields(tp, pbT, map[string]bool{"state": true, "sizeCache": true, "unknownFields": true})
			// cursors: Start restores them from split states; assignShards uses them
		}})

	register(&Obligation{ID: "C16.f", Props: []string{"C16"}, Template: "field-correspondence",
		Desc: "the three Kinesis shard converters fill every destination field from its own source field: id from id, hash-range start from start and end from end, parents from BOTH ParentShardId and AdjacentParentShardId (each dereferenced under its own nil test) — a merged shard must wait for both parents, and a restored shard must describe the same shard",
		Run: func(r *Run) {
			fk := r.P.Func("connectors/kinesis", "newSourceSplitterShardFromKinesis")
			fp := r.P.Func("connectors/kinesis", "newSourceSplitterShardFromProto")
			tp := r.P.Func("connectors/kinesis", "SourceSplitterShard.toProto")
			r.fieldCorrespondence(fk, map[string][]string{"ShardID": {"ShardId"}, "Start": {"StartingHashKey"}, "End": {"EndingHashKey"}, "ParentIDs": {"ParentShardId", "AdjacentParentShardId"}})
			r.nilGuardedDerefs(fk)
			r.fieldCorrespondence(fp, map[string][]string{"ShardID": {"ShardId"}, "Start": {"Start"}, "End": {"End"}, "ParentIDs": {"ParentShardIds"}})
			r.fieldCorrespondence(tp, map[string][]string{"ShardId": {"ShardID"}, "Start": {"Start"}, "End": {"End"}, "ParentShardIds": {"ParentIDs"}})
			r.Floor(12, "destination fields compared")
		}})

	register(&Obligation{ID: "C16.g", Props: []string{"C16", "C01"}, Template: "value-identity",
		Desc: "the splitter's resume point round-trips unchanged: Checkpoint() records SplitTracker.LastAssigned() itself (not a value derived from the assigned list) next to AssignedSplits(); Start() hands exactly splitterState.LastAssignedShardId and the restored shards to LoadSplits, which stores it; shard discovery always resumes after splitTracker.LastAssigned(); TrackAssigned advances it to the last shard of the batch just assigned",
		Run: func(r *Run) {
			ck := r.P.Func("connectors/kinesis", "(*SourceSplitter).Checkpoint")
			info := ck.Pkg.TypesInfo
			tracker := r.P.Field("connectors/kinesis", "SourceSplitter", "splitTracker")
			lastAssigned := r.P.FuncObj("connectors/kinesis", "(*SplitTracker).LastAssigned")
			assignedSplits := r.P.FuncObj("connectors/kinesis", "(*SplitTracker).AssignedSplits")
			toProto := r.P.FuncObj("connectors/kinesis", "SourceSplitterShard.toProto")
			stateT := r.P.TypeName("connectors/kinesis/kinesispb", "SplitterState")
			onTracker := func(in *types.Info, e ast.Expr, fn *types.Func) bool {
				call, ok := ast.Unparen(e).(*ast.CallExpr)
				if !ok || r.P.CalleeFunc(in, call) != fn {
					return false
				}
				sel, ok := ast.Unparen(call.Fun).(*ast.SelectorExpr)
				return ok && prog.SelField(in, sel.X) == tracker
			}
			found := false
			inspect(ck.Decl.Body, func(nd ast.Node) bool {
				cl, ok := nd.(*ast.CompositeLit)
				if !ok || info.TypeOf(cl) != stateT.Type() {
					return true
				}
				found = true
				for _, el := range cl.Elts {
					kv, ok := el.(*ast.KeyValueExpr)
					if !ok {
						continue
					}
					switch kv.Key.(*ast.Ident).Name {
					case "LastAssignedShardId":
						r.Site(kv.Pos(), "Checkpoint: LastAssignedShardId <- splitTracker.LastAssigned()")
						if !onTracker(info, resolveLocal(info, ck.Decl.Body, kv.Value), lastAssigned) {
							r.Fail(ck.Name()+":last-assigned", kv.Pos(), nil, "the checkpointed resume point is not splitTracker.LastAssigned() itself: if it is lower than the last shard ever assigned, finished shards are listed and handed out again after a restore; if higher, shards are skipped")
						}
					case "AssignedShards":
						r.Site(kv.Pos(), "Checkpoint: AssignedShards <- AssignedSplits() converted index by index")
						dst := prog.IdentObj(info, kv.Value)
						okFill := false
						for _, lp := range fullLoopsOver(info, ck.Decl.Body, func(e ast.Expr) bool { return onTracker(info, e, assignedSplits) }) {
							var iv types.Object
							switch x := lp.Stmt.(type) {
							case *ast.RangeStmt:
								iv = prog.IdentObj(info, x.Key)
							case *ast.ForStmt:
								if as, ok := x.Init.(*ast.AssignStmt); ok && len(as.Lhs) == 1 {
									iv = prog.IdentObj(info, as.Lhs[0])
								}
							}
							for _, st := range lp.Body.List {
								as, ok := st.(*ast.AssignStmt)
								if !ok || len(as.Lhs) != 1 || len(as.Rhs) != 1 {
									continue
								}
								ix, ok := ast.Unparen(as.Lhs[0]).(*ast.IndexExpr)
								call, ok2 := ast.Unparen(as.Rhs[0]).(*ast.CallExpr)
								if ok && ok2 && dst != nil && prog.IdentObj(info, ix.X) == dst && iv != nil && prog.IdentObj(info, ix.Index) == iv && r.P.CalleeFunc(info, call) == toProto {
									if sel, ok := ast.Unparen(call.Fun).(*ast.SelectorExpr); ok && lp.IsElem(sel.X) {
										okFill = true
									}
								}
							}
						}
						if !okFill {
							r.Fail(ck.Name()+":assigned-shards", kv.Pos(), nil, "the checkpointed shard list is not splitTracker.AssignedSplits() converted element by element")
						}
					}
				}
				return true
			})
			if !found {
				r.Error("undecided: SourceSplitter.Checkpoint no longer builds a SplitterState literal")
			}
			// Start: LoadSplits(restored shards, state.LastAssignedShardId)
			st := r.P.Func("connectors/kinesis", "(*SourceSplitter).Start")
			si := st.Pkg.TypesInfo
			load := r.P.Func("connectors/kinesis", "(*SplitTracker).LoadSplits")
			lastF := r.P.Field("connectors/kinesis/kinesispb", "SplitterState", "LastAssignedShardId")
			getLast := r.P.FuncObj("connectors/kinesis/kinesispb", "(*SplitterState).GetLastAssignedShardId")
			okLoad := false
			inspect(st.Decl.Body, func(nd ast.Node) bool {
				call, ok := nd.(*ast.CallExpr)
				if !ok || r.P.CalleeFunc(si, call) != load.Obj || len(call.Args) != 2 {
					return true
				}
				r.Site(call.Pos(), "Start: LoadSplits(restored shards, state.LastAssignedShardId)")
				a := resolveLocal(si, st.Decl.Body, call.Args[1])
				if prog.SelField(si, a) == lastF {
					okLoad = true
				}
				if c2, ok := ast.Unparen(a).(*ast.CallExpr); ok && r.P.CalleeFunc(si, c2) == getLast {
					okLoad = true
				}
				return true
			})
			if !okLoad {
				r.Fail(st.Name()+":load-last", st.Decl.Pos(), nil, "Start does not hand the checkpointed LastAssignedShardId to SplitTracker.LoadSplits: discovery after a restore would start from the wrong shard")
			}
			// LoadSplits stores its second parameter
			lastID := r.P.Field("connectors/kinesis", "SplitTracker", "LastAssignedSplitID")
			okStore := false
			inspect(load.Decl.Body, func(nd ast.Node) bool {
				if as, ok := nd.(*ast.AssignStmt); ok && len(as.Lhs) == 1 && len(as.Rhs) == 1 && prog.SelField(load.Pkg.TypesInfo, as.Lhs[0]) == lastID && r.isParam(load, as.Rhs[0], 1) {
					okStore = true
				}
				return true
			})
			r.Site(load.Decl.Pos(), "LoadSplits stores the restored resume point")
			if !okStore {
				r.Fail(load.Name()+":store-last", load.Decl.Pos(), nil, "LoadSplits does not store the restored last-assigned id")
			}
			// discovery resumes after splitTracker.LastAssigned()
			disc := r.P.FuncObj("connectors/kinesis", "(*SourceSplitter).discoverShards")
			// ... and in Start that is still the restored value: nothing that advances the tracker's
			// resume point (TrackAssigned, reached through assignShards) runs between LoadSplits and
			// the listing, or the listing restarts below the checkpointed id and finished shards
			// come back
			writers := r.reachingWriters(lastID, st.Pkg.PkgPath)
			delete(writers, load.Obj)
			r.Sim(st.Decl, st.Name(), &pathsim.Spec{Step: func(c *pathsim.Ctx, s pathsim.State, ev *pathsim.Event) []pathsim.State {
				if ev.Kind != pathsim.EvCall || ev.Call == nil {
					return nil
				}
				fn := c.P.CalleeFunc(c.Info, ev.Call)
				switch {
				case fn == load.Obj:
					s.A = 1
					return []pathsim.State{s}
				case fn == disc:
					s.A = 2
					return []pathsim.State{s}
				case fn != nil && writers[fn.Origin()] && s.A == 1:
					c.Violate(ev.Pos, "[resume-point-overwritten] %s advances the tracker's last-assigned id between LoadSplits and the first shard listing: the listing starts below the checkpointed resume point and shards finished before the checkpoint are listed and assigned again", prog.ShortFuncName(fn))
				}
				return nil
			}})
			nDisc := 0
			for _, u := range r.P.Uses(disc) {
				path := r.P.PathTo(u.File, u.Ident.Pos(), u.Ident.Pos())
				for k := len(path) - 1; k >= 0; k-- {
					call, ok := path[k].(*ast.CallExpr)
					if !ok {
						continue
					}
					if r.P.CalleeFunc(u.Pkg.TypesInfo, call) != disc || len(call.Args) != 2 {
						break
					}
					nDisc++
					r.Site(call.Pos(), "discoverShards(ctx, splitTracker.LastAssigned())")
					if !onTracker(u.Pkg.TypesInfo, deref(u.Pkg.TypesInfo, call.Args[1]), lastAssigned) {
						r.Fail(u.Scope.Name(r.P)+":discover-from", call.Pos(), nil, "shard discovery does not resume after splitTracker.LastAssigned()")
					}
					break
				}
			}
			if nDisc < 2 {
				r.Error("floor: %d discoverShards call sites (2 confirmed by hand)", nDisc)
			}
			// TrackAssigned: LastAssignedSplitID = shards[len(shards)-1].ShardID
			ta := r.P.Func("connectors/kinesis", "(*SplitTracker).TrackAssigned")
			ti := ta.Pkg.TypesInfo
			okAdv := false
			inspect(ta.Decl.Body, func(nd ast.Node) bool {
				as, ok := nd.(*ast.AssignStmt)
				if !ok || len(as.Lhs) != 1 || len(as.Rhs) != 1 || prog.SelField(ti, as.Lhs[0]) != lastID {
					return true
				}
				r.Site(as.Pos(), "TrackAssigned advances the resume point to the last shard of the batch")
				if sel, ok := ast.Unparen(as.Rhs[0]).(*ast.SelectorExpr); ok && sel.Sel.Name == "ShardID" {
					if ix, ok := ast.Unparen(sel.X).(*ast.IndexExpr); ok && r.isParam(ta, ix.X, 0) {
						if l, ok := linearOf(ti, nil, ix.Index); ok && len(l) == 2 && l[""] == -1 {
							okAdv = true
						}
					}
				}
				// the last element carried through the loop: v := st.LastAssignedSplitID; for _, s := range
				// shards { v = s.ShardID }; st.LastAssignedSplitID = v
				if v := prog.IdentObjPlain(ti, as.Rhs[0]); v != nil {
					initOK, loopOK, other := false, false, false
					loops := fullLoopsOver(ti, ta.Decl.Body, func(e ast.Expr) bool { return r.isParam(ta, e, 0) })
					ast.Inspect(ta.Decl.Body, func(m ast.Node) bool {
						a2, isAs := m.(*ast.AssignStmt)
						if !isAs || len(a2.Lhs) != 1 || len(a2.Rhs) != 1 || prog.IdentObjPlain(ti, a2.Lhs[0]) != v {
							return true
						}
						switch {
						case prog.SelField(ti, a2.Rhs[0]) == lastID:
							initOK = true
						default:
							inLoop := false
							for _, lp := range loops {
								if a2.Pos() > lp.Body.Pos() && a2.End() < lp.Body.End() {
									if s2, isSel := ast.Unparen(a2.Rhs[0]).(*ast.SelectorExpr); isSel && s2.Sel.Name == "ShardID" && lp.IsElem(s2.X) {
										inLoop = true
									}
								}
							}
							if inLoop {
								loopOK = true
							} else {
								other = true
							}
						}
						return true
					})
					if initOK && loopOK && !other {
						okAdv = true
					}
				}
				return true
			})
			if !okAdv {
				r.Fail(ta.Name()+":advance", ta.Decl.Pos(), nil, "TrackAssigned does not set LastAssignedSplitID to shards[len(shards)-1].ShardID")
			}
		}})

	register(&Obligation{ID: "C16.e", Props: []string{"C16", "C01"}, Template: "must-precede+value-identity",
		Desc: "kinesis.(*SourceSplitter).assignShards sends the assignment and then records exactly those shards as assigned; Start hands restored shards to the assignment once (it does not concatenate two overlapping sources); every assigned split carries its restored cursor",
		Run: func(r *Run) {
			f := r.P.Func("connectors/kinesis", "(*SourceSplitter).assignShards")
			info := f.Pkg.TypesInfo
			track := r.P.FuncObj("connectors/kinesis", "(*SplitTracker).TrackAssigned")
			hooks := r.P.Field("connectors/kinesis", "SourceSplitter", "hooks")
			isAssign := func(c *pathsim.Ctx, ev *pathsim.Event) bool {
				if ev.Kind != pathsim.EvCall || ev.Call == nil {
					return false
				}
				sel, ok := ast.Unparen(ev.Call.Fun).(*ast.SelectorExpr)
				return ok && sel.Sel.Name == "AssignSplits" && prog.SelField(c.Info, sel.X) == hooks
			}
			n := r.mustPrecede(f.Decl, f.Name(), "hooks.AssignSplits", "TrackAssigned", isAssign, callTo(track))
			if n == 0 {
				r.Fail(f.Name()+":no-track", f.Decl.Pos(), nil, "assignShards never records the shards as assigned: they are handed out again at the next discovery tick")
			}
			inspect(f.Decl.Body, func(nd ast.Node) bool {
				if call, ok := nd.(*ast.CallExpr); ok && r.P.CalleeFunc(info, call) == track {
					if len(call.Args) != 1 || !r.isParam(f, call.Args[0], 1) {
						r.Fail(f.Name()+":track-arg", call.Pos(), nil, "TrackAssigned is not given the shards that were just assigned")
					}
				}
				if rs, ok := nd.(*ast.RangeStmt); ok && r.isParam(f, rs.X, 1) {
					inspect(rs.Body, func(m ast.Node) bool {
						if b, ok := m.(*ast.BranchStmt); ok {
							r.Fail(f.Name()+":partial", b.Pos(), nil, "assignShards can skip shards (%s) that it nevertheless records as assigned", b.Tok)
						}
						return true
					})
				}
				return true
			})
			// cursor restored
			cursors := r.P.Field("connectors/kinesis", "SourceSplitter", "cursors")
			okCursor := false
			inspect(f.Decl.Body, func(nd ast.Node) bool {
				if kv, ok := nd.(*ast.KeyValueExpr); ok {
					if id, ok := kv.Key.(*ast.Ident); ok && id.Name == "Cursor" && exprUsesField(info, kv.Value, cursors) {
						okCursor = true
					}
				}
				return true
			})
			r.Site(f.Decl.Pos(), "assigned splits carry the checkpointed cursor")
			if !okCursor {
				r.Fail(f.Name()+":cursor", f.Decl.Pos(), nil, "assigned splits do not carry the cursor restored from the checkpoint: after recovery the shard is read from the beginning again")
			}
			// Start
			st := r.P.Func("connectors/kinesis", "(*SourceSplitter).Start")
			si := st.Pkg.TypesInfo
			load := r.P.FuncObj("connectors/kinesis", "(*SplitTracker).LoadSplits")
			avail := r.P.FuncObj("connectors/kinesis", "(*SplitTracker).AvailableSplits")
			var loaded types.Object
			inspect(st.Decl.Body, func(nd ast.Node) bool {
				if call, ok := nd.(*ast.CallExpr); ok && r.P.CalleeFunc(si, call) == load && len(call.Args) >= 1 {
					loaded = prog.IdentObj(si, call.Args[0])
				}
				return true
			})
			r.Site(st.Decl.Pos(), "Start: restored shards reach the assignment once")
			inspect(st.Decl.Body, func(nd ast.Node) bool {
				as, ok := nd.(*ast.AssignStmt)
				if !ok || len(as.Rhs) != 1 {
					return true
				}
				call, ok := ast.Unparen(as.Rhs[0]).(*ast.CallExpr)
				if !ok {
					return true
				}
				if id, ok := call.Fun.(*ast.Ident); ok && id.Name == "append" && len(call.Args) >= 2 && loaded != nil && prog.IdentObj(si, call.Args[0]) == loaded {
					for _, a := range call.Args[1:] {
						if r.exprCalls(si, a, avail) {
							r.Fail(st.Name()+":restored-twice", as.Pos(), nil, "Start appends AvailableSplits() to the restored shards, but the restored shards were loaded into the tracker as known and unassigned, so AvailableSplits() returns them again: every restored shard is assigned twice and its records are read twice")
						}
					}
				}
				return true
			})
			// cursors restored from the split states before the first assignment
			assignFn := f.Obj
			var cursorPos, assignPos token.Pos
			inspect(st.Decl.Body, func(nd ast.Node) bool {
				if as, ok := nd.(*ast.AssignStmt); ok && len(as.Lhs) == 1 {
					if ix, ok := ast.Unparen(as.Lhs[0]).(*ast.IndexExpr); ok && prog.SelField(si, ix.X) == cursors {
						cursorPos = as.Pos()
					}
				}
				if call, ok := nd.(*ast.CallExpr); ok && r.P.CalleeFunc(si, call) == assignFn && assignPos == token.NoPos {
					assignPos = call.Pos()
				}
				return true
			})
			if cursorPos == token.NoPos || assignPos == token.NoPos || cursorPos > assignPos {
				r.Fail(st.Name()+":cursor-restore", st.Decl.Pos(), nil, "Start must load the checkpointed cursors before the first shard assignment")
			}
		}})
}

// lenIsZeroExpr is lenIsZero for a field reached through any base expression (x.f where
// x is a local), matching by field object only.
func lenIsZeroExpr(info *types.Info, e ast.Expr, f *types.Var) (neg bool, ok bool) {
	return lenIsZero(info, e, f)
}

// nilReceiverCheck flags `var x *T` (no initialiser) followed by a method call x.M(...)
// with no assignment to x in between.
func (r *Run) nilReceiverCheck(info *types.Info, fd *ast.FuncDecl) {
	type decl struct {
		obj types.Object
		pos token.Pos
	}
	var decls []decl
	inspect(fd.Body, func(nd ast.Node) bool {
		if vs, ok := nd.(*ast.ValueSpec); ok && len(vs.Values) == 0 {
			for _, n := range vs.Names {
				if o := info.Defs[n]; o != nil {
					if _, isPtr := o.Type().Underlying().(*types.Pointer); isPtr {
						decls = append(decls, decl{o, n.Pos()})
					}
				}
			}
		}
		return true
	})
	for _, d := range decls {
		var firstAssign token.Pos = token.Pos(1 << 40)
		inspect(fd.Body, func(nd ast.Node) bool {
			switch x := nd.(type) {
			case *ast.AssignStmt:
				for _, l := range x.Lhs {
					if prog.IdentObj(info, l) == d.obj && x.Pos() < firstAssign {
						firstAssign = x.Pos()
					}
				}
			case *ast.UnaryExpr:
				if x.Op == token.AND && prog.IdentObj(info, x.X) == d.obj && x.Pos() < firstAssign {
					firstAssign = x.Pos() // address taken: may be set through the pointer
				}
			}
			return true
		})
		inspect(fd.Body, func(nd ast.Node) bool {
			call, ok := nd.(*ast.CallExpr)
			if !ok || call.Pos() > firstAssign {
				return true
			}
			sel, ok := ast.Unparen(call.Fun).(*ast.SelectorExpr)
			if !ok || prog.IdentObj(info, sel.X) != d.obj {
				return true
			}
			if fn, ok := info.Uses[sel.Sel].(*types.Func); ok {
				fnName := fd.Name.Name
				r.Fail("connectors/kinesis."+fnName+":nil-receiver:"+d.obj.Name(), call.Pos(), nil, "%s.%s is called on %q, which is still the nil pointer it was declared as: this panics (or silently does nothing) whenever the function runs — here on every restore of splitter state that carries assigned shards", d.obj.Name(), fn.Name(), d.obj.Name())
			}
			return true
		})
	}
}

// checkLiteralSetsAllFields: the composite literal of type tn returned by f sets every
// field of the struct (except skip).
func (r *Run) checkLiteralSetsAllFields(f *prog.FuncInfo, tn *types.TypeName, skip map[string]bool) {
	info := f.Pkg.TypesInfo
	st := tn.Type().Underlying().(*types.Struct)
	found := false
	inspect(f.Decl.Body, func(nd ast.Node) bool {
		cl, ok := nd.(*ast.CompositeLit)
		if !ok || info.TypeOf(cl) != tn.Type() {
			return true
		}
		found = true
		r.Site(cl.Pos(), f.Name()+": literal of "+tn.Name()+" sets every field")
		set := map[string]bool{}
		for _, el := range cl.Elts {
			if kv, ok := el.(*ast.KeyValueExpr); ok {
				if id, ok := kv.Key.(*ast.Ident); ok {
					set[id.Name] = true
				}
			}
		}
		for i := 0; i < st.NumFields(); i++ {
			n := st.Field(i).Name()
			if skip[n] || set[n] {
				continue
			}
			r.Fail(f.Name()+":field:"+n, cl.Pos(), nil, "%s does not carry %s.%s: the value is lost in a checkpoint / restore round trip", f.Name(), tn.Name(), n)
		}
		return true
	})
	if !found {
		r.Error("undecided: %s no longer returns a %s literal", f.Name(), tn.Name())
	}
}

// fieldCorrespondence: the composite literal returned by f fills destination leaf field D
// from exactly the source fields want[D] (names of fields selected in the value expression,
// followed through locals of f: assignments to the local, method calls on it, appends).
// Only names in the union of want's values are considered source names.
func (r *Run) fieldCorrespondence(f *prog.FuncInfo, want map[string][]string) {
	info := f.Pkg.TypesInfo
	sources := map[string]bool{}
	for _, l := range want {
		for _, s := range l {
			sources[s] = true
		}
	}
	var mentions func(e ast.Node, seen map[types.Object]bool, out map[string]bool)
	flows := func(obj types.Object, seen map[types.Object]bool, out map[string]bool) {
		inspect(f.Decl.Body, func(nd ast.Node) bool {
			switch x := nd.(type) {
			case *ast.AssignStmt:
				for _, l := range x.Lhs {
					if prog.IdentObj(info, l) == obj {
						for _, rh := range x.Rhs {
							mentions(rh, seen, out)
						}
					}
				}
			case *ast.CallExpr:
				if sel, ok := ast.Unparen(x.Fun).(*ast.SelectorExpr); ok && prog.IdentObj(info, sel.X) == obj {
					for _, a := range x.Args {
						mentions(a, seen, out)
					}
				}
			}
			return true
		})
	}
	mentions = func(e ast.Node, seen map[types.Object]bool, out map[string]bool) {
		inspect(e, func(nd ast.Node) bool {
			switch x := nd.(type) {
			case *ast.SelectorExpr:
				if v, ok := info.Uses[x.Sel].(*types.Var); ok && v.IsField() && sources[v.Name()] {
					out[v.Name()] = true
				}
				if fn, ok := info.Uses[x.Sel].(*types.Func); ok && len(fn.Name()) > 3 && fn.Name()[:3] == "Get" && sources[fn.Name()[3:]] {
					out[fn.Name()[3:]] = true // generated protobuf getter
				}
			case *ast.Ident:
				if v, ok := info.Uses[x].(*types.Var); ok && !v.IsField() && v.Pos() > f.Decl.Body.Pos() && v.Pos() < f.Decl.Body.End() && !seen[v] {
					seen[v] = true
					flows(v, seen, out)
				}
			}
			return true
		})
	}
	var lit *ast.CompositeLit
	inspect(f.Decl.Body, func(nd ast.Node) bool {
		if rs, ok := nd.(*ast.ReturnStmt); ok && len(rs.Results) >= 1 && lit == nil {
			e := ast.Unparen(rs.Results[0])
			if u, ok := e.(*ast.UnaryExpr); ok && u.Op == token.AND {
				e = u.X
			}
			if cl, ok := e.(*ast.CompositeLit); ok {
				lit = cl
			}
		}
		return true
	})
	if lit == nil {
		r.Error("undecided: %s no longer returns a composite literal", f.Name())
		return
	}
	got := map[string]map[string]bool{}
	var walk func(cl *ast.CompositeLit)
	walk = func(cl *ast.CompositeLit) {
		for _, el := range cl.Elts {
			kv, ok := el.(*ast.KeyValueExpr)
			if !ok {
				continue
			}
			id, ok := kv.Key.(*ast.Ident)
			if !ok {
				continue
			}
			v := ast.Unparen(kv.Value)
			if u, ok := v.(*ast.UnaryExpr); ok && u.Op == token.AND {
				v = u.X
			}
			if inner, ok := v.(*ast.CompositeLit); ok {
				walk(inner)
				continue
			}
			m := map[string]bool{}
			mentions(kv.Value, map[types.Object]bool{}, m)
			got[id.Name] = m
			r.Site(kv.Pos(), f.Name()+": "+id.Name+" <- "+joinSet(m))
		}
	}
	walk(lit)
	for d, ws := range want {
		g, ok := got[d]
		if !ok {
			r.Fail(f.Name()+":corr:"+d, lit.Pos(), nil, "%s does not fill %s", f.Name(), d)
			continue
		}
		same := len(g) == len(ws)
		for _, w := range ws {
			if !g[w] {
				same = false
			}
		}
		if !same {
			r.Fail(f.Name()+":corr:"+d, lit.Pos(), nil, "%s fills %s from {%s}; it must be filled from exactly {%s} (a wrong or missing operand here changes which shard / hash range / parents a split stands for)", f.Name(), d, joinSet(g), strings.Join(ws, ","))
		}
	}
}

func joinSet(m map[string]bool) string {
	var l []string
	for k := range m {
		l = append(l, k)
	}
	sort.Strings(l)
	return strings.Join(l, ",")
}

// nilGuardedDerefs: inside f, every `*x.F` dereference that sits in the body of an
// `if x.G != nil` uses the guarded field itself (F == G).
func (r *Run) nilGuardedDerefs(f *prog.FuncInfo) {
	info := f.Pkg.TypesInfo
	inspect(f.Decl.Body, func(nd ast.Node) bool {
		is, ok := nd.(*ast.IfStmt)
		if !ok {
			return true
		}
		be, ok := ast.Unparen(is.Cond).(*ast.BinaryExpr)
		if !ok || (be.Op != token.NEQ && be.Op != token.EQL) {
			return true
		}
		if id, ok := ast.Unparen(be.Y).(*ast.Ident); !ok || id.Name != "nil" {
			return true
		}
		g := prog.SelField(info, be.X)
		if g == nil {
			return true
		}
		if be.Op == token.EQL {
			// `if x.F == nil { ... *x.F ... }` dereferences a pointer just established nil
			inspect(is.Body, func(m ast.Node) bool {
				if st, ok := m.(*ast.StarExpr); ok && prog.SelField(info, st.X) == g {
					r.Fail(f.Name()+":nil-deref:"+g.Name(), st.Pos(), nil, "%s is dereferenced in the branch where it was just found nil (inverted guard): the field is never recorded when present and the function panics when it is absent", g.Name())
				}
				return true
			})
			return true
		}
		inspect(is.Body, func(m ast.Node) bool {
			st, ok := m.(*ast.StarExpr)
			if !ok {
				return true
			}
			fl := prog.SelField(info, st.X)
			if fl == nil {
				return true
			}
			r.Site(st.Pos(), f.Name()+": *"+fl.Name()+" under the nil test of "+g.Name())
			if fl != g && types.Identical(fl.Type(), g.Type()) {
				r.Fail(f.Name()+":guarded-deref:"+g.Name(), st.Pos(), nil, "the branch guarded by %s != nil dereferences %s instead: %s is never recorded (and %s may be nil here)", g.Name(), fl.Name(), g.Name(), fl.Name())
			}
			return true
		})
		return true
	})
}
