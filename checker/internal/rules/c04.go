package rules

import (
	"go/ast"
	"go/token"
	"go/types"
	"sort"

	"verif/checker/internal/pathsim"
	"verif/checker/internal/prog"
)

// oneofWrappers returns the generated wrapper types (pointer receivers) implementing the
// unexported oneof interface iface of package pkgRel.
func (r *Run) oneofWrappers(pkgRel, iface string) []*types.TypeName {
	pkg := r.P.Pkg(pkgRel)
	itn, ok := pkg.Types.Scope().Lookup(iface).(*types.TypeName)
	if !ok {
		prog.Fatalf("unresolved anchor: oneof interface %s.%s", pkgRel, iface)
	}
	it := itn.Type().Underlying().(*types.Interface)
	var out []*types.TypeName
	for _, n := range pkg.Types.Scope().Names() {
		tn, ok := pkg.Types.Scope().Lookup(n).(*types.TypeName)
		if !ok || tn == itn {
			continue
		}
		if _, isStruct := tn.Type().Underlying().(*types.Struct); !isStruct {
			continue
		}
		if types.Implements(types.NewPointer(tn.Type()), it) {
			out = append(out, tn)
		}
	}
	sort.Slice(out, func(i, j int) bool { return out[i].Name() < out[j].Name() })
	return out
}

// exhaustiveTypeSwitch (T17): every type switch in f whose cases mention one of the
// wrappers mentions all of them.
func (r *Run) exhaustiveTypeSwitch(f *prog.FuncInfo, wrappers []*types.TypeName, what string) int {
	info := f.Pkg.TypesInfo
	n := 0
	for _, ts := range typeSwitches(info, f.Decl.Body) {
		covered := map[*types.TypeName]bool{}
		any := false
		for _, cl := range ts.Body.List {
			for _, e := range cl.(*ast.CaseClause).List {
				t := info.TypeOf(e)
				if p, ok := t.(*types.Pointer); ok {
					t = p.Elem()
				}
				if named, ok := t.(*types.Named); ok {
					for _, w := range wrappers {
						if named.Obj() == w {
							covered[w] = true
							any = true
						}
					}
				}
			}
		}
		if !any {
			continue
		}
		n++
		r.Site(ts.Pos(), f.Name()+": type switch over "+what)
		for _, w := range wrappers {
			if !covered[w] {
				r.Fail(f.Name()+":switch-missing:"+w.Name(), ts.Pos(), nil, "the type switch over %s in %s has no case for %s: such events are dropped or rejected", what, f.Name(), w.Name())
			}
		}
	}
	return n
}

func init() {
	prop("C04",
		"(a) every record read from the source produces exactly one placeholder on the output stream and one entry in the key-by fetcher, for every element of a read batch; (b) the output stream has one consumer and only the event loop produces on it, and key-by results are consumed only to fill placeholders; (c) every event kind is handled by each dispatching type switch; (d) operators receive events only through the per-operator batcher, whose single sender goroutine serialises timed-out and full batches; (e,f) the reordering fetcher reserves output positions atomically with taking a batch and the reorder buffer's counters are locked (C20.d, C20.e); (g) records are routed with the key space's range index; (h) at the end of input nothing stays behind in a batcher: the key-by batcher is flushed before SourceComplete is queued, the operators' batchers after it was broadcast, for every operator; the runner's watermark accounts only for records it already routed (C11.c); plus C20.a-c for the batcher itself.",
		"behaviour under back-pressure and timing; that the handler's KeyEventBatch returns one result list per input record (handler contract).")

	register(&Obligation{ID: "C04.a", Props: []string{"C04"}, Template: "exactly-once",
		Desc: "SourceRunner.sendKeyEvent puts exactly one placeholder on outputStream and adds the record exactly once to the key-by fetcher on every path; processEvents calls it for every element of a read batch",
		Run: func(r *Run) {
			f := r.P.Func("workers/sourcerunner", "(*SourceRunner).sendKeyEvent")
			out := r.P.Field("workers/sourcerunner", "SourceRunner", "outputStream")
			add := r.P.FuncObj("batching", "(*ReorderFetcher).Add")
			keyed := r.P.TypeName("proto/workerpb", "Event_KeyedEvent")
			spec := &pathsim.Spec{Step: func(c *pathsim.Ctx, s pathsim.State, ev *pathsim.Event) []pathsim.State {
				if ev.Kind == pathsim.EvSend && prog.SelField(c.Info, ev.Chan) == out {
					if !mentionsType(c.Info, freshValue(c.Info, ev.Value, ev.Pos), keyed) {
						c.Violate(ev.Pos, "[placeholder-kind] sendKeyEvent queues something other than a keyed-event placeholder")
					}
					s.A++
					return []pathsim.State{s}
				}
				if callTo(add)(c, ev) {
					if len(ev.Call.Args) != 2 || !r.isParam(f, ev.Call.Args[1], 1) {
						c.Violate(ev.Pos, "[add-arg] the key-by fetcher is not given the record passed to sendKeyEvent")
					}
					if s.A == 0 {
						c.Violate(ev.Pos, "[add-before-placeholder] the record is handed to the key-by fetcher before its placeholder is queued: its result can be consumed by an earlier placeholder")
					}
					s.B++
					return []pathsim.State{s}
				}
				if ev.Kind == pathsim.EvReturn || ev.Kind == pathsim.EvExit {
					if s.A != 1 || s.B != 1 {
						c.Violate(ev.Pos, "[count] sendKeyEvent returns with %d placeholders and %d fetcher entries for one record (must be 1 and 1): placeholders and key-by results would no longer pair up", s.A, s.B)
					}
				}
				return nil
			}}
			r.Sim(f.Decl, f.Name(), spec)
			r.Site(f.Decl.Pos(), "sendKeyEvent: one placeholder, one fetcher entry")
			// processEvents: loop over the read events calls sendKeyEvent for each element
			pe := r.P.Func("workers/sourcerunner", "(*SourceRunner).processEvents")
			info := pe.Pkg.TypesInfo
			found := false
			inspect(pe.Decl.Body, func(nd ast.Node) bool {
				rs, ok := nd.(*ast.RangeStmt)
				if !ok || !r.exprCalls(info, rs.Body, f.Obj) {
					return true
				}
				// innermost loop containing the call
				inner := false
				inspect(rs.Body, func(m ast.Node) bool {
					if r2, ok := m.(*ast.RangeStmt); ok && r.exprCalls(info, r2.Body, f.Obj) {
						inner = true
					}
					return true
				})
				if inner {
					return true
				}
				found = true
				r.Site(rs.Pos(), "processEvents: per-record loop")
				elem := prog.IdentObj(info, rs.Value)
				// source is the slice returned by the read function
				src := resolveLocal(info, pe.Decl.Body, rs.X)
				if oc, idx := valueOrigin(info, rs.X, 0); oc != nil && idx == 0 {
					src = oc // (through an extracted helper that calls the read function and returns its batch)
				}
				if call, ok := ast.Unparen(src).(*ast.CallExpr); !ok || len(call.Args) != 0 {
					r.Fail(pe.Name()+":loop-source", rs.Pos(), nil, "the per-record loop does not range over the batch returned by the read function")
				}
				// exactly-once per iteration, with the element
				spec := &pathsim.Spec{Step: func(c *pathsim.Ctx, s pathsim.State, ev *pathsim.Event) []pathsim.State {
					if ev.Kind == pathsim.EvRangeIter && ev.Node == ast.Node(rs) {
						if s.A == 1 {
							c.Violate(rs.Pos(), "[skipped-record] an iteration of the per-record loop can end without forwarding the record")
						}
						s.A = 1
						return []pathsim.State{s}
					}
					if ev.Kind == pathsim.EvLoopExit && ev.Node == ast.Node(rs) {
						if s.A == 1 {
							c.Violate(rs.Pos(), "[skipped-record] the per-record loop can be left without forwarding the current record")
						}
						s.A = 0
						return []pathsim.State{s}
					}
					if callTo(f.Obj)(c, ev) && s.A >= 1 {
						if s.A == 2 {
							c.Violate(ev.Pos, "[duplicate-record] a record is forwarded twice in one iteration")
						}
						if len(ev.Call.Args) != 2 || prog.IdentObj(c.Info, ev.Call.Args[1]) != elem {
							c.Violate(ev.Pos, "[wrong-record] sendKeyEvent is not given the loop's current record")
						}
						s.A = 2
						return []pathsim.State{s}
					}
					return nil
				}}
				r.Sim(pe.Decl, pe.Name(), spec)
				return true
			})
			if !found {
				r.Fail(pe.Name()+":no-record-loop", pe.Decl.Pos(), nil, "processEvents no longer forwards the records of a read batch through sendKeyEvent")
			}
		}})

	register(&Obligation{ID: "C04.b", Props: []string{"C04", "C01", "C16"}, Template: "who-may(channel)",
		Desc: "SourceRunner.outputStream: sends only from the event loop (processEvents, sendKeyEvent), a single receive site (the sender goroutine started by HandleDeploy); ReorderFetcher.Output is received only in sendOperatorEvent, exactly in the keyed-event case; sendKeyEvent is called only from processEvents",
		Run: func(r *Run) {
			out := r.P.Field("workers/sourcerunner", "SourceRunner", "outputStream")
			nRecv := 0
			for _, fa := range r.fieldAccesses(out) {
				if prog.IsTestSupport(fa.Use.Pkg.PkgPath) {
					continue
				}
				where := r.scopeName(fa.Use.Scope)
				r.Site(fa.Use.Ident.Pos(), "outputStream "+fa.Kind+" in "+where)
				switch fa.Kind {
				case "send":
					if where != "workers/sourcerunner.(*SourceRunner).processEvents" && where != "workers/sourcerunner.(*SourceRunner).sendKeyEvent" {
						r.Fail("outputStream-send<-"+where, fa.Use.Ident.Pos(), nil, "an event is queued on outputStream from %s, outside the source runner's event loop: it can overtake or split records and barriers", where)
					}
					if fa.Use.Scope != nil && fa.Use.Scope.Lit != nil {
						r.Fail("outputStream-send<-"+where+"$lit", fa.Use.Ident.Pos(), nil, "an event is queued on outputStream from a closure in %s (another goroutine)", where)
					}
				case "recv", "range":
					nRecv++
					if where != "workers/sourcerunner.(*SourceRunner).HandleDeploy" {
						r.Fail("outputStream-recv<-"+where, fa.Use.Ident.Pos(), nil, "outputStream is consumed in %s: a second consumer reorders events between operators", where)
					}
				case "composite-key":
					if where != "workers/sourcerunner.New" {
						r.Fail("outputStream-init<-"+where, fa.Use.Ident.Pos(), nil, "outputStream is replaced in %s", where)
					}
				case "len":
				default:
					r.Fail("outputStream-"+fa.Kind+"<-"+where, fa.Use.Ident.Pos(), nil, "outputStream escapes (%s) in %s", fa.Kind, where)
				}
			}
			if nRecv != 1 {
				r.Fail("outputStream-consumers", out.Pos(), nil, "outputStream must have exactly one receive site (found %d)", nRecv)
			}
			outF := r.P.Field("batching", "ReorderFetcher", "Output")
			for _, fa := range r.fieldAccesses(outF) {
				if prog.IsTestSupport(fa.Use.Pkg.PkgPath) {
					continue
				}
				where := r.scopeName(fa.Use.Scope)
				r.Site(fa.Use.Ident.Pos(), "ReorderFetcher.Output "+fa.Kind+" in "+where)
				switch fa.Kind {
				case "recv", "range":
					if where != "workers/sourcerunner.(*SourceRunner).sendOperatorEvent" {
						r.Fail("Output-recv<-"+where, fa.Use.Ident.Pos(), nil, "key-by results are consumed in %s: placeholders would be paired with the wrong results", where)
					}
				case "send":
					if where != "batching.(*ReorderFetcher).flush" {
						r.Fail("Output-send<-"+where, fa.Use.Ident.Pos(), nil, "results are sent to Output from %s, bypassing the reorder buffer", where)
					}
				}
			}
			// in sendOperatorEvent the receive happens exactly once, in the keyed-event case
			so := r.P.Func("workers/sourcerunner", "(*SourceRunner).sendOperatorEvent")
			keyed := r.P.TypeName("proto/workerpb", "Event_KeyedEvent")
			si := so.Pkg.TypesInfo
			inspect(so.Decl.Body, func(nd ast.Node) bool {
				ts, ok := nd.(*ast.TypeSwitchStmt)
				if !ok {
					return true
				}
				for _, cl := range ts.Body.List {
					cc := cl.(*ast.CaseClause)
					isKeyed := false
					for _, e := range cc.List {
						if mentionsType(si, e, keyed) {
							isKeyed = true
						}
					}
					recvs := 0
					inspect(cc, func(m ast.Node) bool {
						if u, ok := m.(*ast.UnaryExpr); ok && u.Op.String() == "<-" && prog.SelField(si, u.X) == outF {
							recvs++
						}
						return true
					})
					if isKeyed && recvs != 1 {
						r.Fail(so.Name()+":placeholder-join", cc.Pos(), nil, "the keyed-event placeholder must be joined with exactly one key-by result (found %d receives)", recvs)
					}
					if !isKeyed && recvs != 0 {
						r.Fail(so.Name()+":foreign-join", cc.Pos(), nil, "a non-keyed event consumes a key-by result")
					}
				}
				return true
			})
			ske := r.P.FuncObj("workers/sourcerunner", "(*SourceRunner).sendKeyEvent")
			r.whoMayCall(ske, false, map[string]string{"workers/sourcerunner.(*SourceRunner).processEvents": ""})
			soe := r.P.FuncObj("workers/sourcerunner", "(*SourceRunner).sendOperatorEvent")
			r.whoMayCall(soe, false, map[string]string{"workers/sourcerunner.(*SourceRunner).HandleDeploy": "the single sender goroutine"})
		}})

	register(&Obligation{ID: "C04.c", Props: []string{"C04", "C02"}, Template: "exhaustive-switch",
		Desc: "every type switch that dispatches worker events covers all generated oneof wrappers of workerpb.Event (sendOperatorEvent, Operator.HandleEvent) and PutOneOfEvent builds every wrapper",
		Run: func(r *Run) {
			ws := r.oneofWrappers("proto/workerpb", "isEvent_Event")
			if len(ws) < 4 {
				r.Error("expected >= 4 oneof wrappers of workerpb.Event, found %d", len(ws))
				return
			}
			n := 0
			n += r.exhaustiveTypeSwitch(r.P.Func("workers/sourcerunner", "(*SourceRunner).sendOperatorEvent"), ws, "workerpb.Event")
			n += r.exhaustiveTypeSwitch(r.P.Func("workers/operator", "(*Operator).HandleEvent"), ws, "workerpb.Event")
			if n < 2 {
				r.Error("expected a dispatching type switch in sendOperatorEvent and in HandleEvent, found %d", n)
			}
			// PutOneOfEvent constructs every wrapper
			po := r.P.Func("proto", "PutOneOfEvent")
			built := map[*types.TypeName]bool{}
			inspect(po.Decl.Body, func(nd ast.Node) bool {
				if cl, ok := nd.(*ast.CompositeLit); ok {
					if named, ok := po.Pkg.TypesInfo.TypeOf(cl).(*types.Named); ok {
						built[named.Obj()] = true
					}
				}
				return true
			})
			r.Site(po.Decl.Pos(), "PutOneOfEvent builds every wrapper")
			for _, w := range ws {
				if !built[w] {
					r.Fail(po.Name()+":missing:"+w.Name(), po.Decl.Pos(), nil, "PutOneOfEvent cannot wrap %s: such events cannot be broadcast", w.Name())
				}
			}
			// state mutation oneof (C03.c)
		}})

	register(&Obligation{ID: "C04.h", Props: []string{"C04"}, Template: "must-precede",
		Desc: "end of input leaves nothing behind in a batcher, whatever the batch size / time-out: the source runner flushes the key-event batcher before it queues SourceComplete, and after SourceComplete was broadcast it flushes the pending batch of every operator (operatorCluster.flush visits all of them)",
		Run: func(r *Run) {
			pe := r.P.Func("workers/sourcerunner", "(*SourceRunner).processEvents")
			so := r.P.Func("workers/sourcerunner", "(*SourceRunner).sendOperatorEvent")
			out := r.P.Field("workers/sourcerunner", "SourceRunner", "outputStream")
			kec := r.P.Field("workers/sourcerunner", "SourceRunner", "keyEventChannel")
			opsF := r.P.Field("workers/sourcerunner", "SourceRunner", "operators")
			scT := r.P.TypeName("proto/workerpb", "Event_SourceComplete")
			clusterFlush := r.P.Func("workers/sourcerunner", "(*operatorCluster).flush")
			boFlush := r.P.FuncObj("workers/sourcerunner", "(*batchingOperator).Flush")
			isSC := func(info *types.Info, e ast.Node) bool {
				found := false
				inspectValue(info, e.(ast.Expr), func(m ast.Node) bool {
					if cl, ok := m.(*ast.CompositeLit); ok {
						if named, ok := info.TypeOf(cl).(*types.Named); ok && named.Obj() == scT {
							found = true
						}
					}
					return !found
				})
				return found
			}
			isKeyFlush := func(c *pathsim.Ctx, ev *pathsim.Event) bool {
				if ev.Kind != pathsim.EvCall || ev.Call == nil || ev.Go {
					return false
				}
				sel, ok := ast.Unparen(ev.Call.Fun).(*ast.SelectorExpr)
				return ok && sel.Sel.Name == "Flush" && prog.SelField(c.Info, sel.X) == kec
			}
			isSendSC := func(c *pathsim.Ctx, ev *pathsim.Event) bool {
				return ev.Kind == pathsim.EvSend && prog.SelField(c.Info, ev.Chan) == out && isSC(c.Info, ev.Value)
			}
			if n := r.mustPrecede(pe.Decl, pe.Name(), "keyEventChannel.Flush", "outputStream<-SourceComplete", isKeyFlush, isSendSC); n == 0 {
				r.Error("undecided: processEvents no longer queues SourceComplete on outputStream")
			}
			// ... and ReorderFetcher.Flush does flush the batch in progress
			rfFlush := r.P.Func("batching", "(*ReorderFetcher).Flush")
			rfflush := r.P.FuncObj("batching", "(*ReorderFetcher).flush")
			r.Site(rfFlush.Decl.Pos(), "ReorderFetcher.Flush flushes the current batch")
			if !r.alwaysDoes(rfFlush, callTo(rfflush)) {
				r.Fail(rfFlush.Name()+":flushes", rfFlush.Decl.Pos(), nil, "ReorderFetcher.Flush can return without flushing the batch in progress: the records keyed last never leave the batcher when no time-out is configured")
			}
			// sendOperatorEvent, SourceComplete case: the normal return is preceded by operators.flush()
			info := so.Pkg.TypesInfo
			var clause *ast.CaseClause
			inspect(so.Decl.Body, func(nd ast.Node) bool {
				if cc, ok := nd.(*ast.CaseClause); ok {
					for _, e := range cc.List {
						if p, ok := info.TypeOf(e).(*types.Pointer); ok {
							if named, ok := p.Elem().(*types.Named); ok && named.Obj() == scT {
								clause = cc
							}
						}
					}
				}
				return true
			})
			if clause == nil {
				r.Error("undecided: sendOperatorEvent has no case for SourceComplete")
				return
			}
			r.Site(clause.Pos(), "sendOperatorEvent: SourceComplete broadcast, then every operator flushed")
			isClusterFlush := func(c *pathsim.Ctx, ev *pathsim.Event) bool {
				if !callTo(clusterFlush.Obj)(c, ev) {
					return false
				}
				sel, ok := ast.Unparen(ev.Call.Fun).(*ast.SelectorExpr)
				return ok && prog.SelField(c.Info, sel.X) == opsF
			}
			// on every way out of the case that does not carry an error (return nil, or return err on a
			// path where err was found nil / not tested non-nil) the operators were flushed
			nOK := 0
			// atom 0: "the error variable tested inside the case is non-nil" (a local of the case or the
			// function's named result); an assignment to it resets the knowledge
			var errObjs []types.Object
			ast.Inspect(clause, func(nd ast.Node) bool {
				if e, ok := nd.(ast.Expr); ok {
					if x, _, ok := pathsim.IsNilCompare(info, e); ok {
						if o := prog.IdentObjPlain(info, x); o != nil && isErrorType(o.Type()) {
							errObjs = append(errObjs, o)
						}
					}
				}
				return true
			})
			scSpec := &pathsim.Spec{InlineCalls: true, AtomDeps: map[int][]types.Object{0: errObjs}}
			scSpec.Atom = func(c *pathsim.Ctx, e ast.Expr) (int, bool, bool) {
				if x, notNil, ok := pathsim.IsNilCompare(c.Info, e); ok {
					if o := prog.IdentObjPlain(c.Info, x); o != nil && isErrorType(o.Type()) && x.Pos() > clause.Pos() && x.Pos() < clause.End() {
						return 0, !notNil, true
					}
				}
				return 0, false, false
			}
			scSpec.Step = func(c *pathsim.Ctx, s pathsim.State, ev *pathsim.Event) []pathsim.State {
				if isClusterFlush(c, ev) {
					s.A, s.B = 1, 1
					return []pathsim.State{s}
				}
				if ev.Kind == pathsim.EvCall && ev.Pos > clause.Pos() && ev.Pos < clause.End() && s.B == 0 {
					s.B = 1 // the path goes through the SourceComplete case
					return []pathsim.State{s}
				}
				// returns of this path: inside the case, or the function's shared exit after the switch
				if ev.Kind != pathsim.EvReturn || s.B == 0 || len(ev.Results) > 1 {
					return nil
				}
				if len(ev.Results) == 0 {
					// bare return of a named error result: success unless the error is known non-nil
					if s.V[0] == pathsim.True {
						return nil
					}
					nOK++
					if s.A == 0 {
						c.Violate(ev.Pos, "[flush-at-source-complete] sendOperatorEvent reports success for SourceComplete without having flushed the operators' pending batches: the last records of a bounded source stay in a batch that no size or time-out trigger will ever send")
					}
					return nil
				}
				tv, ok := c.Info.Types[ev.Results[0]]
				switch {
				case ok && tv.IsNil():
				case prog.IdentObj(c.Info, ev.Results[0]) != nil && s.V[0] != pathsim.True:
				default:
					return nil // an error is returned
				}
				nOK++
				if s.A == 0 {
					c.Violate(ev.Pos, "[flush-at-source-complete] sendOperatorEvent reports success for SourceComplete without having flushed the operators' pending batches: the last records of a bounded source stay in a batch that no size or time-out trigger will ever send")
				}
				return nil
			}
			r.Sim(so.Decl, so.Name(), scSpec)
			if nOK == 0 {
				r.Fail(so.Name()+":source-complete-return", clause.Pos(), nil, "the SourceComplete case has no successful return")
			}
			// operatorCluster.flush: every operator, no early exit
			ci := clusterFlush.Pkg.TypesInfo
			operatorsF := r.P.Field("workers/sourcerunner", "operatorCluster", "operators")
			okAll := false
			for _, lp := range fullLoopsOver(ci, clusterFlush.Decl.Body, func(e ast.Expr) bool { return prog.SelField(ci, e) == operatorsF }) {
				inspect(lp.Body, func(m ast.Node) bool {
					if call, ok := m.(*ast.CallExpr); ok && r.P.CalleeFunc(ci, call) == boFlush {
						if sel, ok := ast.Unparen(call.Fun).(*ast.SelectorExpr); ok && lp.IsElem(sel.X) {
							okAll = true
						}
					}
					if b, ok := m.(*ast.BranchStmt); ok {
						r.Fail(clusterFlush.Name()+":partial", b.Pos(), nil, "operatorCluster.flush can skip operators (%s)", b.Tok)
					}
					return true
				})
			}
			r.Site(clusterFlush.Decl.Pos(), "operatorCluster.flush visits every operator")
			if !okAll {
				r.Fail(clusterFlush.Name()+":all", clusterFlush.Decl.Pos(), nil, "operatorCluster.flush does not flush every operator's batcher: the last records of a bounded source stay in a batch that no size or time-out trigger will ever send")
			}
		}})

	register(&Obligation{ID: "C04.d", Props: []string{"C04", "C02"}, Template: "who-may+confinement",
		Desc: "proto.Operator.HandleEventBatch is called only by the single sender goroutine of newBatchingOperator (and the RPC plumbing); routeEvent / broadcastEvent reach operators only through batchingOperator.HandleEvent; the batches channel has one receiver",
		Run: func(r *Run) {
			heb := r.P.FuncObj("proto", "Operator.HandleEventBatch")
			n := r.whoMayCall(heb, false, map[string]string{
				"workers/sourcerunner.newBatchingOperator": "the sender goroutine",
			})
			if n < 1 {
				r.Error("expected HandleEventBatch call sites in the sender goroutine (timed-out and full batches), found %d", n)
			}
			// both inside the same go-literal
			nb := r.P.Func("workers/sourcerunner", "newBatchingOperator")
			info := nb.Pkg.TypesInfo
			goLits := 0
			inspect(nb.Decl.Body, func(nd ast.Node) bool {
				gs, ok := nd.(*ast.GoStmt)
				if !ok {
					return true
				}
				goLits++
				lit, ok := ast.Unparen(gs.Call.Fun).(*ast.FuncLit)
				if !ok {
					return true
				}
				cnt := 0
				inspect(lit.Body, func(m ast.Node) bool {
					if call, ok := m.(*ast.CallExpr); ok && r.P.CalleeFunc(info, call) == heb {
						cnt++
					}
					return true
				})
				r.Site(gs.Pos(), "sender goroutine of newBatchingOperator")
				// both arrivals are served: the full batches handed over on `batches` and the time-outs
				// announced on BatchTimedOut (flushed here), by one or two HandleEventBatch calls
				batchesF := r.P.Field("workers/sourcerunner", "batchingOperator", "batches")
				timedOutF := r.P.Field("batching", "EventBatcher", "BatchTimedOut")
				flushFn := r.P.FuncObj("batching", "(*EventBatcher).Flush")
				recvFull, recvTimeout := false, false
				inspect(lit.Body, func(m ast.Node) bool {
					if u, ok := m.(*ast.UnaryExpr); ok && u.Op == token.ARROW {
						switch prog.SelField(info, u.X) {
						case batchesF:
							recvFull = true
						case timedOutF:
							recvTimeout = true
						}
					}
					return true
				})
				flushes := r.exprCalls(info, lit.Body, flushFn)
				if cnt < 1 || !recvFull || !recvTimeout || !flushes {
					r.Fail(nb.Name()+":sender-goroutine", gs.Pos(), nil, "the sender goroutine must deliver both timed-out and full batches (HandleEventBatch calls: %d, receives full batches: %v, receives time-outs: %v, flushes on time-out: %v)", cnt, recvFull, recvTimeout, flushes)
				}
				return true
			})
			if goLits != 1 {
				r.Fail(nb.Name()+":one-sender", nb.Decl.Pos(), nil, "newBatchingOperator must start exactly one sender goroutine per operator (found %d go statements): with more, batches of one operator are delivered concurrently and can overtake each other", goLits)
			}
			// the channels' receivers
			for _, fld := range []struct{ typ, name string }{{"batchingOperator", "batches"}} {
				fv := r.P.Field("workers/sourcerunner", fld.typ, fld.name)
				for _, fa := range r.fieldAccesses(fv) {
					where := r.scopeName(fa.Use.Scope)
					r.Site(fa.Use.Ident.Pos(), fld.name+" "+fa.Kind+" in "+where)
					if (fa.Kind == "recv" || fa.Kind == "range") && where != "workers/sourcerunner.newBatchingOperator" {
						r.Fail(fld.name+"-recv<-"+where, fa.Use.Ident.Pos(), nil, "%s is received in %s", fld.name, where)
					}
					if fa.Kind == "send" && where != "workers/sourcerunner.(*batchingOperator).Flush" {
						r.Fail(fld.name+"-send<-"+where, fa.Use.Ident.Pos(), nil, "%s is sent to in %s", fld.name, where)
					}
				}
			}
			// the hand-off of a full batch is synchronous: the channel is unbuffered, so the caller
			// cannot start the next batch (whose time-out could fire first) while a full batch
			// is still waiting for the sender goroutine
			inspect(nb.Decl.Body, func(nd ast.Node) bool {
				kv, ok := nd.(*ast.KeyValueExpr)
				if !ok {
					return true
				}
				if id, ok := kv.Key.(*ast.Ident); !ok || info.Uses[id] != types.Object(r.P.Field("workers/sourcerunner", "batchingOperator", "batches")) {
					return true
				}
				r.Site(kv.Pos(), "batches channel capacity")
				call, ok := ast.Unparen(kv.Value).(*ast.CallExpr)
				unbuffered := false
				if ok {
					if id, ok := call.Fun.(*ast.Ident); ok && id.Name == "make" {
						if len(call.Args) == 1 {
							unbuffered = true
						} else if tv, ok := info.Types[call.Args[1]]; ok && tv.Value != nil && tv.Value.String() == "0" {
							unbuffered = true
						}
					}
				}
				if !unbuffered {
					r.Fail(nb.Name()+":batches-buffered", kv.Pos(), nil, "the batches channel is buffered: a full batch can wait in the channel while later records fill the next batch, whose time-out the sender's select may serve first - younger records, barriers or watermarks then overtake older records")
				}
				return true
			})
			// operatorCluster reaches operators only through batchingOperator.HandleEvent / Flush
			opF := r.P.Field("workers/sourcerunner", "batchingOperator", "op")
			for _, fa := range r.fieldAccesses(opF) {
				where := r.scopeName(fa.Use.Scope)
				r.Site(fa.Use.Ident.Pos(), "batchingOperator.op "+fa.Kind+" in "+where)
				if fa.Kind != "composite-key" && where != "workers/sourcerunner.newBatchingOperator" {
					r.Fail("batchingOperator.op<-"+where, fa.Use.Ident.Pos(), nil, "the wrapped operator is used directly in %s, bypassing the batcher and its single sender", where)
				}
			}
			// Flush hands the sender exactly what it took out of the batcher; HandleEvent adds then flushes when full
			fl := r.P.Func("workers/sourcerunner", "(*batchingOperator).Flush")
			bflush := r.P.FuncObj("batching", "(*EventBatcher).Flush")
			batches := r.P.Field("workers/sourcerunner", "batchingOperator", "batches")
			okFl := false
			inspect(fl.Decl.Body, func(nd ast.Node) bool {
				if send, ok := nd.(*ast.SendStmt); ok && prog.SelField(fl.Pkg.TypesInfo, send.Chan) == batches {
					if call, ok := ast.Unparen(resolveLocal(fl.Pkg.TypesInfo, fl.Decl.Body, send.Value)).(*ast.CallExpr); ok && r.P.CalleeFunc(fl.Pkg.TypesInfo, call) == bflush {
						okFl = true
					}
				}
				return true
			})
			r.Site(fl.Decl.Pos(), "batchingOperator.Flush forwards the flushed batch")
			if !okFl {
				r.Fail(fl.Name()+":shape", fl.Decl.Pos(), nil, "batchingOperator.Flush must send the batch it takes out of the batcher to the sender goroutine")
			}
			he := r.P.Func("workers/sourcerunner", "(*batchingOperator).HandleEvent")
			badd := r.P.FuncObj("batching", "(*EventBatcher).Add")
			spec := &pathsim.Spec{Step: func(c *pathsim.Ctx, s pathsim.State, ev *pathsim.Event) []pathsim.State {
				if callTo(badd)(c, ev) {
					if len(ev.Call.Args) != 1 || !r.isParam(he, ev.Call.Args[0], 0) {
						c.Violate(ev.Pos, "[add-arg] the batcher is not given the event passed to HandleEvent")
					}
					s.A++
					return []pathsim.State{s}
				}
				if (ev.Kind == pathsim.EvReturn || ev.Kind == pathsim.EvExit) && s.A != 1 {
					c.Violate(ev.Pos, "[add-count] batchingOperator.HandleEvent adds the event %d times (must be exactly once)", s.A)
				}
				return nil
			}}
			r.Sim(he.Decl, he.Name(), spec)
			r.Site(he.Decl.Pos(), "batchingOperator.HandleEvent adds exactly once")
		}})

	register(&Obligation{ID: "C04.g", Props: []string{"C04", "C05"}, Template: "value-identity",
		Desc: "operatorCluster.routeEvent indexes the operators with keySpace.RangeIndex(key) of the record's key; broadcastEvent visits every operator; the cluster's key space is built from the deployed key-group count and the number of operators",
		Run: func(r *Run) {
			f := r.P.TryFunc("workers/sourcerunner", "(*operatorCluster).routeEvent")
			ri := r.P.FuncObj("partitioning", "(*KeySpace).RangeIndex")
			ops := r.P.Field("workers/sourcerunner", "operatorCluster", "operators")
			ok := f == nil // (inlined at its call site: the index expression is checked there by routeCallOf)
			var info *types.Info
			var body ast.Node = &ast.BlockStmt{}
			if f != nil {
				info, body = f.Pkg.TypesInfo, f.Decl.Body
			}
			inspect(body, func(nd ast.Node) bool {
				ix, isIx := nd.(*ast.IndexExpr)
				if !isIx || prog.SelField(info, ix.X) != ops {
					return true
				}
				r.Site(ix.Pos(), "routeEvent operator index")
				def := resolveLocal(info, f.Decl.Body, ix.Index)
				if call, isCall := ast.Unparen(def).(*ast.CallExpr); isCall && r.P.CalleeFunc(info, call) == ri && len(call.Args) == 1 && r.isParam(f, call.Args[0], 0) {
					ok = true
				}
				return true
			})
			if !ok {
				r.Fail(f.Name()+":index", f.Decl.Pos(), nil, "routeEvent does not pick operators[keySpace.RangeIndex(key)]: a record would be delivered to an operator that does not own its key group")
			}
			nRoute := 0
			// routeEvent's key argument at the call site is the event's own key
			so := r.P.Func("workers/sourcerunner", "(*SourceRunner).sendOperatorEvent")
			si := so.Pkg.TypesInfo
			inspect(so.Decl.Body, func(nd ast.Node) bool {
				call, isCall := nd.(*ast.CallExpr)
				if !isCall {
					return true
				}
				keyArg, evArg, isRoute := r.routeCallOf(si, call)
				if !isRoute {
					return true
				}
				nRoute++
				r.Site(call.Pos(), "routeEvent(key, event) arguments")
				sel, isSel := ast.Unparen(keyArg).(*ast.SelectorExpr)
				if !isSel || sel.Sel.Name != "Key" {
					r.Fail(so.Name()+":route-key", call.Pos(), nil, "routeEvent is not given the keyed event's Key")
					return true
				}
				// the routed event wraps the same keyed event
				base := prog.IdentObj(si, sel.X)
				uses := false
				inspect(evArg, func(m ast.Node) bool {
					if id, ok := m.(*ast.Ident); ok && prog.IdentObj(si, id) == base {
						uses = true
					}
					return true
				})
				if base == nil || !uses {
					r.Fail(so.Name()+":route-event", call.Pos(), nil, "the event routed by key is not the event the key was taken from")
				}
				return true
			})
			if nRoute == 0 {
				r.Fail(so.Name()+":no-route", so.Decl.Pos(), nil, "sendOperatorEvent no longer delivers keyed events to operators[keySpace.RangeIndex(key)]")
			}
			// broadcast visits all
			b := r.P.Func("workers/sourcerunner", "(*operatorCluster).broadcastEvent")
			bi := b.Pkg.TypesInfo
			he := r.P.FuncObj("workers/sourcerunner", "(*batchingOperator).HandleEvent")
			okB := false
			inspect(b.Decl.Body, func(nd ast.Node) bool {
				if rs, isRs := nd.(*ast.RangeStmt); isRs && prog.SelField(bi, rs.X) == ops && r.exprCalls(bi, rs.Body, he) {
					okB = true
					inspect(rs.Body, func(m ast.Node) bool {
						if br, ok := m.(*ast.BranchStmt); ok {
							r.Fail(b.Name()+":partial", br.Pos(), nil, "broadcastEvent can skip operators (%s): a barrier or watermark would not reach every operator", br.Tok)
						}
						return true
					})
				}
				return true
			})
			r.Site(b.Decl.Pos(), "broadcastEvent visits every operator")
			if !okB {
				r.Fail(b.Name()+":shape", b.Decl.Pos(), nil, "broadcastEvent no longer delivers to every operator")
			}
			// key space construction
			nc := r.P.Func("workers/sourcerunner", "newOperatorCluster")
			r.checkKeySpaceArgs(nc, func(info *types.Info, a0, a1 ast.Expr) bool {
				kgc := r.P.Field("workers/sourcerunner", "newClusterParams", "keyGroupCount")
				opsP := r.P.Field("workers/sourcerunner", "newClusterParams", "operators")
				return prog.SelField(info, a0) == kgc && isLenOf(info, a1, opsP)
			})
		}})

	register(&Obligation{ID: "C01.e", Props: []string{"C01", "C16", "C04"}, Template: "confinement",
		Desc: "source reads and cursor snapshots happen on the source runner's event loop only: SourceReader.ReadEvents is called only inside the read function built by ReadSourceChannel.Start, that channel is received and the function invoked only in processEvents; SourceReader.Checkpoint only via createCheckpoint from processEvents; SourceReader.AssignSplits only in processEvents",
		Run: func(r *Run) {
			read := r.P.FuncObj("connectors", "SourceReader.ReadEvents")
			ck := r.P.FuncObj("connectors", "SourceReader.Checkpoint")
			as := r.P.FuncObj("connectors", "SourceReader.AssignSplits")
			isConn := func(cs callSite) bool {
				rel := prog.RelPkg(cs.Use.Pkg.PkgPath)
				return rel != "connectors" && len(rel) > 11 && rel[:11] == "connectors/"
			}
			check := func(fn *types.Func, allowed map[string]string) {
				name := prog.ShortFuncName(fn)
				for _, cs := range r.callSitesOf(fn, false) {
					if prog.IsTestSupport(cs.Use.Pkg.PkgPath) || isConn(cs) {
						continue // connector implementations delegating to themselves
					}
					where := r.scopeName(cs.Use.Scope)
					r.Site(cs.Use.Ident.Pos(), name+" used in "+where)
					if _, ok := allowed[where]; !ok {
						r.Fail(name+"<-"+where, cs.Use.Ident.Pos(), nil, "%s is used in %s: reads and cursor snapshots must stay on the source runner's event loop so that a snapshot covers exactly the records already queued", name, where)
					}
				}
			}
			check(read, map[string]string{"connectors.(*ReadSourceChannel).Start": "inside the read function sent on C"})
			// cursor snapshots: through the wrapper createCheckpoint called from the event loop, or (wrapper
			// inlined) directly in the event loop
			check(ck, map[string]string{"workers/sourcerunner.(*SourceRunner).createCheckpoint": "", "workers/sourcerunner.(*SourceRunner).processEvents": ""})
			check(as, map[string]string{"workers/sourcerunner.(*SourceRunner).processEvents": ""})
			if ccf := r.P.TryFunc("workers/sourcerunner", "(*SourceRunner).createCheckpoint"); ccf != nil {
				r.whoMayCall(ccf.Obj, false, map[string]string{"workers/sourcerunner.(*SourceRunner).processEvents": ""})
			}
			// ReadEvents sits inside the literal that is SENT on C (so it runs where it is received)
			cF := r.P.Field("connectors", "ReadSourceChannel", "C")
			for _, cs := range r.callSitesOf(read, false) {
				if r.scopeName(cs.Use.Scope) == "connectors.(*ReadSourceChannel).Start" {
					sc := cs.Use.Scope
					ok := false
					for s := sc; s != nil; s = s.Parent {
						if r.litSentOn(s, cF) {
							ok = true
						}
					}
					if !ok {
						r.Fail("ReadEvents:not-in-sent-literal", cs.Use.Ident.Pos(), nil, "ReadSourceChannel.Start calls ReadEvents on its own goroutine instead of inside the function sent on C: reads would run concurrently with cursor snapshots")
					}
				}
			}
			for _, fa := range r.fieldAccesses(cF) {
				if prog.IsTestSupport(fa.Use.Pkg.PkgPath) {
					continue
				}
				where := r.scopeName(fa.Use.Scope)
				r.Site(fa.Use.Ident.Pos(), "ReadSourceChannel.C "+fa.Kind+" in "+where)
				if (fa.Kind == "recv" || fa.Kind == "range") && where != "workers/sourcerunner.(*SourceRunner).processEvents" {
					r.Fail("ReadSourceChannel.C-recv<-"+where, fa.Use.Ident.Pos(), nil, "read functions are received in %s, outside the event loop", where)
				}
			}
			// processEvents is started once
			pe := r.P.FuncObj("workers/sourcerunner", "(*SourceRunner).processEvents")
			r.whoMayCall(pe, false, map[string]string{"workers/sourcerunner.(*SourceRunner).HandleDeploy": ""})
			r.Floor(8, "reader call sites")
		}})
}

func isLenOf(info *types.Info, e ast.Expr, f *types.Var) bool {
	call, ok := ast.Unparen(e).(*ast.CallExpr)
	if !ok || len(call.Args) != 1 {
		return false
	}
	id, ok := call.Fun.(*ast.Ident)
	if !ok || id.Name != "len" {
		return false
	}
	return prog.SelField(info, call.Args[0]) == f
}

// checkKeySpaceArgs: the function builds its key space with NewKeySpace(a0, a1) such that okArgs holds.
func (r *Run) checkKeySpaceArgs(f *prog.FuncInfo, okArgs func(info *types.Info, a0, a1 ast.Expr) bool) {
	nks := r.P.FuncObj("partitioning", "NewKeySpace")
	info := f.Pkg.TypesInfo
	found := false
	inspect(f.Decl.Body, func(nd ast.Node) bool {
		call, ok := nd.(*ast.CallExpr)
		if !ok || r.P.CalleeFunc(info, call) != nks || len(call.Args) != 2 {
			return true
		}
		found = true
		r.Site(call.Pos(), f.Name()+": NewKeySpace arguments")
		a0, a1 := stripConv(info, call.Args[0]), stripConv(info, call.Args[1])
		if !okArgs(info, a0, a1) {
			r.Fail(f.Name()+":keyspace-args", call.Pos(), nil, "%s builds its key space from something other than (deployed key-group count, number of operators): routing and ownership would disagree", f.Name())
		}
		return true
	})
	if !found {
		r.Fail(f.Name()+":no-keyspace", f.Decl.Pos(), nil, "%s no longer builds a partitioning.KeySpace", f.Name())
	}
}

// routeCallOf recognises "deliver this event to the operator that owns the key" in both spellings:
// cluster.routeEvent(key, event), or - with that two-line helper inlined -
// cluster.operators[cluster.keySpace.RangeIndex(key)].HandleEvent(event). It returns the key and
// the event expression.
func (r *Run) routeCallOf(info *types.Info, call *ast.CallExpr) (key, event ast.Expr, ok bool) {
	if rf := r.P.TryFunc("workers/sourcerunner", "(*operatorCluster).routeEvent"); rf != nil && r.P.CalleeFunc(info, call) == rf.Obj && len(call.Args) == 2 {
		return call.Args[0], call.Args[1], true
	}
	he := r.P.FuncObj("workers/sourcerunner", "(*batchingOperator).HandleEvent")
	ops := r.P.Field("workers/sourcerunner", "operatorCluster", "operators")
	ri := r.P.FuncObj("partitioning", "(*KeySpace).RangeIndex")
	if r.P.CalleeFunc(info, call) != he || len(call.Args) != 1 {
		return nil, nil, false
	}
	sel, isSel := ast.Unparen(call.Fun).(*ast.SelectorExpr)
	if !isSel {
		return nil, nil, false
	}
	ix, isIx := deref(info, sel.X).(*ast.IndexExpr)
	if !isIx || prog.SelField(info, ix.X) != ops {
		return nil, nil, false
	}
	ic, isCall := deref(info, ix.Index).(*ast.CallExpr)
	if !isCall || r.P.CalleeFunc(info, ic) != ri || len(ic.Args) != 1 {
		return nil, nil, false
	}
	return ic.Args[0], call.Args[0], true
}
