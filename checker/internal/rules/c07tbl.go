package rules

import (
	"go/ast"
	"go/token"
	"go/types"

	"verif/checker/internal/pathsim"
	"verif/checker/internal/prog"
)

// entryLitIsDelete classifies a result expression: (&)sst.Entry{...} literal -> its isDelete
// value ("true"/"false"/"?") and whether it carries a value; ok=false for anything else.
func entryLitIsDelete(info *types.Info, entryT types.Type, e ast.Expr) (isDel string, hasValue bool, ok bool) {
	e = ast.Unparen(e)
	if u, isU := e.(*ast.UnaryExpr); isU && u.Op == token.AND {
		e = u.X
	}
	cl, isCL := e.(*ast.CompositeLit)
	if !isCL || info.TypeOf(cl) != entryT {
		return "", false, false
	}
	st := entryT.Underlying().(*types.Struct)
	vals := map[string]ast.Expr{}
	for i, el := range cl.Elts {
		if kv, isKV := el.(*ast.KeyValueExpr); isKV {
			if id, isID := kv.Key.(*ast.Ident); isID {
				vals[id.Name] = kv.Value
			}
		} else if i < st.NumFields() {
			vals[st.Field(i).Name()] = el
		}
	}
	isDel = "false"
	if v, has := vals["isDelete"]; has {
		if tv, okTV := info.Types[v]; okTV && tv.Value != nil {
			isDel = tv.Value.String()
		} else {
			isDel = "?"
		}
	}
	if v, has := vals["value"]; has {
		if tv, okTV := info.Types[v]; !okTV || !tv.IsNil() {
			hasValue = true
		}
	}
	return isDel, hasValue, true
}

// entryDeleteIs: the isDelete field of the Entry literal e is the variable flag.
func entryDeleteIs(info *types.Info, entryT types.Type, e ast.Expr, flag types.Object) bool {
	e = ast.Unparen(e)
	if u, isU := e.(*ast.UnaryExpr); isU && u.Op == token.AND {
		e = u.X
	}
	cl, isCL := e.(*ast.CompositeLit)
	if !isCL || info.TypeOf(cl) != entryT {
		return false
	}
	st := entryT.Underlying().(*types.Struct)
	for i, el := range cl.Elts {
		var name string
		var v ast.Expr
		if kv, isKV := el.(*ast.KeyValueExpr); isKV {
			if id, isID := kv.Key.(*ast.Ident); isID {
				name, v = id.Name, kv.Value
			}
		} else if i < st.NumFields() {
			name, v = st.Field(i).Name(), el
		}
		if name == "isDelete" && v != nil && prog.IdentObj(info, v) == flag {
			return true
		}
	}
	return false
}

func init() {
	register(&Obligation{ID: "C07.l", Props: []string{"C07", "C03", "C17"}, Template: "result-discipline",
		Desc: "sst.(*Table).Get: inside the bracket scan a record is skipped only when its key differs from the wanted key; a matching tombstone is returned as a deleted entry (so it masks older levels) and a matching put as an entry with its value; running off the end of the entries while reading the next key (io.EOF) means 'not found', not an error",
		Run: func(r *Run) {
			f := r.P.Func("dkv/sst", "(*Table).Get")
			info := f.Pkg.TypesInfo
			entryT := r.P.TypeName("dkv/sst", "Entry").Type()
			errNotFound := r.P.Pkg("dkv/kv").Types.Scope().Lookup("ErrNotFound")
			bytesEqual := r.P.ExtFunc("bytes", "Equal")
			errorsIs := r.P.ExtFunc("errors", "Is")
			readTomb := r.P.FuncObj("dkv/fields", "ReadTombstone")
			readVar := r.P.FuncObj("dkv/fields", "ReadVarBytes")
			// the scan loop: the for statement whose body calls ReadTombstone
			var loop *ast.ForStmt
			inspect(f.Decl.Body, func(nd ast.Node) bool {
				if fs, ok := nd.(*ast.ForStmt); ok && loop == nil && r.exprCalls(info, fs.Body, readTomb) {
					loop = fs
				}
				return true
			})
			if loop == nil {
				r.Error("undecided: Table.Get has no scan loop reading tombstones")
				return
			}
			// operands: deleted flag = first result of ReadTombstone; current key = operand of bytes.Equal with the parameter
			var deleted, curKey, keyErr types.Object
			inspect(loop.Body, func(nd ast.Node) bool {
				switch x := nd.(type) {
				case *ast.AssignStmt:
					if len(x.Rhs) == 1 {
						if call, ok := ast.Unparen(x.Rhs[0]).(*ast.CallExpr); ok {
							if r.P.CalleeFunc(info, call) == readTomb && len(x.Lhs) == 2 {
								deleted = prog.IdentObj(info, x.Lhs[0])
							}
						}
					}
				case *ast.CallExpr:
					if r.P.CalleeFunc(info, x) == bytesEqual && len(x.Args) == 2 {
						for i := 0; i < 2; i++ {
							if r.isParam(f, x.Args[i], 0) {
								curKey = prog.IdentObj(info, x.Args[1-i])
							}
						}
					}
				}
				return true
			})
			if deleted == nil || curKey == nil {
				r.Error("undecided: Table.Get: cannot identify the tombstone flag / current key (deleted=%v key=%v)", deleted != nil, curKey != nil)
				return
			}
			// the key read: assignment defining curKey from ReadVarBytes; its error variable
			var keyRead *ast.AssignStmt
			inspect(loop.Body, func(nd ast.Node) bool {
				if as, ok := nd.(*ast.AssignStmt); ok && len(as.Lhs) == 2 && len(as.Rhs) == 1 && prog.IdentObj(info, as.Lhs[0]) == curKey {
					if call, ok := ast.Unparen(as.Rhs[0]).(*ast.CallExpr); ok && r.P.CalleeFunc(info, call) == readVar {
						keyRead = as
						keyErr = prog.IdentObj(info, as.Lhs[1])
					}
				}
				return true
			})
			if keyRead == nil || keyErr == nil {
				r.Error("undecided: Table.Get: the current key is not read with fields.ReadVarBytes")
				return
			}
			r.Site(loop.Pos(), "Table.Get bracket scan")
			const (
				aDeleted = 0
				aEqual   = 1
				aEOF     = 2
			)
			spec := &pathsim.Spec{
				AtomDeps: map[int][]types.Object{aDeleted: {deleted}, aEqual: {curKey}, aEOF: {keyErr}},
				Atom: func(c *pathsim.Ctx, e ast.Expr) (int, bool, bool) {
					e = ast.Unparen(e)
					if prog.IdentObj(c.Info, e) == deleted {
						return aDeleted, false, true
					}
					if call, ok := e.(*ast.CallExpr); ok {
						fn := r.P.CalleeFunc(c.Info, call)
						if fn == bytesEqual && len(call.Args) == 2 {
							a, b := prog.IdentObj(c.Info, call.Args[0]), prog.IdentObj(c.Info, call.Args[1])
							if (a == curKey && r.isParam(f, call.Args[1], 0)) || (b == curKey && r.isParam(f, call.Args[0], 0)) {
								return aEqual, false, true
							}
						}
						if fn == errorsIs && len(call.Args) == 2 && prog.IdentObj(c.Info, call.Args[0]) == keyErr {
							if sel, ok := ast.Unparen(call.Args[1]).(*ast.SelectorExpr); ok && sel.Sel.Name == "EOF" {
								return aEOF, false, true
							}
						}
					}
					return 0, false, false
				},
				Step: func(c *pathsim.Ctx, s pathsim.State, ev *pathsim.Event) []pathsim.State {
					switch ev.Kind {
					case pathsim.EvAssign:
						// B: 1 while keyErr holds the result of the key read
						if ev.Node == ast.Node(keyRead) {
							s.B = 1
							return []pathsim.State{s}
						}
						for _, l := range ev.Lhs {
							if prog.IdentObj(c.Info, l) == keyErr {
								s.B = 0
								return []pathsim.State{s}
							}
						}
					case pathsim.EvLoopIter:
						if ev.Node != ast.Node(loop) {
							return nil
						}
						if s.V[aDeleted] == pathsim.True && s.V[aEqual] != pathsim.False {
							c.Violate(ev.Pos, "[tombstone-skipped] the scan moves on to the next record after a tombstone without having established that its key differs from the wanted key: a deleted key is reported as absent from this table, and an older value from a deeper level is returned")
						}
						if s.V[aDeleted] == pathsim.False && s.V[aEqual] != pathsim.False {
							c.Violate(ev.Pos, "[put-skipped] the scan moves on to the next record after a put without having established that its key differs from the wanted key")
						}
						s.B = 0
						return []pathsim.State{s}
					case pathsim.EvReturn:
						if len(ev.Results) != 2 || ev.Pos < loop.Pos() || ev.Pos > loop.End() {
							return nil
						}
						if isDel, hasValue, ok := entryLitIsDelete(c.Info, entryT, ev.Results[0]); ok {
							switch {
							case s.V[aEqual] != pathsim.True:
								c.Violate(ev.Pos, "[result-key] an entry is returned without the record's key having been compared equal to the wanted key")
							case s.V[aDeleted] == pathsim.True && isDel != "true":
								c.Violate(ev.Pos, "[tombstone-result] a matching tombstone is not returned as a deleted entry (isDelete=%s): the delete would not mask older values", isDel)
							case s.V[aDeleted] == pathsim.False && (isDel != "false" || !hasValue):
								c.Violate(ev.Pos, "[put-result] a matching put is not returned as a live entry with its value (isDelete=%s, value set: %v)", isDel, hasValue)
							case s.V[aDeleted] == pathsim.Unknown:
								c.Violate(ev.Pos, "[result-kind] an entry is returned before the record's tombstone flag was examined")
							}
							return nil
						}
						// (nil, X): an error return while the key read hit the end of the entries must be ErrNotFound
						if s.B == 1 && s.V[aEOF] != pathsim.False {
							if prog.IdentObj(c.Info, ev.Results[1]) != errNotFound {
								sel, isSel := ast.Unparen(ev.Results[1]).(*ast.SelectorExpr)
								if !isSel || c.Info.Uses[sel.Sel] != errNotFound {
									c.Violate(ev.Pos, "[eof-not-found] reading the next key can fail with io.EOF (end of the table's entries inside the last bracket); that path returns an error other than kv.ErrNotFound, so a lookup of an absent key fails instead of falling through to older tables")
								}
							}
						}
					}
					return nil
				},
			}
			r.Sim(f.Decl, f.Name(), spec)
		}})

	register(&Obligation{ID: "C07.m", Props: []string{"C07", "C03", "C17", "C18"}, Template: "result-discipline",
		Desc: "sst.(*Table).ScanPrefix: every record whose key has the prefix is yielded before the scan moves on — a tombstone as a deleted entry (isDelete: true), so that it masks older versions in the merge, and a put with its value",
		Run: func(r *Run) {
			f := r.P.Func("dkv/sst", "(*Table).ScanPrefix")
			info := f.Pkg.TypesInfo
			entryT := r.P.TypeName("dkv/sst", "Entry").Type()
			hasPrefix := r.P.ExtFunc("bytes", "HasPrefix")
			readTomb := r.P.FuncObj("dkv/fields", "ReadTombstone")
			var lit *ast.FuncLit
			var loop *ast.ForStmt
			inspect(f.Decl.Body, func(nd ast.Node) bool {
				if fl, ok := nd.(*ast.FuncLit); ok && lit == nil && len(fl.Type.Params.List) == 1 {
					lit = fl
				}
				if fs, ok := nd.(*ast.ForStmt); ok && loop == nil && lit != nil && r.exprCalls(info, fs.Body, readTomb) {
					loop = fs
				}
				return true
			})
			if lit == nil || loop == nil {
				r.Error("undecided: Table.ScanPrefix: no iterator literal with a scan loop")
				return
			}
			yield := info.Defs[lit.Type.Params.List[0].Names[0]]
			// the tombstone flag that is TESTED on the prefix-matching path: the last ReadTombstone assignment in the loop body's top level
			var deleted types.Object
			for _, st := range loop.Body.List {
				if as, ok := st.(*ast.AssignStmt); ok && len(as.Lhs) == 2 && len(as.Rhs) == 1 {
					if call, ok := ast.Unparen(as.Rhs[0]).(*ast.CallExpr); ok && r.P.CalleeFunc(info, call) == readTomb {
						deleted = prog.IdentObj(info, as.Lhs[0])
					}
				}
			}
			var keyVar types.Object
			inspect(loop.Body, func(nd ast.Node) bool {
				if call, ok := nd.(*ast.CallExpr); ok && r.P.CalleeFunc(info, call) == hasPrefix && len(call.Args) == 2 && r.isParam(f, call.Args[1], 0) {
					keyVar = prog.IdentObj(info, call.Args[0])
				}
				return true
			})
			if deleted == nil || keyVar == nil || yield == nil {
				r.Error("undecided: Table.ScanPrefix: cannot identify tombstone flag / key / yield")
				return
			}
			r.Site(loop.Pos(), "Table.ScanPrefix scan loop")
			const (
				aDeleted = 0
				aPrefix  = 1
			)
			spec := &pathsim.Spec{
				AtomDeps: map[int][]types.Object{aDeleted: {deleted}, aPrefix: {keyVar}},
				Atom: func(c *pathsim.Ctx, e ast.Expr) (int, bool, bool) {
					e = ast.Unparen(e)
					if prog.IdentObj(c.Info, e) == deleted {
						return aDeleted, false, true
					}
					if call, ok := e.(*ast.CallExpr); ok && r.P.CalleeFunc(c.Info, call) == hasPrefix && len(call.Args) == 2 && prog.IdentObj(c.Info, call.Args[0]) == keyVar {
						return aPrefix, false, true
					}
					return 0, false, false
				},
				Step: func(c *pathsim.Ctx, s pathsim.State, ev *pathsim.Event) []pathsim.State {
					switch ev.Kind {
					case pathsim.EvCall:
						if ev.Call != nil && prog.IdentObj(c.Info, ev.Call.Fun) == yield && len(ev.Call.Args) == 1 {
							arg := ev.Call.Args[0]
							viaVar := false
							if id, isID := ast.Unparen(arg).(*ast.Ident); isID {
								// entry := &Entry{...}; (entry.value = v;) yield(entry)
								if d := deref(c.Info, id); ast.Unparen(d) != ast.Expr(id) {
									arg, viaVar = d, true
								}
							}
							isDel, hasValue, ok := entryLitIsDelete(c.Info, entryT, arg)
							if ok && isDel == "?" && entryDeleteIs(c.Info, entryT, arg, deleted) {
								// isDelete: wasDeleted — the record's own flag, whatever it is on this path
								switch s.V[aDeleted] {
								case pathsim.True:
									isDel = "true"
								case pathsim.False:
									isDel = "false"
								}
							}
							if viaVar && s.B == 1 {
								hasValue = true
							}
							switch {
							case !ok:
								c.Violate(ev.Pos, "[yield-shape] ScanPrefix yields something other than an sst.Entry literal")
							case s.V[aPrefix] != pathsim.True:
								c.Violate(ev.Pos, "[yield-prefix] a record is yielded without its key having been tested for the prefix")
							case s.V[aDeleted] == pathsim.True && isDel != "true":
								c.Violate(ev.Pos, "[tombstone-yield] a tombstone is yielded as a live entry: it would not mask older versions")
							case s.V[aDeleted] == pathsim.False && (isDel != "false" || !hasValue):
								c.Violate(ev.Pos, "[put-yield] a put is not yielded as a live entry with its value")
							case s.V[aDeleted] == pathsim.Unknown:
								c.Violate(ev.Pos, "[yield-kind] a record is yielded before its tombstone flag was examined")
							}
							s.A = 1
							return []pathsim.State{s}
						}
					case pathsim.EvLoopIter:
						if ev.Node != ast.Node(loop) {
							return nil
						}
						if s.V[aPrefix] == pathsim.True && s.A == 0 {
							which := "record"
							if s.V[aDeleted] == pathsim.True {
								which = "tombstone"
							}
							c.Violate(ev.Pos, "[not-yielded] the scan moves on past a %s whose key has the prefix without yielding it: a dropped tombstone lets an older value from another table reappear in the merged scan, a dropped put loses the entry", which)
						}
						s.A, s.B = 0, 0
						return []pathsim.State{s}
					case pathsim.EvAssign:
						// entry.value = <the value read>
						for i, l := range ev.Lhs {
							if sel, isSel := ast.Unparen(l).(*ast.SelectorExpr); isSel && sel.Sel.Name == "value" && len(ev.Rhs) == len(ev.Lhs) {
								if t := c.Info.TypeOf(sel.X); t != nil && derefType(t) == entryT {
									if tv, has := c.Info.Types[ev.Rhs[i]]; !has || !tv.IsNil() {
										s.B = 1
										return []pathsim.State{s}
									}
								}
							}
						}
					}
					return nil
				},
			}
			r.Sim(lit, f.Name()+"$iter", spec)
		}})

	register(&Obligation{ID: "C07.r", Props: []string{"C07", "C03", "C06"}, Template: "completeness-loop",
		Desc: "LevelList.AllTablesForKey / AllTablesForPrefix consult every level: the loop over the deeper levels is left only because the consumer stopped (return inside `if !yield`), never by break, and a level without a candidate table is skipped with continue; sst.Table.Get / ScanPrefix read through a cursor bounded by the table's entries size, so the footer is never parsed as records and the end of the entries is an EOF",
		Run: func(r *Run) {
			descend := r.P.FuncObj("dkv/sst", "(*LevelList).DescendLevels")
			for _, name := range []string{"(*LevelList).AllTablesForKey", "(*LevelList).AllTablesForPrefix"} {
				f := r.P.Func("dkv/sst", name)
				info := f.Pkg.TypesInfo
				n := 0
				inspect(f.Decl.Body, func(nd ast.Node) bool {
					rs, ok := nd.(*ast.RangeStmt)
					if !ok {
						return true
					}
					call, ok := ast.Unparen(rs.X).(*ast.CallExpr)
					if !ok || r.P.CalleeFunc(info, call) != descend {
						return true
					}
					n++
					r.Site(rs.Pos(), f.Name()+": loop over the deeper levels")
					// statements that leave this loop
					var visit func(n ast.Node, inInner bool, underNotYield bool)
					visit = func(n ast.Node, inInner bool, underNotYield bool) {
						switch x := n.(type) {
						case nil:
							return
						case *ast.FuncLit:
							return
						case *ast.BranchStmt:
							if x.Tok == token.BREAK && !inInner && x.Label == nil {
								r.Fail(f.Name()+":level-break", x.Pos(), nil, "%s leaves the loop over the deeper levels with break: a level without a candidate table ends the search, so keys that only exist in older levels are reported absent", f.Name())
							}
						case *ast.ReturnStmt:
							if !underNotYield {
								r.Fail(f.Name()+":level-return", x.Pos(), nil, "%s returns from the loop over the deeper levels although the consumer did not stop", f.Name())
							}
						case *ast.IfStmt:
							uny := underNotYield
							if impliesNotYield(x.Cond) {
								uny = true
							}
							for _, st := range x.Body.List {
								visit(st, inInner, uny)
							}
							if x.Else != nil {
								visit(x.Else, inInner, underNotYield)
							}
						case *ast.BlockStmt:
							for _, st := range x.List {
								visit(st, inInner, underNotYield)
							}
						case *ast.ForStmt:
							visit(x.Body, true, underNotYield)
						case *ast.RangeStmt:
							visit(x.Body, true, underNotYield)
						case *ast.SwitchStmt:
							visit(x.Body, true, underNotYield)
						case *ast.CaseClause:
							for _, st := range x.Body {
								visit(st, inInner, underNotYield)
							}
						}
					}
					visit(rs.Body, false, false)
					return true
				})
				if n == 0 {
					r.Error("undecided: %s no longer ranges over DescendLevels", f.Name())
				}
			}
			bounded := r.P.FuncObj("dkv/storage", "NewBoundedCursor")
			fileF := r.P.Field("dkv/sst", "Table", "file")
			sizeF := r.P.Field("dkv/sst", "Table", "entriesSize")
			for _, name := range []string{"(*Table).Get", "(*Table).ScanPrefix"} {
				f := r.P.Func("dkv/sst", name)
				info := f.Pkg.TypesInfo
				okCur := false
				inspect(f.Decl.Body, func(nd ast.Node) bool {
					call, ok := nd.(*ast.CallExpr)
					if !ok || r.P.CalleeFunc(info, call) != bounded || len(call.Args) != 3 {
						return true
					}
					r.Site(call.Pos(), f.Name()+": cursor bounded by entriesSize")
					if prog.SelField(info, call.Args[0]) == fileF && prog.SelField(info, stripConv(info, call.Args[2])) == sizeF {
						okCur = true
					} else {
						r.Fail(f.Name()+":cursor-bound", call.Pos(), nil, "%s does not read through NewBoundedCursor(t.file, _, t.entriesSize): without the end bound the scan runs into the table's footer and parses it as records", f.Name())
					}
					return true
				})
				if !okCur {
					r.Fail(f.Name()+":cursor-missing", f.Decl.Pos(), nil, "%s does not create a cursor bounded by the table's entries size", f.Name())
				}
			}
		}})
}

// impliesNotYield: the condition can only hold when a call of the iterator's yield function
// returned false: `!yield(x)` itself or a conjunction with such a conjunct (`A && !yield(x)`).
func impliesNotYield(e ast.Expr) bool {
	e = ast.Unparen(e)
	switch x := e.(type) {
	case *ast.BinaryExpr:
		if x.Op == token.LAND {
			return impliesNotYield(x.X) || impliesNotYield(x.Y)
		}
	case *ast.UnaryExpr:
		if x.Op == token.NOT {
			if c, ok := ast.Unparen(x.X).(*ast.CallExpr); ok {
				if id, ok := c.Fun.(*ast.Ident); ok && id.Name == "yield" {
					return true
				}
			}
		}
	}
	return false
}
