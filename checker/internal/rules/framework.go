// Package rules holds the obligation table: for each given property, the structural
// necessary conditions ("obligations") that are decided on /repo's current source.
package rules

import (
	"fmt"
	"go/ast"
	"go/token"
	"sort"
	"strings"

	"verif/checker/internal/pathsim"
	"verif/checker/internal/prog"
)

// Obligation is one decided clause: a rule template instantiated on resolved anchors.
type Obligation struct {
	ID       string   // e.g. "C07.a"
	Props    []string // properties this obligation is a necessary condition of
	Template string   // short template name, e.g. "first-hit-direction"
	Desc     string   // what it establishes, one sentence
	Thorough bool     // evaluated only in the thorough tier
	Run      func(r *Run)
}

type Violation struct {
	Identity string   `json:"identity"` // position-free: ID/template:construct
	Ob       string   `json:"obligation"`
	Pos      string   `json:"pos"`
	Msg      string   `json:"msg"`
	Trace    []string `json:"trace,omitempty"`
}

type ObResult struct {
	Ob         *Obligation
	Sites      []string
	Violations []Violation
	Errors     []string // undecided / unresolved: exit 2
	States     int
	Steps      int
	Notes      []string
}

type Run struct {
	P    *prog.Prog
	Tier string
	Ob   *Obligation
	Res  *ObResult
}

func (r *Run) ident(construct string) string {
	construct = strings.ReplaceAll(construct, " ", "")
	return fmt.Sprintf("%s/%s:%s", r.Ob.ID, r.Ob.Template, construct)
}

// Site records one analysed site (call site, field access, path root, ordering, ...).
func (r *Run) Site(pos token.Pos, what string) {
	r.Res.Sites = append(r.Res.Sites, r.P.Pos(pos)+" "+what)
}

func (r *Run) SiteStr(what string) { r.Res.Sites = append(r.Res.Sites, what) }

func (r *Run) Note(format string, a ...any) {
	r.Res.Notes = append(r.Res.Notes, fmt.Sprintf(format, a...))
}

// Fail records a violation of this obligation at construct.
func (r *Run) Fail(construct string, pos token.Pos, trace []token.Pos, format string, a ...any) {
	v := Violation{Identity: r.ident(construct), Ob: r.Ob.ID, Pos: r.P.Pos(pos), Msg: fmt.Sprintf(format, a...)}
	for _, t := range trace {
		v.Trace = append(v.Trace, r.P.Pos(t))
	}
	v.Trace = compress(v.Trace)
	for _, old := range r.Res.Violations {
		if old.Identity == v.Identity {
			return // one report per construct
		}
	}
	r.Res.Violations = append(r.Res.Violations, v)
}

func compress(tr []string) []string {
	var out []string
	for _, t := range tr {
		if len(out) == 0 || out[len(out)-1] != t {
			out = append(out, t)
		}
	}
	if len(out) > 40 {
		out = append(out[:20], append([]string{"..."}, out[len(out)-19:]...)...)
	}
	return out
}

// Error records that the obligation could not be decided (exit 2, never a pass).
func (r *Run) Error(format string, a ...any) {
	r.Res.Errors = append(r.Res.Errors, fmt.Sprintf(format, a...))
}

// Floor asserts that at least n sites were analysed since mark.
func (r *Run) Floor(n int, what string) {
	if len(r.Res.Sites) < n {
		r.Error("site count %d below floor %d (%s): anchors no longer resolve the confirmed instances", len(r.Res.Sites), n, what)
	}
}

// Sim runs the path simulator on fn and folds violations into the obligation result.
// construct names the function; the rule's messages name the operand.
func (r *Run) Sim(fn ast.Node, construct string, spec *pathsim.Spec) *pathsim.Ctx {
	c := pathsim.Run(r.P, fn, spec)
	r.Res.States += len(c.States)
	r.Res.Steps += c.Steps
	for _, u := range c.Undecided {
		r.Error("undecided: %s: %s", construct, u)
	}
	for _, v := range c.Violations {
		r.Fail(construct+":"+firstWord(v.Msg), v.Pos, v.Trace, "%s", v.Msg)
	}
	return c
}

// firstWord extracts the bracketed operand tag "[tag] message" used by rules to name the
// violated operand position-free.
func firstWord(msg string) string {
	if strings.HasPrefix(msg, "[") {
		if i := strings.Index(msg, "]"); i > 0 {
			return msg[1:i]
		}
	}
	return "path"
}

var table []*Obligation

func register(o *Obligation) {
	for _, old := range table {
		if old.ID == o.ID {
			panic("duplicate obligation " + o.ID)
		}
	}
	table = append(table, o)
}

// For returns the obligations serving property id, sorted by ID.
func For(prop string) []*Obligation {
	var out []*Obligation
	for _, o := range table {
		for _, p := range o.Props {
			if p == prop {
				out = append(out, o)
				break
			}
		}
	}
	sort.Slice(out, func(i, j int) bool { return out[i].ID < out[j].ID })
	return out
}

func All() []*Obligation {
	out := append([]*Obligation(nil), table...)
	sort.Slice(out, func(i, j int) bool { return out[i].ID < out[j].ID })
	return out
}

func ByID(id string) *Obligation {
	for _, o := range table {
		if o.ID == id {
			return o
		}
	}
	return nil
}

// Eval evaluates one obligation, converting panics into errors.
func Eval(p *prog.Prog, tier string, o *Obligation) (res *ObResult) {
	res = &ObResult{Ob: o}
	r := &Run{P: p, Tier: tier, Ob: o, Res: res}
	curProg = p
	defer func() {
		if e := recover(); e != nil {
			if ee, ok := e.(prog.ErrorExit); ok {
				res.Errors = append(res.Errors, ee.Msg)
				return
			}
			res.Errors = append(res.Errors, fmt.Sprintf("panic in %s: %v", o.ID, e))
		}
	}()
	o.Run(r)
	return res
}
