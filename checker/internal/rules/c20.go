package rules

import (
	"go/ast"
	"go/token"
	"go/types"

	"verif/checker/internal/pathsim"
	"verif/checker/internal/prog"
)

// mutexFieldsOf returns the struct fields of named type tn whose type is sync.Mutex /
// sync.RWMutex (or pointers to them).
func mutexFieldsOf(tn *types.TypeName) []*types.Var {
	st, ok := tn.Type().Underlying().(*types.Struct)
	if !ok {
		return nil
	}
	var out []*types.Var
	for i := 0; i < st.NumFields(); i++ {
		t := st.Field(i).Type()
		if p, ok := t.(*types.Pointer); ok {
			t = p.Elem()
		}
		if n, ok := t.(*types.Named); ok && n.Obj().Pkg() != nil && n.Obj().Pkg().Path() == "sync" && (n.Obj().Name() == "Mutex" || n.Obj().Name() == "RWMutex") {
			out = append(out, st.Field(i))
		}
	}
	return out
}

func init() {
	prop("C20",
		"(a) the batcher's batch and generation token are accessed only under its mutex; (b) Flush swaps the batch out only when it is non-empty and the token is CurrentBatch or equals the current generation, and the swap, the generation increment and the timer stop happen together, returning the swapped-out slice; (c) Add appends exactly once and the time-out closure carries the generation read under the lock; (d) the reordering fetcher takes a batch out of the batcher and reserves its sequence number in one critical section, and the reorder buffer's counters are accessed under its mutex; (e) Drain hands out exactly the item at the drain cursor, advancing the cursor and releasing one reservation per item.",
		"the interleavings themselves (the rules establish the lock / atomicity discipline every interleaving argument needs); timer behaviour.")

	register(&Obligation{ID: "C20.a", Props: []string{"C20", "C04"}, Template: "guarded-by",
		Desc: "batching.EventBatcher.batch and batchToken are accessed only with EventBatcher.mu held (closures that may run later hold nothing)",
		Run: func(r *Run) {
			r.guardedBy(guardSpec{
				Type:   "EventBatcher",
				Mutex:  r.P.Field("batching", "EventBatcher", "mu"),
				Fields: []*types.Var{r.P.Field("batching", "EventBatcher", "batch"), r.P.Field("batching", "EventBatcher", "batchToken")},
				Exempt: map[string]string{"batching.NewEventBatcher": "constructor"},
			})
			r.Floor(3, "EventBatcher methods")
		}})

	register(&Obligation{ID: "C20.b", Props: []string{"C20", "C04"}, Template: "guard+paired-update",
		Desc: "EventBatcher.Flush: the batch is swapped out only if it is non-empty and (token == CurrentBatch or token == batchToken); on every such path batchToken advances, the timer is stopped and the swapped-out slice is returned; otherwise nil is returned and nothing changes",
		Run: func(r *Run) {
			f := r.P.Func("batching", "(*EventBatcher).Flush")
			info := f.Pkg.TypesInfo
			batch := r.P.Field("batching", "EventBatcher", "batch")
			tok := r.P.Field("batching", "EventBatcher", "batchToken")
			timer := r.P.Field("batching", "EventBatcher", "timer")
			cur := r.P.Pkg("batching").Types.Scope().Lookup("CurrentBatch")
			isTokParam := func(c *pathsim.Ctx, e ast.Expr) bool { return r.isParam(f, e, 0) }
			atoms := []guardAtom{
				{Name: "len(batch)==0", Deps: []types.Object{batch}, Match: func(c *pathsim.Ctx, e ast.Expr) (bool, bool) { return lenIsZero(c.Info, e, batch) }},
				eqAtom("token==CurrentBatch", isTokParam, func(c *pathsim.Ctx, e ast.Expr) bool { return prog.IdentObj(c.Info, e) == cur }),
				eqAtom("token==batchToken", isTokParam, func(c *pathsim.Ctx, e ast.Expr) bool { return prog.SelField(c.Info, e) == tok }, tok),
			}
			// the local holding the old batch
			var old types.Object
			inspect(f.Decl.Body, func(nd ast.Node) bool {
				if as, ok := nd.(*ast.AssignStmt); ok && len(as.Lhs) == 1 && len(as.Rhs) == 1 && prog.SelField(info, as.Rhs[0]) == batch {
					if v, isVar := prog.IdentObj(info, as.Lhs[0]).(*types.Var); isVar && !v.IsField() && v.Parent() != v.Pkg().Scope() {
						old = v
					}
				}
				return true
			})
			// a named result: a bare return hands back what was last assigned to it on the path
			var resObj types.Object
			if rl := f.Decl.Type.Results; rl != nil && len(rl.List) == 1 && len(rl.List[0].Names) == 1 {
				resObj = info.Defs[rl.List[0].Names[0]]
			}
			spec := &pathsim.Spec{AtomDeps: map[int][]types.Object{0: {batch}, 2: {tok}}}
			spec.Atom = func(c *pathsim.Ctx, e ast.Expr) (int, bool, bool) {
				for i, a := range atoms {
					if neg, ok := a.Match(c, e); ok {
						return i, neg, true
					}
				}
				return 0, false, false
			}
			const (
				bSwap  = 1
				bInc   = 2
				bStop  = 4
				bOld   = 8
				bGuard = 16 // the flush guard held when the first of the paired updates ran
				bRes   = 32 // the named result was assigned on this path
			)
			nSwap := 0
			spec.Step = func(c *pathsim.Ctx, s pathsim.State, ev *pathsim.Event) []pathsim.State {
				switch ev.Kind {
				case pathsim.EvAssign:
					if len(ev.Lhs) == 1 && len(ev.Rhs) == 1 {
						if lhs := prog.IdentObj(c.Info, ev.Lhs[0]); lhs != nil && (lhs == old || lhs == resObj) {
							if lhs == resObj {
								s.A |= bRes
							}
							if lhs == old {
								if s.A&bSwap == 0 && prog.SelField(c.Info, ev.Rhs[0]) == batch {
									s.A |= bOld
								} else {
									s.A &^= bOld // overwritten: no longer the swapped-out slice
								}
							}
							return []pathsim.State{s}
						}
						if prog.SelField(c.Info, ev.Lhs[0]) == batch {
							nSwap++
							ok := (s.V[0] == pathsim.False && (s.V[1] == pathsim.True || s.V[2] == pathsim.True)) || s.A&bGuard != 0
							if !ok {
								c.Violate(ev.Pos, "[swap-unguarded] the batch is swapped out without having established: non-empty && (token == CurrentBatch || token == batchToken) — a stale time-out token would flush a newer batch, or an empty flush would advance the generation")
							}
							if s.A&bOld == 0 {
								c.Violate(ev.Pos, "[swap-loses-batch] the batch is replaced before the old slice was captured: its items are lost")
							}
							s.A |= bSwap
							return []pathsim.State{s}
						}
						if prog.SelField(c.Info, ev.Lhs[0]) == tok {
							// the generation may be advanced before the swap (the statements are independent and
							// both under the lock): remember that the guard held at this point
							if s.V[0] == pathsim.False && (s.V[1] == pathsim.True || s.V[2] == pathsim.True) {
								s.A |= bGuard
							}
							// must be +1
							good := false
							if b, ok := ast.Unparen(ev.Rhs[0]).(*ast.BinaryExpr); ok && b.Op == token.ADD && prog.SelField(c.Info, b.X) == tok {
								if tv, ok := c.Info.Types[b.Y]; ok && tv.Value != nil && tv.Value.String() == "1" {
									good = true
								}
							}
							if !good {
								c.Violate(ev.Pos, "[token-update] batchToken must advance by exactly one per flushed batch")
							}
							s.A |= bInc
							return []pathsim.State{s}
						}
					}
					if ev.Tok == token.INC && len(ev.Lhs) == 1 && prog.SelField(c.Info, ev.Lhs[0]) == tok {
						if s.V[0] == pathsim.False && (s.V[1] == pathsim.True || s.V[2] == pathsim.True) {
							s.A |= bGuard
						}
						s.A |= bInc
						return []pathsim.State{s}
					}
				case pathsim.EvCall:
					if sel, ok := ast.Unparen(ev.Call.Fun).(*ast.SelectorExpr); ok && prog.SelField(c.Info, sel.X) == timer && sel.Sel.Name == "Stop" {
						s.A |= bStop
						return []pathsim.State{s}
					}
				case pathsim.EvReturn:
					var res ast.Expr
					retNil, retOld := false, false
					switch {
					case len(ev.Results) == 1:
						res = ev.Results[0]
						if tv, ok := c.Info.Types[res]; ok && tv.IsNil() {
							retNil = true
						}
						if call, ok := ast.Unparen(res).(*ast.CallExpr); ok {
							if e := soleReturnExpr(c.Info, call); e != nil {
								res = e // `return b.takeBatchLocked()`: what the helper returns
							}
						}
						if o := prog.IdentObj(c.Info, res); o != nil {
							retOld = o == old && s.A&bOld != 0
							retNil = retNil || (o == resObj && s.A&bRes == 0)
						}
					case len(ev.Results) == 0 && resObj != nil:
						retNil = s.A&bRes == 0
						retOld = resObj == old && s.A&bOld != 0
					default:
						return nil
					}
					if s.A&bSwap != 0 {
						if s.A&bInc == 0 {
							c.Violate(ev.Pos, "[swap-without-token-advance] a batch was flushed but batchToken did not advance: the time-out armed for the flushed batch would flush the next one early")
						}
						if s.A&bStop == 0 {
							c.Violate(ev.Pos, "[swap-without-timer-stop] a batch was flushed but its timer was not stopped")
						}
						if retNil || old == nil || !retOld {
							c.Violate(ev.Pos, "[returns-other] Flush swapped the batch out but does not return the swapped-out slice: its items are lost")
						}
					} else {
						if s.A&bInc != 0 {
							c.Violate(ev.Pos, "[token-advance-without-swap] batchToken advanced although nothing was flushed")
						}
						if s.A&bStop != 0 && s.V[0] != pathsim.True {
							c.Violate(ev.Pos, "[stop-without-swap] Flush stops the timer although nothing was flushed and the batch may be non-empty: a stale time-out token disarms the time-out of the batch being collected (Add arms it only when a batch starts), so without a size-triggered flush its items are never handed out")
						}
						if !retNil {
							c.Violate(ev.Pos, "[returns-unswapped] Flush returns items without having swapped the batch out: they will be handed out again (duplicates)")
						}
					}
				}
				return nil
			}
			r.Sim(f.Decl, f.Name(), spec)
			r.Site(f.Decl.Pos(), "EventBatcher.Flush paths")
			if nSwap == 0 {
				r.Fail(f.Name()+":no-swap", f.Decl.Pos(), nil, "Flush never swaps the batch out")
			}
		}})

	register(&Obligation{ID: "C20.c", Props: []string{"C20", "C04"}, Template: "exactly-once+value-identity",
		Desc: "EventBatcher.Add appends the event exactly once on every path; the time-out closure sends the generation captured under the lock (not a later read), and is armed only when starting an empty batch",
		Run: func(r *Run) {
			f := r.P.Func("batching", "(*EventBatcher).Add")
			info := f.Pkg.TypesInfo
			batch := r.P.Field("batching", "EventBatcher", "batch")
			tok := r.P.Field("batching", "EventBatcher", "batchToken")
			timedOut := r.P.Field("batching", "EventBatcher", "BatchTimedOut")
			timer := r.P.Field("batching", "EventBatcher", "timer")
			spec := &pathsim.Spec{Step: func(c *pathsim.Ctx, s pathsim.State, ev *pathsim.Event) []pathsim.State {
				if ev.Kind == pathsim.EvAssign && len(ev.Lhs) == 1 && prog.SelField(c.Info, ev.Lhs[0]) == batch {
					good := false
					if call, ok := ast.Unparen(ev.Rhs[0]).(*ast.CallExpr); ok && len(call.Args) == 2 {
						if id, ok := call.Fun.(*ast.Ident); ok && id.Name == "append" && prog.SelField(c.Info, call.Args[0]) == batch && r.isParam(f, call.Args[1], 0) {
							good = true
						}
					}
					if !good {
						c.Violate(ev.Pos, "[append-shape] Add must be batch = append(batch, event)")
					}
					s.A++
					return []pathsim.State{s}
				}
				if ev.Kind == pathsim.EvReturn || ev.Kind == pathsim.EvExit {
					if s.A != 1 {
						c.Violate(ev.Pos, "[append-count] Add returns having appended the event %d times (must be exactly once)", s.A)
					}
				}
				return nil
			}}
			r.Sim(f.Decl, f.Name(), spec)
			r.Site(f.Decl.Pos(), "EventBatcher.Add appends exactly once")
			// timer closure
			var setCall *ast.CallExpr
			inspect(f.Decl.Body, func(nd ast.Node) bool {
				if call, ok := nd.(*ast.CallExpr); ok {
					if sel, ok := ast.Unparen(call.Fun).(*ast.SelectorExpr); ok && prog.SelField(info, sel.X) == timer && sel.Sel.Name == "Set" {
						setCall = call
					}
				}
				return true
			})
			if setCall == nil {
				r.Note("Add arms no timer")
				return
			}
			r.Site(setCall.Pos(), "time-out closure")
			var lit *ast.FuncLit
			for _, a := range setCall.Args {
				if l, ok := ast.Unparen(a).(*ast.FuncLit); ok {
					lit = l
				} else if l, ok := ast.Unparen(deref(info, a)).(*ast.FuncLit); ok {
					lit = l // b.timeoutNotifier(b.batchToken): an extracted helper that returns the closure
				}
			}
			if lit == nil {
				r.Error("undecided: timer.Set is not given a literal")
				return
			}
			okSend := false
			inspect(lit.Body, func(nd ast.Node) bool {
				if send, ok := nd.(*ast.SendStmt); ok && prog.SelField(info, send.Chan) == timedOut {
					if o := prog.IdentObj(info, send.Value); o != nil {
						if def := localDef(info, f.Decl.Body, o); def != nil && prog.SelField(info, def) == tok {
							okSend = true
						}
					}
					// a parameter of the helper that builds the closure: bound to the generation when
					// the timer is armed
					if id, isID := ast.Unparen(send.Value).(*ast.Ident); isID && !okSend {
						if v, isVar := info.Uses[id].(*types.Var); isVar && !v.IsField() {
							if d := ast.Unparen(deref(info, id)); d != ast.Expr(id) && prog.SelField(info, d) == tok {
								okSend = true
							}
						}
					}
				}
				return true
			})
			if !okSend {
				r.Fail(f.Name()+":timeout-token", lit.Pos(), nil, "the time-out closure does not send the generation captured (under the lock) when the timer was armed: a late time-out would carry the current generation and flush a newer batch")
			}
			// armed only for an empty batch
			n := r.guarded(f.Decl, f.Name(), "timer.Set", []guardAtom{{Name: "len(batch)==0", Deps: []types.Object{batch}, Match: func(c *pathsim.Ctx, e ast.Expr) (bool, bool) { return lenIsZero(c.Info, e, batch) }}},
				func(c *pathsim.Ctx, ev *pathsim.Event) bool { return ev.Kind == pathsim.EvCall && ev.Call == setCall },
				func(v []pathsim.Tri) bool { return v[0] == pathsim.True }, "len(batch) == 0")
			_ = n
			// and before the append
			r.mustPrecedeNot(f, setCall, batch)
		}})

	register(&Obligation{ID: "C20.d", Props: []string{"C20", "C04"}, Template: "atomic-section",
		Desc: "batching.(*ReorderFetcher).flush takes the batch out of the batcher and reserves its sequence number inside one critical section of a fetcher mutex (flush runs on the time-out goroutine and on the caller of Add), and ReorderBuffer's items / nextSeqNum / drainedSeqNum are accessed under ReorderBuffer.mu",
		Run: func(r *Run) {
			f := r.P.Func("batching", "(*ReorderFetcher).flush")
			flush := r.P.FuncObj("batching", "(*EventBatcher).Flush")
			reserve := r.P.FuncObj("batching", "(*ReorderBuffer).Reserve")
			mus := mutexFieldsOf(r.P.TypeName("batching", "ReorderFetcher"))
			isMu := func(c *pathsim.Ctx, e ast.Expr) bool {
				fld := prog.SelField(c.Info, e)
				for _, m := range mus {
					if m == fld {
						return true
					}
				}
				return false
			}
			// two goroutine roots reach flush?
			roots := 0
			for where := range r.usersOf(f.Obj, false) {
				r.SiteStr("flush used in " + where)
				roots++
			}
			if roots < 2 {
				r.Note("flush has fewer than two callers; atomicity obligation is vacuous")
			} else {
				spec := &pathsim.Spec{Step: func(c *pathsim.Ctx, s pathsim.State, ev *pathsim.Event) []pathsim.State {
					if ev.Kind != pathsim.EvCall || ev.Call == nil {
						return nil
					}
					if sel, ok := ast.Unparen(ev.Call.Fun).(*ast.SelectorExpr); ok && isMu(c, sel.X) {
						switch sel.Sel.Name {
						case "Lock":
							s.A, s.B = 1, 0
						case "Unlock":
							if !ev.Deferred {
								s.A, s.B = 0, 0
							}
						}
						return []pathsim.State{s}
					}
					fn, _ := ev.Callee.(*types.Func)
					if fn == flush {
						if s.A == 0 {
							c.Violate(ev.Pos, "[flush-unlocked] the batch is taken out of the batcher outside any critical section of the fetcher: the time-out flusher and the size flusher can interleave between taking a batch and reserving its sequence number, so results are emitted in the wrong order")
						}
						s.B = 1
						return []pathsim.State{s}
					}
					if fn == reserve {
						if s.A == 0 || s.B == 0 {
							c.Violate(ev.Pos, "[reserve-other-section] the sequence number is reserved outside the critical section in which the batch was taken out of the batcher")
						}
					}
					return nil
				}}
				r.Sim(f.Decl, f.Name(), spec)
				r.Site(f.Decl.Pos(), "ReorderFetcher.flush critical section")
			}
			r.guardedBy(guardSpec{
				Type:  "ReorderBuffer",
				Mutex: r.P.Field("batching", "ReorderBuffer", "mu"),
				Fields: []*types.Var{r.P.Field("batching", "ReorderBuffer", "items"), r.P.Field("batching", "ReorderBuffer", "nextSeqNum"),
					r.P.Field("batching", "ReorderBuffer", "drainedSeqNum")},
				Exempt: map[string]string{"batching.NewReorderBuffer": "constructor"},
			})
		}})

	register(&Obligation{ID: "C20.e", Props: []string{"C20", "C04"}, Template: "paired-update",
		Desc: "ReorderBuffer.Drain yields exactly the item stored under the drain cursor: the lookup key, the deleted key and the incremented counter are all drainedSeqNum, one reservation is released per item, and the loop stops at the first gap; Reserve hands out nextSeqNum and increments it; Add stores under the given sequence number; the fetcher adds its result under the number it reserved",
		Run: func(r *Run) {
			d := r.P.Func("batching", "(*ReorderBuffer).Drain")
			info := d.Pkg.TypesInfo
			items := r.P.Field("batching", "ReorderBuffer", "items")
			cursor := r.P.Field("batching", "ReorderBuffer", "drainedSeqNum")
			next := r.P.Field("batching", "ReorderBuffer", "nextSeqNum")
			reserved := r.P.Field("batching", "ReorderBuffer", "reserved")
			lit := firstLit(d.Decl.Body)
			if lit == nil {
				r.Error("undecided: Drain no longer returns an iterator literal")
				return
			}
			var item types.Object
			okLookup := false
			inspect(lit.Body, func(nd ast.Node) bool {
				if as, ok := nd.(*ast.AssignStmt); ok && len(as.Lhs) == 2 && len(as.Rhs) == 1 {
					if ix, ok := ast.Unparen(as.Rhs[0]).(*ast.IndexExpr); ok && prog.SelField(info, ix.X) == items {
						if prog.SelField(info, ix.Index) == cursor {
							okLookup = true
							item = prog.IdentObj(info, as.Lhs[0])
						}
					}
				}
				return true
			})
			r.Site(lit.Pos(), "Drain iterator")
			if !okLookup {
				r.Fail(d.Name()+":lookup-key", lit.Pos(), nil, "Drain does not look up items[drainedSeqNum]")
				return
			}
			yieldObj := types.Object(nil)
			if len(lit.Type.Params.List) == 1 && len(lit.Type.Params.List[0].Names) == 1 {
				yieldObj = info.Defs[lit.Type.Params.List[0].Names[0]]
			}
			spec := &pathsim.Spec{Step: func(c *pathsim.Ctx, s pathsim.State, ev *pathsim.Event) []pathsim.State {
				const (
					bDel = 1
					bInc = 2
					bRel = 4
				)
				switch ev.Kind {
				case pathsim.EvDelete:
					if len(ev.Call.Args) == 2 && prog.SelField(c.Info, ev.Call.Args[0]) == items {
						if prog.SelField(c.Info, ev.Call.Args[1]) != cursor {
							c.Violate(ev.Pos, "[delete-key] Drain deletes an entry other than items[drainedSeqNum]")
						}
						if s.A&bInc != 0 {
							c.Violate(ev.Pos, "[delete-after-advance] the cursor is advanced before the entry is deleted: the next entry is deleted instead")
						}
						s.A |= bDel
						return []pathsim.State{s}
					}
				case pathsim.EvAssign:
					if len(ev.Lhs) == 1 && prog.SelField(c.Info, ev.Lhs[0]) == cursor {
						if ev.Tok != token.INC && !isPlusOne(c.Info, ev, cursor) {
							c.Violate(ev.Pos, "[cursor-update] the drain cursor must advance by exactly one per item")
						}
						s.A |= bInc
						return []pathsim.State{s}
					}
				case pathsim.EvRecv:
					if prog.SelField(c.Info, ev.Chan) == reserved {
						s.A |= bRel
						return []pathsim.State{s}
					}
				case pathsim.EvCall:
					if yieldObj != nil && prog.IdentObj(c.Info, ev.Call.Fun) == yieldObj {
						if s.A != bDel|bInc|bRel {
							c.Violate(ev.Pos, "[yield-unpaired] an item is yielded without {delete entry, advance cursor, release one reservation} all done for it: items are emitted twice, skipped, or the buffer never frees its slots")
						}
						if len(ev.Call.Args) != 1 || prog.IdentObj(c.Info, ev.Call.Args[0]) != item {
							c.Violate(ev.Pos, "[yield-value] Drain yields something other than the item at the cursor")
						}
						s.A = 0
						return []pathsim.State{s}
					}
				case pathsim.EvLoopIter:
					if s.A != 0 {
						c.Violate(ev.Pos, "[iteration-unpaired] an iteration ends having changed the buffer without yielding the item")
					}
				}
				return nil
			}}
			r.Sim(lit, d.Name()+"$iter", spec)
			// stops at the first gap: the else / !ok branch breaks
			stops := false
			inspect(lit.Body, func(nd ast.Node) bool {
				if b, ok := nd.(*ast.BranchStmt); ok && b.Tok == token.BREAK {
					stops = true
				}
				if _, ok := nd.(*ast.ReturnStmt); ok {
					stops = true
				}
				// `for draining { ... } else { draining = false }`: the loop flag cleared on the gap
				if fs, ok := nd.(*ast.ForStmt); ok && fs.Cond != nil && fs.Init == nil && fs.Post == nil {
					if fl := prog.IdentObjPlain(info, fs.Cond); fl != nil {
						ast.Inspect(fs.Body, func(m ast.Node) bool {
							if as, isAs := m.(*ast.AssignStmt); isAs && len(as.Lhs) == 1 && len(as.Rhs) == 1 && prog.IdentObjPlain(info, as.Lhs[0]) == fl {
								if tv, has := info.Types[as.Rhs[0]]; has && tv.Value != nil && tv.Value.String() == "false" {
									stops = true
								}
							}
							return true
						})
					}
				}
				return true
			})
			if !stops {
				r.Fail(d.Name()+":gap", lit.Pos(), nil, "Drain does not stop at the first missing sequence number")
			}
			// Reserve
			rs := r.P.Func("batching", "(*ReorderBuffer).Reserve")
			ri := rs.Pkg.TypesInfo
			r.Site(rs.Decl.Pos(), "Reserve hands out nextSeqNum then increments it")
			var seq types.Object
			var defPos, incPos token.Pos
			inspect(rs.Decl.Body, func(nd ast.Node) bool {
				switch x := nd.(type) {
				case *ast.AssignStmt:
					if len(x.Lhs) == 1 && len(x.Rhs) == 1 && prog.SelField(ri, x.Rhs[0]) == next {
						seq, defPos = prog.IdentObj(ri, x.Lhs[0]), x.Pos()
					}
				case *ast.IncDecStmt:
					if x.Tok == token.INC && prog.SelField(ri, x.X) == next {
						incPos = x.Pos()
					}
				}
				return true
			})
			retOK := false
			inspect(rs.Decl.Body, func(nd ast.Node) bool {
				if ret, ok := nd.(*ast.ReturnStmt); ok && len(ret.Results) == 1 && seq != nil && prog.IdentObj(ri, ret.Results[0]) == seq {
					retOK = true
				}
				return true
			})
			if seq == nil || incPos == token.NoPos || defPos > incPos || !retOK {
				r.Fail(rs.Name()+":shape", rs.Decl.Pos(), nil, "Reserve must return the current nextSeqNum and then increment it (each flushed batch needs its own, consecutive number)")
			}
			// Add(seq, item): items[seq] = item
			ad := r.P.Func("batching", "(*ReorderBuffer).Add")
			ai := ad.Pkg.TypesInfo
			okAdd := false
			inspect(ad.Decl.Body, func(nd ast.Node) bool {
				if as, ok := nd.(*ast.AssignStmt); ok && len(as.Lhs) == 1 && len(as.Rhs) == 1 {
					if ix, ok := ast.Unparen(as.Lhs[0]).(*ast.IndexExpr); ok && prog.SelField(ai, ix.X) == items && r.isParam(ad, ix.Index, 0) && r.isParam(ad, as.Rhs[0], 1) {
						okAdd = true
					}
				}
				return true
			})
			r.Site(ad.Decl.Pos(), "ReorderBuffer.Add stores under its sequence number")
			if !okAdd {
				r.Fail(ad.Name()+":shape", ad.Decl.Pos(), nil, "ReorderBuffer.Add must be items[seq] = item")
			}
			// fetcher: buffer.Add(seqNum, result) with seqNum from Reserve, result from fetchBatch(events) with events from Flush
			fl := r.P.Func("batching", "(*ReorderFetcher).flush")
			fi := fl.Pkg.TypesInfo
			reserveFn := r.P.FuncObj("batching", "(*ReorderBuffer).Reserve")
			flushFn := r.P.FuncObj("batching", "(*EventBatcher).Flush")
			fetch := r.P.Field("batching", "ReorderFetcher", "fetchBatch")
			okIdent := false
			inspect(fl.Decl.Body, func(nd ast.Node) bool {
				call, ok := nd.(*ast.CallExpr)
				if !ok || r.P.CalleeFunc(fi, call) != ad.Obj || len(call.Args) != 2 {
					return true
				}
				r.Site(call.Pos(), "fetcher stores its result under the reserved number")
				// every definition of the variable (anywhere in flush, closures included) is a call of fn;
				// a `var x T` without value is a placeholder. One level of immediately invoked closure is
				// followed: its returned variable must satisfy the same condition.
				var allDefsCall func(e ast.Expr, fn *types.Func, depth int) bool
				allDefsCall = func(e ast.Expr, fn *types.Func, depth int) bool {
					e = ast.Unparen(e)
					if c, ok := e.(*ast.CallExpr); ok {
						if r.P.CalleeFunc(fi, c) == fn {
							return true
						}
						if body := calleeBody(r.P, fi, c); body != nil && depth < 2 {
							okAll, n := true, 0
							ast.Inspect(body, func(m ast.Node) bool {
								if _, ok := m.(*ast.FuncLit); ok {
									return false
								}
								if ret, ok := m.(*ast.ReturnStmt); ok && len(ret.Results) == 1 {
									n++
									if !allDefsCall(ret.Results[0], fn, depth+1) {
										okAll = false
									}
								}
								return true
							})
							return okAll && n > 0
						}
						return false
					}
					// a parameter of an extracted helper stands for the argument at its only call site
					if d := derefParam(fi, e); d != nil && depth < 3 {
						return allDefsCall(d, fn, depth+1)
					}
					obj := prog.IdentObj(fi, e)
					if obj == nil {
						return false
					}
					n, okAll := 0, true
					inspect(fl.Decl.Body, func(m ast.Node) bool {
						if as, ok := m.(*ast.AssignStmt); ok {
							for i, l := range as.Lhs {
								if prog.IdentObj(fi, l) != obj {
									continue
								}
								n++
								if len(as.Lhs) == len(as.Rhs) {
									if !allDefsCall(as.Rhs[i], fn, depth+1) {
										okAll = false
									}
									continue
								}
								// `a, b, c := func() (...) {...}()`: the i-th result of every return
								good := false
								if len(as.Rhs) == 1 && depth < 2 {
									if c, ok := ast.Unparen(as.Rhs[0]).(*ast.CallExpr); ok {
										if body := calleeBody(r.P, fi, c); body != nil {
											nRet, all := 0, true
											ast.Inspect(body, func(q ast.Node) bool {
												if _, ok := q.(*ast.FuncLit); ok {
													return false
												}
												if ret, ok := q.(*ast.ReturnStmt); ok && len(ret.Results) == len(as.Lhs) {
													// a return that hands out the zero value (nil / 0) on the "nothing to do" path is fine
													if tv, ok := fi.Types[ret.Results[i]]; ok && (tv.IsNil() || (tv.Value != nil && tv.Value.String() == "0")) {
														return true
													}
													nRet++
													if !allDefsCall(ret.Results[i], fn, depth+1) {
														all = false
													}
												}
												return true
											})
											good = nRet > 0 && all
										}
									}
								}
								if !good {
									okAll = false
								}
							}
						}
						return true
					})
					return okAll && n > 0
				}
				resDef := resolveLocal(fi, fl.Decl.Body, call.Args[1])
				c2, ok2 := ast.Unparen(resDef).(*ast.CallExpr)
				if allDefsCall(call.Args[0], reserveFn, 0) && ok2 && prog.SelField(fi, c2.Fun) == fetch && len(c2.Args) == 2 && allDefsCall(c2.Args[1], flushFn, 0) {
					okIdent = true
				}
				return true
			})
			if !okIdent {
				r.Fail(fl.Name()+":identity", fl.Decl.Pos(), nil, "the fetcher must store fetchBatch(<batch taken by Flush>) under the sequence number reserved for that batch")
			}
			// every reserved number is filled: after Reserve every path of flush reaches the goroutine that
			// calls buffer.Add, and inside that goroutine every path calls buffer.Add (Drain stops at a gap forever)
			var goLit ast.Node // the literal, or the declaration of an extracted helper, run by `go`
			var goFn *types.Func
			inspect(fl.Decl.Body, func(nd ast.Node) bool {
				if gs, ok := nd.(*ast.GoStmt); ok {
					if lit, ok := gs.Call.Fun.(*ast.FuncLit); ok && r.exprCalls(fi, lit.Body, ad.Obj) {
						goLit = lit
					} else if hf := r.P.FuncInfoOf(r.P.CalleeFunc(fi, gs.Call)); isNewHelper(r.P, hf) && r.exprCalls(fi, hf.Decl.Body, ad.Obj) {
						goLit, goFn = hf.Decl, hf.Obj
					}
				}
				return true
			})
			if goLit == nil {
				r.Fail(fl.Name()+":fill-goroutine", fl.Decl.Pos(), nil, "flush no longer starts a goroutine that stores the fetched batch in the reorder buffer")
			} else {
				// atom 0: "the batch taken out of the batcher is empty" — any `len(x) == 0` test of a
				// slice of the batch's element type (the test may be repeated inside and outside a
				// closure around the critical section; both look at the same batch)
				var batchT types.Type
				if sig, ok := flushFn.Type().(*types.Signature); ok && sig.Results().Len() == 1 {
					batchT = sig.Results().At(0).Type()
				}
				spec := &pathsim.Spec{Atom: func(c *pathsim.Ctx, e ast.Expr) (int, bool, bool) {
					b, ok := ast.Unparen(e).(*ast.BinaryExpr)
					if !ok || (b.Op != token.EQL && b.Op != token.NEQ && b.Op != token.GTR) {
						return 0, false, false
					}
					call, ok := ast.Unparen(b.X).(*ast.CallExpr)
					if !ok || len(call.Args) != 1 {
						return 0, false, false
					}
					if id, ok := call.Fun.(*ast.Ident); !ok || id.Name != "len" {
						return 0, false, false
					}
					if tv, ok := c.Info.Types[b.Y]; !ok || tv.Value == nil || tv.Value.String() != "0" {
						return 0, false, false
					}
					at := c.Info.TypeOf(call.Args[0])
					if at == nil || batchT == nil {
						return 0, false, false
					}
					if _, isSlice := at.Underlying().(*types.Slice); !isSlice || at.String() != batchT.String() {
						return 0, false, false
					}
					return 0, b.Op != token.EQL, true
				}, Step: func(c *pathsim.Ctx, s pathsim.State, ev *pathsim.Event) []pathsim.State {
					switch ev.Kind {
					case pathsim.EvCall:
						if fn, _ := ev.Callee.(*types.Func); fn == reserveFn {
							s.A = 1
							return []pathsim.State{s}
						} else if ev.Go && goFn != nil && fn != nil && fn.Origin() == goFn.Origin() && s.A == 1 {
							s.A = 2
							return []pathsim.State{s}
						}
					case pathsim.EvFuncLit:
						if ast.Node(ev.Lit) == goLit && s.A == 1 {
							s.A = 2
							return []pathsim.State{s}
						}
					case pathsim.EvReturn, pathsim.EvExit:
						if s.A == 1 {
							c.Violate(ev.Pos, "[reserved-unfilled] flush can return after reserving a sequence number without starting the fetch that fills it: ReorderBuffer.Drain emits strictly in sequence and stops at that hole, so every later batch is fetched but never emitted")
						}
					}
					return nil
				}}
				r.Sim(fl.Decl, fl.Name(), spec)
				spec2 := &pathsim.Spec{Step: func(c *pathsim.Ctx, s pathsim.State, ev *pathsim.Event) []pathsim.State {
					switch ev.Kind {
					case pathsim.EvCall:
						if fn, _ := ev.Callee.(*types.Func); fn == ad.Obj {
							s.A = 1
							return []pathsim.State{s}
						}
					case pathsim.EvReturn, pathsim.EvExit:
						if s.A == 0 {
							c.Violate(ev.Pos, "[fetch-unfilled] the fetch goroutine can end without storing a result under its reserved sequence number (e.g. on a fetch error): Drain would stop at that hole forever")
						}
					}
					return nil
				}}
				r.Sim(goLit, fl.Name()+"$fetch", spec2)
				r.Site(goLit.Pos(), "every reserved sequence number is filled")
			}
			// every drained result reaches Output, element by element
			out := r.P.Field("batching", "ReorderFetcher", "Output")
			drainFn := d.Obj
			okOut := false
			inspect(fl.Decl.Body, func(nd ast.Node) bool {
				rsx, ok := nd.(*ast.RangeStmt)
				if !ok {
					return true
				}
				if call, ok := ast.Unparen(rsx.X).(*ast.CallExpr); ok && r.P.CalleeFunc(fi, call) == drainFn {
					inspect(rsx.Body, func(m ast.Node) bool {
						if send, ok := m.(*ast.SendStmt); ok && prog.SelField(fi, send.Chan) == out {
							okOut = true
						}
						if b, ok := m.(*ast.BranchStmt); ok {
							r.Fail(fl.Name()+":partial-output", b.Pos(), nil, "the drain loop can skip results (%s)", b.Tok)
						}
						// a return inside the drain loop abandons results that Drain already removed from the
						// buffer (and everything queued behind them)
						if ret, ok := m.(*ast.ReturnStmt); ok {
							r.Fail(fl.Name()+":partial-output", ret.Pos(), nil, "the drain loop can be left by a return: results already taken out of the reorder buffer are dropped and later ones are never emitted")
						}
						// the send must not compete with another ready case
						if sel, ok := m.(*ast.SelectStmt); ok && len(sel.Body.List) > 1 {
							for _, cl := range sel.Body.List {
								if send, ok := cl.(*ast.CommClause).Comm.(*ast.SendStmt); ok && prog.SelField(fi, send.Chan) == out {
									r.Fail(fl.Name()+":partial-output", send.Pos(), nil, "the send of a drained result to Output is one case of a select: when another case is ready the result is dropped")
								}
							}
						}
						return true
					})
				}
				return true
			})
			if !okOut {
				r.Fail(fl.Name()+":output", fl.Decl.Pos(), nil, "drained results are not sent to Output")
			}
		}})
}

// mustPrecedeNot: the timer is armed before the append (so "empty" refers to the batch
// before this event).
func (r *Run) mustPrecedeNot(f *prog.FuncInfo, setCall *ast.CallExpr, batch *types.Var) {
	info := f.Pkg.TypesInfo
	inspect(f.Decl.Body, func(nd ast.Node) bool {
		if as, ok := nd.(*ast.AssignStmt); ok && len(as.Lhs) == 1 && prog.SelField(info, as.Lhs[0]) == batch {
			if as.Pos() < setCall.Pos() {
				r.Fail(f.Name()+":arm-after-append", setCall.Pos(), nil, "the time-out is armed after the event was appended: the emptiness test then never holds for a one-element batch and a lone event is never flushed by time-out")
			}
		}
		return true
	})
}

// isPlusOne: the assignment event is `f = f + 1`, `f += 1` or `f = alias + 1` with alias a local
// defined once from f (SelField follows such locals).
func isPlusOne(info *types.Info, ev *pathsim.Event, f *types.Var) bool {
	if len(ev.Rhs) != 1 {
		return false
	}
	one := func(e ast.Expr) bool {
		tv, ok := info.Types[e]
		return ok && tv.Value != nil && tv.Value.String() == "1"
	}
	if ev.Tok == token.ADD_ASSIGN {
		return one(ev.Rhs[0])
	}
	if ev.Tok != token.ASSIGN {
		return false
	}
	b, ok := ast.Unparen(ev.Rhs[0]).(*ast.BinaryExpr)
	if !ok || b.Op != token.ADD {
		return false
	}
	return (prog.SelField(info, b.X) == f && one(b.Y)) || (prog.SelField(info, b.Y) == f && one(b.X))
}
