package rules

import (
	"go/ast"
	"go/token"
	"go/types"

	"verif/checker/internal/orderdom"
	"verif/checker/internal/pathsim"
	"verif/checker/internal/prog"
)

// assignsFieldOnAllPaths: every normally-returning path of fn assigns field f (with a
// value satisfying okVal when given). Returns the number of assignment sites seen.
func (r *Run) assignsFieldOnAllPaths(fn ast.Node, construct string, f *types.Var, okVal func(c *pathsim.Ctx, rhs ast.Expr) bool, tag, why string) int {
	n := 0
	spec := &pathsim.Spec{InlineCalls: true, Step: func(c *pathsim.Ctx, s pathsim.State, ev *pathsim.Event) []pathsim.State {
		if ev.Kind == pathsim.EvAssign {
			for i, l := range ev.Lhs {
				if prog.SelField(c.Info, l) == f {
					n++
					if okVal == nil || (i < len(ev.Rhs) && okVal(c, ev.Rhs[i])) {
						s.A = 1
						return []pathsim.State{s}
					}
				}
			}
		}
		if ev.Kind == pathsim.EvReturn || ev.Kind == pathsim.EvExit {
			isErr := false
			if ev.Kind == pathsim.EvReturn && len(ev.Results) > 0 {
				last := ev.Results[len(ev.Results)-1]
				if tv, ok := c.Info.Types[last]; ok && !tv.IsNil() && isErrorType(tv.Type) {
					isErr = true
				}
			}
			if !isErr && s.A == 0 {
				c.Violate(ev.Pos, "[%s] %s", tag, why)
			}
		}
		return nil
	}}
	r.Sim(fn, construct, spec)
	return n
}

func init() {
	prop("C15",
		"(a) an assembly is formed only when at least the configured number of operators and of source runners are registered, and takes exactly that many of each; (b) every membership change re-evaluates the cluster status, and registry / assembly mutations happen only on the job's serial task queue; (c) a running job leaves the Running state exactly when its assembly is unhealthy, health checks every member, purging removes dead nodes from both maps, and a node is purged iff its last heartbeat is older than the deadline; (d) state that must not outlive an assembly is reset on redeploy: the operator's in-progress checkpoint, the store's pending snapshot and registered splitter, the source runner's event loop and output consumer; (e) errors of split assignment, splitter start and retention updates are not dropped.",
		"liveness ('once enough nodes are registered again ... completes again') beyond the absence of the stale state that provably blocks it; heartbeat timing.")

	register(&Obligation{ID: "C15.a", Props: []string{"C15"}, Template: "guard+value-identity",
		Desc: "jobs.(*Registry).NewAssembly returns an assembly only when runners.Size() >= taskCount and operators.Size() >= taskCount, built from exactly the first taskCount operators and source runners",
		Run: func(r *Run) {
			f := r.P.Func("jobs", "(*Registry).NewAssembly")
			info := f.Pkg.TypesInfo
			runners := r.P.Field("jobs", "Registry", "runners")
			ops := r.P.Field("jobs", "Registry", "operators")
			tc := r.P.Field("jobs", "Registry", "taskCount")
			newA := r.P.FuncObj("jobs", "NewAssembly")
			sizeAtom := func(name string, m *types.Var) guardAtom {
				return guardAtom{Name: name, Match: func(c *pathsim.Ctx, e ast.Expr) (bool, bool) {
					b, ok := ast.Unparen(e).(*ast.BinaryExpr)
					if !ok {
						return false, false
					}
					isSize := func(x ast.Expr) bool {
						call, ok := deref(c.Info, x).(*ast.CallExpr) // (also through `n := r.runners.Size()`)
						if !ok {
							return false
						}
						sel, ok := ast.Unparen(call.Fun).(*ast.SelectorExpr)
						return ok && sel.Sel.Name == "Size" && prog.SelField(c.Info, sel.X) == m
					}
					isTC := func(x ast.Expr) bool { return prog.SelField(c.Info, x) == tc }
					// atom: "size < taskCount" (not enough)
					switch {
					case isSize(b.X) && isTC(b.Y) && b.Op == token.LSS:
						return false, true
					case isSize(b.X) && isTC(b.Y) && b.Op == token.GEQ:
						return true, true
					case isTC(b.X) && isSize(b.Y) && b.Op == token.GTR:
						return false, true
					case isTC(b.X) && isSize(b.Y) && b.Op == token.LEQ:
						return true, true
					}
					return false, false
				}}
			}
			// the assembly is built by the constructor or, with the constructor inlined, by an
			// &Assembly{operators: ..., sourceRunners: ...} literal
			asmT := r.P.TypeName("jobs", "Assembly")
			asmLit := func(e ast.Expr) *ast.CompositeLit {
				var out *ast.CompositeLit
				ast.Inspect(e, func(m ast.Node) bool {
					if cl, ok := m.(*ast.CompositeLit); ok && info.TypeOf(cl) == asmT.Type() {
						out = cl
					}
					return out == nil
				})
				return out
			}
			builds := func(c *pathsim.Ctx, ev *pathsim.Event) bool {
				if callTo(newA)(c, ev) {
					return true
				}
				switch ev.Kind {
				case pathsim.EvAssign:
					for _, rh := range ev.Rhs {
						if asmLit(rh) != nil {
							return true
						}
					}
				case pathsim.EvReturn:
					for _, rs := range ev.Results {
						if asmLit(rs) != nil {
							return true
						}
					}
				}
				return false
			}
			n := r.guarded(f.Decl, f.Name(), "NewAssembly(...)", []guardAtom{sizeAtom("runners<taskCount", runners), sizeAtom("operators<taskCount", ops)}, builds,
				func(v []pathsim.Tri) bool { return v[0] == pathsim.False && v[1] == pathsim.False }, "runners.Size() >= taskCount && operators.Size() >= taskCount")
			if n == 0 {
				r.Fail(f.Name()+":no-assembly", f.Decl.Pos(), nil, "Registry.NewAssembly never builds an assembly")
			}
			inspect(f.Decl.Body, func(nd ast.Node) bool {
				var memberArgs []ast.Expr
				var at token.Pos
				switch x := nd.(type) {
				case *ast.CallExpr:
					if r.P.CalleeFunc(info, x) != newA || len(x.Args) != 2 {
						return true
					}
					memberArgs, at = x.Args, x.Pos()
				case *ast.CompositeLit:
					if info.TypeOf(x) != asmT.Type() {
						return true
					}
					memberArgs, at = []ast.Expr{compositeField(info, x, "operators"), compositeField(info, x, "sourceRunners")}, x.Pos()
					if memberArgs[0] == nil || memberArgs[1] == nil {
						r.Fail(f.Name()+":members:literal", x.Pos(), nil, "the Assembly literal does not set both member lists")
						return true
					}
				default:
					return true
				}
				call := struct {
					Args []ast.Expr
					pos  token.Pos
				}{memberArgs, at}
				r.Site(at, "NewAssembly arguments")
				for i, want := range []*types.Var{ops, runners} {
					sl, ok := deref(info, call.Args[i]).(*ast.SliceExpr)
					good := false
					if ok && sl.Low == nil && sl.High != nil && prog.SelField(info, sl.High) == tc {
						if vc, ok := deref(info, sl.X).(*ast.CallExpr); ok {
							if sel, ok := ast.Unparen(vc.Fun).(*ast.SelectorExpr); ok && sel.Sel.Name == "Values" && prog.SelField(info, sel.X) == want {
								good = true
							}
						}
					}
					if !good {
						r.Fail(f.Name()+":members:"+want.Name(), call.pos, nil, "the assembly must take exactly %s.Values()[:taskCount]", want.Name())
					}
				}
				return true
			})
		}})

	register(&Obligation{ID: "C15.b", Props: []string{"C15"}, Template: "sibling+confinement",
		Desc: "the four Handle(De)Register* tasks mutate the registry and then call evaluateClusterStatus on every path; registry mutators, evaluateClusterStatus and writes of Job.assembly occur only inside closures sent on Job.taskQueue (or evaluateClusterStatus itself)",
		Run: func(r *Run) {
			tq := r.P.Field("jobs", "Job", "taskQueue")
			eval := r.P.FuncObj("jobs", "(*Job).evaluateClusterStatus")
			pairs := map[string]string{
				"(*Job).HandleRegisterOperator":       "(*Registry).RegisterOperator",
				"(*Job).HandleDeregisterOperator":     "(*Registry).DeregisterOperator",
				"(*Job).HandleRegisterSourceRunner":   "(*Registry).RegisterSourceRunner",
				"(*Job).HandleDeregisterSourceRunner": "(*Registry).DeregisterSourceRunner",
			}
			for h, m := range pairs {
				f := r.P.Func("jobs", h)
				mut := r.P.FuncObj("jobs", m)
				var lit *ast.FuncLit
				inspect(f.Decl.Body, func(nd ast.Node) bool {
					if send, ok := nd.(*ast.SendStmt); ok && prog.SelField(f.Pkg.TypesInfo, send.Chan) == tq {
						lit, _ = ast.Unparen(send.Value).(*ast.FuncLit)
					}
					return true
				})
				if lit == nil {
					r.Fail(f.Name()+":no-task", f.Decl.Pos(), nil, "%s does not enqueue its work on the job's task queue", f.Name())
					continue
				}
				r.Site(lit.Pos(), f.Name()+" task closure")
				spec := &pathsim.Spec{Step: func(c *pathsim.Ctx, s pathsim.State, ev *pathsim.Event) []pathsim.State {
					if callTo(mut)(c, ev) {
						s.A = 1
						return []pathsim.State{s}
					}
					if callTo(eval)(c, ev) {
						if s.A == 0 {
							c.Violate(ev.Pos, "[evaluate-before-mutation] the cluster status is evaluated before the membership change is applied")
						}
						s.A = 2
						return []pathsim.State{s}
					}
					if ev.Kind == pathsim.EvReturn || ev.Kind == pathsim.EvExit {
						switch s.A {
						case 0:
							c.Violate(ev.Pos, "[no-mutation] the task returns without applying the membership change (%s)", m)
						case 1:
							c.Violate(ev.Pos, "[no-evaluate] the task returns without re-evaluating the cluster status: a lost member would keep the job 'running', a new member would never start it")
						}
					}
					return nil
				}}
				r.Sim(lit, f.Name()+"$task", spec)
			}
			// confinement
			targets := []*types.Func{eval}
			for _, m := range pairs {
				targets = append(targets, r.P.FuncObj("jobs", m))
			}
			targets = append(targets, r.P.FuncObj("jobs", "(*Registry).Purge"), r.P.FuncObj("jobs", "(*Registry).NewAssembly"))
			r.confined(targets, false, tq, map[string]string{})
			asm := r.P.Field("jobs", "Job", "assembly")
			for _, fa := range r.fieldAccesses(asm) {
				if !fa.Write || prog.IsTestSupport(fa.Use.Pkg.PkgPath) {
					continue
				}
				where := r.scopeName(fa.Use.Scope)
				r.Site(fa.Use.Ident.Pos(), "Job.assembly written in "+where)
				if where != "jobs.(*Job).evaluateClusterStatus" || (fa.Use.Scope != nil && fa.Use.Scope.Lit != nil) {
					r.Fail("Job.assembly-write<-"+where, fa.Use.Ident.Pos(), nil, "Job.assembly is written in %s, outside evaluateClusterStatus on the task queue", where)
				}
			}
			// the task queue has one consumer
			for _, fa := range r.fieldAccesses(tq) {
				where := r.scopeName(fa.Use.Scope)
				if fa.Kind == "recv" || fa.Kind == "range" {
					r.Site(fa.Use.Ident.Pos(), "taskQueue consumed in "+where)
					if where != "jobs.(*Job).processTaskQueue" {
						r.Fail("taskQueue-recv<-"+where, fa.Use.Ident.Pos(), nil, "the task queue is consumed in %s: tasks would run concurrently", where)
					}
				}
			}
			ptq := r.P.FuncObj("jobs", "(*Job).processTaskQueue")
			r.whoMayCall(ptq, false, map[string]string{"jobs.New": "started once"})
		}})

	register(&Obligation{ID: "C15.c", Props: []string{"C15"}, Template: "guard+order-domain",
		Desc: "evaluateClusterStatus pauses a running job iff Assembly.Healthy is false (and then stops the checkpoint ticker); Healthy checks every source runner and operator; Registry.Purge removes dead ids from both maps; LivenessTracker.Purge drops a node iff lastHeartbeat < now - deadline; expired nodes are purged before the health check and before a new assembly is chosen",
		Run: func(r *Run) {
			f := r.P.Func("jobs", "(*Job).evaluateClusterStatus")
			info := f.Pkg.TypesInfo
			healthy := r.P.FuncObj("jobs", "(*Assembly).Healthy")
			set := r.P.FuncObj("jobs", "(*jobStatus).Set")
			paused := r.P.Pkg("jobs").Types.Scope().Lookup("StatusPaused")
			var okVar types.Object
			inspect(f.Decl.Body, func(nd ast.Node) bool {
				if as, ok := nd.(*ast.AssignStmt); ok && len(as.Rhs) == 1 && len(as.Lhs) >= 1 {
					if call, ok := ast.Unparen(as.Rhs[0]).(*ast.CallExpr); ok && r.P.CalleeFunc(info, call) == healthy {
						okVar = prog.IdentObj(info, as.Lhs[0])
					}
				}
				return true
			})
			if okVar == nil {
				r.Fail(f.Name()+":no-health-check", f.Decl.Pos(), nil, "evaluateClusterStatus no longer asks Assembly.Healthy")
				return
			}
			isPause := func(c *pathsim.Ctx, ev *pathsim.Event) bool {
				return callTo(set)(c, ev) && len(ev.Call.Args) == 1 && prog.IdentObj(c.Info, ev.Call.Args[0]) == paused
			}
			// only inside the function body proper (not the start-failure closure)
			spec := &pathsim.Spec{AtomDeps: map[int][]types.Object{0: {okVar}}}
			spec.Atom = func(c *pathsim.Ctx, e ast.Expr) (int, bool, bool) {
				if prog.IdentObj(c.Info, e) == okVar {
					return 0, false, true
				}
				return 0, false, false
			}
			nPause := 0
			spec.Step = func(c *pathsim.Ctx, s pathsim.State, ev *pathsim.Event) []pathsim.State {
				if callTo(healthy)(c, ev) {
					s.A = 1
					s.V[0] = pathsim.Unknown
					return []pathsim.State{s}
				}
				if isPause(c, ev) {
					nPause++
					if s.A == 1 && s.V[0] != pathsim.False {
						c.Violate(ev.Pos, "[pause-healthy] the job is paused although the assembly was not established unhealthy")
					}
					s.A = 2
					return []pathsim.State{s}
				}
				if (ev.Kind == pathsim.EvReturn || ev.Kind == pathsim.EvExit) && s.A == 1 && s.V[0] == pathsim.False {
					c.Violate(ev.Pos, "[unhealthy-not-paused] the assembly is unhealthy but the job stays Running: it keeps using an assembly with a dead member and never redeploys")
				}
				return nil
			}
			r.Sim(f.Decl, f.Name(), spec)
			r.Site(f.Decl.Pos(), "evaluateClusterStatus: Running -> Paused iff unhealthy")
			if nPause == 0 {
				r.Fail(f.Name()+":never-pauses", f.Decl.Pos(), nil, "evaluateClusterStatus never pauses the job")
			}
			// nodes whose heartbeat expired are purged before the registry is consulted: both the
			// health check of the running assembly and the choice of members for a new one
			purge := r.P.FuncObj("jobs", "(*Registry).Purge")
			newAsm := r.P.FuncObj("jobs", "(*Registry).NewAssembly")
			r.mustPrecede(f.Decl, f.Name(), "Registry.Purge", "Assembly.Healthy", callTo(purge), callTo(healthy))
			if n := r.mustPrecede(f.Decl, f.Name(), "Registry.Purge", "Registry.NewAssembly", callTo(purge), callTo(newAsm)); n == 0 {
				r.Fail(f.Name()+":no-assembly", f.Decl.Pos(), nil, "evaluateClusterStatus no longer builds a new assembly")
			}
			// Healthy: two loops, each `if !registry.HasX(m) { return false, ... }`, final return true
			h := r.P.Func("jobs", "(*Assembly).Healthy")
			hi := h.Pkg.TypesInfo
			for _, m := range []struct{ field, has string }{{"sourceRunners", "NodeRegistry.HasSourceRunner"}, {"operators", "NodeRegistry.HasOperator"}} {
				fld := r.P.Field("jobs", "Assembly", m.field)
				hasFn := r.P.FuncObj("jobs", m.has)
				ok := false
				for _, rs := range fullLoopsOver(hi, h.Decl.Body, func(e ast.Expr) bool { return prog.SelField(hi, e) == fld }) {
					inspect(rs.Body, func(mm ast.Node) bool {
						is, isIf := mm.(*ast.IfStmt)
						if !isIf {
							return true
						}
						u, isNot := ast.Unparen(is.Cond).(*ast.UnaryExpr)
						if !isNot || u.Op != token.NOT {
							return true
						}
						call, isCall := ast.Unparen(u.X).(*ast.CallExpr)
						if !isCall || r.P.CalleeFunc(hi, call) != hasFn || len(call.Args) != 1 || !rs.IsElem(call.Args[0]) {
							return true
						}
						for _, st := range is.Body.List {
							if ret, isRet := st.(*ast.ReturnStmt); isRet && len(ret.Results) >= 1 {
								if tv, has := hi.Types[ret.Results[0]]; has && tv.Value != nil && tv.Value.String() == "false" {
									ok = true
								}
							}
							// a bare return of the named result `healthy`, still at its zero value false
							if ret, isRet := st.(*ast.ReturnStmt); isRet && len(ret.Results) == 0 && namedBoolStillFalse(hi, h, ret.Pos()) {
								ok = true
							}
						}
						return true
					})
					inspect(rs.Body, func(mm ast.Node) bool {
						if b, isB := mm.(*ast.BranchStmt); isB {
							r.Fail(h.Name()+":partial:"+m.field, b.Pos(), nil, "Healthy can skip members (%s)", b.Tok)
						}
						return true
					})
				}
				r.Site(h.Decl.Pos(), "Healthy checks every "+m.field)
				if !ok {
					r.Fail(h.Name()+":"+m.field, h.Decl.Pos(), nil, "Assembly.Healthy does not report unhealthy when a member of %s is missing from the registry", m.field)
				}
			}
			// Registry.HasX -> the right map; Purge deletes from both maps
			pg := r.P.Func("jobs", "(*Registry).Purge")
			pi := pg.Pkg.TypesInfo
			lp := r.P.FuncObj("jobs", "(*LivenessTracker).Purge")
			for _, mname := range []string{"runners", "operators"} {
				fld := r.P.Field("jobs", "Registry", mname)
				ok := false
				// the dead ids: liveness.Purge() itself or a copy of it (slices.Clone, an append loop)
				isDead := func(e ast.Expr) bool {
					call, isCall := deref(pi, e).(*ast.CallExpr)
					if !isCall {
						return false
					}
					if r.P.CalleeFunc(pi, call) == lp {
						return true
					}
					if c2, isClone := isCallToNamed(pi, call, "slices", "Clone"); isClone && len(c2.Args) == 1 {
						inner, isCall := deref(pi, c2.Args[0]).(*ast.CallExpr)
						return isCall && r.P.CalleeFunc(pi, inner) == lp
					}
					return false
				}
				for _, rs := range fullLoopsOver(pi, pg.Decl.Body, isDead) {
					inspect(rs.Body, func(m ast.Node) bool {
						if call, isCall := m.(*ast.CallExpr); isCall {
							if sel, isSel := ast.Unparen(call.Fun).(*ast.SelectorExpr); isSel && sel.Sel.Name == "Delete" && prog.SelField(pi, sel.X) == fld && len(call.Args) == 1 && rs.IsElem(call.Args[0]) {
								ok = true
							}
						}
						return true
					})
				}
				r.Site(pg.Decl.Pos(), "Registry.Purge removes dead ids from "+mname)
				if !ok {
					r.Fail(pg.Name()+":"+mname, pg.Decl.Pos(), nil, "Registry.Purge does not remove dead nodes from %s: a dead node stays eligible for the next assembly", mname)
				}
			}
			// LivenessTracker.Purge condition
			lt := r.P.Func("jobs", "(*LivenessTracker).Purge")
			li := lt.Pkg.TypesInfo
			mField := r.P.Field("jobs", "LivenessTracker", "m")
			// two spellings: `for id, hb := range lt.m { if <expired> { report; delete(lt.m, id) } }` and
			// `maps.DeleteFunc(lt.m, func(id, hb) bool { if <expired> { report; return true }; return false })`
			var cond ast.Expr
			var body *ast.BlockStmt
			var at token.Pos
			hb := ""
			viaDeleteFunc := false
			inspect(lt.Decl.Body, func(nd ast.Node) bool {
				switch x := nd.(type) {
				case *ast.RangeStmt:
					if prog.SelField(li, x.X) == mField && body == nil {
						body, at = x.Body, x.Pos()
						if id, ok := x.Value.(*ast.Ident); ok {
							hb = id.Name
						}
					}
				case *ast.CallExpr:
					if c, ok := isCallToNamed(li, x, "maps", "DeleteFunc"); ok && len(c.Args) == 2 && prog.SelField(li, c.Args[0]) == mField && body == nil {
						if lit, ok := ast.Unparen(c.Args[1]).(*ast.FuncLit); ok {
							var names []string
							for _, f := range lit.Type.Params.List {
								for _, n := range f.Names {
									names = append(names, n.Name)
								}
							}
							if len(names) == 2 {
								body, at, hb, viaDeleteFunc = lit.Body, x.Pos(), names[1], true
							}
						}
					}
				}
				return true
			})
			var ifStmt *ast.IfStmt
			if body != nil {
				ast.Inspect(body, func(m ast.Node) bool {
					if is, ok := m.(*ast.IfStmt); ok && ifStmt == nil {
						ifStmt = is
						cond = is.Cond
					}
					return true
				})
			}
			if body == nil || cond == nil {
				r.Error("undecided: LivenessTracker.Purge shape")
				return
			}
			r.orderDomExpr(li, cond, lt.Name()+":expiry", map[string]string{hb: "hb", "lt.clock.Now().Add(-lt.deadline)": "cutoff"}, nil,
				func(e odEnv) orderdom.Value { return orderdom.Bool(e.Rank["hb"] < e.Rank["cutoff"]) }, "lastHeartbeat < now - deadline")
			// the purged id is deleted from the tracker and reported
			del, rep := false, false
			inspect(ifStmt.Body, func(nd ast.Node) bool {
				if call, ok := nd.(*ast.CallExpr); ok {
					if id, ok := call.Fun.(*ast.Ident); ok && id.Name == "delete" && len(call.Args) == 2 && prog.SelField(li, call.Args[0]) == mField {
						del = true
					}
					if id, ok := call.Fun.(*ast.Ident); ok && id.Name == "append" {
						rep = true
					}
				}
				if ret, ok := nd.(*ast.ReturnStmt); ok && viaDeleteFunc && len(ret.Results) == 1 {
					if tv, ok := li.Types[ret.Results[0]]; ok && tv.Value != nil && tv.Value.String() == "true" {
						del = true
					}
				}
				return true
			})
			if viaDeleteFunc {
				// and entries that are not expired are kept
				for _, st := range body.List {
					if ret, ok := st.(*ast.ReturnStmt); ok && len(ret.Results) == 1 {
						if tv, ok := li.Types[ret.Results[0]]; ok && tv.Value != nil && tv.Value.String() == "true" {
							r.Fail(lt.Name()+":keeps-live", ret.Pos(), nil, "maps.DeleteFunc's predicate returns true outside the expiry test: live nodes are purged")
						}
					}
				}
			}
			if !del || !rep {
				r.Fail(lt.Name()+":effect", at, nil, "an expired node must be both removed from the tracker and reported to the registry")
			}
			// Heartbeat stores now
			hbf := r.P.Func("jobs", "(*LivenessTracker).Heartbeat")
			okHB := false
			inspect(hbf.Decl.Body, func(nd ast.Node) bool {
				if as, ok := nd.(*ast.AssignStmt); ok && len(as.Lhs) == 1 {
					if ix, ok := ast.Unparen(as.Lhs[0]).(*ast.IndexExpr); ok && prog.SelField(hbf.Pkg.TypesInfo, ix.X) == mField && r.isParam(hbf, ix.Index, 0) {
						okHB = true
					}
				}
				return true
			})
			r.Site(hbf.Decl.Pos(), "Heartbeat records the node's time")
			if !okHB {
				r.Fail(hbf.Name()+":shape", hbf.Decl.Pos(), nil, "Heartbeat does not record the time for the given node id")
			}
		}})

	register(&Obligation{ID: "C15.d", Props: []string{"C15", "C01"}, Template: "reset-completeness",
		Desc: "redeploy resets per-assembly state: Operator.HandleDeploy assigns keySpace, keyGroupRange, db, stateStore, timerRegistry, sourceRunners, sink and clears the in-progress checkpoint; the snapshot store replaces (not appends) the registered splitter and abandons the previous run's pending snapshot; SourceRunner.HandleDeploy stops the previous event loop and keeps a single outputStream consumer",
		Run: func(r *Run) {
			hd := r.P.Func("workers/operator", "(*Operator).HandleDeploy")
			for _, fn := range []string{"keySpace", "keyGroupRange", "db", "stateStore", "timerRegistry", "sourceRunners", "sink"} {
				fld := r.P.Field("workers/operator", "Operator", fn)
				n := r.assignsFieldOnAllPaths(hd.Decl, hd.Name(), fld, nil, "reset:"+fn, "HandleDeploy can succeed without re-initialising Operator."+fn+": the redeployed operator would keep the previous assembly's "+fn)
				if n == 0 {
					r.Fail(hd.Name()+":reset:"+fn, hd.Decl.Pos(), nil, "HandleDeploy never assigns Operator.%s", fn)
				}
			}
			ck := r.P.Field("workers/operator", "Operator", "checkpoint")
			r.assignsFieldOnAllPaths(hd.Decl, hd.Name(), ck, func(c *pathsim.Ctx, rhs ast.Expr) bool {
				tv, ok := c.Info.Types[rhs]
				return ok && tv.IsNil()
			}, "reset:checkpoint", "HandleDeploy can succeed without clearing Operator.checkpoint: after a failure during an in-flight checkpoint the stale alignment stays, every later barrier is rejected with 'checkpoint ID mismatch' and no checkpoint ever completes again")
			r.Site(hd.Decl.Pos(), "Operator.HandleDeploy resets per-assembly fields")
			// the new DB is opened from the handles of the request, the stores are built on the new db
			// snapshot store
			rs := r.P.Func("storage/snapshots", "(*Store).RegisterSourceSplitter")
			ri := rs.Pkg.TypesInfo
			spl := r.P.Field("storage/snapshots", "Store", "sourceSplitters")
			pend := r.P.Field("storage/snapshots", "storeState", "pendingSnapshot")
			r.Site(rs.Decl.Pos(), "Store.RegisterSourceSplitter replaces the splitter and abandons the pending snapshot")
			inspect(rs.Decl.Body, func(nd ast.Node) bool {
				as, ok := nd.(*ast.AssignStmt)
				if !ok || len(as.Lhs) != 1 || prog.SelField(ri, as.Lhs[0]) != spl {
					return true
				}
				if call, ok := ast.Unparen(as.Rhs[0]).(*ast.CallExpr); ok {
					if id, ok := call.Fun.(*ast.Ident); ok && id.Name == "append" && len(call.Args) > 0 && prog.SelField(ri, call.Args[0]) == spl {
						r.Fail(rs.Name()+":append", as.Pos(), nil, "every job (re)start appends another splitter; finishSnapshot insists on exactly one and panics at the first checkpoint completed after a restart, so no checkpoint is ever published again")
					}
				}
				return true
			})
			start := r.P.Func("jobs", "(*Job).start")
			clears := false
			// accepted: the store clears pendingSnapshot in RegisterSourceSplitter or in a method called from Job.start
			checkClears := func(fi *prog.FuncInfo) bool {
				found := false
				inspect(fi.Decl.Body, func(nd ast.Node) bool {
					if as, ok := nd.(*ast.AssignStmt); ok && len(as.Lhs) == 1 && prog.SelField(fi.Pkg.TypesInfo, as.Lhs[0]) == pend {
						if tv, ok := fi.Pkg.TypesInfo.Types[as.Rhs[0]]; ok && tv.IsNil() {
							found = true
						}
					}
					return true
				})
				return found
			}
			inspect(start.Decl.Body, func(nd ast.Node) bool {
				if call, ok := nd.(*ast.CallExpr); ok {
					if fn := r.P.CalleeFunc(start.Pkg.TypesInfo, call); fn != nil {
						if fi := r.P.FuncInfoOf(fn); fi != nil && prog.RelPkg(fi.Pkg.PkgPath) == "storage/snapshots" && checkClears(fi) {
							clears = true
						}
					}
				}
				return true
			})
			r.Site(start.Decl.Pos(), "Job.start abandons the previous run's pending snapshot")
			if !clears {
				r.Fail(start.Name()+":pending-snapshot", start.Decl.Pos(), nil, "a job restart never clears the store's pendingSnapshot: after a failure during an in-flight checkpoint CreateCheckpoint answers ErrCheckpointInProgress forever")
			}
			// source runner
			sd := r.P.Func("workers/sourcerunner", "(*SourceRunner).HandleDeploy")
			si := sd.Pkg.TypesInfo
			stopLoop := r.P.Field("workers/sourcerunner", "SourceRunner", "stopLoop")
			out := r.P.Field("workers/sourcerunner", "SourceRunner", "outputStream")
			r.Site(sd.Decl.Pos(), "SourceRunner.HandleDeploy stops the previous deployment")
			spec := &pathsim.Spec{Step: func(c *pathsim.Ctx, s pathsim.State, ev *pathsim.Event) []pathsim.State {
				if ev.Kind == pathsim.EvCall && ev.Call != nil && prog.SelField(c.Info, ev.Call.Fun) == stopLoop {
					s.A = 1
					return []pathsim.State{s}
				}
				if ev.Kind == pathsim.EvAssign && len(ev.Lhs) == 1 && prog.SelField(c.Info, ev.Lhs[0]) == stopLoop && s.A == 0 {
					c.Violate(ev.Pos, "[stopLoop-overwritten] the previous deployment's stopLoop is overwritten without being invoked: the old event loop keeps reading the source and feeding the shared output stream next to the new one")
				}
				return nil
			}}
			r.Sim(sd.Decl, sd.Name(), spec)
			// consumers of outputStream started per deploy
			consumers := 0
			inspect(sd.Decl.Body, func(nd ast.Node) bool {
				if gs, ok := nd.(*ast.GoStmt); ok {
					if lit, ok := ast.Unparen(gs.Call.Fun).(*ast.FuncLit); ok {
						inspect(lit.Body, func(m ast.Node) bool {
							if rs, ok := m.(*ast.RangeStmt); ok && prog.SelField(si, rs.X) == out {
								consumers++
								// an unconditional, never-ending consumer started on every deploy
								r.Fail(sd.Name()+":consumer-per-deploy", gs.Pos(), nil, "every HandleDeploy starts another goroutine that ranges over the never-closed outputStream: after a redeploy two consumers deliver events concurrently and per-split order is lost")
							}
							return true
						})
					}
				}
				return true
			})
			_ = consumers
		}})

	register(&Obligation{ID: "C15.f", Props: []string{"C15"}, Template: "paired-update",
		Desc: "the checkpoint ticker follows the Running state: the task that sets StatusRunning arms a fresh ticker (clock.Every) on every path, because every transition to StatusPaused stops the previous one and a stopped ticker never fires again",
		Run: func(r *Run) {
			st := r.P.Func("jobs", "(*Job).start")
			info := st.Pkg.TypesInfo
			tick := r.P.Field("jobs", "Job", "checkpointTicker")
			clock := r.P.Field("jobs", "Job", "clock")
			status := r.P.Field("jobs", "Job", "status")
			running := r.P.Pkg("jobs").Types.Scope().Lookup("StatusRunning")
			paused := r.P.Pkg("jobs").Types.Scope().Lookup("StatusPaused")
			if running == nil || paused == nil {
				r.Error("unresolved anchor: jobs.StatusRunning / StatusPaused")
				return
			}
			setsStatus := func(n ast.Node, to types.Object) (pos token.Pos) {
				inspect(n, func(m ast.Node) bool {
					call, ok := m.(*ast.CallExpr)
					if !ok || len(call.Args) != 1 {
						return true
					}
					sel, ok := ast.Unparen(call.Fun).(*ast.SelectorExpr)
					if ok && sel.Sel.Name == "Set" && prog.SelField(info, sel.X) == status && prog.IdentObj(info, call.Args[0]) == to {
						pos = call.Pos()
					}
					return true
				})
				return
			}
			// (1) the literal that sets StatusRunning assigns the ticker from clock.Every on all paths
			var lit *ast.FuncLit
			inspect(st.Decl.Body, func(n ast.Node) bool {
				if fl, ok := n.(*ast.FuncLit); ok && lit == nil && setsStatus(fl.Body, running).IsValid() {
					lit = fl
				}
				return true
			})
			if lit == nil {
				r.Error("undecided: Job.start no longer queues a task that sets StatusRunning")
				return
			}
			r.Site(lit.Pos(), "task that sets StatusRunning")
			n := r.assignsFieldOnAllPaths(lit, st.Name()+"$running", tick, func(c *pathsim.Ctx, rhs ast.Expr) bool {
				call, ok := ast.Unparen(rhs).(*ast.CallExpr)
				if !ok {
					return false
				}
				sel, ok := ast.Unparen(call.Fun).(*ast.SelectorExpr)
				return ok && sel.Sel.Name == "Every" && prog.SelField(c.Info, sel.X) == clock
			}, "arm-ticker", "the job can enter StatusRunning without arming a fresh checkpoint ticker: the previous ticker was stopped when the job paused, so after a recovery no checkpoint is ever started again")
			if n == 0 {
				r.Fail(st.Name()+"$running:arm-ticker:none", lit.Pos(), nil, "the task that sets StatusRunning never assigns Job.checkpointTicker")
			}
			// (2) every transition to StatusPaused is followed by stopping the ticker: in the same
			// statement (a helper that does both) or in a later statement of the same statement list
			nPaused := 0
			// a Stop call counts when it runs whenever there is a ticker: unguarded, or under
			// `ticker != nil` (a call in the `ticker == nil` branch stops nothing)
			var stopsTicker func(n ast.Node) bool
			stopsTicker = func(n ast.Node) bool {
				found := false
				inspect(n, func(m ast.Node) bool {
					if found {
						return false
					}
					if is, ok := m.(*ast.IfStmt); ok {
						if x, notNil, isNil := pathsim.IsNilCompare(info, is.Cond); isNil && prog.SelField(info, x) == tick {
							if notNil {
								found = stopsTicker(is.Body)
							} else if is.Else != nil {
								found = stopsTicker(is.Else)
							}
							return false
						}
					}
					if call, ok := m.(*ast.CallExpr); ok {
						if sel, ok := ast.Unparen(call.Fun).(*ast.SelectorExpr); ok && sel.Sel.Name == "Stop" && prog.SelField(info, sel.X) == tick {
							found = true
						}
					}
					return true
				})
				return found
			}
			checkList := func(list []ast.Stmt) {
				for i, s := range list {
					es, ok := s.(*ast.ExprStmt)
					if !ok || !setsStatus(es, paused).IsValid() {
						continue
					}
					nPaused++
					r.Site(es.Pos(), "transition to StatusPaused")
					stopped := stopsTicker(es)
					for _, later := range list[i+1:] {
						if stopsTicker(later) {
							stopped = true
						}
					}
					if !stopped {
						sc := r.P.ScopeAt(es.Pos())
						r.Fail(sc.Name(r.P)+":pause-stops-ticker", es.Pos(), nil, "the job is set to StatusPaused without stopping the checkpoint ticker: it keeps starting checkpoints on the abandoned assembly, and a second ticker is armed on the next start")
					}
				}
			}
			for _, file := range r.P.Pkg("jobs").Syntax {
				ast.Inspect(file, func(nd ast.Node) bool {
					switch x := nd.(type) {
					case *ast.BlockStmt:
						checkList(x.List)
					case *ast.CaseClause:
						checkList(x.Body)
					case *ast.CommClause:
						checkList(x.Body)
					}
					return true
				})
			}
			if nPaused < 2 {
				r.Error("floor: only %d transitions to StatusPaused found (2 confirmed by hand)", nPaused)
			}
		}})

	register(&Obligation{ID: "C15.g", Props: []string{"C15"}, Template: "must-precede+must-follow",
		Desc: "membership changes during a deployment are not lost and no second deployment starts meanwhile: evaluateClusterStatus sets StatusAssemblyStarting and installs the new assembly before it spawns Job.start (the status switch has no case for that state, so later evaluations do nothing until the start ends); the task that sets StatusRunning and the task that handles a failed start both re-evaluate the cluster status afterwards, which is when a member lost during the deployment is noticed",
		Run: func(r *Run) {
			ev := r.P.Func("jobs", "(*Job).evaluateClusterStatus")
			st := r.P.Func("jobs", "(*Job).start")
			info := ev.Pkg.TypesInfo
			status := r.P.Field("jobs", "Job", "status")
			asm := r.P.Field("jobs", "Job", "assembly")
			scope := r.P.Pkg("jobs").Types.Scope()
			starting, running, paused := scope.Lookup("StatusAssemblyStarting"), scope.Lookup("StatusRunning"), scope.Lookup("StatusPaused")
			if starting == nil || running == nil || paused == nil {
				r.Error("unresolved anchor: jobs.Status* constants")
				return
			}
			setsTo := func(c *pathsim.Ctx, e *pathsim.Event, to types.Object) bool {
				if e.Kind != pathsim.EvCall || e.Call == nil || len(e.Call.Args) != 1 {
					return false
				}
				sel, ok := ast.Unparen(e.Call.Fun).(*ast.SelectorExpr)
				return ok && sel.Sel.Name == "Set" && prog.SelField(c.Info, sel.X) == status && prog.IdentObj(c.Info, e.Call.Args[0]) == to
			}
			// (1) in evaluateClusterStatus: before `go func() { j.start() ... }`
			var goLit *ast.FuncLit
			inspect(ev.Decl.Body, func(nd ast.Node) bool {
				if gs, ok := nd.(*ast.GoStmt); ok {
					if lit, ok := gs.Call.Fun.(*ast.FuncLit); ok && r.exprCalls(info, lit.Body, st.Obj) {
						goLit = lit
					}
				}
				return true
			})
			if goLit == nil {
				r.Error("undecided: evaluateClusterStatus no longer spawns Job.start in a goroutine")
				return
			}
			r.Site(goLit.Pos(), "evaluateClusterStatus spawns Job.start")
			spec := &pathsim.Spec{Step: func(c *pathsim.Ctx, s pathsim.State, e *pathsim.Event) []pathsim.State {
				if setsTo(c, e, starting) {
					s.A = 1
					return []pathsim.State{s}
				}
				if e.Kind == pathsim.EvAssign {
					for _, l := range e.Lhs {
						if prog.SelField(c.Info, l) == asm {
							s.B = 1
							return []pathsim.State{s}
						}
					}
				}
				if e.Kind == pathsim.EvFuncLit && e.Lit == goLit {
					if s.A == 0 {
						c.Violate(e.Pos, "[start-without-status] Job.start is spawned while the status is still Init/Paused: the next membership change builds a second assembly and deploys it concurrently with this one")
					}
					if s.B == 0 {
						c.Violate(e.Pos, "[start-without-assembly] Job.start is spawned before the new assembly is installed in Job.assembly")
					}
				}
				return nil
			}}
			r.Sim(ev.Decl, ev.Name()+":spawn", spec)
			// (2), (3): after Set(Running) / Set(Paused) in a task literal, evaluateClusterStatus is called before the task ends
			follow := func(root ast.Node, owner string, to types.Object, tag, why string) {
				n := 0
				inspect(root, func(nd ast.Node) bool {
					lit, ok := nd.(*ast.FuncLit)
					if !ok {
						return true
					}
					// literal that directly (not in nested literals) sets the status
					direct := false
					inspect(lit.Body, func(m ast.Node) bool {
						if inner, ok := m.(*ast.FuncLit); ok && inner != lit {
							return false
						}
						if call, ok := m.(*ast.CallExpr); ok && len(call.Args) == 1 {
							if sel, ok := ast.Unparen(call.Fun).(*ast.SelectorExpr); ok && sel.Sel.Name == "Set" && prog.SelField(info, sel.X) == status && prog.IdentObj(info, call.Args[0]) == to {
								direct = true
							}
						}
						return true
					})
					if !direct {
						return true
					}
					n++
					r.Site(lit.Pos(), owner+": task that sets "+to.Name())
					sp := &pathsim.Spec{Step: func(c *pathsim.Ctx, s pathsim.State, e *pathsim.Event) []pathsim.State {
						if setsTo(c, e, to) {
							s.A = 1
							return []pathsim.State{s}
						}
						if callTo(ev.Obj)(c, e) && s.A == 1 {
							s.A = 2
							return []pathsim.State{s}
						}
						if (e.Kind == pathsim.EvReturn || e.Kind == pathsim.EvExit) && s.A == 1 {
							c.Violate(e.Pos, "[%s] %s", tag, why)
						}
						return nil
					}}
					r.Sim(lit, owner+"$"+to.Name(), sp)
					return true
				})
				if n == 0 {
					r.Error("undecided: %s: no task literal sets %s", owner, to.Name())
				}
			}
			follow(st.Decl.Body, st.Name(), running, "no-evaluate-after-running", "the task that makes the job Running ends without re-evaluating the cluster status: a member that deregistered or died while the assembly was being deployed is not noticed (evaluations during StatusAssemblyStarting do nothing), so the job keeps 'running' on a broken assembly")
			follow(goLit.Body, ev.Name(), paused, "no-evaluate-after-failed-start", "after a failed start the job is set to Paused without re-evaluating the cluster status: with enough nodes registered nothing triggers a new deployment until the next membership change")
		}})

	register(&Obligation{ID: "C15.e", Props: []string{"C15", "C16", "C13"}, Template: "error-discipline",
		Desc: "jobs/job.go: the errors of Assembly.AssignSplits, SourceSplitter.Start and Assembly.UpdateRetainedCheckpoints are not discarded",
		Run: func(r *Run) {
			targets := []*types.Func{
				r.P.FuncObj("jobs", "(*Assembly).AssignSplits"),
				r.P.FuncObj("connectors", "SourceSplitter.Start"),
				r.P.FuncObj("jobs", "(*Assembly).UpdateRetainedCheckpoints"),
				r.P.FuncObj("jobs", "(*Assembly).StartCheckpoint"),
				r.P.FuncObj("jobs", "(*Assembly).Deploy"),
			}
			n := 0
			for _, pkgRel := range []string{"jobs"} {
				pkg := r.P.Pkg(pkgRel)
				for _, file := range pkg.Syntax {
					inspect(file, func(nd ast.Node) bool {
						es, ok := nd.(*ast.ExprStmt)
						var call *ast.CallExpr
						if ok {
							call, _ = ast.Unparen(es.X).(*ast.CallExpr)
						}
						if as, isAs := nd.(*ast.AssignStmt); isAs && len(as.Rhs) == 1 {
							if c2, ok := ast.Unparen(as.Rhs[0]).(*ast.CallExpr); ok {
								allBlank := true
								for _, l := range as.Lhs {
									if id, ok := l.(*ast.Ident); !ok || id.Name != "_" {
										allBlank = false
									}
								}
								if allBlank {
									call = c2
								}
							}
						}
						if call == nil {
							// count checked call sites too
							if c3, ok := nd.(*ast.CallExpr); ok {
								fn := r.P.CalleeFunc(pkg.TypesInfo, c3)
								for _, t := range targets {
									if fn == t {
										n++
										r.Site(c3.Pos(), prog.ShortFuncName(t)+" call")
									}
								}
							}
							return true
						}
						fn := r.P.CalleeFunc(pkg.TypesInfo, call)
						for _, t := range targets {
							if fn == t {
								where := r.scopeName(r.P.ScopeAt(call.Pos()))
								r.Fail(where+":dropped-error:"+t.Name(), call.Pos(), nil, "the error returned by %s is discarded in %s", prog.ShortFuncName(t), where)
							}
						}
						return true
					})
				}
			}
			if n < 4 {
				r.Error("expected >= 4 call sites of the job's fallible assembly / splitter operations, found %d", n)
			}
		}})
}

// namedBoolStillFalse: fi's first result is a named bool and no assignment to it precedes pos in
// the source (so a bare return at pos hands back false).
func namedBoolStillFalse(info *types.Info, fi *prog.FuncInfo, pos token.Pos) bool {
	rs := fi.Decl.Type.Results
	if rs == nil || len(rs.List) == 0 || len(rs.List[0].Names) == 0 {
		return false
	}
	obj := info.Defs[rs.List[0].Names[0]]
	if obj == nil {
		return false
	}
	if b, ok := obj.Type().Underlying().(*types.Basic); !ok || b.Info()&types.IsBoolean == 0 {
		return false
	}
	still := true
	ast.Inspect(fi.Decl.Body, func(n ast.Node) bool {
		if as, ok := n.(*ast.AssignStmt); ok && as.Pos() < pos {
			for _, l := range as.Lhs {
				if prog.IdentObjPlain(info, l) == obj {
					still = false
				}
			}
		}
		return true
	})
	return still
}
