package rules

import (
	"go/ast"
	"go/token"
	"go/types"

	"verif/checker/internal/pathsim"
	"verif/checker/internal/prog"
)

// curProg is the program the obligation being evaluated runs on (set by Eval).
var curProg *prog.Prog

// isNewHelper: fn is a function of the main module that did not exist when the tables of
// this checker were confirmed (not in baseline_funcs.txt) — typically the product of an
// "extract method" refactoring.
func isNewHelper(p *prog.Prog, fi *prog.FuncInfo) bool {
	return fi != nil && fi.Decl != nil && fi.Decl.Body != nil && !baselineFuncs()[fi.Name()] && !prog.IsTestSupport(fi.Pkg.PkgPath)
}

// inspect is ast.Inspect that looks through calls of new same-package helpers: after a call
// whose static callee is such a helper, the helper's body is traversed as if it were nested
// at the call (depth <= 3, no recursion). On a tree without new functions it is ast.Inspect.
func inspect(root ast.Node, f func(ast.Node) bool) {
	inspectDepth(root, f, 0, nil)
}

// synthLit presents a declared function as the function literal it replaced: a new helper used
// as a function value is traversed as `func(params) results { body }` standing at that use, so
// that rules which collect or skip nested literals treat both spellings alike.
var synthLits = map[*ast.FuncDecl]*ast.FuncLit{}

func synthLit(fi *prog.FuncInfo) *ast.FuncLit {
	if l, ok := synthLits[fi.Decl]; ok {
		return l
	}
	l := &ast.FuncLit{Type: fi.Decl.Type, Body: fi.Decl.Body}
	synthLits[fi.Decl] = l
	return l
}

func inspectDepth(root ast.Node, f func(ast.Node) bool, depth int, stack []*prog.FuncInfo) {
	if root == nil {
		return
	}
	p := curProg
	var rootPkg interface{}
	if p != nil {
		if file := p.FileAt(root.Pos()); file != nil {
			rootPkg = p.PkgOfFile(file)
		}
	}
	callFun := map[*ast.Ident]bool{} // identifiers in call position (their callee is followed at the call)
	ast.Inspect(root, func(n ast.Node) bool {
		ok := f(n)
		if !ok || p == nil || depth >= 3 {
			return ok
		}
		if id, isID := n.(*ast.Ident); isID && !callFun[id] {
			// a new helper used as a function value (db.tasks.Enqueue(q, db.flushSealed)): its body
			// stands where a literal stood before the extraction
			info := p.InfoAt(id.Pos())
			if info == nil {
				return ok
			}
			fn, isFn := info.Uses[id].(*types.Func)
			if !isFn {
				return ok
			}
			fi := p.FuncInfoOf(fn)
			if !isNewHelper(p, fi) || interface{}(fi.Pkg) != rootPkg {
				return ok
			}
			for _, s := range stack {
				if s == fi {
					return ok
				}
			}
			inspectDepth(synthLit(fi), f, depth+1, append(stack, fi))
			return ok
		}
		call, isCall := n.(*ast.CallExpr)
		if !isCall {
			return ok
		}
		switch fx := ast.Unparen(call.Fun).(type) {
		case *ast.Ident:
			callFun[fx] = true
		case *ast.SelectorExpr:
			callFun[fx.Sel] = true
		}
		info := p.InfoAt(call.Pos())
		if info == nil {
			return ok
		}
		// a local closure with parameters, bound once to a local and called: its body is traversed
		// at each call with the parameters standing for that call's arguments
		if id, isID := ast.Unparen(call.Fun).(*ast.Ident); isID {
			if lit := localClosure(info, id); lit != nil && !(call.Pos() >= lit.Pos() && call.End() <= lit.End()) {
				frame := bindFrame(info, lit.Type, call)
				defer func() {
					bindStack = append(bindStack, frame)
					inspectDepth(lit.Body, f, depth+1, stack)
					bindStack = bindStack[:len(bindStack)-1]
				}()
				return ok
			}
		}
		fi := p.FuncInfoOf(p.CalleeFunc(info, call))
		if !isNewHelper(p, fi) || interface{}(fi.Pkg) != rootPkg {
			return ok
		}
		for _, s := range stack {
			if s == fi {
				return ok
			}
		}
		// the call's own operands are visited by the enclosing traversal; then the body, with the
		// helper's parameters standing for this call's arguments
		frame := bindFrame(info, fi.Decl.Type, call)
		bindRecv(frame, fi, call)
		defer func() {
			bindStack = append(bindStack, frame)
			inspectDepth(fi.Decl.Body, f, depth+1, append(stack, fi))
			bindStack = bindStack[:len(bindStack)-1]
		}()
		return ok
	})
}

// bindStack holds, during an inspect traversal that descended into the body of an extracted
// helper or a local closure, what that body's parameters stand for at the call being followed.
// derefStep consults it first, which makes parameter resolution specific to the call site (a
// helper called from two places resolves differently in each descent).
var bindStack []map[types.Object]ast.Expr

func bindFrame(info *types.Info, ft *ast.FuncType, call *ast.CallExpr) map[types.Object]ast.Expr {
	frame := map[types.Object]ast.Expr{}
	if ft.Params == nil {
		return frame
	}
	k := 0
	for _, fld := range ft.Params.List {
		_, variadic := fld.Type.(*ast.Ellipsis)
		for _, n := range fld.Names {
			if !variadic && k < len(call.Args) && call.Ellipsis == token.NoPos {
				if o := info.Defs[n]; o != nil {
					frame[o] = call.Args[k]
				}
			}
			k++
		}
		if len(fld.Names) == 0 {
			k++
		}
	}
	return frame
}

// bindRecv adds the receiver of a method helper to a bind frame: inside `b.shareAs(n)` the
// receiver variable stands for the expression the method was called on.
func bindRecv(frame map[types.Object]ast.Expr, fi *prog.FuncInfo, call *ast.CallExpr) {
	if fi == nil || fi.Decl == nil || fi.Decl.Recv == nil || len(fi.Decl.Recv.List) != 1 || len(fi.Decl.Recv.List[0].Names) != 1 {
		return
	}
	sel, ok := ast.Unparen(call.Fun).(*ast.SelectorExpr)
	if !ok {
		return
	}
	if o := fi.Pkg.TypesInfo.Defs[fi.Decl.Recv.List[0].Names[0]]; o != nil {
		frame[o] = sel.X
	}
}

// boundArg returns what a parameter stands for in the innermost descent that binds it.
func boundArg(o types.Object) ast.Expr {
	for i := len(bindStack) - 1; i >= 0; i-- {
		if e, ok := bindStack[i][o]; ok {
			return e
		}
	}
	return nil
}

// localClosure: id names a local variable with exactly one definition, a function literal with
// parameters (refill := func(index int) {...}); the literal is returned.
func localClosure(info *types.Info, id *ast.Ident) *ast.FuncLit {
	v, ok := info.Uses[id].(*types.Var)
	if !ok || v.IsField() || v.Pkg() == nil || v.Parent() == v.Pkg().Scope() {
		return nil
	}
	if _, isSig := v.Type().Underlying().(*types.Signature); !isSig {
		return nil
	}
	sc := curProg.ScopeAt(id.Pos())
	if sc == nil || sc.Fn == nil || sc.Fn.Decl == nil || sc.Fn.Decl.Body == nil {
		return nil
	}
	def := localDefPlain(info, sc.Fn.Decl.Body, v)
	lit, _ := ast.Unparen(def).(*ast.FuncLit)
	if lit == nil || lit.Type.Params == nil || len(lit.Type.Params.List) == 0 {
		return nil
	}
	return lit
}

func init() {
	prog.ResolveLocal = func(info *types.Info, id *ast.Ident) ast.Expr {
		def := derefStep(info, id)
		if _, isCall := ast.Unparen(def).(*ast.CallExpr); (def == nil || isCall) && !inDerefStep {
			// `x, err := helper(...)`: what the extracted helper returns at x's position
			if t := derefTuple(info, id); t != nil {
				def = t
			}
		}
		if def == nil {
			return nil
		}
		// only pure selector chains are followed (a field read); calls and everything else stay opaque
		d := ast.Unparen(def)
		for {
			switch x := d.(type) {
			case *ast.SelectorExpr:
				d = ast.Unparen(x.X)
				continue
			case *ast.Ident:
				return def
			}
			return nil
		}
	}
	prog.ResolveAlias = func(info *types.Info, id *ast.Ident) *ast.Ident {
		if next, _ := ast.Unparen(derefStepQuiet(info, id)).(*ast.Ident); next != nil {
			return next
		}
		// `a, b := helper(...)` where the extracted helper returns its own variable at that position
		// (on every return that is not a zero value): the caller's variable names the helper's
		if inDerefStep {
			return nil
		}
		inDerefStep = true
		defer func() { inDerefStep = false }()
		if t := derefTuple(info, id); t != nil {
			if next, ok := ast.Unparen(t).(*ast.Ident); ok {
				return next
			}
		}
		return nil
	}
	pathsim.PredicateBody = func(info *types.Info, call *ast.CallExpr) ast.Expr {
		return predicateBody(info, call)
	}
	pathsim.BoolLocalDef = func(info *types.Info, id *ast.Ident) ast.Expr {
		obj, ok := info.Uses[id].(*types.Var)
		if !ok {
			return nil
		}
		if b, ok := obj.Type().Underlying().(*types.Basic); !ok || b.Info()&types.IsBoolean == 0 {
			return nil
		}
		def := derefStep(info, id)
		if def == nil {
			return nil
		}
		// only pure boolean formulas: comparisons, !, &&, ||, parentheses — not calls or comma-ok results
		pure := true
		ast.Inspect(def, func(n ast.Node) bool {
			switch x := n.(type) {
			case *ast.CallExpr:
				if id, ok := x.Fun.(*ast.Ident); ok && id.Name == "len" {
					break
				}
				// side-effect free comparisons of the standard library (bytes.Equal, errors.Is, ...)
				if fn := curProg.CalleeFunc(info, x); fn != nil && fn.Pkg() != nil {
					switch fn.Pkg().Path() {
					case "bytes", "strings", "errors", "cmp":
						for _, a := range x.Args {
							if _, isLit := ast.Unparen(a).(*ast.FuncLit); isLit {
								pure = false
							}
						}
						return pure
					}
				}
				pure = false
			case *ast.TypeAssertExpr, *ast.IndexExpr:
				pure = false
			}
			return pure
		})
		if !pure {
			return nil
		}
		switch ast.Unparen(def).(type) {
		case *ast.BinaryExpr, *ast.UnaryExpr, *ast.CallExpr: // (a call: only the pure comparisons admitted above)
			return def
		}
		return nil
	}
	pathsim.DefaultInline = func(p *prog.Prog, fi *prog.FuncInfo) bool { return isNewHelper(p, fi) }
	pathsim.BindCall = func(callerInfo *types.Info, fi *prog.FuncInfo, call *ast.CallExpr) func() {
		frame := bindFrame(callerInfo, fi.Decl.Type, call)
		bindRecv(frame, fi, call)
		bindStack = append(bindStack, frame)
		return func() { bindStack = bindStack[:len(bindStack)-1] }
	}
}

// deref follows an identifier to what it stands for, up to three steps: a local variable
// with exactly one definition stands for its defining expression; a parameter of a new
// (non-baseline) helper with a single call site stands for the argument at that call site.
// Anything else is returned unchanged.
func deref(info *types.Info, e ast.Expr) ast.Expr {
	for i := 0; i < 3; i++ {
		e = ast.Unparen(e)
		if call, isCall := e.(*ast.CallExpr); isCall {
			// a call of a new helper whose whole body is `return <expr>` stands for that expression
			if body := helperReturnExpr(info, call); body != nil {
				e = body
				continue
			}
			// a conversion to a named slice / map / func type keeps the value: liveEntries(iters) is iters
			if tv, ok := info.Types[call.Fun]; ok && tv.IsType() && len(call.Args) == 1 {
				switch tv.Type.Underlying().(type) {
				case *types.Slice, *types.Map, *types.Signature, *types.Pointer, *types.Chan:
					e = call.Args[0]
					continue
				}
			}
			return e
		}
		// x.f where x stands for a struct literal T{..., f: v, ...}: v
		if sel, isSel := e.(*ast.SelectorExpr); isSel {
			if _, isID := ast.Unparen(sel.X).(*ast.Ident); isID {
				base := deref(info, sel.X)
				if u, ok := base.(*ast.UnaryExpr); ok && u.Op == token.AND {
					base = ast.Unparen(u.X)
				}
				if cl, ok := base.(*ast.CompositeLit); ok {
					if v := compositeField(info, cl, sel.Sel.Name); v != nil {
						e = v
						continue
					}
				}
			}
			return e
		}
		id, ok := e.(*ast.Ident)
		if !ok {
			return e
		}
		if t := derefTuple(info, id); t != nil {
			e = t
			continue
		}
		next := derefStep(info, id)
		if next == nil {
			return e
		}
		e = next
	}
	return ast.Unparen(e)
}

// derefTuple: id is defined once by `a, b := helper(...)` with helper an extracted function; the
// expression the helper returns at id's position (its zero-value "nothing" returns aside, the
// others agreeing) is returned.
func derefTuple(info *types.Info, id *ast.Ident) ast.Expr {
	p := curProg
	obj, ok := info.Uses[id].(*types.Var)
	if !ok || p == nil || obj.IsField() {
		return nil
	}
	sc := p.ScopeAt(obj.Pos())
	if sc == nil || sc.Fn == nil || sc.Fn.Decl == nil || sc.Fn.Decl.Body == nil {
		return nil
	}
	var call *ast.CallExpr
	idx, n := -1, 0
	ast.Inspect(sc.Fn.Decl.Body, func(nd ast.Node) bool {
		as, isAs := nd.(*ast.AssignStmt)
		if !isAs {
			return true
		}
		for i, l := range as.Lhs {
			if prog.IdentObjPlain(info, l) != types.Object(obj) {
				continue
			}
			n++
			if len(as.Lhs) > 1 && len(as.Rhs) == 1 {
				if c, isCall := ast.Unparen(as.Rhs[0]).(*ast.CallExpr); isCall {
					call, idx = c, i
				}
			}
		}
		return true
	})
	if n != 1 || call == nil {
		return nil
	}
	hf := p.FuncInfoOf(p.CalleeFunc(info, call))
	if !isNewHelper(p, hf) {
		return nil
	}
	var only ast.Expr
	agree := true
	ast.Inspect(hf.Decl.Body, func(nd ast.Node) bool {
		if _, isLit := nd.(*ast.FuncLit); isLit {
			return false
		}
		ret, isRet := nd.(*ast.ReturnStmt)
		if !isRet || idx >= len(ret.Results) {
			return true
		}
		res := ret.Results[idx]
		if isZeroValueExpr(info, res) {
			return true
		}
		if only == nil {
			only = res
		} else if types.ExprString(only) != types.ExprString(res) {
			agree = false
		}
		return true
	})
	if !agree {
		return nil
	}
	return only
}

// compositeField returns the value given to field name in a struct literal (keyed or positional).
func compositeField(info *types.Info, cl *ast.CompositeLit, name string) ast.Expr {
	t := info.TypeOf(cl)
	if t == nil {
		return nil
	}
	st, ok := t.Underlying().(*types.Struct)
	if !ok {
		return nil
	}
	for i, el := range cl.Elts {
		if kv, ok := el.(*ast.KeyValueExpr); ok {
			if id, ok := kv.Key.(*ast.Ident); ok && id.Name == name {
				return kv.Value
			}
			continue
		}
		if i < st.NumFields() && st.Field(i).Name() == name {
			return el
		}
	}
	return nil
}

func derefStep(info *types.Info, id *ast.Ident) ast.Expr {
	p := curProg
	if p == nil {
		return nil
	}
	obj, ok := info.Uses[id].(*types.Var)
	if !ok || obj.IsField() || obj.Pkg() == nil || obj.Parent() == obj.Pkg().Scope() {
		return nil
	}
	if e := boundArg(obj); e != nil {
		return e
	}
	sc := p.ScopeAt(id.Pos())
	if sc == nil || sc.Fn == nil || sc.Fn.Decl == nil || sc.Fn.Decl.Body == nil {
		return nil
	}
	fi := sc.Fn
	body := fi.Decl.Body
	if obj.Pos() >= body.Pos() && obj.Pos() <= body.End() {
		def := localDefPlain(info, body, obj)
		if def == nil {
			return nil
		}
		// the identifier being resolved must be a use, not the target of that one assignment
		isTarget := false
		ast.Inspect(body, func(nd ast.Node) bool {
			if as, ok := nd.(*ast.AssignStmt); ok {
				for _, l := range as.Lhs {
					if l == ast.Expr(id) {
						isTarget = true
					}
				}
			}
			return !isTarget
		})
		if isTarget {
			return nil
		}
		return def
	}
	// receiver of a new helper method with one use site (a call or a method value X.m) -> X
	if isNewHelper(p, fi) && fi.Decl.Recv != nil && len(fi.Decl.Recv.List) == 1 && len(fi.Decl.Recv.List[0].Names) == 1 && info.Defs[fi.Decl.Recv.List[0].Names[0]] == types.Object(obj) {
		var recv ast.Expr
		n := 0
		for _, u := range p.Uses(fi.Obj) {
			if prog.IsTestSupport(u.Pkg.PkgPath) {
				continue
			}
			n++
			path := p.PathTo(u.File, u.Ident.Pos(), u.Ident.End())
			if len(path) >= 2 {
				if sel, ok := path[len(path)-2].(*ast.SelectorExpr); ok && sel.Sel == u.Ident {
					recv = sel.X
				}
			}
		}
		if n != 1 {
			return nil
		}
		return recv
	}
	// parameter of a new helper with one call site -> the argument
	if !isNewHelper(p, fi) || fi.Decl.Type.Params == nil {
		return nil
	}
	idx, k := -1, 0
	for _, f := range fi.Decl.Type.Params.List {
		for _, n := range f.Names {
			if info.Defs[n] == types.Object(obj) {
				idx = k
			}
			k++
		}
	}
	if idx < 0 {
		return nil
	}
	// assigned inside the helper? then it no longer stands for the argument
	assigned := false
	ast.Inspect(body, func(nd ast.Node) bool {
		if as, ok := nd.(*ast.AssignStmt); ok {
			for _, l := range as.Lhs {
				if lid, ok := l.(*ast.Ident); ok && info.Uses[lid] == types.Object(obj) {
					assigned = true
				}
			}
		}
		return true
	})
	if assigned {
		return nil
	}
	var arg ast.Expr
	n := 0
	for _, u := range p.Uses(fi.Obj) {
		if prog.IsTestSupport(u.Pkg.PkgPath) {
			continue
		}
		n++
		path := p.PathTo(u.File, u.Ident.Pos(), u.Ident.End())
		for j := len(path) - 1; j >= 0; j-- {
			if call, ok := path[j].(*ast.CallExpr); ok {
				if idx < len(call.Args) && !call.Ellipsis.IsValid() {
					arg = call.Args[idx]
				}
				break
			}
		}
	}
	if n != 1 {
		return nil
	}
	return arg
}

// freshValue follows e like deref, but only through a local that is defined in the same
// loop nesting as the use at pos: `p := &T{}; ch <- p` is as fresh as `ch <- &T{}`, while a
// value defined outside a loop and used inside it is shared between iterations.
func freshValue(info *types.Info, e ast.Expr, pos token.Pos) ast.Expr {
	e = ast.Unparen(e)
	id, ok := e.(*ast.Ident)
	if !ok || curProg == nil {
		return e
	}
	obj, ok := info.Uses[id].(*types.Var)
	if !ok {
		return e
	}
	def := derefStep(info, id)
	if def == nil {
		return e
	}
	sc := curProg.ScopeAt(pos)
	if sc == nil || sc.Fn == nil || sc.Fn.Decl == nil {
		return e
	}
	// no for / range statement may enclose the use without enclosing the definition
	bad := false
	ast.Inspect(sc.Fn.Decl.Body, func(nd ast.Node) bool {
		var body *ast.BlockStmt
		switch x := nd.(type) {
		case *ast.ForStmt:
			body = x.Body
		case *ast.RangeStmt:
			body = x.Body
		case *ast.FuncLit:
			body = x.Body // a closure may run many times
		}
		if body != nil && body.Pos() <= pos && pos <= body.End() && !(body.Pos() <= obj.Pos() && obj.Pos() <= body.End()) {
			bad = true
		}
		return true
	})
	if bad {
		return e
	}
	return ast.Unparen(def)
}

// inspectValue traverses an expression and, at every identifier that stands for something
// else (single-definition local, parameter of an extracted helper), also what it stands for
// (up to three levels). Used by "this value derives from X" checks.
func inspectValue(info *types.Info, e ast.Expr, f func(ast.Node) bool) {
	var walk func(e ast.Node, depth int)
	walk = func(e ast.Node, depth int) {
		inspect(e, func(nd ast.Node) bool {
			if !f(nd) {
				return false
			}
			if id, ok := nd.(*ast.Ident); ok && depth < 3 {
				if d := derefStep(info, id); d != nil {
					walk(d, depth+1)
				}
			}
			return true
		})
	}
	walk(e, 0)
}

// derefObj resolves e to the variable it names, following helper parameters to their
// arguments and plain aliases (`x := y`) but never replacing a variable by the expression
// that computed it.
func derefObj(info *types.Info, e ast.Expr) types.Object {
	for i := 0; i < 4; i++ {
		id, ok := ast.Unparen(e).(*ast.Ident)
		if !ok {
			return nil
		}
		next := derefStep(info, id)
		if nid, ok := next.(*ast.Ident); ok && next != nil {
			e = nid
			continue
		}
		if o := info.Uses[id]; o != nil {
			return o
		}
		return info.Defs[id]
	}
	return prog.IdentObj(info, e)
}

// helperReturnExpr: call is a static call of a new (non-baseline) same-module helper whose
// body consists of a single return of one expression; that expression is returned.
func helperReturnExpr(info *types.Info, call *ast.CallExpr) ast.Expr {
	p := curProg
	if p == nil {
		return nil
	}
	fi := p.FuncInfoOf(p.CalleeFunc(info, call))
	if !isNewHelper(p, fi) || len(fi.Decl.Body.List) != 1 {
		return nil
	}
	ret, ok := fi.Decl.Body.List[0].(*ast.ReturnStmt)
	if !ok || len(ret.Results) != 1 {
		return nil
	}
	return ret.Results[0]
}

// predicateBody returns the boolean expression a same-package function returns when its body is
// exactly `return <expr>` (any function, baseline or new: the body is read from the current tree).
func predicateBody(info *types.Info, call *ast.CallExpr) ast.Expr {
	p := curProg
	if p == nil {
		return nil
	}
	fi := p.FuncInfoOf(p.CalleeFunc(info, call))
	if fi == nil || fi.Decl == nil || fi.Decl.Body == nil || fi.Pkg.TypesInfo != info || len(fi.Decl.Body.List) != 1 {
		return nil
	}
	ret, ok := fi.Decl.Body.List[0].(*ast.ReturnStmt)
	if !ok || len(ret.Results) != 1 {
		return nil
	}
	if b, ok := info.TypeOf(ret.Results[0]).Underlying().(*types.Basic); !ok || b.Info()&types.IsBoolean == 0 {
		return nil
	}
	return ret.Results[0]
}

// calleeBody returns the body that a call runs in place when the callee is an immediately
// invoked literal or an extracted helper (a function that is not in the baseline list).
func calleeBody(p *prog.Prog, info *types.Info, call *ast.CallExpr) *ast.BlockStmt {
	if lit, ok := ast.Unparen(call.Fun).(*ast.FuncLit); ok {
		return lit.Body
	}
	if hf := p.FuncInfoOf(p.CalleeFunc(info, call)); isNewHelper(p, hf) {
		return hf.Decl.Body
	}
	return nil
}

// derefParam maps an identifier naming a parameter of an extracted helper to the argument at the
// helper's only call site (nil when e is anything else).
func derefParam(info *types.Info, e ast.Expr) ast.Expr {
	id, ok := ast.Unparen(e).(*ast.Ident)
	if !ok {
		return nil
	}
	v, ok := info.Uses[id].(*types.Var)
	if !ok {
		return nil
	}
	sc := curProg.ScopeAt(id.Pos())
	if sc == nil || sc.Fn == nil || sc.Fn.Decl == nil || sc.Fn.Decl.Body == nil {
		return nil
	}
	if body := sc.Fn.Decl.Body; v.Pos() >= body.Pos() && v.Pos() <= body.End() {
		return nil // a local: handled by the caller
	}
	return derefStep(info, id)
}

// unwrapLit: a literal whose whole body is `return helper(args)` with helper an extracted
// function stands for that helper's body (presented as a literal); repeated up to three times.
func unwrapLit(p *prog.Prog, info *types.Info, lit *ast.FuncLit) *ast.FuncLit {
	for i := 0; i < 3 && lit != nil && lit.Body != nil && len(lit.Body.List) == 1; i++ {
		var call *ast.CallExpr
		switch st := lit.Body.List[0].(type) {
		case *ast.ReturnStmt:
			if len(st.Results) == 1 {
				call, _ = ast.Unparen(st.Results[0]).(*ast.CallExpr)
			}
		case *ast.ExprStmt:
			call, _ = ast.Unparen(st.X).(*ast.CallExpr)
		}
		if call == nil {
			break
		}
		hf := p.FuncInfoOf(p.CalleeFunc(info, call))
		if !isNewHelper(p, hf) {
			break
		}
		lit = synthLit(hf)
	}
	return lit
}

// isIIFE reports whether lit is invoked where it is written (`func() {...}()`, not under go/defer):
// its body runs synchronously as part of the enclosing function.
func isIIFE(p *prog.Prog, lit *ast.FuncLit) bool {
	f := p.FileAt(lit.Pos())
	if f == nil {
		return false
	}
	path := p.PathTo(f, lit.Pos(), lit.End())
	for i := len(path) - 1; i > 0; i-- {
		if path[i] != ast.Node(lit) {
			continue
		}
		j := i - 1
		for j > 0 {
			if _, ok := path[j].(*ast.ParenExpr); !ok {
				break
			}
			j--
		}
		call, ok := path[j].(*ast.CallExpr)
		if !ok || ast.Unparen(call.Fun) != ast.Expr(lit) {
			return false
		}
		if j > 0 {
			switch path[j-1].(type) {
			case *ast.GoStmt, *ast.DeferStmt:
				return false
			}
		}
		return true
	}
	return false
}

// valueOrigin follows an expression back to the call result it holds: an identifier goes to its
// single definition; `a, b := f()` gives (f(), index); a call of an extracted helper goes on
// through the helper's return statements (results that are zero values - T{}, nil, 0, false, "" -
// are the "nothing" paths and are ignored; the remaining results must agree). idx selects the
// result when e itself is a call. At most five steps; (nil, 0) when the origin is not a call.
func valueOrigin(info *types.Info, e ast.Expr, idx int) (*ast.CallExpr, int) {
	p := curProg
	for step := 0; step < 5 && e != nil; step++ {
		e = ast.Unparen(e)
		switch x := e.(type) {
		case *ast.CallExpr:
			hf := p.FuncInfoOf(p.CalleeFunc(info, x))
			if !isNewHelper(p, hf) {
				return x, idx
			}
			var next ast.Expr
			nextIdx := 0
			agree := true
			ast.Inspect(hf.Decl.Body, func(n ast.Node) bool {
				if _, ok := n.(*ast.FuncLit); ok {
					return false
				}
				ret, ok := n.(*ast.ReturnStmt)
				if !ok || len(ret.Results) == 0 {
					return true
				}
				var res ast.Expr
				ri := 0
				if len(ret.Results) == 1 {
					res = ret.Results[0]
					if tup, isTup := info.TypeOf(res).(*types.Tuple); isTup && tup.Len() > 1 {
						ri = idx // `return g()` forwarding several results
					} else if idx != 0 {
						return true
					}
				} else if idx < len(ret.Results) {
					res = ret.Results[idx]
				} else {
					return true
				}
				if isZeroValueExpr(info, res) {
					return true
				}
				if next == nil {
					next, nextIdx = res, ri
				} else if types.ExprString(next) != types.ExprString(res) || nextIdx != ri {
					agree = false
				}
				return true
			})
			if next == nil || !agree {
				return x, idx
			}
			e, idx = next, nextIdx
		case *ast.Ident:
			obj, ok := info.Uses[x].(*types.Var)
			if !ok || obj.IsField() {
				return nil, 0
			}
			if b := boundArg(obj); b != nil {
				e, idx = b, 0
				continue
			}
			sc := p.ScopeAt(obj.Pos())
			if sc == nil || sc.Fn == nil || sc.Fn.Decl == nil || sc.Fn.Decl.Body == nil {
				return nil, 0
			}
			var def ast.Expr
			defIdx, n := 0, 0
			ast.Inspect(sc.Fn.Decl.Body, func(nd ast.Node) bool {
				as, ok := nd.(*ast.AssignStmt)
				if !ok {
					return true
				}
				for i, l := range as.Lhs {
					if prog.IdentObj(info, l) != types.Object(obj) {
						continue
					}
					n++
					if len(as.Lhs) == len(as.Rhs) {
						def, defIdx = as.Rhs[i], 0
					} else if len(as.Rhs) == 1 {
						def, defIdx = as.Rhs[0], i
					}
				}
				return true
			})
			if n > 1 && sameCallDefs(p, info, sc.Fn.Decl.Body, obj) && def != nil {
				n = 1 // several definitions, all `x, ... = f(...)` of the same f at the same result index
			}
			if n != 1 || def == nil {
				// a parameter of an extracted helper with one call site
				if d := derefStep(info, x); d != nil && d != ast.Expr(x) {
					e, idx = d, 0
					continue
				}
				return nil, 0
			}
			e, idx = def, defIdx
		default:
			return nil, 0
		}
	}
	return nil, 0
}

// isZeroValueExpr: nil, false, 0, "" or an empty composite literal.
func isZeroValueExpr(info *types.Info, e ast.Expr) bool {
	e = ast.Unparen(e)
	if tv, ok := info.Types[e]; ok {
		if tv.IsNil() {
			return true
		}
		if tv.Value != nil {
			switch tv.Value.String() {
			case "false", "0", `""`:
				return true
			}
		}
	}
	if cl, ok := e.(*ast.CompositeLit); ok && len(cl.Elts) == 0 {
		return true
	}
	return false
}

// soleReturnExpr: call is a static call of an extracted helper that has exactly one return
// statement (after any number of other statements) with one result; that result is returned.
func soleReturnExpr(info *types.Info, call *ast.CallExpr) ast.Expr {
	p := curProg
	if p == nil {
		return nil
	}
	hf := p.FuncInfoOf(p.CalleeFunc(info, call))
	if !isNewHelper(p, hf) {
		return nil
	}
	var only ast.Expr
	n := 0
	ast.Inspect(hf.Decl.Body, func(nd ast.Node) bool {
		if _, ok := nd.(*ast.FuncLit); ok {
			return false
		}
		if ret, ok := nd.(*ast.ReturnStmt); ok {
			n++
			if len(ret.Results) == 1 {
				only = ret.Results[0]
			}
		}
		return true
	})
	if n != 1 {
		return nil
	}
	return only
}

// derefStepQuiet is derefStep guarded against re-entry (derefStep's own lookups use IdentObj).
var inDerefStep bool

func derefStepQuiet(info *types.Info, id *ast.Ident) ast.Expr {
	if inDerefStep {
		return nil
	}
	inDerefStep = true
	defer func() { inDerefStep = false }()
	d := derefStep(info, id)
	if d == nil {
		return nil
	}
	return d
}

// sameCallDefs: every definition of obj in body is a tuple / single assignment from a call of one
// and the same function at the same result position (timer, ok := next(); for ok { ...; timer, ok
// = next() }).
func sameCallDefs(p *prog.Prog, info *types.Info, body ast.Node, obj types.Object) bool {
	var fn *types.Func
	idx := -1
	ok := true
	n := 0
	ast.Inspect(body, func(nd ast.Node) bool {
		as, isAs := nd.(*ast.AssignStmt)
		if !isAs {
			return true
		}
		for i, l := range as.Lhs {
			if prog.IdentObjPlain(info, l) != obj {
				continue
			}
			n++
			var rhs ast.Expr
			k := 0
			if len(as.Lhs) == len(as.Rhs) {
				rhs = as.Rhs[i]
			} else if len(as.Rhs) == 1 {
				rhs, k = as.Rhs[0], i
			}
			call, isCall := ast.Unparen(rhs).(*ast.CallExpr)
			if !isCall {
				ok = false
				continue
			}
			f := p.CalleeFunc(info, call)
			if f == nil || (fn != nil && f != fn) || (idx >= 0 && idx != k) {
				ok = false
			}
			fn, idx = f, k
		}
		return true
	})
	return ok && n > 0 && fn != nil
}

// funcValueLit resolves an expression that denotes a function value to the literal behind it: a
// literal, a local defined once as one, or an extracted helper used as a function / method value
// (presented as the literal it replaced).
func funcValueLit(p *prog.Prog, info *types.Info, e ast.Expr) *ast.FuncLit {
	d := ast.Unparen(deref(info, e))
	if lit, ok := d.(*ast.FuncLit); ok {
		return lit
	}
	var id *ast.Ident
	switch x := d.(type) {
	case *ast.Ident:
		id = x
	case *ast.SelectorExpr:
		id = x.Sel
	}
	if id == nil {
		return nil
	}
	if fn, ok := info.Uses[id].(*types.Func); ok {
		if hf := p.FuncInfoOf(fn); isNewHelper(p, hf) {
			return synthLit(hf)
		}
	}
	return nil
}

// tupleSource: obj is defined once in body by `a, b := helper(...)` with helper an extracted
// function; the helper's variable returned at obj's position (a named result or a returned local)
// is handed back, nil otherwise.
func tupleSource(info *types.Info, body ast.Node, obj types.Object) types.Object {
	p := curProg
	if p == nil || obj == nil {
		return nil
	}
	var call *ast.CallExpr
	idx, n := -1, 0
	ast.Inspect(body, func(nd ast.Node) bool {
		as, ok := nd.(*ast.AssignStmt)
		if !ok {
			return true
		}
		for i, l := range as.Lhs {
			if prog.IdentObjPlain(info, l) != obj {
				continue
			}
			n++
			if len(as.Lhs) > 1 && len(as.Rhs) == 1 {
				if c, isCall := ast.Unparen(as.Rhs[0]).(*ast.CallExpr); isCall {
					call, idx = c, i
				}
			}
		}
		return true
	})
	if n != 1 || call == nil {
		return nil
	}
	hf := p.FuncInfoOf(p.CalleeFunc(info, call))
	if !isNewHelper(p, hf) {
		return nil
	}
	var src types.Object
	agree := true
	nRet := 0
	ast.Inspect(hf.Decl.Body, func(nd ast.Node) bool {
		if _, isLit := nd.(*ast.FuncLit); isLit {
			return false
		}
		ret, isRet := nd.(*ast.ReturnStmt)
		if !isRet {
			return true
		}
		nRet++
		if idx >= len(ret.Results) {
			return true // bare return: the named result below
		}
		o := prog.IdentObjPlain(info, ret.Results[idx])
		if o == nil || (src != nil && o != src) {
			agree = false
		}
		src = o
		return true
	})
	if src == nil && hf.Decl.Type.Results != nil {
		k := 0
		for _, fld := range hf.Decl.Type.Results.List {
			for _, nm := range fld.Names {
				if k == idx {
					src = info.Defs[nm]
				}
				k++
			}
		}
	}
	if !agree {
		return nil
	}
	return src
}
