package rules

import (
	"go/ast"
	"go/token"
	"go/types"
	"golang.org/x/tools/go/packages"
	"strings"

	"verif/checker/internal/pathsim"
	"verif/checker/internal/prog"
)

// usesIn lists the enclosing functions of every use of fn (and optionally of the
// interface methods it satisfies) outside test-support packages.
func (r *Run) usersOf(fn *types.Func, withIfaces bool) map[string][]callSite {
	out := map[string][]callSite{}
	for _, cs := range r.callSitesOf(fn, withIfaces) {
		if prog.IsTestSupport(cs.Use.Pkg.PkgPath) {
			continue
		}
		w := r.scopeName(cs.Use.Scope)
		out[w] = append(out[w], cs)
	}
	return out
}

func init() {
	prop("C09",
		"(a) a shared table's cleanup deletes the file only when the ownership query returned no error and answered 'exclusively owned'; (b) the file-deleting primitives (os.Remove, S3 DeleteObject, File.Delete, delete funcs, StorageLocation.Remove) are reachable only from the table cleanups, from Checkpoint.Destroy via CheckpointList.Save, and from the obsolete-snapshot removal; (c) WAL files of dropped checkpoints are destroyed only after the new checkpoints file was written and saved; (d) every checkpoint object records the table URIs it references — the index is filled from every table of every level of the level list the checkpoint stores — so NeedsTable answers truthfully for live checkpoints; (e) every table cleanup consults an ownership / retention predicate before deleting; (f) RetainOnly moves exactly the non-retained checkpoints to the pending-removal list, refuses to retain nothing, and IncludesTable consults every retained checkpoint; (j) every link that relays a neighbour's answer (DB.NeedsTable, Operator.HandleNeedsTable, the connect handler and client) says 'not needed' without an error only with the answer of the next link; plus C08.f (captured level lists are immutable) and C13.b.",
		"garbage-collection timing and RPC failure patterns themselves (the rules make the outcome independent of them); data races on CheckpointList (it has no lock of its own; noted in DESIGN.md, not armed).")

	register(&Obligation{ID: "C09.a", Props: []string{"C09", "C06", "C01"}, Template: "guard",
		Desc: "sst.NewTableFromDocument's cleanup calls the delete func only on a path where ExclusivelyOwnsTable returned a nil error and true ('errors must mean keep')",
		Run: func(r *Run) {
			f := r.P.Func("dkv/sst", "NewTableFromDocument")
			info := f.Pkg.TypesInfo
			owns := r.P.FuncObj("dkv/kv", "DataOwnership.ExclusivelyOwnsTable")
			var lit *ast.FuncLit
			for _, l := range allLitsIn(f.Decl.Body) {
				if r.exprCalls(info, l.Body, owns) {
					lit = l
				}
			}
			if lit == nil {
				r.Fail(f.Name()+":no-ownership-query", f.Decl.Pos(), nil, "the cleanup of a table loaded from a checkpoint document no longer asks the data-ownership policy before deleting the (possibly shared) file")
				return
			}
			var canVar, errVar types.Object
			inspect(lit.Body, func(nd ast.Node) bool {
				if as, ok := nd.(*ast.AssignStmt); ok && len(as.Lhs) == 2 && len(as.Rhs) == 1 {
					if call, ok := ast.Unparen(as.Rhs[0]).(*ast.CallExpr); ok && r.P.CalleeFunc(info, call) == owns {
						canVar, errVar = prog.IdentObj(info, as.Lhs[0]), prog.IdentObj(info, as.Lhs[1])
					}
				}
				return true
			})
			// the delete: a call through a func-typed field/variable whose type is func() error,
			// i.e. the value produced by CreateDeleteFunc
			createDel := r.P.FuncObj("dkv/storage", "File.CreateDeleteFunc")
			delFields := map[types.Object]bool{}
			inspect(f.Decl.Body, func(nd ast.Node) bool {
				if kv, ok := nd.(*ast.KeyValueExpr); ok {
					if call, ok := ast.Unparen(kv.Value).(*ast.CallExpr); ok && r.P.CalleeFunc(info, call) == createDel {
						if id, ok := kv.Key.(*ast.Ident); ok {
							if o := info.Uses[id]; o != nil {
								delFields[o] = true
							}
						}
					}
				}
				return true
			})
			isDelete := func(c *pathsim.Ctx, ev *pathsim.Event) bool {
				if ev.Kind != pathsim.EvCall || ev.Call == nil {
					return false
				}
				if fld := prog.SelField(c.Info, ev.Call.Fun); fld != nil && delFields[fld] {
					return true
				}
				if v, ok := ev.Callee.(*types.Var); ok && delFields[v] {
					return true
				}
				return false
			}
			atoms := []guardAtom{
				identAtom("canDelete", func() types.Object { return canVar }),
				{Name: "err!=nil", Match: func(c *pathsim.Ctx, e ast.Expr) (bool, bool) {
					x, notNil, ok := pathsim.IsNilCompare(c.Info, e)
					if ok && errVar != nil && prog.IdentObj(c.Info, x) == errVar {
						return !notNil, true
					}
					return false, false
				}},
			}
			n := r.guarded(lit, f.Name()+"$cleanup", "deleteFunc()", atoms, isDelete,
				func(v []pathsim.Tri) bool { return v[0] == pathsim.True && v[1] == pathsim.False }, "canDelete && err == nil")
			if n == 0 {
				r.Note("the cleanup never deletes the file")
			}
		}})

	register(&Obligation{ID: "C09.b", Props: []string{"C09"}, Template: "who-may",
		Desc: "who may delete files: each deleting primitive and wrapper is used only from its frozen set of callers",
		Run: func(r *Run) {
			type rule struct {
				fn      *types.Func
				ifaces  bool
				allowed []string
			}
			osRemove := r.P.ExtFunc("os", "Remove")
			osRemoveAll := r.P.ExtFunc("os", "RemoveAll")
			rules := []rule{
				{osRemove, false, []string{"dkv/storage.(*DiskFile).Delete", "dkv/storage.(*DiskFile).CreateDeleteFunc", "storage/locations.(*LocalDirectory).Remove"}},
				{osRemoveAll, false, []string{}},
				{r.P.FuncObj("storage/objstore", "S3Service.DeleteObject"), false, []string{"dkv/storage.(*S3Object).Delete", "dkv/storage.(*S3Object).CreateDeleteFunc", "storage/locations.(*S3Location).Remove", "storage/objstore.(*S3StorageWithUsage).DeleteObject"}},
				{r.P.FuncObj("dkv/storage", "File.Delete"), false, []string{"dkv/wal.Handle.Delete"}},
				{r.P.FuncObj("dkv/storage", "(*DiskFile).Delete"), false, []string{}},
				{r.P.FuncObj("dkv/storage", "(*MemoryFile).Delete"), false, []string{}},
				{r.P.FuncObj("dkv/storage", "(*S3Object).Delete"), false, []string{}},
				{r.P.FuncObj("dkv/storage", "File.CreateDeleteFunc"), false, []string{"dkv/sst.NewTable", "dkv/sst.NewTableFromDocument"}},
				{r.P.FuncObj("dkv/wal", "Handle.Delete"), false, []string{"dkv/recovery.(*Checkpoint).Destroy"}},
				{r.P.FuncObj("dkv/recovery", "(*Checkpoint).Destroy"), false, []string{"dkv/recovery.(*CheckpointList).Save"}},
				{r.P.FuncObj("storage/locations", "StorageLocation.Remove"), false, []string{"storage/snapshots.(*Store).finishSnapshotAsync"}},
				{r.P.FuncObj("storage/locations", "(*LocalDirectory).Remove"), false, []string{}},
				{r.P.FuncObj("storage/locations", "(*S3Location).Remove"), false, []string{}},
			}
			for _, rl := range rules {
				allowed := map[string]string{}
				for _, a := range rl.allowed {
					allowed[a] = ""
				}
				r.whoMayCall(rl.fn, rl.ifaces, allowed)
			}
			r.Floor(10, "deletion call sites")
			// the S3 client's own DeleteObject (through the SDK type) must not be called directly
			for _, pkg := range r.P.Pkgs {
				if prog.IsTestSupport(pkg.PkgPath) {
					continue
				}
				for id, obj := range pkg.TypesInfo.Uses {
					fn, ok := obj.(*types.Func)
					if !ok || fn.Pkg() == nil || !strings.HasSuffix(fn.Pkg().Path(), "service/s3") {
						continue
					}
					if fn.Name() == "DeleteObject" || fn.Name() == "DeleteObjects" {
						where := r.scopeName(r.P.ScopeAt(id.Pos()))
						r.Site(id.Pos(), "s3 SDK "+fn.Name()+" in "+where)
						if prog.RelPkg(pkg.PkgPath) != "storage/objstore" {
							r.Fail("s3sdk."+fn.Name()+"<-"+where, id.Pos(), nil, "the S3 SDK's %s is called directly in %s", fn.Name(), where)
						}
					}
				}
			}
		}})

	register(&Obligation{ID: "C09.c", Props: []string{"C09", "C13"}, Template: "must-precede.err-checked",
		Desc: "recovery.(*CheckpointList).Save destroys the WAL files of dropped checkpoints only after the new checkpoints file was written and saved with nil errors, and clears the pending-removal list afterwards",
		Run: func(r *Run) {
			f := r.P.Func("dkv/recovery", "(*CheckpointList).Save")
			destroy := r.P.FuncObj("dkv/recovery", "(*Checkpoint).Destroy")
			fwrite := r.P.FuncObj("dkv/storage", "File.Write")
			fsave := r.P.FuncObj("dkv/storage", "File.Save")
			n1 := r.errChecked(f.Decl, f.Name(), "file.Write", "cp.Destroy", callTo(fwrite), callTo(destroy))
			n2 := r.errChecked(f.Decl, f.Name(), "file.Save", "cp.Destroy", callTo(fsave), callTo(destroy))
			if n1 == 0 || n2 == 0 {
				r.Fail(f.Name()+":no-destroy", f.Decl.Pos(), nil, "Save never destroys the checkpoints pending removal: WAL files of dropped checkpoints are never removed")
			}
			// the loop destroys the pending-removal list, not the live list
			pendF := r.P.Field("dkv/recovery", "CheckpointList", "checkpointsPendingRemoval")
			info := f.Pkg.TypesInfo
			inspect(f.Decl.Body, func(nd ast.Node) bool {
				rs, ok := nd.(*ast.RangeStmt)
				if !ok || !r.exprCalls(info, rs.Body, destroy) {
					return true
				}
				r.Site(rs.Pos(), "Save: destroy loop source")
				if prog.SelField(info, rs.X) != pendF {
					r.Fail(f.Name()+":destroy-source", rs.Pos(), nil, "Save destroys checkpoints from a list other than checkpointsPendingRemoval: retained checkpoints' WAL files would be deleted")
				}
				return true
			})
			r.checkErrReturned(f, destroy, "cp.Destroy")
			// every checkpoint document of the live list is serialised
			ck := r.P.Field("dkv/recovery", "CheckpointList", "checkpoints")
			okAll := false
			inspect(f.Decl.Body, func(nd ast.Node) bool {
				if rs, ok := nd.(*ast.RangeStmt); ok && prog.SelField(info, rs.X) == ck {
					okAll = true
					inspect(rs.Body, func(m ast.Node) bool {
						if b, ok := m.(*ast.BranchStmt); ok {
							r.Fail(f.Name()+":partial-doc", b.Pos(), nil, "the checkpoints file omits some retained checkpoints")
						}
						return true
					})
				}
				return true
			})
			if !okAll {
				r.Fail(f.Name()+":no-docs", f.Decl.Pos(), nil, "Save no longer serialises every retained checkpoint")
			}
		}})

	register(&Obligation{ID: "C09.d", Props: []string{"C09", "C06", "C01"}, Template: "init-completeness",
		Desc: "every recovery.Checkpoint value is built with the set of table URIs it references (tableURIset), which IncludesTable / NeedsTable read",
		Run: func(r *Run) {
			ckT := r.P.TypeName("dkv/recovery", "Checkpoint")
			set := r.P.Field("dkv/recovery", "Checkpoint", "tableURIset")
			inc := r.P.Func("dkv/recovery", "(*Checkpoint).IncludesTable")
			if !exprUsesField(inc.Pkg.TypesInfo, inc.Decl.Body, set) {
				r.Note("Checkpoint.IncludesTable no longer reads tableURIset; literal rule not applicable")
				r.Site(inc.Decl.Pos(), "IncludesTable does not use tableURIset")
				return
			}
			n := 0
			for _, pkg := range r.P.Pkgs {
				if prog.IsTestSupport(pkg.PkgPath) {
					continue
				}
				for _, file := range pkg.Syntax {
					inspect(file, func(nd ast.Node) bool {
						cl, ok := nd.(*ast.CompositeLit)
						if !ok || pkg.TypesInfo.TypeOf(cl) != ckT.Type() {
							return true
						}
						n++
						where := r.scopeName(r.P.ScopeAt(cl.Pos()))
						r.Site(cl.Pos(), "Checkpoint literal in "+where)
						has := false
						for _, el := range cl.Elts {
							if kv, ok := el.(*ast.KeyValueExpr); ok {
								if id, ok := kv.Key.(*ast.Ident); ok && pkg.TypesInfo.Uses[id] == types.Object(set) {
									has = true
								}
							}
						}
						if has {
							r.indexCoversAllLevels(pkg, cl, set, where)
						}
						if !has {
							// accepted: the field is assigned right after on the same variable
							assigned := false
							if sc := r.P.ScopeAt(cl.Pos()); sc != nil {
								inspect(sc.Decl, func(m ast.Node) bool {
									if as, ok := m.(*ast.AssignStmt); ok {
										for _, l := range as.Lhs {
											if prog.SelField(pkg.TypesInfo, l) == set {
												assigned = true
											}
										}
									}
									return true
								})
							}
							if !assigned {
								r.Fail("Checkpoint-literal:"+where+":tableURIset", cl.Pos(), nil, "a Checkpoint is built in %s without tableURIset: IncludesTable answers false for every table of this checkpoint, so NeedsTable lets a neighbour delete files the retained checkpoint references", where)
							}
						}
						return true
					})
				}
			}
			if n < 2 {
				r.Error("expected >= 2 Checkpoint literals (newCheckpointFromDocument, CheckpointList.Add), found %d", n)
			}
		}})

	register(&Obligation{ID: "C09.e", Props: []string{"C09"}, Template: "guard",
		Desc: "every cleanup registered on an SST table consults an ownership / retention predicate before deleting the file",
		Run: func(r *Run) {
			createDel := r.P.FuncObj("dkv/storage", "File.CreateDeleteFunc")
			owns := r.P.FuncObj("dkv/kv", "DataOwnership.ExclusivelyOwnsTable")
			canDel := r.P.TryField("dkv", "DBOptions", "CanDeleteTable")
			for where, sites := range r.usersOf(createDel, false) {
				for _, cs := range sites {
					r.Site(cs.Use.Ident.Pos(), "delete func created in "+where)
					fi := cs.Use.Scope.Fn
					info := fi.Pkg.TypesInfo
					consults := r.exprCalls(info, fi.Decl.Body, owns)
					if canDel != nil && exprUsesField(info, fi.Decl.Body, canDel) {
						consults = true
					}
					if !consults {
						r.Fail("table-cleanup:"+where+":unconditional-delete", cs.Use.Ident.Pos(), nil, "%s registers a cleanup that deletes the table file when the object is garbage collected without consulting any ownership / retention predicate (DBOptions.CanDeleteTable is never read): after a redeploy in the same process the old DB's tables are collected while the restored DB uses the same files", where)
					}
				}
			}
		}})

	register(&Obligation{ID: "C09.g", Props: []string{"C09", "C06", "C01"}, Template: "error-accumulation",
		Desc: "OperatorPartition.ExclusivelyOwnsTable answers 'exclusively owned' with a nil error only if every neighbour was asked, answered without error and none needs the table: one result is consumed per neighbour, an error once seen is never overwritten by a later nil, the flag is set for every needsTable=true, and the function returns (!neighbourNeedsTable, accumulated error)",
		Run: func(r *Run) {
			f := r.P.Func("workers/operator", "(*OperatorPartition).ExclusivelyOwnsTable")
			info := f.Pkg.TypesInfo
			neighbors := r.P.Field("workers/operator", "OperatorPartition", "neighbors")
			needs := r.P.FuncObj("workers/operator", "(*neighborPartition).NeedsTable")
			// spawn loop and result loop both range over o.neighbors
			loops := fullLoopsOver(info, f.Decl.Body, func(e ast.Expr) bool { return prog.SelField(info, e) == neighbors })
			if len(loops) != 2 {
				r.Error("undecided: ExclusivelyOwnsTable: expected an ask loop and a result loop over o.neighbors, found %d", len(loops))
				return
			}
			ask, collect := loops[0], loops[1]
			r.Site(ask.Stmt.Pos(), "ExclusivelyOwnsTable: every neighbour is asked")
			if !r.exprCalls(info, ask.Body, needs) {
				r.Fail(f.Name()+":ask", ask.Pos(), nil, "not every neighbour is asked whether it needs the table")
			}
			for _, st := range ask.Body.List {
				if b, ok := st.(*ast.BranchStmt); ok {
					r.Fail(f.Name()+":ask-skips", b.Pos(), nil, "a neighbour can be skipped (%s) without being asked", b.Tok)
				}
			}
			// result loop
			r.Site(collect.Pos(), "ExclusivelyOwnsTable: result loop")
			var resVar, errAcc, flag types.Object
			inspect(collect.Body, func(nd ast.Node) bool {
				if as, ok := nd.(*ast.AssignStmt); ok && len(as.Lhs) == 1 && len(as.Rhs) == 1 {
					if u, ok := ast.Unparen(as.Rhs[0]).(*ast.UnaryExpr); ok && u.Op == token.ARROW && as.Tok == token.DEFINE {
						resVar = prog.IdentObj(info, as.Lhs[0])
					}
				}
				return true
			})
			// return statement at the end: (!flag, errAcc)
			last, ok := f.Decl.Body.List[len(f.Decl.Body.List)-1].(*ast.ReturnStmt)
			if !ok || len(last.Results) != 2 || resVar == nil {
				r.Error("undecided: ExclusivelyOwnsTable shape")
				return
			}
			if u, ok := ast.Unparen(last.Results[0]).(*ast.UnaryExpr); ok && u.Op == token.NOT {
				flag = prog.IdentObj(info, u.X)
			}
			// without a flag: the loop answers (false, err) as soon as a neighbour needs the table and the
			// function ends with (true, err)
			earlyReturn := false
			if tv, ok := info.Types[last.Results[0]]; ok && tv.Value != nil && tv.Value.String() == "true" && flag == nil {
				earlyReturn = true
			}
			errAcc = prog.IdentObj(info, last.Results[1])
			if (flag == nil && !earlyReturn) || errAcc == nil || !isErrorType(errAcc.Type()) {
				r.Fail(f.Name()+":return-shape", last.Pos(), nil, "ExclusivelyOwnsTable must return (!neighbourNeedsTable, accumulated error)")
				return
			}
			isResField := func(c *pathsim.Ctx, e ast.Expr, name string) bool {
				sel, ok := ast.Unparen(e).(*ast.SelectorExpr)
				return ok && sel.Sel.Name == name && prog.IdentObj(c.Info, sel.X) == resVar
			}
			atoms := []guardAtom{
				{Name: "result.needsTable", Match: func(c *pathsim.Ctx, e ast.Expr) (bool, bool) { return false, isResField(c, e, "needsTable") }},
				{Name: "result.err!=nil", Match: func(c *pathsim.Ctx, e ast.Expr) (bool, bool) {
					x, notNil, ok := pathsim.IsNilCompare(c.Info, e)
					if ok && isResField(c, x, "err") {
						return !notNil, true
					}
					return false, false
				}},
			}
			spec := &pathsim.Spec{}
			spec.Atom = func(c *pathsim.Ctx, e ast.Expr) (int, bool, bool) {
				for i, a := range atoms {
					if neg, ok := a.Match(c, e); ok {
						return i, neg, true
					}
				}
				return 0, false, false
			}
			spec.Step = func(c *pathsim.Ctx, s pathsim.State, ev *pathsim.Event) []pathsim.State {
				if ev.Kind == pathsim.EvRangeIter && ev.Node == ast.Node(collect.Stmt) {
					if s.A == 1 {
						c.Violate(ev.Pos, "[needs-not-recorded] an iteration with result.needsTable established true ends without recording it")
					}
					s.A = 0
					s.V[0], s.V[1] = pathsim.Unknown, pathsim.Unknown
					return []pathsim.State{s}
				}
				if ev.Kind == pathsim.EvAssign && len(ev.Lhs) == 1 && len(ev.Rhs) == 1 {
					lhs := prog.IdentObj(c.Info, ev.Lhs[0])
					if lhs == errAcc && ev.Node.Pos() > collect.Pos() && ev.Node.End() <= collect.End() {
						keeps := false
						inspect(ev.Rhs[0], func(m ast.Node) bool {
							if id, ok := m.(*ast.Ident); ok && c.Info.Uses[id] == errAcc {
								keeps = true
							}
							return true
						})
						if !keeps && s.V[1] != pathsim.True {
							c.Violate(ev.Pos, "[error-overwritten] the accumulated error is overwritten by a result whose error was not established non-nil: a neighbour's failure is forgotten when a later neighbour answers, the function returns (true, nil) and the shared table is deleted although the failed neighbour may need it")
						}
					}
					if flag != nil && lhs == flag {
						if tv, ok := c.Info.Types[ev.Rhs[0]]; ok && tv.Value != nil && tv.Value.String() == "true" {
							s.A = 2
							return []pathsim.State{s}
						}
						if ev.Node.Pos() > collect.Pos() {
							c.Violate(ev.Pos, "[flag-reset] the 'a neighbour needs the table' flag is assigned something other than true inside the result loop")
						}
					}
				}
				return nil
			}
			// mark iterations where needsTable is true but flag not set: use A=1 when V[0]==True observed at loop end
			inner := spec.Step
			spec.Step = func(c *pathsim.Ctx, s pathsim.State, ev *pathsim.Event) []pathsim.State {
				if (ev.Kind == pathsim.EvRangeIter || ev.Kind == pathsim.EvLoopExit) && ev.Node == ast.Node(collect.Stmt) && s.V[0] == pathsim.True && s.A != 2 {
					c.Violate(collect.Pos(), "[needs-not-recorded] a result with needsTable=true does not set the flag: the table would be judged exclusively owned although a neighbour needs it")
				}
				return inner(c, s, ev)
			}
			// positive requirements: some assignment sets the flag under needsTable == true, and some
			// assignment folds result.err into the accumulated error under result.err != nil
			setsFlag, foldsErr := false, false
			inner2 := spec.Step
			spec.Step = func(c *pathsim.Ctx, s pathsim.State, ev *pathsim.Event) []pathsim.State {
				if earlyReturn && ev.Kind == pathsim.EvReturn && ev.Pos > collect.Pos() && ev.Pos < collect.End() && len(ev.Results) == 2 {
					if tv, ok := c.Info.Types[ev.Results[0]]; ok && tv.Value != nil && tv.Value.String() == "false" {
						if s.V[0] == pathsim.True {
							setsFlag = true
						}
						if prog.IdentObj(c.Info, ev.Results[1]) != errAcc {
							c.Violate(ev.Pos, "[early-answer-error] the early 'a neighbour needs the table' answer does not carry the accumulated error")
						}
					} else {
						c.Violate(ev.Pos, "[early-answer] the result loop returns something other than (false, accumulated error)")
					}
				}
				if ev.Kind == pathsim.EvAssign && len(ev.Lhs) == 1 && len(ev.Rhs) == 1 && ev.Node.Pos() > collect.Pos() && ev.Node.End() <= collect.End() {
					lhs := prog.IdentObj(c.Info, ev.Lhs[0])
					if flag != nil && lhs == flag && s.V[0] == pathsim.True {
						if tv, ok := c.Info.Types[ev.Rhs[0]]; ok && tv.Value != nil && tv.Value.String() == "true" {
							setsFlag = true
						}
					}
					if lhs == errAcc && s.V[1] == pathsim.True {
						inspect(ev.Rhs[0], func(m ast.Node) bool {
							if sel, ok := m.(*ast.SelectorExpr); ok && isResField(c, sel, "err") {
								foldsErr = true
							}
							return true
						})
					}
				}
				return inner2(c, s, ev)
			}
			r.Sim(f.Decl, f.Name(), spec)
			if !setsFlag {
				r.Fail(f.Name()+":flag-never-set", collect.Pos(), nil, "the result loop never sets the 'a neighbour needs the table' flag on a result with needsTable == true: every shared table would be judged exclusively owned and deleted")
			}
			if !foldsErr {
				r.Fail(f.Name()+":error-never-kept", collect.Pos(), nil, "the result loop never folds a neighbour's non-nil error into the returned error: a neighbour that could not be asked counts as 'does not need the table' and the table is deleted")
			}
			// one receive per neighbour
			recvs := 0
			inspect(collect.Body, func(nd ast.Node) bool {
				if u, ok := nd.(*ast.UnaryExpr); ok && u.Op == token.ARROW {
					recvs++
				}
				return true
			})
			if recvs != 1 {
				r.Fail(f.Name()+":one-result-per-neighbour", collect.Pos(), nil, "the result loop must consume exactly one result per neighbour (found %d receives per iteration)", recvs)
			}
			// the shortcut: own range contains the table's range
			contains := r.P.FuncObj("partitioning", "KeyGroupRange.Contains")
			okShort := false
			inspect(f.Decl.Body, func(nd ast.Node) bool {
				if is, ok := nd.(*ast.IfStmt); ok && r.exprCalls(info, is.Cond, contains) {
					if _, isNot := ast.Unparen(is.Cond).(*ast.UnaryExpr); !isNot {
						okShort = true
					}
				}
				return true
			})
			r.Site(f.Decl.Pos(), "shortcut only when the own range contains the table's range")
			if !okShort {
				r.Note("no containment shortcut")
			}
		}})

	register(&Obligation{ID: "C09.h", Props: []string{"C09", "C06"}, Template: "guard+value-identity",
		Desc: "the two shortcuts that skip asking a neighbour are sound: ExclusivelyOwnsTable answers (true, nil) before asking only if the own range Contains the range KeyGroupRangeFromBytes(startKey[:2], endKey[:2]) built from the table's first and last key in that order; neighborPartition.NeedsTable answers 'not needed' without the RPC only if the neighbour's range does not Overlap the table's range (Start from the first key, End from the last key), and otherwise returns the neighbour's own answer",
		Run: func(r *Run) {
			f := r.P.Func("workers/operator", "(*OperatorPartition).ExclusivelyOwnsTable")
			info := f.Pkg.TypesInfo
			contains := r.P.FuncObj("partitioning", "KeyGroupRange.Contains")
			overlaps := r.P.FuncObj("partitioning", "KeyGroupRange.Overlaps")
			fromBytes := r.P.FuncObj("partitioning", "KeyGroupRangeFromBytes")
			kgFromBytes := r.P.FuncObj("partitioning", "KeyGroupFromBytes")
			ownRange := r.P.Field("workers/operator", "OperatorPartition", "keyGroupRange")
			isKeyPrefix := func(fi *prog.FuncInfo, e ast.Expr, param int) bool {
				sl, ok := ast.Unparen(e).(*ast.SliceExpr)
				if !ok || !r.isParam(fi, sl.X, param) || sl.High == nil {
					return false
				}
				tv, ok := fi.Pkg.TypesInfo.Types[sl.High]
				return ok && tv.Value != nil && tv.Value.String() == "2" && (sl.Low == nil || fi.Pkg.TypesInfo.Types[sl.Low].Value != nil && fi.Pkg.TypesInfo.Types[sl.Low].Value.String() == "0")
			}
			// the table range local in ExclusivelyOwnsTable
			var tblRange types.Object
			inspect(f.Decl.Body, func(nd ast.Node) bool {
				as, ok := nd.(*ast.AssignStmt)
				if !ok || len(as.Lhs) != 1 || len(as.Rhs) != 1 {
					return true
				}
				call, ok := ast.Unparen(as.Rhs[0]).(*ast.CallExpr)
				if !ok || r.P.CalleeFunc(info, call) != fromBytes || len(call.Args) != 2 {
					return true
				}
				r.Site(call.Pos(), "table range = KeyGroupRangeFromBytes(startKey[:2], endKey[:2])")
				if isKeyPrefix(f, call.Args[0], 1) && isKeyPrefix(f, call.Args[1], 2) {
					tblRange = prog.IdentObj(info, as.Lhs[0])
				} else {
					r.Fail(f.Name()+":table-range", call.Pos(), nil, "the table's key-group range is not built from (startKey[:2], endKey[:2]) in that order: with the arguments swapped the range is empty or inverted, the containment shortcut answers 'exclusively owned' for tables that reach into a neighbour's range")
				}
				return true
			})
			atomFor := func(fn *types.Func, recvField *types.Var, arg func() types.Object) func(c *pathsim.Ctx, e ast.Expr) (int, bool, bool) {
				return func(c *pathsim.Ctx, e ast.Expr) (int, bool, bool) {
					call, ok := ast.Unparen(e).(*ast.CallExpr)
					if !ok || r.P.CalleeFunc(c.Info, call) != fn || len(call.Args) != 1 {
						return 0, false, false
					}
					sel, ok := ast.Unparen(call.Fun).(*ast.SelectorExpr)
					if !ok || prog.SelField(c.Info, sel.X) != recvField || arg() == nil || prog.IdentObj(c.Info, call.Args[0]) != arg() {
						return 0, false, false
					}
					return 0, false, true
				}
			}
			isConstBool := func(c *pathsim.Ctx, e ast.Expr, want string) bool {
				tv, ok := c.Info.Types[e]
				return ok && tv.Value != nil && tv.Value.String() == want
			}
			if tblRange != nil {
				asked := r.P.FuncObj("workers/operator", "(*neighborPartition).NeedsTable")
				spec := &pathsim.Spec{Atom: atomFor(contains, ownRange, func() types.Object { return tblRange })}
				spec.Step = func(c *pathsim.Ctx, s pathsim.State, ev *pathsim.Event) []pathsim.State {
					if ev.Kind == pathsim.EvFuncLit || (ev.Kind == pathsim.EvCall && ev.Callee == types.Object(asked)) {
						s.A = 1 // neighbours are being asked
						return []pathsim.State{s}
					}
					if ev.Kind == pathsim.EvRangeIter || ev.Kind == pathsim.EvLoopExit {
						if rs, ok := ev.Node.(*ast.RangeStmt); ok && prog.SelField(c.Info, rs.X) == r.P.Field("workers/operator", "OperatorPartition", "neighbors") {
							s.A = 1 // past the loop over all neighbours (possibly none)
							return []pathsim.State{s}
						}
					}
					if ev.Kind == pathsim.EvReturn && len(ev.Results) == 2 && s.A == 0 && isConstBool(c, ev.Results[0], "true") && s.V[0] != pathsim.True {
						c.Violate(ev.Pos, "[shortcut-unguarded] ExclusivelyOwnsTable answers 'exclusively owned' without asking any neighbour on a path where the own range was not established to contain the table's range")
					}
					return nil
				}
				r.Sim(f.Decl, f.Name()+":shortcut", spec)
			}
			// neighborPartition.NeedsTable
			nt := r.P.Func("workers/operator", "(*neighborPartition).NeedsTable")
			ni := nt.Pkg.TypesInfo
			nRange := r.P.Field("workers/operator", "neighborPartition", "keyGroupRange")
			opField := r.P.Field("workers/operator", "neighborPartition", "operator")
			kgrT := r.P.TypeName("partitioning", "KeyGroupRange")
			var ntRange types.Object
			inspect(nt.Decl.Body, func(nd ast.Node) bool {
				as, ok := nd.(*ast.AssignStmt)
				if !ok || len(as.Lhs) != 1 || len(as.Rhs) != 1 {
					return true
				}
				rhs := ast.Unparen(as.Rhs[0])
				if _, isCall := rhs.(*ast.CallExpr); isCall {
					rhs = ast.Unparen(deref(ni, rhs)) // an extracted helper that returns the range
				}
				cl, ok := rhs.(*ast.CompositeLit)
				if !ok || ni.TypeOf(cl) != kgrT.Type() {
					if call, ok := rhs.(*ast.CallExpr); ok && r.P.CalleeFunc(ni, call) == fromBytes && len(call.Args) == 2 && isKeyPrefix(nt, call.Args[0], 2) && isKeyPrefix(nt, call.Args[1], 3) {
						ntRange = prog.IdentObj(ni, as.Lhs[0])
					}
					return true
				}
				r.Site(cl.Pos(), "NeedsTable: table range literal")
				okS, okE := false, false
				for _, el := range cl.Elts {
					kv, ok := el.(*ast.KeyValueExpr)
					if !ok {
						continue
					}
					param := -1
					inspect(kv.Value, func(m ast.Node) bool {
						if call, ok := m.(*ast.CallExpr); ok && r.P.CalleeFunc(ni, call) == kgFromBytes && len(call.Args) == 1 {
							for _, pi := range []int{2, 3} {
								if isKeyPrefix(nt, call.Args[0], pi) {
									param = pi
								}
							}
						}
						return true
					})
					switch kv.Key.(*ast.Ident).Name {
					case "Start":
						okS = param == 2
					case "End":
						okE = param == 3
					}
				}
				if okS && okE {
					ntRange = prog.IdentObj(ni, as.Lhs[0])
				} else {
					r.Fail(nt.Name()+":table-range", cl.Pos(), nil, "NeedsTable's table range must take Start from startKey[:2] and End from endKey[:2] (start ok: %v, end ok: %v)", okS, okE)
				}
				return true
			})
			if ntRange == nil {
				r.Fail(nt.Name()+":no-table-range", nt.Decl.Pos(), nil, "NeedsTable does not derive the table's key-group range from its first and last key")
				return
			}
			spec := &pathsim.Spec{Atom: atomFor(overlaps, nRange, func() types.Object { return ntRange })}
			rpcReturned := false
			spec.Step = func(c *pathsim.Ctx, s pathsim.State, ev *pathsim.Event) []pathsim.State {
				if ev.Kind != pathsim.EvReturn || len(ev.Results) == 0 {
					return nil
				}
				if call, ok := ast.Unparen(ev.Results[0]).(*ast.CallExpr); ok {
					if sel, ok := ast.Unparen(call.Fun).(*ast.SelectorExpr); ok && sel.Sel.Name == "NeedsTable" && prog.SelField(c.Info, sel.X) == opField {
						rpcReturned = true
						return nil
					}
				}
				if len(ev.Results) == 2 && isConstBool(c, ev.Results[0], "false") && s.V[0] != pathsim.False {
					c.Violate(ev.Pos, "[prefilter-unguarded] NeedsTable answers 'not needed' without asking the neighbour on a path where the neighbour's range was not established NOT to overlap the table's range: the owner would delete a table the neighbour's retained checkpoint references")
				}
				return nil
			}
			r.Sim(nt.Decl, nt.Name(), spec)
			r.Site(nt.Decl.Pos(), "NeedsTable pre-filter")
			if !rpcReturned {
				r.Fail(nt.Name()+":no-rpc", nt.Decl.Pos(), nil, "NeedsTable never returns the neighbour operator's own answer")
			}
		}})

	register(&Obligation{ID: "C09.i", Props: []string{"C09", "C06"}, Template: "completeness-loop+index-alignment",
		Desc: "Operator.HandleDeploy knows every other operator as a neighbour: the loop over req.Operators skips only its own index (continue, never break) and builds neighbour i from keyGroupRanges[i] and operator i, so ExclusivelyOwnsTable asks every operator whose range may overlap a shared table",
		Run: func(r *Run) {
			f := r.P.Func("workers/operator", "(*Operator).HandleDeploy")
			info := f.Pkg.TypesInfo
			opsF := r.P.Field("proto/workerpb", "DeployOperatorRequest", "Operators")
			npT := r.P.TypeName("workers/operator", "neighborPartition")
			kgr := r.P.FuncObj("partitioning", "(*KeySpace).KeyGroupRanges")
			var loop *ast.RangeStmt
			inspect(f.Decl.Body, func(nd ast.Node) bool {
				rs, ok := nd.(*ast.RangeStmt)
				if !ok || prog.SelField(info, rs.X) != opsF {
					return true
				}
				has := false
				inspect(rs.Body, func(m ast.Node) bool {
					if cl, ok := m.(*ast.CompositeLit); ok && info.TypeOf(cl) == npT.Type() {
						has = true
					}
					return true
				})
				if has {
					loop = rs
				}
				return true
			})
			if loop == nil {
				r.Error("undecided: HandleDeploy no longer builds neighborPartition values in a loop over req.Operators")
				return
			}
			r.Site(loop.Pos(), "HandleDeploy: neighbour loop")
			iv, ov := prog.IdentObj(info, loop.Key), types.Object(nil)
			if loop.Value != nil {
				ov = prog.IdentObj(info, loop.Value)
			}
			// own index: local defined by slices.IndexFunc(req.Operators, ...)
			var own types.Object
			inspect(f.Decl.Body, func(nd ast.Node) bool {
				if as, ok := nd.(*ast.AssignStmt); ok && len(as.Lhs) == 1 && len(as.Rhs) == 1 {
					if c, ok := isCallToNamed(info, as.Rhs[0], "slices", "IndexFunc"); ok && len(c.Args) == 2 && prog.SelField(info, c.Args[0]) == opsF {
						own = prog.IdentObj(info, as.Lhs[0])
					}
				}
				return true
			})
			inspect(loop.Body, func(m ast.Node) bool {
				switch x := m.(type) {
				case *ast.FuncLit:
					return false
				case *ast.BranchStmt:
					if x.Tok == token.BREAK || x.Tok == token.GOTO {
						r.Fail(f.Name()+":neighbour-break", x.Pos(), nil, "the neighbour loop is left early (%s): operators listed after that point are not known as neighbours, are never asked whether they need a shared table, and the table is deleted", x.Tok)
					}
				case *ast.IfStmt:
					skips := false
					for _, st := range x.Body.List {
						if b, ok := st.(*ast.BranchStmt); ok && b.Tok == token.CONTINUE {
							skips = true
						}
					}
					if skips {
						okCond := false
						if b, ok := ast.Unparen(x.Cond).(*ast.BinaryExpr); ok && b.Op == token.EQL && own != nil && iv != nil {
							l, rr := derefObj(info, b.X), derefObj(info, b.Y)
							if (l == iv && rr == own) || (l == own && rr == iv) {
								okCond = true
							}
						}
						if !okCond {
							r.Fail(f.Name()+":neighbour-skip", x.Pos(), nil, "an operator other than this one can be skipped when the neighbours are collected (the only accepted skip is i == ownIndex)")
						}
					}
				case *ast.CompositeLit:
					if info.TypeOf(x) != npT.Type() {
						return true
					}
					okRange, okOp := false, false
					for _, el := range x.Elts {
						kv, ok := el.(*ast.KeyValueExpr)
						if !ok {
							continue
						}
						switch kv.Key.(*ast.Ident).Name {
						case "keyGroupRange":
							if ix, ok := ast.Unparen(kv.Value).(*ast.IndexExpr); ok && iv != nil && prog.IdentObj(info, ix.Index) == iv {
								def := resolveLocal(info, f.Decl.Body, ix.X)
								if c, ok := ast.Unparen(def).(*ast.CallExpr); ok && r.P.CalleeFunc(info, c) == kgr {
									okRange = true
								}
							}
						case "operator":
							inspect(kv.Value, func(q ast.Node) bool {
								if id, ok := q.(*ast.Ident); ok && ov != nil && info.Uses[id] == ov {
									okOp = true
								}
								return true
							})
						}
					}
					r.Site(x.Pos(), "neighbour i = (keyGroupRanges[i], operator i)")
					if !okRange || !okOp {
						r.Fail(f.Name()+":neighbour-alignment", x.Pos(), nil, "neighbour i must pair keyGroupRanges[i] with operator i (range ok: %v, operator ok: %v): a mismatch asks the wrong operator about a shared table", okRange, okOp)
					}
				}
				return true
			})
		}})

	register(&Obligation{ID: "C09.f", Props: []string{"C09", "C13"}, Template: "partition-loop",
		Desc: "recovery.(*CheckpointList).RetainOnly keeps a checkpoint iff its id is in the given set, moves every other one to checkpointsPendingRemoval, panics rather than retaining nothing; IncludesTable consults every retained checkpoint; DB.NeedsTable answers from it",
		Run: func(r *Run) {
			f := r.P.Func("dkv/recovery", "(*CheckpointList).RetainOnly")
			info := f.Pkg.TypesInfo
			ck := r.P.Field("dkv/recovery", "CheckpointList", "checkpoints")
			pendF := r.P.Field("dkv/recovery", "CheckpointList", "checkpointsPendingRemoval")
			has := r.P.FuncObj("util/ds", "(*Set).Has")
			var loop ast.Stmt // range or index loop over all checkpoints
			for _, lp := range fullLoopsOver(info, f.Decl.Body, func(e ast.Expr) bool { return prog.SelField(info, e) == ck }) {
				loop = lp.Stmt
			}
			if loop == nil {
				r.Error("undecided: RetainOnly no longer loops over the checkpoints")
				return
			}
			r.Site(loop.Pos(), "RetainOnly partition loop")
			// simulate one iteration: atom Has(cp.ID); effects: append to next (keep) / append to pending (drop)
			var nextVar types.Object
			inspect(f.Decl.Body, func(nd ast.Node) bool {
				if as, ok := nd.(*ast.AssignStmt); ok && len(as.Lhs) == 1 && prog.SelField(info, as.Lhs[0]) == ck {
					nextVar = prog.IdentObj(info, as.Rhs[0])
				}
				return true
			})
			if nextVar == nil {
				r.Fail(f.Name()+":no-install", f.Decl.Pos(), nil, "RetainOnly never installs the retained list")
				return
			}
			// the partition may live in an extracted helper that returns (retained, dropped): the
			// helper's result variables stand for the caller's variables they are assigned to
			keepSet := map[types.Object]bool{nextVar: true}
			if src := tupleSource(info, f.Decl.Body, nextVar); src != nil {
				keepSet[src] = true
			}
			dropSet := map[types.Object]bool{}
			inspect(f.Decl.Body, func(nd ast.Node) bool {
				as, ok := nd.(*ast.AssignStmt)
				if !ok || len(as.Lhs) != 1 || len(as.Rhs) != 1 || prog.SelField(info, as.Lhs[0]) != pendF {
					return true
				}
				if call, ok := ast.Unparen(as.Rhs[0]).(*ast.CallExpr); ok && len(call.Args) == 2 && call.Ellipsis.IsValid() {
					if id, ok := call.Fun.(*ast.Ident); ok && id.Name == "append" && prog.SelField(info, call.Args[0]) == pendF {
						if o := prog.IdentObjPlain(info, call.Args[1]); o != nil {
							dropSet[o] = true
							if src := tupleSource(info, f.Decl.Body, o); src != nil {
								dropSet[src] = true
							}
						}
					}
				}
				return true
			})
			isKeep := func(c *pathsim.Ctx, ev *pathsim.Event) bool {
				return ev.Kind == pathsim.EvAssign && len(ev.Lhs) == 1 && keepSet[prog.IdentObjPlain(c.Info, ev.Lhs[0])] && ev.Node.Pos() > loop.Pos() && ev.Node.End() <= loop.End()
			}
			isDrop := func(c *pathsim.Ctx, ev *pathsim.Event) bool {
				if ev.Kind != pathsim.EvAssign || len(ev.Lhs) != 1 {
					return false
				}
				if dropSet[prog.IdentObjPlain(c.Info, ev.Lhs[0])] && ev.Node.Pos() > loop.Pos() && ev.Node.End() <= loop.End() {
					return true
				}
				return prog.SelField(c.Info, ev.Lhs[0]) == pendF && ev.Node.Pos() > loop.Pos() && ev.Node.End() <= loop.End()
			}
			spec := &pathsim.Spec{}
			spec.Atom = func(c *pathsim.Ctx, e ast.Expr) (int, bool, bool) {
				if call, ok := ast.Unparen(e).(*ast.CallExpr); ok && c.P.CalleeFunc(c.Info, call) == has {
					return 0, false, true
				}
				return 0, false, false
			}
			nKeep, nDrop := 0, 0
			spec.Step = func(c *pathsim.Ctx, s pathsim.State, ev *pathsim.Event) []pathsim.State {
				if (ev.Kind == pathsim.EvRangeIter || ev.Kind == pathsim.EvLoopIter) && ev.Node == ast.Node(loop) {
					if s.A == 1 {
						c.Violate(loop.Pos(), "[lost-checkpoint] an iteration can end with the checkpoint neither retained nor queued for removal: its WAL file leaks or it silently disappears")
					}
					s.A = 1
					s.V[0] = pathsim.Unknown
					return []pathsim.State{s}
				}
				if ev.Kind == pathsim.EvLoopExit && ev.Node == ast.Node(loop) {
					if s.A == 1 {
						c.Violate(loop.Pos(), "[lost-checkpoint] an iteration can end with the checkpoint neither retained nor queued for removal")
					}
					s.A = 0
					return []pathsim.State{s}
				}
				// a destination chosen through a pointer: dest := &pending; if retained { dest = &next };
				// *dest = append(*dest, cp) — s.V[1] records which list the pointer names on this path
				if ev.Kind == pathsim.EvAssign && len(ev.Lhs) == 1 && len(ev.Rhs) == 1 {
					if u, isAddr := ast.Unparen(ev.Rhs[0]).(*ast.UnaryExpr); isAddr && u.Op == token.AND {
						if _, isID := ast.Unparen(ev.Lhs[0]).(*ast.Ident); isID {
							switch {
							case keepSet[prog.IdentObjPlain(c.Info, u.X)]:
								s.V[1] = pathsim.True
								return []pathsim.State{s}
							case prog.SelField(c.Info, u.X) == pendF:
								s.V[1] = pathsim.False
								return []pathsim.State{s}
							}
						}
					}
				}
				viaPtr := pathsim.Unknown
				if ev.Kind == pathsim.EvAssign && len(ev.Lhs) == 1 && ev.Node.Pos() > loop.Pos() && ev.Node.End() <= loop.End() {
					if st, isStar := ast.Unparen(ev.Lhs[0]).(*ast.StarExpr); isStar {
						if _, isID := ast.Unparen(st.X).(*ast.Ident); isID {
							viaPtr = s.V[1]
						}
					}
				}
				if isKeep(c, ev) || viaPtr == pathsim.True {
					nKeep++
					if s.V[0] != pathsim.True {
						c.Violate(ev.Pos, "[keep-unlisted] a checkpoint whose id is not in the retained set is kept")
					}
					s.A = 2
					return []pathsim.State{s}
				}
				if isDrop(c, ev) || viaPtr == pathsim.False {
					nDrop++
					if s.V[0] != pathsim.False {
						c.Violate(ev.Pos, "[drop-retained] a checkpoint whose id IS in the retained set is queued for destruction: its WAL file is deleted on the next Save")
					}
					s.A = 2
					s.B = 1 // something was queued for destruction and is still in cl.checkpoints
					return []pathsim.State{s}
				}
				if ev.Kind == pathsim.EvAssign && len(ev.Lhs) == 1 && prog.SelField(c.Info, ev.Lhs[0]) == ck && len(ev.Rhs) == 1 && prog.IdentObj(c.Info, ev.Rhs[0]) == nextVar {
					s.B = 0
					return []pathsim.State{s}
				}
				if (ev.Kind == pathsim.EvReturn || ev.Kind == pathsim.EvExit) && s.B == 1 {
					c.Violate(ev.Pos, "[queued-but-kept] RetainOnly can return with checkpoints queued for destruction that are still in the live list: the next Save deletes the WAL of a checkpoint the list (and the job) still references")
				}
				return nil
			}
			r.Sim(f.Decl, f.Name(), spec)
			if nKeep == 0 || nDrop == 0 {
				r.Fail(f.Name()+":partition", loop.Pos(), nil, "RetainOnly must both keep retained checkpoints and queue the others for removal")
			}
			// empty result panics before the install
			n := r.guarded(f.Decl, f.Name(), "cl.checkpoints=next", []guardAtom{{Name: "len(next)==0", Match: func(c *pathsim.Ctx, e ast.Expr) (bool, bool) {
				b, ok := ast.Unparen(e).(*ast.BinaryExpr)
				if !ok {
					return false, false
				}
				call, ok := ast.Unparen(b.X).(*ast.CallExpr)
				if !ok || len(call.Args) != 1 || prog.IdentObj(c.Info, call.Args[0]) != nextVar {
					return false, false
				}
				if tv, ok := c.Info.Types[b.Y]; ok && tv.Value != nil && tv.Value.String() == "0" {
					switch b.Op.String() {
					case "==":
						return false, true
					case "!=", ">":
						return true, true
					}
				}
				return false, false
			}}}, func(c *pathsim.Ctx, ev *pathsim.Event) bool {
				return ev.Kind == pathsim.EvAssign && len(ev.Lhs) == 1 && prog.SelField(c.Info, ev.Lhs[0]) == ck
			}, func(v []pathsim.Tri) bool { return v[0] == pathsim.False }, "len(next) != 0")
			_ = n
			// IncludesTable: any retained checkpoint
			it := r.P.Func("dkv/recovery", "(*CheckpointList).IncludesTable")
			ii := it.Pkg.TypesInfo
			cpInc := r.P.FuncObj("dkv/recovery", "(*Checkpoint).IncludesTable")
			okAny := false
			// the checkpoint's own answer may be inlined: `_, ok := cp.tableURIset[uri]`
			uriSet := r.P.TryField("dkv/recovery", "Checkpoint", "tableURIset")
			lookupOK := map[types.Object]bool{}
			if uriSet != nil {
				inspect(it.Decl.Body, func(m ast.Node) bool {
					as, isAs := m.(*ast.AssignStmt)
					if !isAs || len(as.Lhs) != 2 || len(as.Rhs) != 1 {
						return true
					}
					ix, isIx := ast.Unparen(as.Rhs[0]).(*ast.IndexExpr)
					if !isIx || prog.SelField(ii, ix.X) != uriSet || !r.isParam(it, ix.Index, 0) {
						return true
					}
					if o := prog.IdentObjPlain(ii, as.Lhs[1]); o != nil {
						lookupOK[o] = true
					}
					return true
				})
			}
			usesLookup := func(n ast.Node) bool {
				found := false
				inspect(n, func(m ast.Node) bool {
					if id, isID := m.(*ast.Ident); isID && (lookupOK[ii.Uses[id]] || lookupOK[ii.Defs[id]]) {
						found = true
					}
					return !found
				})
				return found
			}
			for _, lp := range fullLoopsOver(ii, it.Decl.Body, func(e ast.Expr) bool { return prog.SelField(ii, e) == ck }) {
				if !r.exprCalls(ii, lp.Body, cpInc) && !usesLookup(lp.Body) {
					continue
				}
				okAny = true
				inspect(lp.Body, func(m ast.Node) bool {
					if b, ok := m.(*ast.BranchStmt); ok {
						r.Fail(it.Name()+":partial", b.Pos(), nil, "IncludesTable skips some retained checkpoints")
					}
					return true
				})
			}
			// the library spelling of the same loop: slices.ContainsFunc(cl.checkpoints, func(cp) bool { return cp.IncludesTable(uri) })
			anyOf := map[*ast.CallExpr]bool{}
			inspect(it.Decl.Body, func(m ast.Node) bool {
				me, isExpr := m.(ast.Expr)
				if !isExpr {
					return true
				}
				call, ok := isCallToNamed(ii, me, "slices", "ContainsFunc")
				if !ok || len(call.Args) != 2 || prog.SelField(ii, call.Args[0]) != ck {
					return true
				}
				lit, ok := ast.Unparen(call.Args[1]).(*ast.FuncLit)
				if !ok || len(lit.Type.Params.List) != 1 || len(lit.Type.Params.List[0].Names) != 1 {
					return true
				}
				elem := ii.Defs[lit.Type.Params.List[0].Names[0]]
				nRet, all := 0, true
				ast.Inspect(lit.Body, func(q ast.Node) bool {
					if ret, ok := q.(*ast.ReturnStmt); ok {
						nRet++
						c2, isCall := ast.Unparen(ret.Results[0]).(*ast.CallExpr)
						if len(ret.Results) != 1 || !isCall || r.P.CalleeFunc(ii, c2) != cpInc {
							all = false
						} else if sel, ok := ast.Unparen(c2.Fun).(*ast.SelectorExpr); !ok || prog.IdentObj(ii, sel.X) != elem {
							all = false
						}
					}
					return true
				})
				if nRet > 0 && all {
					anyOf[call] = true
					okAny = true
				}
				return true
			})
			// the index-search spelling: i := 0; for i < len(S) && !S[i].IncludesTable(uri) { i++ }; return i < len(S)
			var searchIdx types.Object
			isCk := func(e ast.Expr) bool { return prog.SelField(ii, deref(ii, e)) == ck || prog.SelField(ii, e) == ck }
			isIdxLtLen := func(e ast.Expr, idx types.Object) bool {
				b, ok := ast.Unparen(e).(*ast.BinaryExpr)
				if !ok {
					return false
				}
				b = orientCmp(b, func(x ast.Expr) bool { return prog.IdentObjPlain(ii, x) == idx })
				if b.Op != token.LSS || prog.IdentObjPlain(ii, b.X) != idx {
					return false
				}
				c, ok := ast.Unparen(b.Y).(*ast.CallExpr)
				if !ok || len(c.Args) != 1 {
					return false
				}
				id, ok := c.Fun.(*ast.Ident)
				return ok && id.Name == "len" && isCk(c.Args[0])
			}
			inspect(it.Decl.Body, func(m ast.Node) bool {
				fs, ok := m.(*ast.ForStmt)
				if !ok || fs.Init != nil || fs.Post != nil || fs.Cond == nil || len(fs.Body.List) != 1 {
					return true
				}
				inc, ok := fs.Body.List[0].(*ast.IncDecStmt)
				if !ok || inc.Tok != token.INC {
					return true
				}
				idx := prog.IdentObjPlain(ii, inc.X)
				b, ok := ast.Unparen(fs.Cond).(*ast.BinaryExpr)
				if !ok || b.Op != token.LAND || idx == nil || !isIdxLtLen(b.X, idx) {
					return true
				}
				u, ok := ast.Unparen(b.Y).(*ast.UnaryExpr)
				if !ok || u.Op != token.NOT {
					return true
				}
				c2, ok := ast.Unparen(u.X).(*ast.CallExpr)
				if !ok || r.P.CalleeFunc(ii, c2) != cpInc {
					return true
				}
				sel, ok := ast.Unparen(c2.Fun).(*ast.SelectorExpr)
				if !ok {
					return true
				}
				ix, ok := ast.Unparen(sel.X).(*ast.IndexExpr)
				if !ok || !isCk(ix.X) || prog.IdentObjPlain(ii, ix.Index) != idx {
					return true
				}
				// the index starts at 0
				if def := localDefPlain(ii, it.Decl.Body, idx); def != nil {
					return true // (localDefPlain is nil for a variable that is also incremented)
				}
				zero := false
				inspect(it.Decl.Body, func(q ast.Node) bool {
					if as, ok := q.(*ast.AssignStmt); ok && len(as.Lhs) == 1 && len(as.Rhs) == 1 && prog.IdentObjPlain(ii, as.Lhs[0]) == idx {
						if tv, ok := ii.Types[as.Rhs[0]]; ok && tv.Value != nil && tv.Value.String() == "0" {
							zero = true
						}
					}
					return true
				})
				if zero {
					searchIdx, okAny = idx, true
				}
				return true
			})
			// polarity: `true` is returned exactly on a path where some checkpoint's IncludesTable held,
			// and the function can return true (an "always false" answer lets neighbours delete shared files)
			returnsTrue := false
			polSpec := &pathsim.Spec{
				Atom: func(c *pathsim.Ctx, e ast.Expr) (int, bool, bool) {
					if call, ok := ast.Unparen(e).(*ast.CallExpr); ok && r.P.CalleeFunc(c.Info, call) == cpInc {
						return 0, false, true
					}
					if id, ok := ast.Unparen(e).(*ast.Ident); ok && lookupOK[c.Info.Uses[id]] {
						return 0, false, true
					}
					return 0, false, false
				},
				Step: func(c *pathsim.Ctx, st pathsim.State, ev *pathsim.Event) []pathsim.State {
					switch ev.Kind {
					case pathsim.EvRangeIter:
						st.V[0] = pathsim.Unknown
						return []pathsim.State{st}
					case pathsim.EvReturn:
						if len(ev.Results) != 1 {
							return nil
						}
						tv, ok := c.Info.Types[ev.Results[0]]
						if !ok || tv.Value == nil {
							if call, isCall := ast.Unparen(ev.Results[0]).(*ast.CallExpr); isCall && r.P.CalleeFunc(c.Info, call) == cpInc {
								returnsTrue = true
								return nil
							}
							if call, isCall := deref(c.Info, ev.Results[0]).(*ast.CallExpr); isCall && anyOf[call] {
								returnsTrue = true
								return nil
							}
							if searchIdx != nil && isIdxLtLen(ev.Results[0], searchIdx) {
								returnsTrue = true // "the search stopped before the end"
								return nil
							}
							c.Violate(ev.Pos, "[answer-shape] IncludesTable returns something other than a constant or a checkpoint's own answer")
							return nil
						}
						if tv.Value.String() == "true" {
							returnsTrue = true
							// answering true without a hit only keeps more files: not a violation of C09
						} else if st.V[0] == pathsim.True {
							c.Violate(ev.Pos, "[false-despite-hit] IncludesTable answers false although a retained checkpoint includes the table: DB.NeedsTable says 'not needed' and the neighbour deletes a file this checkpoint references")
						}
					}
					return nil
				},
			}
			r.Sim(it.Decl, it.Name()+":polarity", polSpec)
			if !returnsTrue {
				r.Fail(it.Name()+":never-true", it.Decl.Pos(), nil, "CheckpointList.IncludesTable can never answer true: every shared table is reported as not needed")
			}
			r.Site(it.Decl.Pos(), "IncludesTable ranges over every retained checkpoint")
			if !okAny {
				r.Fail(it.Name()+":shape", it.Decl.Pos(), nil, "CheckpointList.IncludesTable no longer consults every retained checkpoint")
			}
			// last statement returns false; inside loop returns true when found
			nt := r.P.Func("dkv", "(*DB).NeedsTable")
			r.Site(nt.Decl.Pos(), "DB.NeedsTable answers from the checkpoint list")
			if !r.exprCalls(nt.Pkg.TypesInfo, nt.Decl.Body, it.Obj) {
				r.Fail(nt.Name()+":source", nt.Decl.Pos(), nil, "DB.NeedsTable no longer answers from the retained checkpoints")
			}
			hn := r.P.Func("workers/operator", "(*Operator).HandleNeedsTable")
			if !r.exprCalls(hn.Pkg.TypesInfo, hn.Decl.Body, nt.Obj) {
				r.Fail(hn.Name()+":source", hn.Decl.Pos(), nil, "Operator.HandleNeedsTable no longer asks the DB")
			}
		}})
}

// indexCoversAllLevels: the table-URI index a Checkpoint literal is given was filled from every
// table of every level of the level list the same literal stores: each element store into the
// index map sits in a full loop over a level's tables (level.AllTables(), or the level's document
// slice) inside a full loop over all levels (DescendLevels() / AscendLevels(0) without a skipped
// level, or the document's level slice), with no guard or early exit in between, and is keyed by
// the table's URI. Loops may be range or index loops; the index may be built by an extracted
// helper.
func (r *Run) indexCoversAllLevels(pkg *packages.Package, cl *ast.CompositeLit, set *types.Var, where string) {
	info := pkg.TypesInfo
	var setVal, levelsVal ast.Expr
	for _, el := range cl.Elts {
		kv, ok := el.(*ast.KeyValueExpr)
		if !ok {
			continue
		}
		id, ok := kv.Key.(*ast.Ident)
		if !ok {
			continue
		}
		if info.Uses[id] == types.Object(set) {
			setVal = kv.Value
		}
		if id.Name == "Levels" {
			levelsVal = kv.Value
		}
	}
	sc := r.P.ScopeAt(cl.Pos())
	if setVal == nil || levelsVal == nil || sc == nil || sc.Decl == nil {
		return
	}
	// the map variable that is filled: the value itself, or the variable an extracted helper returns
	m := prog.IdentObjPlain(info, setVal)
	if call, isCall := ast.Unparen(deref(info, setVal)).(*ast.CallExpr); isCall {
		if e := soleReturnExpr(info, call); e != nil {
			m = prog.IdentObjPlain(info, e)
		}
	}
	if m == nil {
		r.Fail("Checkpoint-literal:"+where+":index-source", cl.Pos(), nil, "the table index of the checkpoint built in %s is not a map variable filled in that function next to its level list", where)
		return
	}
	fail := func(pos token.Pos, why string) {
		r.Fail("Checkpoint-literal:"+where+":index-partial", pos, nil, "the table index of the checkpoint built in %s does not cover every table of every level (%s): IncludesTable / NeedsTable answer 'not needed' for a table the checkpoint references, and a neighbour's cleanup deletes the file", where, why)
	}
	zeroArgs := func(call *ast.CallExpr) bool {
		for _, a := range call.Args {
			tv, ok := info.Types[a]
			if !ok || tv.Value == nil || tv.Value.String() != "0" {
				return false
			}
		}
		return true
	}
	// the level list stored in the literal, and (document form) the level documents it is built from
	levelsObj := prog.IdentObj(info, levelsVal)
	docLevels := map[string]bool{}
	docLevelVars := map[types.Object]bool{}
	ast.Inspect(deref(info, levelsVal), func(q ast.Node) bool {
		switch x := q.(type) {
		case *ast.SelectorExpr:
			if x.Sel.Name == "Levels" {
				docLevels[types.ExprString(x)] = true
			}
		case *ast.Ident:
			if sel, isSel := ast.Unparen(deref(info, x)).(*ast.SelectorExpr); isSel && sel.Sel.Name == "Levels" {
				docLevels[types.ExprString(sel)] = true
				if o := info.Uses[x]; o != nil {
					docLevelVars[o] = true
				}
			}
		}
		return true
	})
	skipped := token.NoPos
	isLevels := func(e ast.Expr) bool {
		e = ast.Unparen(e)
		if call, isCall := e.(*ast.CallExpr); isCall {
			if sel, isSel := ast.Unparen(call.Fun).(*ast.SelectorExpr); isSel && (sel.Sel.Name == "DescendLevels" || sel.Sel.Name == "AscendLevels") {
				if o := prog.IdentObj(info, sel.X); o != nil && o == levelsObj {
					if zeroArgs(call) {
						return true
					}
					skipped = call.Pos()
				}
			}
			return false
		}
		if sel, isSel := ast.Unparen(deref(info, e)).(*ast.SelectorExpr); isSel && docLevels[types.ExprString(sel)] {
			return true
		}
		// both through the same local (levelDocs := doc.Levels)
		if o := prog.IdentObjPlain(info, e); o != nil && docLevelVars[o] {
			return true
		}
		return false
	}
	nStores := 0
	stores := map[*ast.AssignStmt]bool{}
	inspect(sc.Decl.Body, func(nd ast.Node) bool {
		if as, ok := nd.(*ast.AssignStmt); ok && len(as.Lhs) == 1 {
			if ix, isIx := ast.Unparen(as.Lhs[0]).(*ast.IndexExpr); isIx && (prog.IdentObjPlain(info, ix.X) == m || prog.IdentObj(info, ix.X) == m) {
				stores[as] = true
			}
		}
		return true
	})
	covered := map[*ast.AssignStmt]bool{}
	for _, outer := range fullLoopsOver(info, sc.Decl.Body, isLevels) {
		outer := outer
		isTables := func(e ast.Expr) bool {
			e = ast.Unparen(e)
			if call, isCall := e.(*ast.CallExpr); isCall {
				sel, isSel := ast.Unparen(call.Fun).(*ast.SelectorExpr)
				return isSel && sel.Sel.Name == "AllTables" && len(call.Args) == 0 && outer.IsElem(sel.X)
			}
			return outer.IsElem(e)
		}
		for _, inner := range fullLoopsOver(info, outer.Body, isTables) {
			for as := range stores {
				if as.Pos() < inner.Body.Pos() || as.End() > inner.Body.End() {
					continue
				}
				nStores++
				r.Site(as.Pos(), "table index store in "+where)
				// nothing conditional or skipping between the outer loop and the store
				bad := ""
				ast.Inspect(outer.Body, func(q ast.Node) bool {
					switch x := q.(type) {
					case *ast.BranchStmt, *ast.ReturnStmt:
						bad = "a level or table can be skipped (break / continue / return in the loops)"
					case *ast.IfStmt:
						if x.Pos() <= as.Pos() && as.End() <= x.End() {
							bad = "the store is conditional"
						}
					case *ast.SwitchStmt:
						if x.Pos() <= as.Pos() && as.End() <= x.End() {
							bad = "the store is conditional"
						}
					case *ast.FuncLit:
						return false
					}
					return true
				})
				if bad != "" {
					fail(as.Pos(), bad)
					covered[as] = true
					continue
				}
				ix := ast.Unparen(as.Lhs[0]).(*ast.IndexExpr)
				keyOK := false
				switch k := ast.Unparen(deref(info, ix.Index)).(type) {
				case *ast.CallExpr:
					if sel, isSel := ast.Unparen(k.Fun).(*ast.SelectorExpr); isSel && sel.Sel.Name == "URI" && inner.IsElem(sel.X) {
						keyOK = true
					}
				case *ast.SelectorExpr:
					if k.Sel.Name == "URI" && inner.IsElem(k.X) {
						keyOK = true
					}
				}
				if !keyOK {
					fail(as.Pos(), "the index is not keyed by the table's URI")
				}
				covered[as] = true
			}
		}
	}
	for as := range stores {
		if !covered[as] {
			nStores++
			why := "a store into the index is not inside a loop over all levels and a loop over all tables of the level"
			if skipped != token.NoPos {
				why = "levels are skipped by the loop over the level list"
			}
			fail(as.Pos(), why)
		}
	}
	if nStores == 0 {
		why := "nothing is stored in it"
		if skipped != token.NoPos {
			why = "levels are skipped by the loop over the level list"
		}
		fail(cl.Pos(), why)
	}
}
