package rules

import (
	_ "embed"
	"fmt"
	"go/ast"
	"go/token"
	"go/types"
	"sort"
	"strings"

	"verif/checker/internal/pathsim"
	"verif/checker/internal/prog"
)

type evPred func(c *pathsim.Ctx, ev *pathsim.Event) bool

// callTo matches a (non-deferred, non-go) call whose static callee is one of fns.
func callTo(fns ...*types.Func) evPred {
	return func(c *pathsim.Ctx, ev *pathsim.Event) bool {
		if ev.Kind != pathsim.EvCall || ev.Go {
			return false
		}
		fn, _ := ev.Callee.(*types.Func)
		if fn == nil {
			return false
		}
		for _, f := range fns {
			if f == fn {
				return true
			}
		}
		return false
	}
}

func anyOf(ps ...evPred) evPred {
	return func(c *pathsim.Ctx, ev *pathsim.Event) bool {
		for _, p := range ps {
			if p(c, ev) {
				return true
			}
		}
		return false
	}
}

// isErrorType reports whether t is the predeclared error type.
func isErrorType(t types.Type) bool {
	return t != nil && types.Identical(t, types.Universe.Lookup("error").Type())
}

// litsIn returns the function literals directly nested in n (not inside other literals),
// in source order.
func litsIn(n ast.Node) []*ast.FuncLit {
	var out []*ast.FuncLit
	inspect(n, func(m ast.Node) bool {
		if lit, ok := m.(*ast.FuncLit); ok && m != n {
			out = append(out, lit)
			return false
		}
		return true
	})
	return out
}

// allLitsIn returns every function literal nested in n at any depth.
func allLitsIn(n ast.Node) []*ast.FuncLit {
	var out []*ast.FuncLit
	inspect(n, func(m ast.Node) bool {
		if lit, ok := m.(*ast.FuncLit); ok && m != n {
			out = append(out, lit)
		}
		return true
	})
	return out
}

// ---------------------------------------------------------------- T1 must-precede

// mustPrecede: on every path through fn, an event matching isB is preceded by one
// matching isA. Reports [tagB] once per B site.
func (r *Run) mustPrecede(fn ast.Node, construct, tagA, tagB string, isA, isB evPred) (nB int) {
	seenB := map[token.Pos]bool{}
	spec := &pathsim.Spec{
		InlineCalls: true, // see through extracted helpers
		Step: func(c *pathsim.Ctx, s pathsim.State, ev *pathsim.Event) []pathsim.State {
			if isA(c, ev) {
				s.A = 1
				return []pathsim.State{s}
			}
			if isB(c, ev) {
				seenB[ev.Pos] = true
				if s.A == 0 {
					c.Violate(ev.Pos, "[%s] %s is reachable on a path that has not passed %s", tagB+"<-"+tagA, tagB, tagA)
				}
			}
			return nil
		},
	}
	r.Sim(fn, construct, spec)
	for pos := range seenB {
		r.Site(pos, construct+": "+tagB+" after "+tagA)
	}
	return len(seenB)
}

// ---------------------------------------------------------------- T1.err-checked

const (
	ecNone    = 0 // A not performed
	ecPending = 1 // A performed, its error is in errObj and has not been overwritten
	ecOK      = 2 // A performed and its error was established nil
	ecBad     = 3 // A's error was discarded, overwritten untested, or is non-nil on this path
)

// errChecked: every path to B has performed A and established that A's error is nil
// (tested on this path, with B on the nil side). Accepted idioms: `if err := A(); err !=
// nil { return }`, assignment then test, `err == nil` guarding B, returning the error.
func (r *Run) errChecked(fn ast.Node, construct, tagA, tagB string, isA, isB evPred) (nB int) {
	return r.errCheckedOpt(fn, construct, tagA, tagB, isA, isB, true)
}

// errCheckedAfter is errChecked without the requirement that A happens at all: it only
// demands that once A was performed, B is reached with A's error established nil.
func (r *Run) errCheckedAfter(fn ast.Node, construct, tagA, tagB string, isA, isB evPred) (nB int) {
	return r.errCheckedOpt(fn, construct, tagA, tagB, isA, isB, false)
}

func (r *Run) errCheckedOpt(fn ast.Node, construct, tagA, tagB string, isA, isB evPred, requireA bool) (nB int) {
	var errObjs []types.Object // error variables A's result was assigned to
	objIndex := func(o types.Object) int {
		for i, e := range errObjs {
			if e == o {
				return i
			}
		}
		errObjs = append(errObjs, o)
		return len(errObjs) - 1
	}
	seenB := map[token.Pos]bool{}
	// pendingCall: an A call event was just seen; the enclosing statement decides where the
	// error goes. We resolve that syntactically from the parent statement of the call.
	spec := &pathsim.Spec{InlineCalls: true}
	spec.ErrAtom = func(obj types.Object) (int, bool) {
		for i, e := range errObjs {
			if e == obj && i < pathsim.MaxAtoms {
				return i, true
			}
		}
		return 0, false
	}
	spec.AtomDeps = map[int][]types.Object{}
	spec.Atom = func(c *pathsim.Ctx, e ast.Expr) (int, bool, bool) {
		x, notNil, ok := pathsim.IsNilCompare(c.Info, e)
		if !ok {
			return 0, false, false
		}
		o := prog.IdentObj(c.Info, x)
		if o == nil {
			return 0, false, false
		}
		for i, eo := range errObjs {
			if eo == o && i < pathsim.MaxAtoms {
				// atom i := "errObj_i != nil"
				return i, !notNil, true
			}
		}
		return 0, false, false
	}
	// pre-scan: where does each A call's error go?
	type dest struct {
		obj       types.Object
		dropped   bool
		direct    bool // returned directly / passed on: treated as handled
		viaHelper bool // the error reaches obj through the result of an extracted helper
	}
	dests := map[*ast.CallExpr]dest{}
	prescan := func(c *pathsim.Ctx) {
		var stack []ast.Node
		inspect(c.Body, func(n ast.Node) bool {
			if n == nil {
				stack = stack[:len(stack)-1]
				return false
			}
			stack = append(stack, n)
			call, ok := n.(*ast.CallExpr)
			if !ok {
				return true
			}
			ev := &pathsim.Event{Kind: pathsim.EvCall, Call: call, Callee: c.P.Callee(c.Info, call), Node: call, Pos: call.Pos()}
			if !isA(c, ev) {
				return true
			}
			// index of the error result
			sig, _ := c.Info.TypeOf(call.Fun).(*types.Signature)
			errIdx := -1
			if sig != nil {
				for i := 0; i < sig.Results().Len(); i++ {
					if isErrorType(sig.Results().At(i).Type()) {
						errIdx = i
					}
				}
			}
			if errIdx < 0 {
				dests[call] = dest{direct: true}
				return true
			}
			parent := stack[len(stack)-2]
			switch ps := parent.(type) {
			case *ast.AssignStmt:
				if len(ps.Rhs) == 1 && ps.Rhs[0] == ast.Expr(call) && errIdx < len(ps.Lhs) {
					id, _ := ps.Lhs[errIdx].(*ast.Ident)
					if id == nil || id.Name == "_" {
						dests[call] = dest{dropped: true}
					} else {
						o := prog.IdentObj(c.Info, id)
						i := objIndex(o)
						if i < pathsim.MaxAtoms {
							spec.AtomDeps[i] = []types.Object{o}
						}
						dests[call] = dest{obj: o}
					}
					return true
				}
			case *ast.ValueSpec:
				if len(ps.Values) == 1 && ps.Values[0] == ast.Expr(call) && errIdx < len(ps.Names) {
					o := c.Info.Defs[ps.Names[errIdx]]
					if o == nil || ps.Names[errIdx].Name == "_" {
						dests[call] = dest{dropped: true}
					} else {
						i := objIndex(o)
						if i < pathsim.MaxAtoms {
							spec.AtomDeps[i] = []types.Object{o}
						}
						dests[call] = dest{obj: o}
					}
					return true
				}
			case *ast.ReturnStmt:
				// `return A()` hands the error to the caller. Inside an extracted helper (a new function
				// with one call site) "the caller" is still this rule's function: the error arrives in
				// the variable that receives the helper's error result there.
				if sc := c.P.ScopeAt(call.Pos()); sc != nil && sc.Fn != nil && isNewHelper(c.P, sc.Fn) {
					if hc, hparent := r.onlyCallSite(sc.Fn); hc != nil {
						if as, ok := hparent.(*ast.AssignStmt); ok && len(as.Rhs) == 1 {
							hsig, _ := sc.Fn.Obj.Type().(*types.Signature)
							hidx := -1
							if hsig != nil {
								for i := 0; i < hsig.Results().Len(); i++ {
									if isErrorType(hsig.Results().At(i).Type()) {
										hidx = i
									}
								}
							}
							if hidx >= 0 && hidx < len(as.Lhs) {
								if id, _ := as.Lhs[hidx].(*ast.Ident); id != nil && id.Name != "_" {
									if o := prog.IdentObj(c.Info, id); o != nil {
										i := objIndex(o)
										if i < pathsim.MaxAtoms {
											spec.AtomDeps[i] = []types.Object{o}
										}
										dests[call] = dest{obj: o, viaHelper: true}
										return true
									}
								}
							}
						}
					}
				}
				dests[call] = dest{direct: true}
				return true
			case *ast.ExprStmt:
				dests[call] = dest{dropped: true}
				return true
			}
			// anything else (argument of another call, send, ...): cannot follow the value
			dests[call] = dest{dropped: true}
			return true
		})
	}
	spec.Step = func(c *pathsim.Ctx, s pathsim.State, ev *pathsim.Event) []pathsim.State {
		if isA(c, ev) {
			d := dests[ev.Call]
			switch {
			case d.dropped:
				s.A = ecBad
				s.B = 0
			case d.direct:
				s.A = ecOK
			default:
				s.A = ecPending
				s.B = int32(objIndex(d.obj))
				// fresh value: the valuation for this variable restarts
				if int(s.B) < pathsim.MaxAtoms {
					s.V[s.B] = pathsim.Unknown
				}
			}
			return []pathsim.State{s}
		}
		if ev.Kind == pathsim.EvAssign && s.A == ecPending {
			// was the pending error variable overwritten by something else?
			for _, l := range ev.Lhs {
				if o := prog.IdentObj(c.Info, l); o != nil && int(s.B) < len(errObjs) && o == errObjs[s.B] {
					isFromA := false
					for _, rr := range ev.Rhs {
						if call, ok := ast.Unparen(rr).(*ast.CallExpr); ok {
							if _, ok := dests[call]; ok {
								isFromA = true
							}
							// the assignment that receives the result of the helper which returned A's error
							if fi := c.P.FuncInfoOf(c.P.CalleeFunc(c.Info, call)); fi != nil && isNewHelper(c.P, fi) {
								isFromA = true
							}
						}
					}
					if !isFromA {
						switch s.V[s.B] {
						case pathsim.False:
							s.A = ecOK
						default:
							s.A = ecBad
						}
						return []pathsim.State{s}
					}
				}
			}
		}
		if isB(c, ev) {
			seenB[ev.Pos] = true
			switch {
			case s.A == ecNone && !requireA:
			case s.A == ecNone:
				c.Violate(ev.Pos, "[%s] %s is reachable without %s having been performed", tagB+"<-"+tagA, tagB, tagA)
			case s.A == ecBad:
				c.Violate(ev.Pos, "[%s] %s is reachable although the error of %s was discarded, overwritten or non-nil", tagB+"<-"+tagA+".err", tagB, tagA)
			case s.A == ecPending && s.V[s.B] != pathsim.False:
				c.Violate(ev.Pos, "[%s] %s is reachable before the error of %s was tested to be nil", tagB+"<-"+tagA+".err", tagB, tagA)
			}
		}
		return nil
	}
	// run prescan through a dummy ctx: we need Info and Body, so do it via a first Run with
	// an empty spec.
	pre := pathsim.Run(r.P, fn, &pathsim.Spec{})
	prescan(pre)
	r.Sim(fn, construct, spec)
	for pos := range seenB {
		r.Site(pos, construct+": "+tagB+" after err-checked "+tagA)
	}
	return len(seenB)
}

// ---------------------------------------------------------------- wrapper summaries

// alwaysDoes reports whether every normally-returning path of fn performs an event
// matching isA (depth-1 wrapper summary).
func (r *Run) alwaysDoes(fi *prog.FuncInfo, isA evPred) bool {
	if fi == nil || fi.Decl == nil || fi.Decl.Body == nil {
		return false
	}
	ok := true
	spec := &pathsim.Spec{
		Step: func(c *pathsim.Ctx, s pathsim.State, ev *pathsim.Event) []pathsim.State {
			if isA(c, ev) {
				s.A = 1
				return []pathsim.State{s}
			}
			if (ev.Kind == pathsim.EvReturn || ev.Kind == pathsim.EvExit) && s.A == 0 {
				ok = false
			}
			return nil
		},
	}
	c := pathsim.Run(r.P, fi.Decl, spec)
	if len(c.Undecided) > 0 {
		return false
	}
	return ok
}

// ---------------------------------------------------------------- who-may

type callSite struct {
	Use    prog.Use
	Call   *ast.CallExpr // nil when the function is used as a value (method value, passed along)
	Via    string        // "static", "interface:<iface method>", "value"
	Callee *types.Func
}

// callSitesOf returns every syntactic use of fn (and, for methods, of every interface
// method it can satisfy) in the main module: direct calls, calls through an interface
// (CHA over the interfaces declared in the main module) and uses as a function value.
func (r *Run) callSitesOf(fn *types.Func, withInterfaces bool) []callSite {
	var out []callSite
	add := func(target *types.Func, via string) {
		for _, u := range r.P.Uses(target) {
			cs := callSite{Use: u, Via: via, Callee: target}
			path := r.P.PathTo(u.File, u.Ident.Pos(), u.Ident.End())
			// find the call whose Fun (unparen, through selector) is this identifier
			for i := len(path) - 1; i >= 0; i-- {
				if call, ok := path[i].(*ast.CallExpr); ok {
					f := ast.Unparen(call.Fun)
					switch ff := f.(type) {
					case *ast.Ident:
						if ff == u.Ident {
							cs.Call = call
						}
					case *ast.SelectorExpr:
						if ff.Sel == u.Ident {
							cs.Call = call
						}
					case *ast.IndexExpr:
						if id, ok := ast.Unparen(ff.X).(*ast.Ident); ok && id == u.Ident {
							cs.Call = call
						}
						if sel, ok := ast.Unparen(ff.X).(*ast.SelectorExpr); ok && sel.Sel == u.Ident {
							cs.Call = call
						}
					}
					break
				}
			}
			if cs.Call == nil {
				cs.Via = "value"
			}
			out = append(out, cs)
		}
	}
	add(fn, "static")
	if withInterfaces {
		for _, im := range r.P.InterfaceMethodsFor(fn) {
			add(im, "interface:"+prog.ShortFuncName(im))
		}
	}
	sort.Slice(out, func(i, j int) bool { return out[i].Use.Ident.Pos() < out[j].Use.Ident.Pos() })
	return out
}

// scopeName is the position-free name of the function a use sits in.
// scopeName names the declared function a piece of code belongs to. A single-use helper — a
// function of the main module whose only reference in non-test code is one direct call — is
// attributed to the function that calls it (followed up to three levels), so that extracting
// a block into a helper, or inlining one, does not change who a use is attributed to.
// scopeName names the declared function a piece of code belongs to. A function that did not
// exist when the tables of this checker were confirmed (it is not in baseline_funcs.txt) and
// whose only reference in non-test code is one direct call — the result of an "extract
// method" refactoring — is attributed to the function that calls it (followed up to three
// levels). Every function the frozen tables can mention keeps its own name.
func (r *Run) scopeName(s *prog.FuncScope) string {
	if s == nil {
		return "<package-level>"
	}
	fi := s.Fn
	own := fi.Name()
	for depth := 0; depth < 4 && fi != nil; depth++ {
		if baselineFuncs()[fi.Name()] {
			return fi.Name()
		}
		caller := r.singleCaller(fi)
		if caller == nil || caller.Obj == fi.Obj {
			break
		}
		fi = caller
	}
	return own
}

//go:embed baseline_funcs.txt
var baselineFuncsTxt string

var baselineFuncSet map[string]bool

func baselineFuncs() map[string]bool {
	if baselineFuncSet == nil {
		baselineFuncSet = map[string]bool{}
		for _, l := range strings.Split(baselineFuncsTxt, "\n") {
			if l = strings.TrimSpace(l); l != "" {
				baselineFuncSet[l] = true
			}
		}
	}
	return baselineFuncSet
}

// singleCaller returns the function that contains every reference to fi, provided each
// reference is a direct call in non-test code of the main module; nil otherwise.
func (r *Run) singleCaller(fi *prog.FuncInfo) *prog.FuncInfo {
	if fi.Obj == nil || fi.Decl == nil || fi.Decl.Body == nil {
		return nil
	}
	if fi.Obj.Name() == "main" || fi.Obj.Name() == "init" {
		return nil
	}
	// methods that may satisfy an interface are reachable dynamically
	if sig, ok := fi.Obj.Type().(*types.Signature); ok && sig.Recv() != nil && fi.Obj.Exported() {
		return nil
	}
	if len(r.P.InterfaceMethodsFor(fi.Obj)) > 0 {
		return nil
	}
	var only *prog.FuncInfo
	n := 0
	for _, u := range r.P.Uses(fi.Obj) {
		if prog.IsTestSupport(u.Pkg.PkgPath) {
			return nil
		}
		n++
		if u.Scope == nil {
			return nil
		}
		path := r.P.PathTo(u.File, u.Ident.Pos(), u.Ident.End())
		isCall := false
		for k := len(path) - 1; k >= 0; k-- {
			switch x := path[k].(type) {
			case *ast.Ident, *ast.SelectorExpr, *ast.ParenExpr:
				continue
			case *ast.CallExpr:
				f := ast.Unparen(x.Fun)
				if f == ast.Node(u.Ident) {
					isCall = true
				} else if sel, ok := f.(*ast.SelectorExpr); ok && sel.Sel == u.Ident {
					isCall = true
				}
			}
			break
		}
		if !isCall && baselineFuncs()[fi.Name()] {
			return nil // a value use of a function the tables know: reachable from anywhere the value flows
		}
		if only != nil && only != u.Scope.Fn {
			return nil
		}
		only = u.Scope.Fn
	}
	if n == 0 {
		return nil
	}
	return only
}

// whoMayCall: every call site (or value use) of fn outside test-support packages lies in
// a function whose short name is in allowed. Reports the offending enclosing function.
func (r *Run) whoMayCall(fn *types.Func, withInterfaces bool, allowed map[string]string) int {
	n := 0
	name := prog.ShortFuncName(fn)
	for _, cs := range r.callSitesOf(fn, withInterfaces) {
		if prog.IsTestSupport(cs.Use.Pkg.PkgPath) {
			continue
		}
		n++
		where := r.scopeName(cs.Use.Scope)
		r.Site(cs.Use.Ident.Pos(), fmt.Sprintf("%s used in %s (%s)", name, where, cs.Via))
		if _, ok := allowed[where]; !ok {
			r.Fail(name+"<-"+where, cs.Use.Ident.Pos(), nil, "%s is used (%s) in %s, which is not in the allowed set %s", name, cs.Via, where, keys(allowed))
		}
	}
	return n
}

func keys(m map[string]string) string {
	var ks []string
	for k := range m {
		ks = append(ks, k)
	}
	sort.Strings(ks)
	return "{" + strings.Join(ks, ", ") + "}"
}

// ---------------------------------------------------------------- field accesses

type fieldAccess struct {
	Use   prog.Use
	Sel   *ast.SelectorExpr
	Write bool   // assignment target, inc/dec, address-of, element store, delete/append-assign
	Kind  string // "assign", "incdec", "addr", "elem-store", "delete", "read", "composite-key", "send", "recv", "close", "range", "len", ...
	Stmt  ast.Node
}

// fieldAccesses classifies every syntactic use of a struct field in the main module.
func (r *Run) fieldAccesses(f *types.Var) []fieldAccess {
	var out []fieldAccess
	for _, u := range r.P.Uses(f) {
		fa := fieldAccess{Use: u, Kind: "read"}
		path := r.P.PathTo(u.File, u.Ident.Pos(), u.Ident.End())
		// path: ... parent, SelectorExpr?, Ident
		var sel *ast.SelectorExpr
		idx := len(path) - 1
		if idx >= 1 {
			if s, ok := path[idx-1].(*ast.SelectorExpr); ok && s.Sel == u.Ident {
				sel = s
				idx--
			}
		}
		fa.Sel = sel
		var self ast.Node = u.Ident
		if sel != nil {
			self = sel
		}
		// climb through parens
		k := idx - 1
		for k >= 0 {
			if _, ok := path[k].(*ast.ParenExpr); ok {
				self = path[k]
				k--
				continue
			}
			break
		}
		if k >= 0 {
			switch p := path[k].(type) {
			case *ast.KeyValueExpr:
				if p.Key == self {
					fa.Kind, fa.Write = "composite-key", true
					fa.Stmt = p
				}
			case *ast.AssignStmt:
				for _, l := range p.Lhs {
					if l == self {
						fa.Kind, fa.Write, fa.Stmt = "assign", true, p
					}
				}
			case *ast.IncDecStmt:
				if p.X == self {
					fa.Kind, fa.Write, fa.Stmt = "incdec", true, p
				}
			case *ast.UnaryExpr:
				if p.Op == token.AND {
					fa.Kind, fa.Write, fa.Stmt = "addr", true, p
				}
				if p.Op == token.ARROW {
					fa.Kind, fa.Stmt = "recv", p
				}
			case *ast.SendStmt:
				if p.Chan == self {
					fa.Kind, fa.Stmt = "send", p
				}
			case *ast.RangeStmt:
				if p.X == self {
					fa.Kind, fa.Stmt = "range", p
				}
			case *ast.IndexExpr:
				if p.X == self && k >= 1 {
					if as, ok := path[k-1].(*ast.AssignStmt); ok {
						for _, l := range as.Lhs {
							if l == ast.Expr(p) {
								fa.Kind, fa.Write, fa.Stmt = "elem-store", true, as
							}
						}
					}
					if fa.Kind == "read" {
						fa.Kind = "index"
					}
				}
			case *ast.CallExpr:
				if id, ok := ast.Unparen(p.Fun).(*ast.Ident); ok {
					if b, ok := u.Pkg.TypesInfo.Uses[id].(*types.Builtin); ok {
						switch b.Name() {
						case "delete":
							if len(p.Args) > 0 && p.Args[0] == self {
								fa.Kind, fa.Write, fa.Stmt = "delete", true, p
							}
						case "close":
							fa.Kind, fa.Write, fa.Stmt = "close", true, p
						case "len", "cap":
							fa.Kind = "len"
						case "append":
							fa.Kind = "append-arg"
						}
					}
				}
				if fa.Kind == "read" {
					if s, ok := ast.Unparen(p.Fun).(*ast.SelectorExpr); ok && ast.Expr(s) != self {
						_ = s
					}
				}
			case *ast.SelectorExpr:
				// x.f.M(...) or x.f.g : method call / sub-field on the field value
				fa.Kind = "select:" + p.Sel.Name
			}
		}
		out = append(out, fa)
	}
	return out
}

// ---------------------------------------------------------------- T3 guarded-by

type guardSpec struct {
	Type      string // for messages
	Mutex     *types.Var
	RW        bool
	Fields    []*types.Var
	Exempt    map[string]string // function short name -> reason (constructors etc.)
	ReadOK    map[*types.Var]bool
	CtorTypes []*types.TypeName
}

const (
	lkNone  = 0
	lkRead  = 1
	lkWrite = 2
)

// guardedBy: every access to a listed field happens with the mutex held (write lock for
// writes when the mutex is a RWMutex). Helpers that touch the field without locking are
// accepted iff all their call sites hold the lock (fixpoint, depth <= 3).
func (r *Run) guardedBy(g guardSpec) {
	watch := map[*types.Var]bool{}
	for _, f := range g.Fields {
		watch[f] = true
	}
	// candidate functions: every function (decl) that mentions a guarded field
	type unit struct {
		fn    ast.Node
		name  string
		scope *prog.FuncScope
		fi    *prog.FuncInfo
	}
	unitsByNode := map[ast.Node]*unit{}
	var units []*unit
	addScope := func(s *prog.FuncScope) {
		if s == nil {
			return
		}
		var node ast.Node = s.Decl
		if s.Lit != nil {
			node = s.Lit
		}
		if unitsByNode[node] != nil {
			return
		}
		u := &unit{fn: node, name: r.scopeName(s), scope: s, fi: s.Fn}
		if s.Lit != nil {
			u.name += "$lit"
		}
		unitsByNode[node] = u
		units = append(units, u)
	}
	for _, f := range g.Fields {
		for _, u := range r.P.Uses(f) {
			if prog.IsTestSupport(u.Pkg.PkgPath) {
				continue
			}
			if u.Scope == nil {
				continue
			}
			// synchronous closures (immediately invoked, stdlib callbacks) run under their
			// parent's lock state: analyse them inline in the parent
			sc := u.Scope
			for sc.Lit != nil && sc.Parent != nil && (!r.litEscapes(sc) || r.lockWrapperLevel(sc.Lit, g.Mutex) != lkNone) {
				sc = sc.Parent
			}
			addScope(sc)
		}
	}
	// the callers of unexported candidate functions are simulated as well, so that the lock level
	// at which such a helper is called is observed even when the caller itself does not touch a
	// guarded field any more (its accesses were extracted into the helper)
	for round := 0; round < 2; round++ {
		for _, u := range append([]*unit(nil), units...) {
			if u.scope.Lit != nil || u.fi == nil || u.fi.Obj.Exported() {
				continue
			}
			for _, cs := range r.callSitesOf(u.fi.Obj, false) {
				sc := cs.Use.Scope
				if sc == nil || prog.IsTestSupport(cs.Use.Pkg.PkgPath) {
					continue
				}
				for sc.Lit != nil && sc.Parent != nil && !r.litEscapes(sc) {
					sc = sc.Parent
				}
				addScope(sc)
			}
		}
	}
	lockM := map[string]int32{"Lock": lkWrite, "RLock": lkRead}
	isMutexCall := func(c *pathsim.Ctx, ev *pathsim.Event) (string, bool) {
		if ev.Kind != pathsim.EvCall || ev.Call == nil {
			return "", false
		}
		sel, ok := ast.Unparen(ev.Call.Fun).(*ast.SelectorExpr)
		if !ok {
			return "", false
		}
		if prog.SelField(c.Info, sel.X) != g.Mutex {
			return "", false
		}
		return sel.Sel.Name, true
	}
	entry := map[*types.Func]int32{} // assumed lock level at entry for helper functions
	type viol struct {
		u    *unit
		pos  token.Pos
		msg  string
		tag  string
		trce []token.Pos
	}
	var viols []viol
	for round := 0; round < 4; round++ {
		viols = nil
		callLevel := map[*types.Func]int32{}
		callSeen := map[*types.Func]map[token.Pos]bool{}
		for _, u := range units {
			if _, ok := g.Exempt[u.name]; ok {
				continue
			}
			if _, ok := g.Exempt[strings.TrimSuffix(u.name, "$lit")]; ok {
				continue
			}
			init := pathsim.State{}
			if u.scope.Lit == nil && u.fi != nil {
				init.A = entry[u.fi.Obj]
			} else if u.scope.Lit != nil {
				// closures: inherit nothing (they may run on another goroutine)
				init.A = lkNone
			}
			uu := u
			spec := &pathsim.Spec{Init: init, Watch: watch,
				InlineLit: func(c *pathsim.Ctx, lit *ast.FuncLit, parent ast.Node) bool {
					// immediately invoked literals and synchronous callbacks run under the
					// caller's lock state
					sc := r.P.ScopeAt(lit.Body.Lbrace + 1)
					return sc != nil && sc.Lit == lit && (!r.litEscapes(sc) || r.lockWrapperLevel(lit, g.Mutex) != lkNone)
				},
				Step: func(c *pathsim.Ctx, s pathsim.State, ev *pathsim.Event) []pathsim.State {
					// a closure handed to a lock wrapper runs with the mutex held; the wrapper call that
					// follows (its Lock and deferred Unlock are simulated in place) restores the level
					if ev.Kind == pathsim.EvInlineLit && ev.Lit != nil {
						if lv := r.lockWrapperLevel(ev.Lit, g.Mutex); lv != lkNone {
							s.B = s.A + 1 // remember the level outside the wrapper
							if lv > s.A {
								s.A = lv
							}
							return []pathsim.State{s}
						}
					}
					if ev.Kind == pathsim.EvInlineLitEnd && s.B > 0 {
						s.A, s.B = s.B-1, 0
						return []pathsim.State{s}
					}
					if m, ok := isMutexCall(c, ev); ok {
						if ev.Deferred {
							return nil // released at function exit
						}
						if lv, ok := lockM[m]; ok {
							s.A = lv
						} else if m == "Unlock" || m == "RUnlock" {
							s.A = lkNone
						}
						return []pathsim.State{s}
					}
					if ev.Kind == pathsim.EvCall && ev.Call != nil && !ev.Go && !ev.Deferred {
						// a method / function value handed to a synchronous library callback
						// (slices.ContainsFunc(xs, st.isKnown)) runs at the caller's lock level
						if cf, ok := ev.Callee.(*types.Func); ok && syncCallbackHost(cf) {
							for _, a := range ev.Call.Args {
								var id *ast.Ident
								switch x := ast.Unparen(a).(type) {
								case *ast.Ident:
									id = x
								case *ast.SelectorExpr:
									id = x.Sel
								}
								if id == nil {
									continue
								}
								if fn, ok := c.Info.Uses[id].(*types.Func); ok {
									if fi := r.P.FuncInfoOf(fn); fi != nil && unitsByNode[fi.Decl] != nil {
										if n, ok := callLevel[fn]; !ok || s.A < n {
											callLevel[fn] = s.A
										}
										if callSeen[fn] == nil {
											callSeen[fn] = map[token.Pos]bool{}
										}
										callSeen[fn][ev.Pos] = true
									}
								}
							}
						}
					}
					if ev.Kind == pathsim.EvCall {
						if fn, ok := ev.Callee.(*types.Func); ok {
							if fi := r.P.FuncInfoOf(fn); fi != nil {
								if unitsByNode[fi.Decl] != nil {
									if n, ok := callLevel[fn]; !ok || s.A < n {
										callLevel[fn] = s.A
									}
									if callSeen[fn] == nil {
										callSeen[fn] = map[token.Pos]bool{}
									}
									callSeen[fn][ev.Pos] = true
								}
							}
						}
						return nil
					}
					isWrite := false
					var fld *types.Var
					switch ev.Kind {
					case pathsim.EvField:
						fld, isWrite = ev.Field, ev.Write
					case pathsim.EvDelete:
						if len(ev.Call.Args) > 0 {
							if f := prog.SelField(c.Info, ev.Call.Args[0]); f != nil && watch[f] {
								fld, isWrite = f, true
							}
						}
					}
					if fld == nil {
						return nil
					}
					need := int32(lkRead)
					if isWrite && !g.ReadOK[fld] {
						need = lkWrite
					}
					if !g.RW {
						need = lkWrite
						if s.A == lkRead {
							s.A = lkWrite
						}
					}
					if s.A < need {
						acc := "read"
						if isWrite {
							acc = "write"
						}
						held := [...]string{"no lock", "the read lock", "the write lock"}[s.A]
						c.Violate(ev.Pos, "[%s] %s of %s.%s with %s held on %s", uu.name+":"+fld.Name()+":"+acc, acc, g.Type, fld.Name(), held, g.Mutex.Name())
					}
					return nil
				},
			}
			c := pathsim.Run(r.P, u.fn, spec)
			r.Res.States += len(c.States)
			r.Res.Steps += c.Steps
			for _, ud := range c.Undecided {
				r.Error("undecided: %s: %s", u.name, ud)
			}
			for _, v := range c.Violations {
				viols = append(viols, viol{u: u, pos: v.Pos, msg: v.Msg, tag: firstWord(v.Msg), trce: v.Trace})
			}
		}
		// can some violating helper be excused by its callers holding the lock?
		changed := false
		for _, v := range viols {
			if v.u.scope.Lit != nil || v.u.fi == nil {
				continue
			}
			fn := v.u.fi.Obj
			if fn.Exported() {
				continue
			}
			// all uses must be static calls inside candidate units
			sites := r.callSitesOf(fn, false)
			if len(sites) == 0 {
				continue
			}
			// every use was observed at a lock level: a static call, or the function value handed to a
			// synchronous library callback (recorded above); a value use that was not observed (stored,
			// passed elsewhere) leaves fewer observations than sites
			if len(callSeen[fn]) < len(sites) {
				continue
			}
			if lv := callLevel[fn]; lv > entry[fn] {
				entry[fn] = lv
				changed = true
			}
		}
		if !changed {
			break
		}
	}
	for _, u := range units {
		r.Site(u.fn.Pos(), "lock discipline of "+g.Type+" in "+u.name)
	}
	for _, v := range viols {
		r.Fail(v.tag, v.pos, v.trce, "%s", v.msg)
	}
}

// onlyCallSite returns the single static call of fi in non-test code together with its
// parent node (nil when there is not exactly one).
func (r *Run) onlyCallSite(fi *prog.FuncInfo) (*ast.CallExpr, ast.Node) {
	var call *ast.CallExpr
	var parent ast.Node
	n := 0
	for _, u := range r.P.Uses(fi.Obj) {
		if prog.IsTestSupport(u.Pkg.PkgPath) {
			continue
		}
		n++
		path := r.P.PathTo(u.File, u.Ident.Pos(), u.Ident.End())
		for k := len(path) - 1; k >= 1; k-- {
			if c, ok := path[k].(*ast.CallExpr); ok {
				call, parent = c, path[k-1]
				break
			}
		}
	}
	if n != 1 {
		return nil, nil
	}
	return call, parent
}

// reachingWriters returns the functions of package pkgPath that write field f themselves or
// through static calls of other functions of that package (method values and interface calls
// are not followed).
func (r *Run) reachingWriters(f *types.Var, pkgPath string) map[*types.Func]bool {
	out := map[*types.Func]bool{}
	for _, fa := range r.fieldAccesses(f) {
		if !fa.Write || fa.Use.Pkg.PkgPath != pkgPath || fa.Use.Scope == nil {
			continue
		}
		if fi := fa.Use.Scope.Fn; fi != nil {
			out[fi.Obj.Origin()] = true
		}
	}
	for changed := true; changed; {
		changed = false
		for _, fi := range r.P.AllFuncs() {
			if fi.Pkg.PkgPath != pkgPath || fi.Decl.Body == nil || out[fi.Obj.Origin()] {
				continue
			}
			ast.Inspect(fi.Decl.Body, func(nd ast.Node) bool {
				if call, ok := nd.(*ast.CallExpr); ok {
					if fn := r.P.CalleeFunc(fi.Pkg.TypesInfo, call); fn != nil && out[fn.Origin()] {
						out[fi.Obj.Origin()] = true
						changed = true
					}
				}
				return true
			})
		}
	}
	return out
}

// syncCallbackHost: a library function that calls its function arguments synchronously, on the
// calling goroutine, before it returns.
func syncCallbackHost(fn *types.Func) bool {
	if fn == nil || fn.Pkg() == nil {
		return false
	}
	switch fn.Pkg().Path() {
	case "slices", "sort", "maps", "strings", "bytes":
		return true
	case prog.Module + "/util/sliceu", prog.Module + "/util/iteru":
		return true
	}
	return false
}

// bareReturnsWithResult: for a function with named results, the positions of the bare return
// statements that some path reaches after the named result idx was assigned a value other than
// nil (so the return hands that value back). Empty for functions without named results.
func (r *Run) bareReturnsWithResult(f *prog.FuncInfo, idx int) map[token.Pos]bool {
	out := map[token.Pos]bool{}
	rl := f.Decl.Type.Results
	if rl == nil {
		return out
	}
	var res types.Object
	k := 0
	for _, fld := range rl.List {
		for _, n := range fld.Names {
			if k == idx {
				res = f.Pkg.TypesInfo.Defs[n]
			}
			k++
		}
	}
	if res == nil {
		return out
	}
	spec := &pathsim.Spec{Step: func(c *pathsim.Ctx, s pathsim.State, ev *pathsim.Event) []pathsim.State {
		switch ev.Kind {
		case pathsim.EvAssign:
			for i, l := range ev.Lhs {
				if prog.IdentObjPlain(c.Info, l) != res {
					continue
				}
				s.A = 1
				if len(ev.Rhs) == len(ev.Lhs) {
					if tv, ok := c.Info.Types[ev.Rhs[i]]; ok && tv.IsNil() {
						s.A = 0
					}
				}
			}
			return []pathsim.State{s}
		case pathsim.EvReturn:
			if len(ev.Results) == 0 && c.Depth == 0 && s.A == 1 {
				out[ev.Pos] = true
			}
		}
		return nil
	}}
	pathsim.Run(r.P, f.Decl, spec)
	return out
}

// lockWrapperLevel: lit is an argument of a call to a same-module function that takes mutex mu
// (Lock -> lkWrite, RLock -> lkRead), calls the corresponding function parameter directly (not
// with go) and releases the mutex afterwards — `st.withLock(func() { ... })`. The level at which
// the literal's body runs is returned (lkNone when lit is not such an argument).
func (r *Run) lockWrapperLevel(lit *ast.FuncLit, mu *types.Var) int32 {
	f := r.P.FileAt(lit.Pos())
	info := r.P.InfoAt(lit.Pos())
	if f == nil || info == nil {
		return lkNone
	}
	path := r.P.PathTo(f, lit.Pos(), lit.End())
	for i := len(path) - 1; i > 0; i-- {
		if path[i] != ast.Node(lit) {
			continue
		}
		call, ok := path[i-1].(*ast.CallExpr)
		if !ok {
			return lkNone
		}
		argIdx := -1
		for k, a := range call.Args {
			if ast.Unparen(a) == ast.Expr(lit) {
				argIdx = k
			}
		}
		if argIdx < 0 {
			return lkNone
		}
		fi := r.P.FuncInfoOf(r.P.CalleeFunc(info, call))
		if fi == nil || fi.Decl == nil || fi.Decl.Body == nil || fi.Decl.Type.Params == nil {
			return lkNone
		}
		// the parameter at argIdx
		var param types.Object
		k := 0
		for _, fld := range fi.Decl.Type.Params.List {
			for _, n := range fld.Names {
				if k == argIdx {
					param = fi.Pkg.TypesInfo.Defs[n]
				}
				k++
			}
		}
		if param == nil {
			return lkNone
		}
		wi := fi.Pkg.TypesInfo
		level, called, bad := int32(lkNone), false, false
		var lockPos, callPos token.Pos
		ast.Inspect(fi.Decl.Body, func(nd ast.Node) bool {
			switch x := nd.(type) {
			case *ast.GoStmt:
				if prog.IdentObjPlain(wi, x.Call.Fun) == param {
					bad = true
				}
			case *ast.FuncLit:
				return false
			case *ast.CallExpr:
				if prog.IdentObjPlain(wi, x.Fun) == param {
					called, callPos = true, x.Pos()
				}
				if sel, isSel := ast.Unparen(x.Fun).(*ast.SelectorExpr); isSel && prog.SelField(wi, sel.X) == mu {
					switch sel.Sel.Name {
					case "Lock":
						if level == lkNone {
							level, lockPos = lkWrite, x.Pos()
						}
					case "RLock":
						if level == lkNone {
							level, lockPos = lkRead, x.Pos()
						}
					}
				}
			}
			return true
		})
		if bad || !called || level == lkNone || lockPos > callPos {
			return lkNone
		}
		// an explicit (non-deferred) unlock before the call would release the lock first
		early := false
		ast.Inspect(fi.Decl.Body, func(nd ast.Node) bool {
			if es, isES := nd.(*ast.ExprStmt); isES {
				if c2, isCall := es.X.(*ast.CallExpr); isCall && c2.Pos() < callPos {
					if sel, isSel := ast.Unparen(c2.Fun).(*ast.SelectorExpr); isSel && prog.SelField(wi, sel.X) == mu && (sel.Sel.Name == "Unlock" || sel.Sel.Name == "RUnlock") {
						early = true
					}
				}
			}
			return true
		})
		if early {
			return lkNone
		}
		return level
	}
	return lkNone
}
