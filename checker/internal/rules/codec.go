package rules

import (
	"go/ast"
	"go/types"
	"sort"
	"strings"

	"verif/checker/internal/pathsim"
	"verif/checker/internal/prog"
)

// Sequential codec abstraction (T6a). A record codec is abstracted to the set of token
// strings it can write / consume for ONE record on paths that complete the record.
// Tokens: U32 U64 VB (length-prefixed bytes) TS+ TS- (tombstone marker with its value).
// Read*, Skip* and MustWrite* of the same field kind are the same token (fields.* triples
// are cross-checked separately by C17.f).

type codecRegion struct {
	Fn     ast.Node // function to simulate
	Loop   ast.Stmt // nil: the whole function is one record; else one iteration of this loop
	Name   string
	Writer bool
	Extra  func(c *pathsim.Ctx, ev *pathsim.Event) string // additional tokens (meta blocks, binary.Read)
}

func fieldToken(fn *types.Func) string {
	if fn == nil || fn.Pkg() == nil || fn.Pkg().Path() != prog.Module+"/dkv/fields" {
		return ""
	}
	n := fn.Name()
	for _, p := range []string{"MustWrite", "Read", "Skip", "write"} {
		if strings.HasPrefix(n, p) {
			switch strings.TrimPrefix(n, p) {
			case "Uint64":
				return "U64"
			case "Uint32":
				return "U32"
			case "VarBytes":
				return "VB"
			case "Tombstone":
				return "TS"
			}
		}
	}
	return ""
}

type seqTrie struct {
	next map[[2]int32]int32
	node []struct {
		parent int32
		tok    string
	}
	toks map[string]int32
}

func newTrie() *seqTrie {
	t := &seqTrie{next: map[[2]int32]int32{}, toks: map[string]int32{}}
	t.node = append(t.node, struct {
		parent int32
		tok    string
	}{-1, ""})
	return t
}

const maxSeqDepth = 7

func (t *seqTrie) depth(id int32) int {
	d := 0
	for id > 0 {
		d++
		id = t.node[id].parent
	}
	return d
}

func (t *seqTrie) push(id int32, tok string) int32 {
	if t.depth(id) >= maxSeqDepth {
		return id // saturate: sequences are compared up to maxSeqDepth tokens
	}
	ti, ok := t.toks[tok]
	if !ok {
		ti = int32(len(t.toks) + 1)
		t.toks[tok] = ti
	}
	k := [2]int32{id, ti}
	if n, ok := t.next[k]; ok {
		return n
	}
	t.node = append(t.node, struct {
		parent int32
		tok    string
	}{id, tok})
	n := int32(len(t.node) - 1)
	t.next[k] = n
	return n
}

func (t *seqTrie) seq(id int32) []string {
	var out []string
	for id > 0 {
		out = append(out, t.node[id].tok)
		id = t.node[id].parent
	}
	for i, j := 0, len(out)-1; i < j; i, j = i+1, j-1 {
		out[i], out[j] = out[j], out[i]
	}
	return out
}

// codecSequences extracts the per-record token strings of a region.
func (r *Run) codecSequences(reg codecRegion) []string {
	info := r.P.InfoAt(reg.Fn.Pos())
	trie := newTrie()
	seqs := map[string]bool{}
	// tombstone variables: identifiers defined from fields.ReadTombstone
	tsVars := map[types.Object]bool{}
	inspect(reg.Fn, func(nd ast.Node) bool {
		as, ok := nd.(*ast.AssignStmt)
		if !ok || len(as.Rhs) != 1 {
			return true
		}
		if call, ok := ast.Unparen(as.Rhs[0]).(*ast.CallExpr); ok {
			if fieldToken(r.P.CalleeFunc(info, call)) == "TS" && len(as.Lhs) >= 1 {
				if o := prog.IdentObj(info, as.Lhs[0]); o != nil {
					tsVars[o] = true
				}
			}
		}
		return true
	})
	var deps []types.Object
	for o := range tsVars {
		deps = append(deps, o)
	}
	isTSExpr := func(c *pathsim.Ctx, e ast.Expr) bool {
		e = ast.Unparen(e)
		if o := prog.IdentObj(c.Info, e); o != nil && tsVars[o] {
			return true
		}
		if _, isID := e.(*ast.Ident); isID {
			e = ast.Unparen(deref(c.Info, e)) // isDelete := entry.IsDelete()
		}
		if call, ok := e.(*ast.CallExpr); ok {
			if fn := c.P.CalleeFunc(c.Info, call); fn != nil && fn.Name() == "IsDelete" {
				return true
			}
		}
		return false
	}
	record := func(s pathsim.State) {
		if s.A == 0 {
			return
		}
		toks := trie.seq(s.A)
		for i, t := range toks {
			if t == "TS" {
				switch s.V[0] {
				case pathsim.True:
					toks[i] = "TS+"
				case pathsim.False:
					toks[i] = "TS-"
				default:
					toks[i] = "TS?"
				}
			}
		}
		seqs[strings.Join(toks, " ")] = true
	}
	spec := &pathsim.Spec{AtomDeps: map[int][]types.Object{0: deps}}
	spec.Atom = func(c *pathsim.Ctx, e ast.Expr) (int, bool, bool) {
		if isTSExpr(c, e) {
			return 0, false, true
		}
		return 0, false, false
	}
	inRegion := reg.Loop == nil
	spec.Step = func(c *pathsim.Ctx, s pathsim.State, ev *pathsim.Event) []pathsim.State {
		switch ev.Kind {
		case pathsim.EvLoopIter, pathsim.EvRangeIter:
			if reg.Loop != nil && ev.Node == ast.Node(reg.Loop) {
				record(s) // previous iteration completed a record
				s.A = 0
				s.B = 1 // inside the region
				s.V[0] = pathsim.Unknown
				return []pathsim.State{s}
			}
		case pathsim.EvLoopExit:
			if reg.Loop != nil && ev.Node == ast.Node(reg.Loop) {
				if !ev.Break {
					record(s) // a break abandons the record in progress (end of input, error)
				}
				s.A, s.B = 0, 0
				return []pathsim.State{s}
			}
		case pathsim.EvReturn, pathsim.EvExit:
			if reg.Loop == nil {
				record(s)
			}
			return nil
		case pathsim.EvCall:
			if !inRegion && s.B == 0 {
				return nil
			}
			fn, _ := ev.Callee.(*types.Func)
			tok := fieldToken(fn)
			if tok == "" && reg.Extra != nil {
				tok = reg.Extra(c, ev)
			}
			if tok == "" {
				return nil
			}
			if tok == "TS" && reg.Writer && len(ev.Call.Args) == 2 {
				// literal marker value
				if tv, ok := c.Info.Types[ev.Call.Args[1]]; ok && tv.Value != nil {
					if tv.Value.String() == "true" {
						tok = "TS+"
					} else {
						tok = "TS-"
					}
				} else if !isTSExpr(c, ev.Call.Args[1]) {
					tok = "TS?"
				}
			}
			if tok == "TS" {
				// a fresh marker: forget the previous record's valuation (readers)
				if !reg.Writer {
					s.V[0] = pathsim.Unknown
				}
			}
			s.A = trie.push(s.A, tok)
			return []pathsim.State{s}
		}
		return nil
	}
	c := pathsim.Run(r.P, reg.Fn, spec)
	r.Res.States += len(c.States)
	r.Res.Steps += c.Steps
	for _, u := range c.Undecided {
		r.Error("undecided: %s: %s", reg.Name, u)
	}
	var out []string
	for s := range seqs {
		out = append(out, s)
	}
	sort.Strings(out)
	return out
}

// codecAgree requires every reader region to consume exactly the writer's record set.
func (r *Run) codecAgree(construct string, writers, readers []codecRegion) {
	want := map[string]bool{}
	for _, w := range writers {
		w.Writer = true
		seqs := r.codecSequences(w)
		r.Site(w.Fn.Pos(), "writer "+w.Name+" records: {"+strings.Join(seqs, " | ")+"}")
		if len(seqs) == 0 {
			r.Fail(construct+":"+w.Name+":empty", w.Fn.Pos(), nil, "writer %s writes no record fields", w.Name)
		}
		for _, s := range seqs {
			want[s] = true
		}
	}
	var wantList []string
	for s := range want {
		wantList = append(wantList, s)
	}
	sort.Strings(wantList)
	for _, rd := range readers {
		seqs := r.codecSequences(rd)
		pos := rd.Fn.Pos()
		if rd.Loop != nil {
			pos = rd.Loop.Pos()
		}
		r.Site(pos, "reader "+rd.Name+" records: {"+strings.Join(seqs, " | ")+"}")
		got := map[string]bool{}
		for _, s := range seqs {
			got[s] = true
		}
		for _, s := range wantList {
			if !got[s] {
				r.Fail(construct+":"+rd.Name+":missing", pos, nil, "reader %s cannot consume the record shape [%s] that the writer produces (reader shapes: {%s})", rd.Name, s, strings.Join(seqs, " | "))
			}
		}
		for _, s := range seqs {
			if !want[s] {
				r.Fail(construct+":"+rd.Name+":extra", pos, nil, "reader %s consumes a record shape [%s] that no writer produces (writer shapes: {%s})", rd.Name, s, strings.Join(wantList, " | "))
			}
		}
	}
}

// loopsCalling returns the outermost for/range loops of fn whose body (not descending
// into nested literals beyond the given root) calls a fields.* function, in source order.
func (r *Run) fieldLoops(root ast.Node) []ast.Stmt {
	info := r.P.InfoAt(root.Pos())
	var out []ast.Stmt
	var walk func(n ast.Node)
	walk = func(n ast.Node) {
		ast.Inspect(n, func(nd ast.Node) bool {
			var body *ast.BlockStmt
			switch s := nd.(type) {
			case *ast.ForStmt:
				body = s.Body
			case *ast.RangeStmt:
				body = s.Body
			default:
				return true
			}
			has := false
			inspect(body, func(m ast.Node) bool {
				if call, ok := m.(*ast.CallExpr); ok && fieldToken(r.P.CalleeFunc(info, call)) != "" {
					has = true
				}
				return !has
			})
			if has {
				out = append(out, nd.(ast.Stmt))
				return false
			}
			return true
		})
	}
	walk(root)
	return out
}
