package rules

import (
	"fmt"
	"go/ast"
	"go/token"
	"go/types"

	"verif/checker/internal/prog"
)

// localDef returns the unique defining right-hand side of local variable obj inside
// body (nil when there are several assignments or none with a matching arity).
func localDef(info *types.Info, body ast.Node, obj types.Object) ast.Expr {
	var defs []ast.Expr
	n := 0
	ast.Inspect(body, func(nd ast.Node) bool {
		switch s := nd.(type) {
		case *ast.AssignStmt:
			for i, l := range s.Lhs {
				if prog.IdentObj(info, l) == obj {
					n++
					if len(s.Lhs) == len(s.Rhs) {
						defs = append(defs, s.Rhs[i])
					} else if len(s.Rhs) == 1 {
						defs = append(defs, s.Rhs[0])
					}
				}
			}
		case *ast.ValueSpec:
			for i, name := range s.Names {
				if info.Defs[name] == obj {
					n++
					if i < len(s.Values) {
						defs = append(defs, s.Values[i])
					}
				}
			}
		case *ast.IncDecStmt:
			if prog.IdentObj(info, s.X) == obj {
				n++
			}
		}
		return true
	})
	if n == 1 && len(defs) == 1 {
		return defs[0]
	}
	return nil
}

// stripConv removes parentheses and type conversions.
func stripConv(info *types.Info, e ast.Expr) ast.Expr {
	for {
		e = ast.Unparen(e)
		call, ok := e.(*ast.CallExpr)
		if !ok || len(call.Args) != 1 {
			return e
		}
		if tv, ok := info.Types[call.Fun]; ok && tv.IsType() {
			e = call.Args[0]
			continue
		}
		return e
	}
}

// resolveLocal follows local variables with a unique definition (depth <= 4).
func resolveLocal(info *types.Info, body ast.Node, e ast.Expr) ast.Expr {
	for i := 0; i < 4; i++ {
		e = stripConv(info, e)
		id, ok := e.(*ast.Ident)
		if !ok {
			return e
		}
		obj := info.Uses[id]
		if obj == nil {
			return e
		}
		if _, isVar := obj.(*types.Var); !isVar {
			return e
		}
		def := localDef(info, body, obj)
		if def == nil {
			return e
		}
		e = def
	}
	return e
}

// returnsField reports whether function fi is a trivial accessor: every return statement
// returns exactly the given field of the receiver (possibly under a lock).
func (r *Run) returnsField(fi *prog.FuncInfo, field *types.Var) bool {
	if fi == nil || fi.Decl.Body == nil {
		return false
	}
	ok, n := true, 0
	ast.Inspect(fi.Decl.Body, func(nd ast.Node) bool {
		if _, isLit := nd.(*ast.FuncLit); isLit {
			return false
		}
		if ret, isRet := nd.(*ast.ReturnStmt); isRet {
			n++
			if len(ret.Results) != 1 || prog.SelField(fi.Pkg.TypesInfo, ret.Results[0]) != field {
				ok = false
			}
		}
		return true
	})
	return ok && n > 0
}

// isCallToNamed matches a call to a function of an external package by path and name.
func isCallToNamed(info *types.Info, e ast.Expr, pkgPath, name string) (*ast.CallExpr, bool) {
	call, ok := ast.Unparen(e).(*ast.CallExpr)
	if !ok {
		return nil, false
	}
	var id *ast.Ident
	switch f := ast.Unparen(call.Fun).(type) {
	case *ast.Ident:
		id = f
	case *ast.SelectorExpr:
		id = f.Sel
	case *ast.IndexExpr:
		if s, ok := ast.Unparen(f.X).(*ast.SelectorExpr); ok {
			id = s.Sel
		}
	}
	if id == nil {
		return nil, false
	}
	fn, ok := info.Uses[id].(*types.Func)
	if !ok || fn.Pkg() == nil {
		return nil, false
	}
	return call, fn.Pkg().Path() == pkgPath && fn.Name() == name
}

type direction int

const (
	dirUnknown direction = iota
	dirForward
	dirBackward
)

func (d direction) String() string {
	return [...]string{"unknown", "oldest-first (insertion order)", "newest-first (reverse insertion order)"}[d]
}

// rangeSource strips slices.Backward from a range operand and reports the direction.
func rangeSource(info *types.Info, x ast.Expr) (src ast.Expr, dir direction) {
	x = ast.Unparen(x)
	if call, ok := isCallToNamed(info, x, "slices", "Backward"); ok && len(call.Args) == 1 {
		return call.Args[0], dirBackward
	}
	return x, dirForward
}

// indexLoopDirection classifies `for i := ...; cond; i++/i--`.
func indexLoopDirection(fs *ast.ForStmt) direction {
	if fs.Post == nil {
		return dirUnknown
	}
	if inc, ok := fs.Post.(*ast.IncDecStmt); ok {
		if inc.Tok == token.DEC {
			return dirBackward
		}
		return dirForward
	}
	return dirUnknown
}

// hasSuccessReturn reports whether body (not descending into literals) contains a return
// statement whose last result is the nil error, or — for iterator bodies — a yield call.
func hasSuccessReturn(info *types.Info, body ast.Node) bool {
	found := false
	ast.Inspect(body, func(nd ast.Node) bool {
		if _, isLit := nd.(*ast.FuncLit); isLit {
			return false
		}
		if ret, ok := nd.(*ast.ReturnStmt); ok && len(ret.Results) > 0 {
			last := ret.Results[len(ret.Results)-1]
			if tv, ok := info.Types[last]; ok && tv.IsNil() {
				found = true
			}
		}
		return true
	})
	return found
}

// callsFuncValue reports whether body calls the function-typed variable obj (e.g. yield).
func callsFuncValue(info *types.Info, body ast.Node, obj types.Object) bool {
	found := false
	ast.Inspect(body, func(nd ast.Node) bool {
		if call, ok := nd.(*ast.CallExpr); ok {
			if prog.IdentObj(info, call.Fun) == obj {
				found = true
			}
		}
		return true
	})
	return found
}

// exprUsesField reports whether e mentions field f anywhere.
func exprUsesField(info *types.Info, e ast.Node, f *types.Var) bool {
	found := false
	ast.Inspect(e, func(nd ast.Node) bool {
		if sel, ok := nd.(*ast.SelectorExpr); ok {
			if prog.SelField(info, sel) == f {
				found = true
			}
		}
		return !found
	})
	return found
}

// exprCalls reports whether e contains a call whose static callee is fn.
func (r *Run) exprCalls(info *types.Info, e ast.Node, fn *types.Func) bool {
	found := false
	ast.Inspect(e, func(nd ast.Node) bool {
		if call, ok := nd.(*ast.CallExpr); ok && r.P.CalleeFunc(info, call) == fn {
			found = true
		}
		return !found
	})
	return found
}

func sscanInt(s string, v *int) (int, error) { return fmt.Sscanf(s, "%d", v) }
