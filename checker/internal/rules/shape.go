package rules

import (
	"fmt"
	"go/ast"
	"go/token"
	"go/types"

	"verif/checker/internal/prog"
)

// localDef returns the unique defining right-hand side of local variable obj inside
// body (nil when there are several assignments or none with a matching arity).
func localDef(info *types.Info, body ast.Node, obj types.Object) ast.Expr {
	var defs []ast.Expr
	n := 0
	inspect(body, func(nd ast.Node) bool {
		switch s := nd.(type) {
		case *ast.AssignStmt:
			for i, l := range s.Lhs {
				if prog.IdentObj(info, l) == obj {
					n++
					if len(s.Lhs) == len(s.Rhs) {
						defs = append(defs, s.Rhs[i])
					} else if len(s.Rhs) == 1 {
						defs = append(defs, s.Rhs[0])
					}
				}
			}
		case *ast.ValueSpec:
			for i, name := range s.Names {
				if info.Defs[name] == obj {
					n++
					if i < len(s.Values) {
						defs = append(defs, s.Values[i])
					}
				}
			}
		case *ast.IncDecStmt:
			if prog.IdentObj(info, s.X) == obj {
				n++
			}
		}
		return true
	})
	if n == 1 && len(defs) == 1 {
		return defs[0]
	}
	return nil
}

// localDefPlain is localDef without looking through helper calls.
func localDefPlain(info *types.Info, body ast.Node, obj types.Object) ast.Expr {
	var defs []ast.Expr
	n := 0
	ast.Inspect(body, func(nd ast.Node) bool {
		switch s := nd.(type) {
		case *ast.AssignStmt:
			for i, l := range s.Lhs {
				if prog.IdentObj(info, l) == obj {
					n++
					if len(s.Lhs) == len(s.Rhs) {
						defs = append(defs, s.Rhs[i])
					} else if len(s.Rhs) == 1 {
						defs = append(defs, s.Rhs[0])
					}
				}
			}
		case *ast.ValueSpec:
			for i, name := range s.Names {
				if info.Defs[name] == obj {
					n++
					if i < len(s.Values) {
						defs = append(defs, s.Values[i])
					}
				}
			}
		case *ast.IncDecStmt:
			if prog.IdentObj(info, s.X) == obj {
				n++
			}
		}
		return true
	})
	if n == 1 && len(defs) == 1 {
		return defs[0]
	}
	return nil
}

// stripConv removes parentheses and type conversions.
func stripConv(info *types.Info, e ast.Expr) ast.Expr {
	for {
		e = ast.Unparen(e)
		call, ok := e.(*ast.CallExpr)
		if !ok || len(call.Args) != 1 {
			return e
		}
		if tv, ok := info.Types[call.Fun]; ok && tv.IsType() {
			e = call.Args[0]
			continue
		}
		return e
	}
}

// resolveLocal follows local variables with a unique definition (depth <= 4).
func resolveLocal(info *types.Info, body ast.Node, e ast.Expr) ast.Expr {
	for i := 0; i < 4; i++ {
		e = stripConv(info, e)
		if call, isCall := e.(*ast.CallExpr); isCall {
			if body := helperReturnExpr(info, call); body != nil {
				e = body
				continue
			}
		}
		id, ok := e.(*ast.Ident)
		if !ok {
			return e
		}
		obj := info.Uses[id]
		if obj == nil {
			return e
		}
		if _, isVar := obj.(*types.Var); !isVar {
			return e
		}
		def := localDef(info, body, obj)
		if def == nil {
			// a parameter of an extracted helper with one call site stands for the argument
			if d2 := derefStep(info, id); d2 != nil {
				e = d2
				continue
			}
			return e
		}
		e = def
	}
	return e
}

// returnsField reports whether function fi is a trivial accessor: every return statement
// returns exactly the given field of the receiver (possibly under a lock).
func (r *Run) returnsField(fi *prog.FuncInfo, field *types.Var) bool {
	if fi == nil || fi.Decl.Body == nil {
		return false
	}
	ok, n := true, 0
	inspect(fi.Decl.Body, func(nd ast.Node) bool {
		if _, isLit := nd.(*ast.FuncLit); isLit {
			return false
		}
		if ret, isRet := nd.(*ast.ReturnStmt); isRet {
			n++
			switch {
			case len(ret.Results) == 1 && prog.SelField(fi.Pkg.TypesInfo, ret.Results[0]) == field:
			case len(ret.Results) == 0 && namedResultHolds(fi, field):
				// `snap = l.tables; ...; return`: the single named result, assigned the field once
			default:
				ok = false
			}
		}
		return true
	})
	return ok && n > 0
}

// namedResultHolds: fi has exactly one named result and every assignment to it stores field.
func namedResultHolds(fi *prog.FuncInfo, field *types.Var) bool {
	rl := fi.Decl.Type.Results
	if rl == nil || len(rl.List) != 1 || len(rl.List[0].Names) != 1 {
		return false
	}
	info := fi.Pkg.TypesInfo
	res := info.Defs[rl.List[0].Names[0]]
	n, ok := 0, true
	ast.Inspect(fi.Decl.Body, func(nd ast.Node) bool {
		if as, isAs := nd.(*ast.AssignStmt); isAs {
			for i, l := range as.Lhs {
				if prog.IdentObjPlain(info, l) == res {
					n++
					if len(as.Rhs) != len(as.Lhs) || prog.SelField(info, as.Rhs[i]) != field {
						ok = false
					}
				}
			}
		}
		return true
	})
	return ok && n > 0
}

// isCallToNamed matches a call to a function of an external package by path and name.
func isCallToNamed(info *types.Info, e ast.Expr, pkgPath, name string) (*ast.CallExpr, bool) {
	call, ok := ast.Unparen(e).(*ast.CallExpr)
	if !ok {
		return nil, false
	}
	var id *ast.Ident
	switch f := ast.Unparen(call.Fun).(type) {
	case *ast.Ident:
		id = f
	case *ast.SelectorExpr:
		id = f.Sel
	case *ast.IndexExpr:
		if s, ok := ast.Unparen(f.X).(*ast.SelectorExpr); ok {
			id = s.Sel
		}
	}
	if id == nil {
		return nil, false
	}
	fn, ok := info.Uses[id].(*types.Func)
	if !ok || fn.Pkg() == nil {
		return nil, false
	}
	return call, fn.Pkg().Path() == pkgPath && fn.Name() == name
}

type direction int

const (
	dirUnknown direction = iota
	dirForward
	dirBackward
)

func (d direction) String() string {
	return [...]string{"unknown", "oldest-first (insertion order)", "newest-first (reverse insertion order)"}[d]
}

// rangeSource strips slices.Backward from a range operand and reports the direction.
func rangeSource(info *types.Info, x ast.Expr) (src ast.Expr, dir direction) {
	x = ast.Unparen(x)
	if call, ok := isCallToNamed(info, x, "slices", "Backward"); ok && len(call.Args) == 1 {
		return call.Args[0], dirBackward
	}
	return x, dirForward
}

// indexLoopDirection classifies `for i := ...; cond; i++/i--`.
func indexLoopDirection(fs *ast.ForStmt) direction {
	if fs.Post == nil {
		return dirUnknown
	}
	if inc, ok := fs.Post.(*ast.IncDecStmt); ok {
		if inc.Tok == token.DEC {
			return dirBackward
		}
		return dirForward
	}
	return dirUnknown
}

// hasSuccessReturn reports whether body (not descending into literals) contains a return
// statement whose last result is the nil error, or — for iterator bodies — a yield call.
func hasSuccessReturn(info *types.Info, body ast.Node) bool {
	found := false
	inspect(body, func(nd ast.Node) bool {
		if _, isLit := nd.(*ast.FuncLit); isLit {
			return false
		}
		if ret, ok := nd.(*ast.ReturnStmt); ok && len(ret.Results) > 0 {
			last := ret.Results[len(ret.Results)-1]
			if tv, ok := info.Types[last]; ok && tv.IsNil() {
				found = true
			}
		}
		return true
	})
	return found
}

// callsFuncValue reports whether body calls the function-typed variable obj (e.g. yield).
func callsFuncValue(info *types.Info, body ast.Node, obj types.Object) bool {
	found := false
	inspect(body, func(nd ast.Node) bool {
		if call, ok := nd.(*ast.CallExpr); ok {
			if prog.IdentObj(info, call.Fun) == obj {
				found = true
			}
		}
		return true
	})
	return found
}

// exprUsesField reports whether e mentions field f anywhere.
func exprUsesField(info *types.Info, e ast.Node, f *types.Var) bool {
	found := false
	inspect(e, func(nd ast.Node) bool {
		if sel, ok := nd.(*ast.SelectorExpr); ok {
			if prog.SelField(info, sel) == f {
				found = true
			}
		}
		// a local that stands for a read of the field (x := o.f, defined once)
		if id, ok := nd.(*ast.Ident); ok && prog.ResolveLocal != nil {
			if _, isVar := info.Uses[id].(*types.Var); isVar && prog.SelField(info, id) == f {
				found = true
			}
		}
		return !found
	})
	return found
}

// exprCalls reports whether e contains a call whose static callee is fn.
func (r *Run) exprCalls(info *types.Info, e ast.Node, fn *types.Func) bool {
	found := false
	inspect(e, func(nd ast.Node) bool {
		if call, ok := nd.(*ast.CallExpr); ok && r.P.CalleeFunc(info, call) == fn {
			found = true
		}
		return !found
	})
	return found
}

func sscanInt(s string, v *int) (int, error) { return fmt.Sscanf(s, "%d", v) }

// fullLoop describes a loop that visits every element of a slice exactly once, in either
// spelling: `for i, x := range S` / `for _, x := range S` or `for i := 0; i < len(S); i++`
// (also `i <= len(S)-1`, `i != len(S)`), where S satisfies isSrc directly or through a
// local alias defined once from such an expression.
type fullLoop struct {
	Stmt ast.Stmt
	Body *ast.BlockStmt
	Idx  types.Object // the index variable, if any
	// IsElem reports whether e denotes the current element (the range value, or S[i]).
	IsElem func(e ast.Expr) bool
}

func fullLoopsOver(info *types.Info, root ast.Node, isSrc func(e ast.Expr) bool) []fullLoop {
	src := func(e ast.Expr) bool {
		e = ast.Unparen(e)
		if isSrc(e) {
			return true
		}
		if d := deref(info, e); d != e && isSrc(d) {
			return true
		}
		if id, ok := e.(*ast.Ident); ok {
			if def := localDef(info, root, info.Uses[id]); def != nil && isSrc(ast.Unparen(def)) {
				return true
			}
		}
		return false
	}
	var out []fullLoop
	inspect(root, func(nd ast.Node) bool {
		switch lp := nd.(type) {
		case *ast.RangeStmt:
			if !src(lp.X) {
				// `for i := range len(S)` / `for range n` with n := len(S): once per element
				if c, ok := ast.Unparen(deref(info, lp.X)).(*ast.CallExpr); ok && len(c.Args) == 1 && lp.Value == nil {
					if id, isID := c.Fun.(*ast.Ident); isID && id.Name == "len" && info.Uses[id] == types.Universe.Lookup("len") && src(c.Args[0]) {
						var iv types.Object
						if lp.Key != nil {
							iv = prog.IdentObj(info, lp.Key)
						}
						sx := types.ExprString(ast.Unparen(c.Args[0]))
						out = append(out, fullLoop{Stmt: lp, Body: lp.Body, Idx: iv, IsElem: func(e ast.Expr) bool {
							ix, ok := ast.Unparen(e).(*ast.IndexExpr)
							return ok && iv != nil && prog.IdentObj(info, ix.Index) == iv && types.ExprString(ast.Unparen(ix.X)) == sx
						}})
					}
				}
				return true
			}
			var iv, vv types.Object
			if lp.Key != nil {
				iv = prog.IdentObj(info, lp.Key)
			}
			if lp.Value != nil {
				vv = prog.IdentObj(info, lp.Value)
			}
			if tx := info.TypeOf(lp.X); tx != nil && lp.Value == nil {
				// range over an iterator function with one yielded value: that value is the element
				if sig, isFunc := tx.Underlying().(*types.Signature); isFunc && sig.Params().Len() == 1 {
					if ys, isYield := sig.Params().At(0).Type().Underlying().(*types.Signature); isYield && ys.Params().Len() == 1 {
						iv, vv = nil, iv
					}
				}
			}
			x := lp.X
			out = append(out, fullLoop{Stmt: lp, Body: lp.Body, Idx: iv, IsElem: func(e ast.Expr) bool {
				e = ast.Unparen(e)
				if vv != nil && prog.IdentObj(info, e) == vv {
					return true
				}
				if ix, ok := e.(*ast.IndexExpr); ok && iv != nil && prog.IdentObj(info, ix.Index) == iv && types.ExprString(ast.Unparen(ix.X)) == types.ExprString(ast.Unparen(x)) {
					return true
				}
				return false
			}})
		case *ast.ForStmt:
			as, ok := lp.Init.(*ast.AssignStmt)
			if !ok || len(as.Lhs) != len(as.Rhs) {
				return true
			}
			b, ok := ast.Unparen(lp.Cond).(*ast.BinaryExpr)
			if !ok {
				return true
			}
			// the counter is the header variable the condition tests (on either side)
			if inc0, ok := lp.Post.(*ast.IncDecStmt); ok {
				b = orientCmp(b, func(e ast.Expr) bool { return prog.IdentObj(info, e) == prog.IdentObj(info, inc0.X) })
			}
			iv := prog.IdentObj(info, b.X)
			k := -1
			for i, l := range as.Lhs {
				if iv != nil && prog.IdentObj(info, l) == iv {
					k = i
				}
			}
			if k < 0 {
				return true
			}
			if tv, ok := info.Types[as.Rhs[k]]; !ok || tv.Value == nil || tv.Value.String() != "0" {
				return true
			}
			inc, ok := lp.Post.(*ast.IncDecStmt)
			if !ok || inc.Tok != token.INC || prog.IdentObj(info, inc.X) != iv {
				return true
			}
			// the bound: len(S) (with < or !=) or len(S)-1 (with <=)
			var lenArg ast.Expr
			bound := ast.Unparen(b.Y)
			minusOne := false
			if be, ok := bound.(*ast.BinaryExpr); ok && be.Op == token.SUB {
				if tv, ok := info.Types[be.Y]; ok && tv.Value != nil && tv.Value.String() == "1" {
					bound, minusOne = ast.Unparen(be.X), true
				}
			}
			if _, isCall := bound.(*ast.CallExpr); !isCall {
				bound = ast.Unparen(deref(info, bound)) // n := len(S)
			}
			if c, ok := bound.(*ast.CallExpr); ok && len(c.Args) == 1 {
				if id, ok := c.Fun.(*ast.Ident); ok && id.Name == "len" {
					lenArg = c.Args[0]
				}
			}
			if lenArg == nil || !src(lenArg) {
				return true
			}
			if !((!minusOne && (b.Op == token.LSS || b.Op == token.NEQ)) || (minusOne && b.Op == token.LEQ)) {
				return true
			}
			sx := types.ExprString(ast.Unparen(lenArg))
			out = append(out, fullLoop{Stmt: lp, Body: lp.Body, Idx: iv, IsElem: func(e ast.Expr) bool {
				ix, ok := ast.Unparen(e).(*ast.IndexExpr)
				return ok && prog.IdentObj(info, ix.Index) == iv && types.ExprString(ast.Unparen(ix.X)) == sx
			}})
		}
		return true
	})
	// the element may be named through a local (`x := S[i]`)
	for k := range out {
		base := out[k].IsElem
		out[k].IsElem = func(e ast.Expr) bool {
			if base(e) {
				return true
			}
			if d := deref(info, e); d != ast.Unparen(e) {
				return base(d)
			}
			return false
		}
	}
	return out
}

// flipCmp mirrors a comparison operator (a < b  <=>  b > a).
func flipCmp(op token.Token) token.Token {
	switch op {
	case token.LSS:
		return token.GTR
	case token.GTR:
		return token.LSS
	case token.LEQ:
		return token.GEQ
	case token.GEQ:
		return token.LEQ
	}
	return op // == and != are symmetric
}

// orientCmp returns the comparison with the operand accepted by isLeft on the left-hand side,
// mirroring the operator when the source has it on the right (`r.End > j` is read as `j < r.End`).
// The result is b itself when it is already oriented or when neither operand qualifies.
func orientCmp(b *ast.BinaryExpr, isLeft func(ast.Expr) bool) *ast.BinaryExpr {
	switch b.Op {
	case token.LSS, token.GTR, token.LEQ, token.GEQ, token.EQL, token.NEQ:
	default:
		return b
	}
	if isLeft(b.X) || !isLeft(b.Y) {
		return b
	}
	return &ast.BinaryExpr{X: b.Y, OpPos: b.OpPos, Op: flipCmp(b.Op), Y: b.X}
}

// typeSwitches lists the dispatches on a value's dynamic type under root: type switch statements,
// and if / else-if chains of comma-ok type assertions on the same operand (`if _, ok := x.(A); ok
// {..} else if _, ok := x.(B); ok {..} else {..}`), which are presented as the type switch they
// spell out (at least two typed branches; the final else is the default clause).
func typeSwitches(info *types.Info, root ast.Node) []*ast.TypeSwitchStmt {
	var out []*ast.TypeSwitchStmt
	inChain := map[*ast.IfStmt]bool{}
	assertOf := func(is *ast.IfStmt) *ast.TypeAssertExpr {
		as, ok := is.Init.(*ast.AssignStmt)
		if !ok || len(as.Lhs) != 2 || len(as.Rhs) != 1 {
			return nil
		}
		ta, ok := ast.Unparen(as.Rhs[0]).(*ast.TypeAssertExpr)
		if !ok || ta.Type == nil {
			return nil
		}
		okID, isID := as.Lhs[1].(*ast.Ident)
		cond, isCond := ast.Unparen(is.Cond).(*ast.Ident)
		if !isID || !isCond {
			return nil
		}
		o := info.Defs[okID]
		if o == nil {
			o = info.Uses[okID]
		}
		if o == nil || info.Uses[cond] != o {
			return nil
		}
		return ta
	}
	inspect(root, func(nd ast.Node) bool {
		switch x := nd.(type) {
		case *ast.TypeSwitchStmt:
			out = append(out, x)
		case *ast.IfStmt:
			if inChain[x] {
				return true
			}
			first := assertOf(x)
			if first == nil {
				return true
			}
			subject := types.ExprString(ast.Unparen(deref(info, first.X)))
			body := &ast.BlockStmt{Lbrace: x.Pos()}
			typed := 0
			var chain []*ast.IfStmt
			for cur := x; cur != nil; {
				ta := assertOf(cur)
				if ta == nil || types.ExprString(ast.Unparen(deref(info, ta.X))) != subject {
					body.List = append(body.List, &ast.CaseClause{Case: cur.Pos(), Body: []ast.Stmt{cur}})
					break
				}
				chain = append(chain, cur)
				typed++
				body.List = append(body.List, &ast.CaseClause{Case: cur.Pos(), List: []ast.Expr{ta.Type}, Body: cur.Body.List})
				switch e := cur.Else.(type) {
				case *ast.IfStmt:
					cur = e
					continue
				case *ast.BlockStmt:
					body.List = append(body.List, &ast.CaseClause{Case: e.Pos(), Body: e.List})
				}
				break
			}
			if typed >= 2 {
				for _, c := range chain {
					inChain[c] = true
				}
				out = append(out, &ast.TypeSwitchStmt{Switch: x.Pos(), Body: body})
			}
		}
		return true
	})
	return out
}

func (l fullLoop) Pos() token.Pos { return l.Stmt.Pos() }
func (l fullLoop) End() token.Pos { return l.Stmt.End() }
