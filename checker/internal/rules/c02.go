package rules

import (
	"go/ast"
	"go/token"
	"go/types"

	"verif/checker/internal/pathsim"
	"verif/checker/internal/prog"
)

// enclosingLitSentOn reports whether the innermost function scope of a use is a function
// literal that is syntactically the value of a send on channel field ch.
func (r *Run) litSentOn(scope *prog.FuncScope, ch *types.Var) bool {
	if scope == nil || scope.Lit == nil {
		return false
	}
	f := r.P.FileAt(scope.Lit.Pos())
	path := r.P.PathTo(f, scope.Lit.Pos(), scope.Lit.End())
	info := r.P.InfoAt(scope.Lit.Pos())
	for i := len(path) - 1; i >= 0; i-- {
		if path[i] == ast.Node(scope.Lit) && i > 0 {
			if send, ok := path[i-1].(*ast.SendStmt); ok && send.Value == ast.Expr(scope.Lit) {
				return prog.SelField(info, send.Chan) == ch
			}
			// bound to a local first (`next := func() {...}; select { case ch <- next: }`): every use of
			// that local is the value of a send on ch
			var v types.Object
			switch p := path[i-1].(type) {
			case *ast.AssignStmt:
				for k, rh := range p.Rhs {
					if rh == ast.Expr(scope.Lit) && len(p.Lhs) == len(p.Rhs) {
						v = prog.IdentObj(info, p.Lhs[k])
					}
				}
			case *ast.ValueSpec:
				for k, rh := range p.Values {
					if rh == ast.Expr(scope.Lit) && k < len(p.Names) {
						v = info.Defs[p.Names[k]]
					}
				}
			}
			lv, ok := v.(*types.Var)
			if !ok || lv.IsField() || lv.Pkg() == nil || lv.Parent() == lv.Pkg().Scope() {
				return false
			}
			n := 0
			for _, u := range r.P.Uses(v) {
				up := r.P.PathTo(r.P.FileAt(u.Ident.Pos()), u.Ident.Pos(), u.Ident.End())
				if len(up) < 2 {
					return false
				}
				send, isSend := up[len(up)-2].(*ast.SendStmt)
				if !isSend || send.Value != ast.Expr(u.Ident) || prog.SelField(info, send.Chan) != ch {
					return false
				}
				n++
			}
			return n > 0
		}
	}
	return false
}

// litRunsOn reports whether the literal of scope runs only as (part of) a task sent on ch: it is
// the value of a send on ch, or it is bound to a local function variable whose every use is a
// call inside such a literal (handle := func() error {...}; o.events <- func() { resp <- handle() }).
func (r *Run) litRunsOn(scope *prog.FuncScope, ch *types.Var, depth int) bool {
	if scope == nil || scope.Lit == nil || depth > 3 {
		return false
	}
	if r.litSentOn(scope, ch) {
		return true
	}
	f := r.P.FileAt(scope.Lit.Pos())
	info := r.P.InfoAt(scope.Lit.Pos())
	path := r.P.PathTo(f, scope.Lit.Pos(), scope.Lit.End())
	var v types.Object
	for i := len(path) - 1; i > 0; i-- {
		if path[i] != ast.Node(scope.Lit) {
			continue
		}
		switch p := path[i-1].(type) {
		case *ast.AssignStmt:
			for k, rh := range p.Rhs {
				if rh == ast.Expr(scope.Lit) && k < len(p.Lhs) && len(p.Lhs) == len(p.Rhs) {
					v = prog.IdentObj(info, p.Lhs[k])
				}
			}
		case *ast.ValueSpec:
			for k, rh := range p.Values {
				if rh == ast.Expr(scope.Lit) && k < len(p.Names) {
					v = info.Defs[p.Names[k]]
				}
			}
		}
		break
	}
	lv, ok := v.(*types.Var)
	if !ok || lv.IsField() || lv.Parent() == nil || lv.Parent() == lv.Pkg().Scope() {
		return false
	}
	n := 0
	okAll := true
	for _, u := range r.P.Uses(v) {
		up := r.P.PathTo(r.P.FileAt(u.Ident.Pos()), u.Ident.Pos(), u.Ident.End())
		if len(up) < 2 {
			okAll = false
			continue
		}
		// the left-hand side of one of its own assignments
		if as, isAs := up[len(up)-2].(*ast.AssignStmt); isAs {
			isLHS := false
			for _, l := range as.Lhs {
				if l == ast.Expr(u.Ident) {
					isLHS = true
				}
			}
			if isLHS {
				continue
			}
		}
		call, isCall := up[len(up)-2].(*ast.CallExpr)
		if !isCall || ast.Unparen(call.Fun) != ast.Expr(u.Ident) {
			okAll = false
			continue
		}
		n++
		if !r.litRunsOn(r.P.ScopeAt(u.Ident.Pos()), ch, depth+1) {
			okAll = false
		}
	}
	return okAll && n > 0
}

// confined (T16): every use of each function in targets lies in one of the allowed
// enclosing functions, in another target, or in a literal sent on the loop's task channel.
func (r *Run) confined(targets []*types.Func, withIfaces bool, taskChan *types.Var, allowed map[string]string) {
	tset := map[string]bool{}
	for _, t := range targets {
		tset[prog.ShortFuncName(t)] = true
	}
	for _, t := range targets {
		name := prog.ShortFuncName(t)
		for _, cs := range r.callSitesOf(t, withIfaces) {
			if prog.IsTestSupport(cs.Use.Pkg.PkgPath) {
				continue
			}
			where := r.scopeName(cs.Use.Scope)
			r.Site(cs.Use.Ident.Pos(), name+" used in "+where)
			if taskChan != nil && r.litRunsOn(cs.Use.Scope, taskChan, 0) {
				continue
			}
			if cs.Use.Scope != nil && cs.Use.Scope.Lit == nil || cs.Use.Scope != nil && !r.litEscapes(cs.Use.Scope) {
				if tset[where] {
					continue
				}
				if _, ok := allowed[where]; ok {
					continue
				}
			}
			r.Fail(name+"<-"+where, cs.Use.Ident.Pos(), nil, "%s is used in %s outside the confined set (event loop, task-channel closures, %s)", name, where, keys(allowed))
		}
	}
}

// litEscapes reports whether a literal scope may run on another goroutine: it is the
// operand of a go statement, or passed to / stored for a spawner. Conservatively: any
// literal that is not immediately invoked, not deferred, and not the body of a range-over-
// func / sort / slices callback is treated as escaping.
func (r *Run) litEscapes(scope *prog.FuncScope) bool {
	if scope == nil || scope.Lit == nil {
		return false
	}
	f := r.P.FileAt(scope.Lit.Pos())
	info := r.P.InfoAt(scope.Lit.Pos())
	path := r.P.PathTo(f, scope.Lit.Pos(), scope.Lit.End())
	for i := len(path) - 1; i > 0; i-- {
		if path[i] != ast.Node(scope.Lit) {
			continue
		}
		switch p := path[i-1].(type) {
		case *ast.CallExpr:
			if ast.Unparen(p.Fun) == ast.Expr(scope.Lit) {
				// immediately invoked (but `go func(){}()` escapes)
				if i >= 2 {
					if _, ok := path[i-2].(*ast.GoStmt); ok {
						return true
					}
				}
				return false
			}
			// argument of a call: synchronous callbacks of the standard library
			if fn := r.P.CalleeFunc(info, p); fn != nil && fn.Pkg() != nil {
				switch fn.Pkg().Path() {
				case "slices", "sort", "maps", "strings", "bytes":
					return false
				}
				if fn.Pkg().Path() == prog.Module+"/util/sliceu" || fn.Pkg().Path() == prog.Module+"/util/iteru" {
					return false
				}
			}
			return true
		}
		return true
	}
	return true
}

func init() {
	prop("C02",
		"(a) every event reaches the operator's event loop only after the sender passed the alignment gate returned by alignSender; (b) alignSender blocks exactly the senders whose barrier was already delivered and nobody else; (c) registerBarrier removes a sender and releases the gate only for the matching checkpoint id, the gate opens only when no barrier is outstanding, and nobody else touches the gate; (d) flush-then-checkpoint only with all barriers (C01.a, C01.b); (e) state-mutating handlers run only on the event loop; (f) the in-progress checkpoint pointer is accessed under the operator mutex; (g) it is cleared after a successful completion only.",
		"that blocked senders cannot be overtaken inside the RPC transport; liveness of alignment.")

	register(&Obligation{ID: "C02.a", Props: []string{"C02"}, Template: "must-precede",
		Desc: "(*Operator).HandleEvent: every send on o.events is preceded by invoking the wait function obtained from alignSender for this sender",
		Run: func(r *Run) {
			f := r.P.Func("workers/operator", "(*Operator).HandleEvent")
			align := r.P.FuncObj("workers/operator", "(*checkpoint).alignSender")
			events := r.P.Field("workers/operator", "Operator", "events")
			info := f.Pkg.TypesInfo
			// the variable holding alignSender's result
			var waitVar types.Object
			inspect(f.Decl.Body, func(n ast.Node) bool {
				as, ok := n.(*ast.AssignStmt)
				if !ok || len(as.Rhs) != 1 || len(as.Lhs) != 1 {
					return true
				}
				if call, ok := ast.Unparen(as.Rhs[0]).(*ast.CallExpr); ok {
					if r.P.CalleeFunc(info, call) == align {
						waitVar = prog.IdentObj(info, as.Lhs[0])
					}
					// an immediately invoked closure, or a new helper (e.g. one that takes the read lock with
					// a deferred unlock), whose every return is alignSender's result
					var body *ast.BlockStmt
					if lit, ok := ast.Unparen(call.Fun).(*ast.FuncLit); ok {
						body = lit.Body
					} else if hf := r.P.FuncInfoOf(r.P.CalleeFunc(info, call)); isNewHelper(r.P, hf) {
						body = hf.Decl.Body
					}
					if body != nil {
						nRet, all := 0, true
						ast.Inspect(body, func(m ast.Node) bool {
							if _, ok := m.(*ast.FuncLit); ok {
								return false
							}
							if ret, ok := m.(*ast.ReturnStmt); ok {
								nRet++
								if len(ret.Results) != 1 {
									all = false
									return true
								}
								c2, ok := ast.Unparen(ret.Results[0]).(*ast.CallExpr)
								if !ok || r.P.CalleeFunc(info, c2) != align {
									all = false
								}
							}
							return true
						})
						if nRet > 0 && all {
							waitVar = prog.IdentObj(info, as.Lhs[0])
						}
					}
				}
				return true
			})
			isWaitCall := func(c *pathsim.Ctx, ev *pathsim.Event) bool {
				if ev.Kind != pathsim.EvCall || ev.Call == nil || ev.Go || ev.Deferred {
					return false
				}
				// direct: o.checkpoint.alignSender(id)()
				if inner, ok := ast.Unparen(ev.Call.Fun).(*ast.CallExpr); ok && c.P.CalleeFunc(c.Info, inner) == align {
					return true
				}
				return waitVar != nil && prog.IdentObj(c.Info, ev.Call.Fun) == waitVar
			}
			isSend := func(c *pathsim.Ctx, ev *pathsim.Event) bool {
				return ev.Kind == pathsim.EvSend && prog.SelField(c.Info, ev.Chan) == events
			}
			n := r.mustPrecede(f.Decl, f.Name(), "alignSender()()", "o.events<-", isWaitCall, isSend)
			if n < 1 {
				r.Error("HandleEvent: expected sends on o.events, found %d", n)
			}
			// the argument of alignSender is the senderID parameter of HandleEvent
			inspect(f.Decl.Body, func(nd ast.Node) bool {
				call, ok := nd.(*ast.CallExpr)
				if !ok || r.P.CalleeFunc(info, call) != align {
					return true
				}
				r.Site(call.Pos(), "alignSender argument is HandleEvent's senderID parameter")
				okArg := false
				for _, a := range call.Args { // (whatever else alignSender may be given)
					if r.isParam(f, deref(info, a), 1) {
						okArg = true
					}
				}
				if !okArg {
					r.Fail(f.Name()+":alignSender-arg", call.Pos(), nil, "alignSender is not called with HandleEvent's sender id parameter")
				}
				return true
			})
		}})

	register(&Obligation{ID: "C02.b", Props: []string{"C02"}, Template: "guard.polarity",
		Desc: "(*checkpoint).alignSender: the returned wait function blocks on allBarriersReceived iff the sender is no longer in srIDs (its barrier was delivered); a nil checkpoint and a still-registered sender get a non-blocking function",
		Run: func(r *Run) {
			f := r.P.Func("workers/operator", "(*checkpoint).alignSender")
			srIDs := r.P.Field("workers/operator", "checkpoint", "srIDs")
			gate := r.P.Field("workers/operator", "checkpoint", "allBarriersReceived")
			info := f.Pkg.TypesInfo
			recvObj := info.Defs[f.Decl.Recv.List[0].Names[0]]
			// comma-ok variable of the srIDs lookup
			var okVar types.Object
			inspect(f.Decl.Body, func(n ast.Node) bool {
				as, ok := n.(*ast.AssignStmt)
				if !ok || len(as.Lhs) != 2 || len(as.Rhs) != 1 {
					return true
				}
				if ix, ok := ast.Unparen(as.Rhs[0]).(*ast.IndexExpr); ok && prog.SelField(info, ix.X) == srIDs {
					okVar = prog.IdentObj(info, as.Lhs[1])
				}
				return true
			})
			if okVar == nil {
				r.Fail(f.Name()+":no-lookup", f.Decl.Pos(), nil, "alignSender no longer looks the sender up in srIDs")
				return
			}
			// blocking: the literal waits on the gate. It must do so on EVERY path (a select with another
			// ready case - a cancelled context, a timer - lets the sender through before the barriers arrived)
			blocks := func(lit *ast.FuncLit) bool {
				found := false
				inspect(lit.Body, func(n ast.Node) bool {
					if u, ok := n.(*ast.UnaryExpr); ok && u.Op == token.ARROW && prog.SelField(info, u.X) == gate {
						found = true
					}
					if rs, ok := n.(*ast.RangeStmt); ok && prog.SelField(info, rs.X) == gate {
						found = true
					}
					return true
				})
				if !found {
					return false
				}
				always := true
				c := pathsim.Run(r.P, lit, &pathsim.Spec{Step: func(c *pathsim.Ctx, st pathsim.State, ev *pathsim.Event) []pathsim.State {
					if ev.Kind == pathsim.EvRecv && prog.SelField(c.Info, ev.Chan) == gate {
						st.A = 1
						return []pathsim.State{st}
					}
					if ev.Kind == pathsim.EvRangeIter || ev.Kind == pathsim.EvLoopExit {
						if rs, ok := ev.Node.(*ast.RangeStmt); ok && prog.SelField(c.Info, rs.X) == gate {
							st.A = 1
							return []pathsim.State{st}
						}
					}
					if (ev.Kind == pathsim.EvReturn || ev.Kind == pathsim.EvExit) && st.A == 0 {
						always = false
					}
					return nil
				}})
				if len(c.Undecided) > 0 {
					return true // keep the syntactic verdict
				}
				if !always {
					r.Fail(f.Name()+":escapable-wait", lit.Pos(), nil, "the wait function returned for a sender that already delivered its barrier can return without the gate having opened (another select case / an early return): the sender's later events enter the checkpoint's cut")
				}
				return true
			}
			atoms := []guardAtom{
				{Name: "sender-in-srIDs", Deps: []types.Object{okVar}, Match: func(c *pathsim.Ctx, e ast.Expr) (bool, bool) {
					return false, prog.IdentObj(c.Info, e) == okVar
				}},
				{Name: "c==nil", Match: func(c *pathsim.Ctx, e ast.Expr) (bool, bool) {
					x, notNil, ok := pathsim.IsNilCompare(c.Info, e)
					if ok && prog.IdentObj(c.Info, x) == recvObj {
						return notNil, true
					}
					return false, false
				}},
			}
			spec := &pathsim.Spec{AtomDeps: map[int][]types.Object{0: {okVar}}}
			spec.Atom = func(c *pathsim.Ctx, e ast.Expr) (int, bool, bool) {
				for i, a := range atoms {
					if neg, ok := a.Match(c, e); ok {
						return i, neg, true
					}
				}
				return 0, false, false
			}
			nret := 0
			// a named result: the literal last assigned to it on the path (s.B indexes litTable)
			var resultObj types.Object
			if f.Decl.Type.Results != nil && len(f.Decl.Type.Results.List) == 1 && len(f.Decl.Type.Results.List[0].Names) == 1 {
				resultObj = info.Defs[f.Decl.Type.Results.List[0].Names[0]]
			}
			var litTable []*ast.FuncLit
			spec.Step = func(c *pathsim.Ctx, s pathsim.State, ev *pathsim.Event) []pathsim.State {
				if ev.Kind == pathsim.EvAssign && resultObj != nil {
					for i, l := range ev.Lhs {
						if prog.IdentObjPlain(c.Info, l) == resultObj && i < len(ev.Rhs) {
							s.B = 0
							if fl := funcValueLit(r.P, c.Info, ev.Rhs[i]); fl != nil {
								litTable = append(litTable, fl)
								s.B = int32(len(litTable))
							}
							return []pathsim.State{s}
						}
					}
				}
				if ev.Kind != pathsim.EvReturn {
					if ev.Kind == pathsim.EvExit {
						c.Violate(ev.Pos, "[no-result] alignSender can end without returning a wait function")
					}
					return nil
				}
				nret++
				var lit *ast.FuncLit
				ok := false
				switch {
				case len(ev.Results) == 1 && resultObj != nil && prog.IdentObjPlain(c.Info, ev.Results[0]) == resultObj && s.B > 0 && int(s.B) <= len(litTable):
					lit, ok = litTable[s.B-1], true // `return wait`: what was last assigned to the named result
				case len(ev.Results) == 1:
					lit = funcValueLit(r.P, info, ev.Results[0])
					ok = lit != nil
				case len(ev.Results) == 0 && s.B > 0 && int(s.B) <= len(litTable):
					lit, ok = litTable[s.B-1], true // bare return of the named result: what was last assigned to it
				}
				if len(ev.Results) > 1 {
					c.Violate(ev.Pos, "[result-shape] alignSender must return exactly one function literal per path")
					return nil
				}
				if !ok {
					c.Violate(ev.Pos, "[result-shape] alignSender returns something other than a function literal; the blocking behaviour cannot be decided")
					return nil
				}
				b := blocks(lit)
				switch {
				case s.V[1] == pathsim.True: // c == nil
					if b {
						c.Violate(ev.Pos, "[nil-blocks] with no checkpoint in progress the sender would block on a nil checkpoint's gate")
					}
				case s.V[0] == pathsim.True: // sender still expected to deliver its barrier
					if b {
						c.Violate(ev.Pos, "[pre-barrier-blocks] a sender that has not yet delivered its barrier is blocked (events before its barrier would be held back / deadlock)")
					}
				case s.V[0] == pathsim.False:
					if !b {
						c.Violate(ev.Pos, "[post-barrier-passes] a sender whose barrier was already delivered is not blocked: its later events enter the checkpoint's cut")
					}
				default:
					if !b {
						c.Violate(ev.Pos, "[untested-passes] a non-blocking wait function is returned without testing whether the sender already delivered its barrier")
					} else {
						c.Violate(ev.Pos, "[untested-blocks] a blocking wait function is returned without testing whether the sender already delivered its barrier")
					}
				}
				return nil
			}
			r.Sim(f.Decl, f.Name(), spec)
			r.Site(f.Decl.Pos(), "alignSender return paths")
			if nret < 3 {
				r.Note("alignSender has %d return statements", nret)
			}
		}})

	register(&Obligation{ID: "C02.c", Props: []string{"C02"}, Template: "guard+who-may",
		Desc: "(*checkpoint).registerBarrier: delete(srIDs, sender) and close(allBarriersReceived) only when the barrier id equals the in-progress id; close only when srIDs is empty; nobody else deletes from srIDs or closes the gate; hasAllBarriers is len(srIDs)==0",
		Run: func(r *Run) {
			f := r.P.Func("workers/operator", "(*checkpoint).registerBarrier")
			srIDs := r.P.Field("workers/operator", "checkpoint", "srIDs")
			gate := r.P.Field("workers/operator", "checkpoint", "allBarriersReceived")
			ckID := r.P.Field("workers/operator", "checkpoint", "checkpointID")
			barrierID := r.P.Field("proto/workerpb", "CheckpointBarrier", "CheckpointId")
			getID := r.P.FuncObj("proto/workerpb", "(*CheckpointBarrier).GetCheckpointId")
			isBarrierID := func(c *pathsim.Ctx, e ast.Expr) bool {
				if prog.SelField(c.Info, e) == barrierID {
					return true
				}
				if call, ok := ast.Unparen(e).(*ast.CallExpr); ok && c.P.CalleeFunc(c.Info, call) == getID {
					return true
				}
				return false
			}
			atoms := []guardAtom{
				{Name: "barrier.id==c.checkpointID", Match: func(c *pathsim.Ctx, e ast.Expr) (bool, bool) {
					b, ok := ast.Unparen(e).(*ast.BinaryExpr)
					if !ok || (b.Op != token.EQL && b.Op != token.NEQ) {
						return false, false
					}
					if (isBarrierID(c, b.X) && prog.SelField(c.Info, b.Y) == ckID) || (isBarrierID(c, b.Y) && prog.SelField(c.Info, b.X) == ckID) {
						return b.Op == token.NEQ, true
					}
					return false, false
				}},
				{Name: "len(srIDs)==0", Deps: []types.Object{srIDs}, Match: func(c *pathsim.Ctx, e ast.Expr) (bool, bool) {
					return lenIsZero(c.Info, e, srIDs)
				}},
			}
			isDelete := func(c *pathsim.Ctx, ev *pathsim.Event) bool {
				return ev.Kind == pathsim.EvDelete && len(ev.Call.Args) == 2 && prog.SelField(c.Info, ev.Call.Args[0]) == srIDs
			}
			isClose := func(c *pathsim.Ctx, ev *pathsim.Event) bool {
				return ev.Kind == pathsim.EvClose && prog.SelField(c.Info, ev.Chan) == gate
			}
			nd := r.guarded(f.Decl, f.Name(), "delete(srIDs)", atoms, isDelete, func(v []pathsim.Tri) bool { return v[0] == pathsim.True }, "barrier id == in-progress id")
			if nd == 0 {
				r.Fail(f.Name()+":no-delete", f.Decl.Pos(), nil, "registerBarrier never removes the sender from srIDs: the checkpoint can never collect all barriers")
			}
			// the delete must invalidate len(srIDs)==0 knowledge: handled by re-testing after delete
			spec2atoms := atoms
			nc := r.guardedAfter(f.Decl, f.Name(), "close(allBarriersReceived)", spec2atoms, isClose, isDelete, 1,
				func(v []pathsim.Tri) bool { return v[0] == pathsim.True && v[1] == pathsim.True }, "id match && len(srIDs)==0 tested after the delete")
			if nc == 0 {
				r.Fail(f.Name()+":no-close", f.Decl.Pos(), nil, "registerBarrier never closes allBarriersReceived: blocked senders are never released")
			}
			// sender removed is the senderID parameter
			inspect(f.Decl.Body, func(n ast.Node) bool {
				call, ok := n.(*ast.CallExpr)
				if !ok || len(call.Args) != 2 {
					return true
				}
				if id, ok := call.Fun.(*ast.Ident); ok && id.Name == "delete" && prog.SelField(f.Pkg.TypesInfo, call.Args[0]) == srIDs {
					if !r.isParam(f, call.Args[1], 0) {
						r.Fail(f.Name()+":delete-key", call.Pos(), nil, "registerBarrier removes a key other than the sender id parameter")
					}
				}
				return true
			})
			// who-may: writes of srIDs / closes of the gate elsewhere
			for _, fa := range r.fieldAccesses(srIDs) {
				if prog.IsTestSupport(fa.Use.Pkg.PkgPath) {
					continue
				}
				where := r.scopeName(fa.Use.Scope)
				r.Site(fa.Use.Ident.Pos(), "srIDs "+fa.Kind+" in "+where)
				if fa.Write && where != f.Name() && !(fa.Kind == "composite-key" && where == "workers/operator.newCheckpoint") {
					r.Fail("srIDs-write<-"+where, fa.Use.Ident.Pos(), nil, "checkpoint.srIDs is modified (%s) in %s; only registerBarrier may remove senders", fa.Kind, where)
				}
			}
			for _, fa := range r.fieldAccesses(gate) {
				if prog.IsTestSupport(fa.Use.Pkg.PkgPath) {
					continue
				}
				where := r.scopeName(fa.Use.Scope)
				r.Site(fa.Use.Ident.Pos(), "allBarriersReceived "+fa.Kind+" in "+where)
				switch {
				case fa.Kind == "close" && where != f.Name():
					r.Fail("gate-close<-"+where, fa.Use.Ident.Pos(), nil, "allBarriersReceived is closed in %s; only registerBarrier may open the gate", where)
				case fa.Kind == "send":
					r.Fail("gate-send<-"+where, fa.Use.Ident.Pos(), nil, "a value is sent on allBarriersReceived in %s: a send releases one blocked sender only", where)
				case fa.Write && fa.Kind != "close" && !(fa.Kind == "composite-key" && where == "workers/operator.newCheckpoint"):
					r.Fail("gate-write<-"+where, fa.Use.Ident.Pos(), nil, "allBarriersReceived is reassigned (%s) in %s", fa.Kind, where)
				}
			}
			// hasAllBarriers == (len(srIDs) == 0)
			h := r.P.TryFunc("workers/operator", "(*checkpoint).hasAllBarriers")
			if h == nil {
				// the predicate was inlined at its uses; C01.b then reads len(srIDs) == 0 there
				r.Note("checkpoint.hasAllBarriers no longer exists (inlined)")
				return
			}
			r.Site(h.Decl.Pos(), "hasAllBarriers body")
			okShape := false
			if len(h.Decl.Body.List) == 1 {
				if ret, ok := h.Decl.Body.List[0].(*ast.ReturnStmt); ok && len(ret.Results) == 1 {
					if neg, ok := lenIsZero(h.Pkg.TypesInfo, ret.Results[0], srIDs); ok && !neg {
						okShape = true
					}
				}
			}
			if !okShape {
				r.Fail(h.Name()+":shape", h.Decl.Pos(), nil, "hasAllBarriers is not `len(srIDs) == 0`: the operator would checkpoint before (or never after) all barriers arrived")
			}
		}})

	register(&Obligation{ID: "C02.h", Props: []string{"C02", "C01"}, Template: "value-identity",
		Desc: "a new alignment waits for the barrier of EVERY upstream source runner: handleCheckpointBarrier builds it with newCheckpoint(barrier id, sourceRunners.all), newCheckpoint turns exactly that list into the outstanding set, and upstreams.all is never changed after the deploy (a runner that has sent SourceComplete still sends barriers)",
		Run: func(r *Run) {
			f := r.P.Func("workers/operator", "(*Operator).handleCheckpointBarrier")
			info := f.Pkg.TypesInfo
			nc := r.P.Func("workers/operator", "newCheckpoint")
			allF := r.P.Field("workers/operator", "upstreams", "all")
			srF := r.P.Field("workers/operator", "Operator", "sourceRunners")
			barrierID := r.P.Field("proto/workerpb", "CheckpointBarrier", "CheckpointId")
			getID := r.P.FuncObj("proto/workerpb", "(*CheckpointBarrier).GetCheckpointId")
			n := 0
			inspect(f.Decl.Body, func(nd ast.Node) bool {
				call, ok := nd.(*ast.CallExpr)
				if !ok || r.P.CalleeFunc(info, call) != nc.Obj || len(call.Args) != 2 {
					return true
				}
				n++
				r.Site(call.Pos(), "newCheckpoint(barrier id, all upstream ids)")
				idOK := prog.SelField(info, call.Args[0]) == barrierID
				if c2, ok := ast.Unparen(call.Args[0]).(*ast.CallExpr); ok && r.P.CalleeFunc(info, c2) == getID {
					idOK = true
				}
				if !idOK {
					r.Fail(f.Name()+":new-checkpoint-id", call.Pos(), nil, "the alignment is not opened for the id of the barrier that arrived")
				}
				sel, ok := ast.Unparen(call.Args[1]).(*ast.SelectorExpr)
				if !ok || prog.SelField(info, sel) != allF || prog.SelField(info, sel.X) != srF {
					r.Fail(f.Name()+":new-checkpoint-upstreams", call.Pos(), nil, "the alignment does not wait for o.sourceRunners.all: a source runner that is left out (for instance one that already sent SourceComplete but still forwards barriers) can deliver events after the cut that end up in neither checkpoint consistently")
				}
				return true
			})
			if n == 0 {
				r.Fail(f.Name()+":no-new-checkpoint", f.Decl.Pos(), nil, "handleCheckpointBarrier never opens an alignment")
			}
			// newCheckpoint: srIDs derives from its second parameter, id from the first
			ni := nc.Pkg.TypesInfo
			okIDs, okID := false, false
			inspect(nc.Decl.Body, func(nd ast.Node) bool {
				if kv, ok := nd.(*ast.KeyValueExpr); ok {
					if id, ok := kv.Key.(*ast.Ident); ok {
						switch id.Name {
						case "srIDs":
							okIDs = exprMentionsParam(ni, nc, kv.Value, 1)
						case "checkpointID":
							okID = r.isParam(nc, kv.Value, 0)
						}
					}
				}
				return true
			})
			r.Site(nc.Decl.Pos(), "newCheckpoint stores its id and the full sender set")
			if !okIDs || !okID {
				r.Fail(nc.Name()+":fields", nc.Decl.Pos(), nil, "newCheckpoint must build srIDs from the given source runner ids and checkpointID from the given id")
			}
			km := r.P.Func("util/sliceu", "KeyMap")
			kmi := km.Pkg.TypesInfo
			okKM := false
			inspect(km.Decl.Body, func(nd ast.Node) bool {
				if rs, ok := nd.(*ast.RangeStmt); ok && r.isParam(km, rs.X, 0) {
					clean := true
					inspect(rs.Body, func(m ast.Node) bool {
						if _, ok := m.(*ast.BranchStmt); ok {
							clean = false
						}
						return true
					})
					okKM = clean
				}
				return true
			})
			_ = kmi
			if !okKM {
				r.Fail(km.Name()+":all-keys", km.Decl.Pos(), nil, "sliceu.KeyMap does not put every element into the map")
			}
			// upstreams.all written only by its constructor
			for _, fa := range r.fieldAccesses(allF) {
				if !fa.Write || prog.IsTestSupport(fa.Use.Pkg.PkgPath) {
					continue
				}
				where := r.scopeName(fa.Use.Scope)
				r.Site(fa.Use.Ident.Pos(), "upstreams.all written in "+where)
				if where != "workers/operator.newUpstreams" {
					r.Fail("upstreams.all-write<-"+where, fa.Use.Ident.Pos(), nil, "upstreams.all is modified in %s: the set of senders an alignment waits for would shrink", where)
				}
			}
			// deactivate only touches .active
			da := r.P.Func("workers/operator", "(*upstreams).deactivate")
			if exprUsesField(da.Pkg.TypesInfo, da.Decl.Body, allF) {
				r.Fail(da.Name()+":touches-all", da.Decl.Pos(), nil, "deactivate uses upstreams.all")
			}
		}})

	register(&Obligation{ID: "C02.e", Props: []string{"C02"}, Template: "confinement",
		Desc: "the operator's state-mutating handlers (handleUserEvent, handleWatermark, handleCheckpointBarrier, handleSourceComplete, processEventBatch) are invoked only on the event loop: from processEvents, from each other, or from closures sent on o.events",
		Run: func(r *Run) {
			names := []string{"handleUserEvent", "handleWatermark", "handleCheckpointBarrier", "handleSourceComplete", "processEventBatch"}
			var targets []*types.Func
			for _, n := range names {
				targets = append(targets, r.P.FuncObj("workers/operator", "(*Operator)."+n))
			}
			events := r.P.Field("workers/operator", "Operator", "events")
			r.confined(targets, false, events, map[string]string{
				"workers/operator.(*Operator).processEvents": "the event loop itself",
			})
			r.Floor(7, "handler call sites")
			// the event loop is started exactly once, by Start, in a go statement; o.events
			// has exactly one receiver
			pe := r.P.FuncObj("workers/operator", "(*Operator).processEvents")
			for _, cs := range r.callSitesOf(pe, false) {
				if prog.IsTestSupport(cs.Use.Pkg.PkgPath) {
					continue
				}
				where := r.scopeName(cs.Use.Scope)
				r.Site(cs.Use.Ident.Pos(), "processEvents started in "+where)
				if where != "workers/operator.(*Operator).Start" {
					r.Fail("processEvents<-"+where, cs.Use.Ident.Pos(), nil, "a second event loop is started in %s: handlers would run concurrently", where)
				}
			}
			for _, fa := range r.fieldAccesses(events) {
				if prog.IsTestSupport(fa.Use.Pkg.PkgPath) {
					continue
				}
				where := r.scopeName(fa.Use.Scope)
				if fa.Kind == "recv" || fa.Kind == "range" {
					r.Site(fa.Use.Ident.Pos(), "o.events received in "+where)
					if where != "workers/operator.(*Operator).processEvents" {
						r.Fail("events-recv<-"+where, fa.Use.Ident.Pos(), nil, "o.events is received from in %s: tasks would run on a second goroutine", where)
					}
				}
			}
		}})

	register(&Obligation{ID: "C02.f", Props: []string{"C02"}, Template: "guarded-by",
		Desc: "Operator.checkpoint is read under o.mu (read or write lock) and written under the write lock",
		Run: func(r *Run) {
			r.guardedBy(guardSpec{
				Type:   "Operator",
				Mutex:  r.P.Field("workers/operator", "Operator", "mu"),
				RW:     true,
				Fields: []*types.Var{r.P.Field("workers/operator", "Operator", "checkpoint")},
				Exempt: map[string]string{"workers/operator.NewOperator": "constructor"},
			})
			r.Floor(2, "functions touching Operator.checkpoint")
		}})

	register(&Obligation{ID: "C02.g", Props: []string{"C02"}, Template: "must-precede.err-checked",
		Desc: "handleCheckpointBarrier clears o.checkpoint only after the completion report succeeded, and does clear it then (the next barrier opens a fresh alignment)",
		Run: func(r *Run) {
			f := r.P.Func("workers/operator", "(*Operator).handleCheckpointBarrier")
			done := r.P.FuncObj("proto", "Job.OperatorCheckpointComplete")
			ck := r.P.Field("workers/operator", "Operator", "checkpoint")
			isClear := func(c *pathsim.Ctx, ev *pathsim.Event) bool {
				if ev.Kind != pathsim.EvAssign || len(ev.Lhs) != 1 || len(ev.Rhs) != 1 {
					return false
				}
				if prog.SelField(c.Info, ev.Lhs[0]) != ck {
					return false
				}
				tv, ok := c.Info.Types[ev.Rhs[0]]
				return ok && tv.IsNil()
			}
			n := r.errChecked(f.Decl, f.Name(), "job.OperatorCheckpointComplete", "o.checkpoint=nil", callTo(done), isClear)
			if n == 0 {
				r.Fail(f.Name()+":no-reset", f.Decl.Pos(), nil, "o.checkpoint is never reset to nil after a completed checkpoint: the next barrier is compared with the old id and rejected forever")
			}
			// every successful return after completion has cleared the pointer
			cleared := false
			spec := &pathsim.Spec{Step: func(c *pathsim.Ctx, s pathsim.State, ev *pathsim.Event) []pathsim.State {
				if callTo(done)(c, ev) {
					s.A = 1
					return []pathsim.State{s}
				}
				if isClear(c, ev) {
					cleared = true
					s.A = 2
					return []pathsim.State{s}
				}
				if ev.Kind == pathsim.EvReturn && s.A == 1 {
					// returning the error of the completion call is fine; returning nil is not
					if len(ev.Results) == 1 {
						if tv, ok := c.Info.Types[ev.Results[0]]; ok && tv.IsNil() {
							c.Violate(ev.Pos, "[success-without-reset] handleCheckpointBarrier returns success after reporting completion without clearing o.checkpoint")
						}
					}
				}
				return nil
			}}
			r.Sim(f.Decl, f.Name(), spec)
			_ = cleared
		}})
}

// lenIsZero matches len(x.f) == 0 / 0 == len(x.f) / len(x.f) != 0 / len(x.f) > 0 / len(x.f) < 1.
// neg is true when the expression is the negation of "len == 0".
func lenIsZero(info *types.Info, e ast.Expr, f *types.Var) (neg bool, ok bool) {
	b, isBin := ast.Unparen(e).(*ast.BinaryExpr)
	if !isBin {
		return false, false
	}
	isLen := func(e ast.Expr) bool {
		call, ok := ast.Unparen(e).(*ast.CallExpr)
		if !ok || len(call.Args) != 1 {
			return false
		}
		id, ok := call.Fun.(*ast.Ident)
		if !ok || id.Name != "len" {
			return false
		}
		if _, isB := info.Uses[id].(*types.Builtin); !isB {
			return false
		}
		return prog.SelField(info, call.Args[0]) == f
	}
	constVal := func(e ast.Expr) (string, bool) {
		tv, ok := info.Types[e]
		if !ok || tv.Value == nil {
			return "", false
		}
		return tv.Value.String(), true
	}
	op := b.Op
	x, y := b.X, b.Y
	if !isLen(x) {
		if !isLen(y) {
			return false, false
		}
		// flip
		x, y = y, x
		switch op {
		case token.LSS:
			op = token.GTR
		case token.GTR:
			op = token.LSS
		case token.LEQ:
			op = token.GEQ
		case token.GEQ:
			op = token.LEQ
		}
	}
	v, isC := constVal(y)
	if !isC {
		return false, false
	}
	switch {
	case op == token.EQL && v == "0":
		return false, true
	case op == token.NEQ && v == "0":
		return true, true
	case op == token.GTR && v == "0":
		return true, true
	case op == token.LSS && v == "1":
		return false, true
	case op == token.LEQ && v == "0":
		return false, true
	case op == token.GEQ && v == "1":
		return true, true
	}
	return false, false
}

// isParam reports whether e is a use of fn's idx-th parameter (unreassigned identity is
// not checked; parameters are not reassigned in the anchored functions).
func (r *Run) isParam(f *prog.FuncInfo, e ast.Expr, idx int) bool {
	obj := prog.IdentObj(f.Pkg.TypesInfo, deref(f.Pkg.TypesInfo, e))
	if obj == nil {
		return false
	}
	sig := f.Obj.Type().(*types.Signature)
	if idx >= sig.Params().Len() {
		return false
	}
	if sig.Params().At(idx) != obj {
		return false
	}
	// a parameter that the function assigns to no longer stands for the caller's argument
	return !r.paramReassigned(f, obj)
}

// paramReassigned: the function body assigns to, increments or takes the address of the parameter.
func (r *Run) paramReassigned(f *prog.FuncInfo, obj types.Object) bool {
	if f.Decl == nil || f.Decl.Body == nil {
		return false
	}
	info := f.Pkg.TypesInfo
	hit := false
	is := func(e ast.Expr) bool {
		id, ok := ast.Unparen(e).(*ast.Ident)
		return ok && info.Uses[id] == obj
	}
	ast.Inspect(f.Decl.Body, func(n ast.Node) bool {
		switch x := n.(type) {
		case *ast.AssignStmt:
			for _, l := range x.Lhs {
				if is(l) {
					hit = true
				}
			}
		case *ast.IncDecStmt:
			if is(x.X) {
				hit = true
			}
		case *ast.UnaryExpr:
			if x.Op == token.AND && is(x.X) {
				hit = true
			}
		}
		return !hit
	})
	return hit
}

// guardedAfter is guarded() with the additional requirement that the atoms listed from
// index resetFrom on were (re-)established after the most recent event matching isReset.
func (r *Run) guardedAfter(fn ast.Node, construct, tagE string, atoms []guardAtom, isE, isReset evPred, resetFrom int, phi func(v []pathsim.Tri) bool, phiText string) int {
	seenE := map[token.Pos]bool{}
	spec := &pathsim.Spec{AtomDeps: map[int][]types.Object{}}
	spec.Atom = func(c *pathsim.Ctx, e ast.Expr) (int, bool, bool) {
		for i, a := range atoms {
			if neg, ok := a.Match(c, e); ok {
				return i, neg, true
			}
		}
		return 0, false, false
	}
	spec.Step = func(c *pathsim.Ctx, s pathsim.State, ev *pathsim.Event) []pathsim.State {
		if isReset(c, ev) {
			for i := resetFrom; i < len(atoms); i++ {
				s.V[i] = pathsim.Unknown
			}
			return []pathsim.State{s}
		}
		if isE(c, ev) {
			seenE[ev.Pos] = true
			v := make([]pathsim.Tri, len(atoms))
			for i := range atoms {
				v[i] = s.V[i]
			}
			if !phi(v) {
				desc := ""
				for i, a := range atoms {
					desc += " " + a.Name + "=" + [...]string{"false", "untested", "true"}[v[i]+1]
				}
				c.Violate(ev.Pos, "[%s] %s is reachable on a path where the guard %s is not established (%s )", tagE, tagE, phiText, desc)
			}
		}
		return nil
	}
	r.Sim(fn, construct, spec)
	for pos := range seenE {
		r.Site(pos, construct+": "+tagE+" guarded by "+phiText)
	}
	return len(seenE)
}
