package rules

import (
	"go/ast"
	"go/token"
	"go/types"

	"verif/checker/internal/pathsim"
	"verif/checker/internal/prog"
)

// uriFieldPaths enumerates, from the type, every path of a struct document that ends in a
// string field named URI (through slices of structs), e.g. "WALs[].URI", "Levels[][].URI".
func uriFieldPaths(t types.Type, prefix string, depth int, out *[]string) {
	if depth > 6 {
		return
	}
	switch u := t.Underlying().(type) {
	case *types.Struct:
		for i := 0; i < u.NumFields(); i++ {
			f := u.Field(i)
			p := prefix
			if p != "" {
				p += "."
			}
			p += f.Name()
			if b, ok := f.Type().Underlying().(*types.Basic); ok && b.Kind() == types.String && f.Name() == "URI" {
				*out = append(*out, p)
				continue
			}
			uriFieldPaths(f.Type(), p, depth+1, out)
		}
	case *types.Slice:
		uriFieldPaths(u.Elem(), prefix+"[]", depth+1, out)
	case *types.Pointer:
		uriFieldPaths(u.Elem(), prefix, depth+1, out)
	}
}

func init() {
	prop("C14",
		"(a) the file enumeration of a DKV checkpoint reads every URI-bearing field of the checkpoint document type; (b) the enumeration and the loader select the same checkpoint of the file (by id); (c) creating a savepoint copies, for every operator checkpoint, every enumerated file and the checkpoints file, then the job snapshot, returning every error, and the restore mirrors the same path derivation with source and destination swapped; (d) a savepoint request promotes a checkpoint that is already pending instead of starting a second one, and the job starts a checkpoint only for a newly created one; (e) restoring from the artifact precedes the use of the loaded checkpoint.",
		"equality of the restored job state with the checkpointed state; behaviour of the copy commands of the storage back ends.")

	register(&Obligation{ID: "C14.a", Props: []string{"C14"}, Template: "field-coverage",
		Desc: "recovery.ListFiles reads every URI field reachable in checkpointDocument (derived from the type: a new URI-bearing field must be added to the enumeration or the savepoint is not self-contained)",
		Run: func(r *Run) {
			f := r.P.Func("dkv/recovery", "ListFiles")
			info := f.Pkg.TypesInfo
			doc := r.P.TypeName("dkv/recovery", "checkpointDocument")
			var paths []string
			uriFieldPaths(doc.Type(), "", 0, &paths)
			if len(paths) < 2 {
				r.Error("checkpointDocument: expected URI fields under WALs and Levels, found %v", paths)
				return
			}
			// which top-level collection fields does ListFiles range over, reading .URI inside?
			covered := map[string]bool{}
			// every loop (range or counted) over a field of the document whose body reads .URI
			// the collection a loop visits: a field of the document, or all its rows in one sequence
			// (slices.Concat(doc.Levels...))
			collField := func(e ast.Expr) *types.Var {
				if v := prog.SelField(info, e); v != nil {
					return v
				}
				if c, ok := isCallToNamed(info, deref(info, e), "slices", "Concat"); ok && len(c.Args) == 1 && c.Ellipsis.IsValid() {
					return prog.SelField(info, c.Args[0])
				}
				return nil
			}
			for _, lp := range fullLoopsOver(info, f.Decl.Body, func(e ast.Expr) bool {
				return collField(e) != nil
			}) {
				var fld *types.Var
				switch x := lp.Stmt.(type) {
				case *ast.RangeStmt:
					fld = collField(x.X)
				case *ast.ForStmt:
					if b, ok := ast.Unparen(x.Cond).(*ast.BinaryExpr); ok {
						inspect(b.Y, func(m ast.Node) bool {
							if e, ok := m.(ast.Expr); ok && fld == nil {
								if v := prog.SelField(info, e); v != nil {
									fld = v
								}
							}
							return true
						})
					}
				}
				if fld == nil {
					continue
				}
				readsURI := false
				inspect(lp.Body, func(m ast.Node) bool {
					if sel, ok := m.(*ast.SelectorExpr); ok && sel.Sel.Name == "URI" {
						if v := prog.SelField(info, sel); v != nil {
							readsURI = true
						}
					}
					return true
				})
				if readsURI {
					covered[fld.Name()] = true
				}
			}
			for _, p := range paths {
				top := p
				for i, ch := range p {
					if ch == '[' || ch == '.' {
						top = p[:i]
						break
					}
				}
				r.SiteStr("checkpointDocument." + p + " enumerated by ListFiles")
				if !covered[top] {
					r.Fail(f.Name()+":uri-field:"+p, f.Decl.Pos(), nil, "ListFiles does not enumerate checkpointDocument.%s: files referenced there are missing from savepoints", p)
				}
			}
		}})

	register(&Obligation{ID: "C14.b", Props: []string{"C14"}, Template: "sibling-agreement",
		Desc: "recovery.ListFiles and recovery.LoadCheckpointList select the same checkpoint entry of a checkpoints file: by the requested checkpoint id",
		Run: func(r *Run) {
			lf := r.P.Func("dkv/recovery", "ListFiles")
			ll := r.P.Func("dkv/recovery", "LoadCheckpointList")
			ckpts := r.P.Field("dkv/recovery", "checkpointListDocument", "Checkpoints")
			docID := r.P.Field("dkv/recovery", "checkpointDocument", "ID")
			selectsByID := func(f *prog.FuncInfo) bool {
				info := f.Pkg.TypesInfo
				byID := false
				inspect(f.Decl.Body, func(nd ast.Node) bool {
					if lit, ok := nd.(*ast.FuncLit); ok && exprUsesField(info, lit.Body, docID) {
						byID = true
					}
					if b, ok := nd.(*ast.BinaryExpr); ok && exprUsesField(info, b, docID) {
						byID = true
					}
					return true
				})
				return byID
			}
			r.Site(ll.Decl.Pos(), "LoadCheckpointList selects by id")
			r.Site(lf.Decl.Pos(), "ListFiles selection")
			if !selectsByID(ll) {
				r.Fail(ll.Name()+":select-by-id", ll.Decl.Pos(), nil, "LoadCheckpointList no longer selects the checkpoint by the handle's id")
			}
			if !selectsByID(lf) {
				pos := lf.Decl.Pos()
				inspect(lf.Decl.Body, func(nd ast.Node) bool {
					if ix, ok := nd.(*ast.IndexExpr); ok && prog.SelField(lf.Pkg.TypesInfo, ix.X) == ckpts {
						pos = ix.Pos()
					}
					return true
				})
				r.Fail(lf.Name()+":select-by-id", pos, nil, "ListFiles takes the last checkpoint of the file instead of the one being saved / restored: when the operator has already taken a newer DKV checkpoint, the savepoint copies the newer checkpoint's files while the loader (which selects by id) needs the older one's")
			}
		}})

	register(&Obligation{ID: "C14.c", Props: []string{"C14", "C13"}, Template: "must-precede.err-checked+mirror",
		Desc: "CreateSavepointArtifact copies every listed file plus the checkpoints file of every operator checkpoint and then the job snapshot, returning every error; RestoreCheckpointFromSavepointArtifact derives the same artifact path and copies back to the original URI",
		Run: func(r *Run) {
			cr := r.P.Func("storage/snapshots", "CreateSavepointArtifact")
			rs := r.P.Func("storage/snapshots", "RestoreCheckpointFromSavepointArtifact")
			listFiles := r.P.FuncObj("dkv/recovery", "ListFiles")
			copyFn := r.P.FuncObj("storage/locations", "StorageLocation.Copy")
			readFn := r.P.FuncObj("storage/locations", "StorageLocation.Read")
			parse := r.P.FuncObj("storage/snapshots", "parseDKVURI")
			dkvURI := r.P.Field("proto/snapshotpb", "OperatorCheckpoint", "DkvFileUri")
			for _, f := range []*prog.FuncInfo{cr, rs} {
				info := f.Pkg.TypesInfo
				// every error-returning call in the function is checked before the next effect
				for _, tgt := range []struct {
					name string
					fn   *types.Func
				}{{"fs.Read", readFn}, {"recovery.ListFiles", listFiles}, {"parseDKVURI", parse}} {
					r.errCheckedAfter(f.Decl, f.Name(), tgt.name, "fs.Copy", callTo(tgt.fn), callTo(copyFn))
				}
				// Copy's own error must be returned: a copy whose error is dropped
				r.checkErrReturned(f, copyFn, "fs.Copy")
				// the checkpoints file itself is appended to the file list
				appended := false
				inspect(f.Decl.Body, func(nd ast.Node) bool {
					call, ok := nd.(*ast.CallExpr)
					if !ok || len(call.Args) < 2 {
						return true
					}
					if id, ok := call.Fun.(*ast.Ident); ok && id.Name == "append" {
						for _, a := range call.Args[1:] {
							if prog.SelField(info, a) == dkvURI {
								appended = true
							}
						}
					}
					return true
				})
				r.Site(f.Decl.Pos(), f.Name()+": checkpoints file included")
				if !appended {
					r.Fail(f.Name()+":checkpoints-file", f.Decl.Pos(), nil, "%s does not include the operator's checkpoints file itself in the copied set", f.Name())
				}
				// loops over all operator checkpoints and all files without break/continue-before-copy
				r.checkLoopCopiesAll(f, copyFn)
			}
			// direction: create copies file -> artifact; restore copies artifact -> file
			r.checkCopyDirection(cr, copyFn, true)
			r.checkCopyDirection(rs, copyFn, false)
			// the job snapshot is copied after the per-operator loop in create
			hasJobCopy := false
			var loopEnd, jobCopyPos token.Pos
			inspect(cr.Decl.Body, func(nd ast.Node) bool {
				if rs, ok := nd.(*ast.RangeStmt); ok && loopEnd == token.NoPos {
					loopEnd = rs.End()
				}
				if call, ok := nd.(*ast.CallExpr); ok && r.P.CalleeFunc(cr.Pkg.TypesInfo, call) == copyFn && len(call.Args) == 2 && r.isParam(cr, call.Args[0], 2) {
					hasJobCopy = true
					jobCopyPos = call.Pos()
				}
				return true
			})
			if hasJobCopy && jobCopyPos < loopEnd {
				r.Fail(cr.Name()+":job-snapshot-order", jobCopyPos, nil, "the job savepoint file is written before the operators' files: a reader that finds job.savepoint may find an incomplete artifact")
			}
			if !hasJobCopy {
				r.Fail(cr.Name()+":job-snapshot", cr.Decl.Pos(), nil, "CreateSavepointArtifact does not copy the job checkpoint file into the savepoint")
			}
		}})

	register(&Obligation{ID: "C14.d", Props: []string{"C14", "C12"}, Template: "guard",
		Desc: "Store.CreateSavepoint promotes a pending checkpoint (no new id, created=false) and only otherwise creates one; Job.HandleCreateSavepoint starts a checkpoint only when one was created",
		Run: func(r *Run) {
			f := r.P.Func("storage/snapshots", "(*Store).CreateSavepoint")
			pend := r.P.Field("storage/snapshots", "storeState", "pendingSnapshot")
			isSp := r.P.Field("storage/snapshots", "jobSnapshot", "isSavepoint")
			ckID := r.P.Field("storage/snapshots", "storeState", "checkpointID")
			atoms := []guardAtom{nilFieldAtom("pendingSnapshot==nil", pend)}
			spec := &pathsim.Spec{AtomDeps: map[int][]types.Object{0: {pend}}}
			spec.Atom = func(c *pathsim.Ctx, e ast.Expr) (int, bool, bool) {
				if neg, ok := atoms[0].Match(c, e); ok {
					return 0, neg, true
				}
				return 0, false, false
			}
			nRet := 0
			// named results: what a bare return hands back is what was last assigned to them on the
			// path (s.B: bit 0/1 = created assigned true/false, bit 2 = err assigned non-nil)
			var namedRes []types.Object
			info0 := f.Pkg.TypesInfo
			if f.Decl.Type.Results != nil {
				for _, fld := range f.Decl.Type.Results.List {
					for _, nm := range fld.Names {
						namedRes = append(namedRes, info0.Defs[nm])
					}
				}
			}
			spec.Step = func(c *pathsim.Ctx, s pathsim.State, ev *pathsim.Event) []pathsim.State {
				if ev.Kind == pathsim.EvAssign && len(namedRes) == 3 {
					touched := false
					for i, l := range ev.Lhs {
						o := prog.IdentObjPlain(c.Info, l)
						if o == nil || i >= len(ev.Rhs) {
							continue
						}
						switch o {
						case namedRes[1]:
							s.B &^= 3
							if tv, ok := c.Info.Types[ev.Rhs[i]]; ok && tv.Value != nil {
								if tv.Value.String() == "true" {
									s.B |= 1
								} else {
									s.B |= 2
								}
							}
							touched = true
						case namedRes[2]:
							s.B &^= 4
							if tv, ok := c.Info.Types[ev.Rhs[i]]; !ok || !tv.IsNil() {
								s.B |= 4
							}
							touched = true
						}
					}
					if touched {
						return []pathsim.State{s}
					}
				}
				if ev.Kind == pathsim.EvAssign && len(ev.Lhs) == 1 {
					if prog.SelField(c.Info, ev.Lhs[0]) == ckID {
						s.A |= 1 // id advanced
						return []pathsim.State{s}
					}
					if prog.SelField(c.Info, ev.Lhs[0]) == isSp {
						s.A |= 2 // marked
						return []pathsim.State{s}
					}
					if prog.SelField(c.Info, ev.Lhs[0]) == pend {
						s.A |= 4
						s.V[0] = pathsim.False
						return []pathsim.State{s}
					}
				}
				if ev.Kind == pathsim.EvReturn && (len(ev.Results) == 3 || (len(ev.Results) == 0 && len(namedRes) == 3)) {
					errNil := false
					created := ""
					if len(ev.Results) == 3 {
						if tv, ok := c.Info.Types[ev.Results[2]]; ok && tv.IsNil() {
							errNil = true
						}
						if tv, ok := c.Info.Types[ev.Results[1]]; ok && tv.Value != nil {
							created = tv.Value.String()
						}
					} else {
						errNil = s.B&4 == 0
						created = "false" // the zero value, unless assigned
						if s.B&1 != 0 {
							created = "true"
						}
					}
					if !errNil {
						return nil
					}
					nRet++
					if s.A&2 == 0 {
						c.Violate(ev.Pos, "[not-marked] CreateSavepoint succeeds without marking the snapshot as a savepoint: no savepoint artifact would be written")
					}
					if s.A&4 != 0 { // installed a new one
						if created != "true" {
							c.Violate(ev.Pos, "[created-flag] a new checkpoint was installed but created is not true: nobody starts it")
						}
						if s.A&1 == 0 {
							c.Violate(ev.Pos, "[new-without-id] a new pending snapshot was installed without advancing the checkpoint id")
						}
					} else {
						if created != "false" {
							c.Violate(ev.Pos, "[created-flag] an in-progress checkpoint was promoted but created is not false: the job would start a second checkpoint with the same id")
						}
						if s.A&1 != 0 {
							c.Violate(ev.Pos, "[promote-with-new-id] promoting the in-progress checkpoint must not advance the checkpoint id")
						}
					}
				}
				return nil
			}
			r.Sim(f.Decl, f.Name(), spec)
			r.Site(f.Decl.Pos(), "CreateSavepoint success returns")
			if nRet < 2 {
				r.Fail(f.Name()+":paths", f.Decl.Pos(), nil, "CreateSavepoint must have a promote path and a create path (found %d successful returns)", nRet)
			}
			// job side
			h := r.P.Func("jobs", "(*Job).HandleCreateSavepoint")
			cs := r.P.FuncObj("storage/snapshots", "(*Store).CreateSavepoint")
			start := r.P.FuncObj("jobs", "(*Assembly).StartCheckpoint")
			info := h.Pkg.TypesInfo
			var createdVar types.Object
			inspect(h.Decl.Body, func(nd ast.Node) bool {
				if as, ok := nd.(*ast.AssignStmt); ok && len(as.Rhs) == 1 && len(as.Lhs) == 3 {
					if call, ok := ast.Unparen(as.Rhs[0]).(*ast.CallExpr); ok && r.P.CalleeFunc(info, call) == cs {
						createdVar = prog.IdentObj(info, as.Lhs[1])
					}
				}
				return true
			})
			k := r.guarded(h.Decl, h.Name(), "assembly.StartCheckpoint", []guardAtom{identAtom("created", func() types.Object { return createdVar })}, callTo(start),
				func(v []pathsim.Tri) bool { return v[0] == pathsim.True }, "created")
			if k == 0 {
				r.Fail(h.Name()+":no-start", h.Decl.Pos(), nil, "HandleCreateSavepoint never starts the checkpoint it created")
			}
			r.errChecked(h.Decl, h.Name(), "snapshotStore.CreateSavepoint", "assembly.StartCheckpoint", callTo(cs), callTo(start))
		}})

	register(&Obligation{ID: "C14.e", Props: []string{"C14", "C13"}, Template: "must-precede.err-checked",
		Desc: "Store.LoadCheckpoint: when a savepoint URI is configured, the files are restored from the artifact (error checked) before the loaded checkpoint is installed as the completed checkpoint",
		Run: func(r *Run) {
			f := r.P.Func("storage/snapshots", "(*Store).LoadCheckpoint")
			restore := r.P.FuncObj("storage/snapshots", "RestoreCheckpointFromSavepointArtifact")
			snapFor := r.P.FuncObj("storage/snapshots", "(*Store).SnapshotForURI")
			comp := r.P.Field("storage/snapshots", "storeState", "completedSnapshots")
			spURI := r.P.Field("storage/snapshots", "Store", "savepointURI")
			isInstall := func(c *pathsim.Ctx, ev *pathsim.Event) bool {
				return ev.Kind == pathsim.EvAssign && len(ev.Lhs) == 1 && prog.SelField(c.Info, ev.Lhs[0]) == comp
			}
			// on the savepoint path, restore precedes install
			atoms := []guardAtom{{Name: "savepointURI!=\"\"", Match: func(c *pathsim.Ctx, e ast.Expr) (bool, bool) {
				b, ok := ast.Unparen(e).(*ast.BinaryExpr)
				if !ok || prog.SelField(c.Info, b.X) != spURI {
					return false, false
				}
				if tv, ok := c.Info.Types[b.Y]; ok && tv.Value != nil && tv.Value.ExactString() == `""` {
					switch b.Op.String() {
					case "!=":
						return false, true
					case "==":
						return true, true
					}
				}
				return false, false
			}}}
			spec := &pathsim.Spec{}
			spec.Atom = func(c *pathsim.Ctx, e ast.Expr) (int, bool, bool) {
				if neg, ok := atoms[0].Match(c, e); ok {
					return 0, neg, true
				}
				return 0, false, false
			}
			nInst := 0
			spec.Step = func(c *pathsim.Ctx, s pathsim.State, ev *pathsim.Event) []pathsim.State {
				if callTo(restore)(c, ev) {
					s.A = 1
					return []pathsim.State{s}
				}
				if isInstall(c, ev) {
					nInst++
					if s.V[0] == pathsim.True && s.A == 0 {
						c.Violate(ev.Pos, "[install-before-restore] the savepoint's checkpoint is installed without restoring its files from the artifact")
					}
				}
				return nil
			}
			r.Sim(f.Decl, f.Name(), spec)
			r.Site(f.Decl.Pos(), "LoadCheckpoint: restore precedes install on the savepoint path")
			if nInst == 0 {
				r.Fail(f.Name()+":no-install", f.Decl.Pos(), nil, "LoadCheckpoint never installs the loaded checkpoint")
			}
			r.checkErrReturned(f, restore, "RestoreCheckpointFromSavepointArtifact")
			r.checkErrReturned(f, snapFor, "SnapshotForURI")
		}})
}

// checkErrReturned: at every call of fn inside f, the error result is tested and a non-nil
// error leads to a return of a non-nil error (it is neither dropped nor merely logged).
func (r *Run) checkErrReturned(f *prog.FuncInfo, fn *types.Func, tag string) {
	// A = call; B = "normal continuation": reaching any later event with the error untested
	// is caught by errChecked against the function's own successful return.
	isOKReturn := func(c *pathsim.Ctx, ev *pathsim.Event) bool {
		if ev.Kind == pathsim.EvExit {
			return true
		}
		if ev.Kind != pathsim.EvReturn || len(ev.Results) == 0 {
			return false
		}
		last := ev.Results[len(ev.Results)-1]
		tv, ok := c.Info.Types[last]
		return ok && tv.IsNil()
	}
	// errChecked flags B reachable with A's error pending/bad; paths that never call A are
	// reported as "without A": suppress those by only counting after A.
	r.errCheckedAfter(f.Decl, f.Name(), tag, "successful return", callTo(fn), isOKReturn)
}

// checkLoopCopiesAll: every loop of f that contains the copy call has no break, and no
// continue that skips the copy.
func (r *Run) checkLoopCopiesAll(f *prog.FuncInfo, copyFn *types.Func) {
	info := f.Pkg.TypesInfo
	inspect(f.Decl.Body, func(nd ast.Node) bool {
		rs, ok := nd.(*ast.RangeStmt)
		if !ok || !r.exprCalls(info, rs.Body, copyFn) {
			return true
		}
		r.Site(rs.Pos(), f.Name()+": copy loop is exhaustive")
		inspect(rs.Body, func(m ast.Node) bool {
			if _, isLit := m.(*ast.FuncLit); isLit {
				return false
			}
			if b, ok := m.(*ast.BranchStmt); ok {
				r.Fail(f.Name()+":partial-copy-loop", b.Pos(), nil, "the copy loop can skip elements (%s): some files of the checkpoint would not be copied", b.Tok)
			}
			return true
		})
		return true
	})
}

// checkCopyDirection: in create, Copy(file, artifactPath); in restore, Copy(artifactPath, file)
// where file is the range variable over the listed files and artifactPath is built with filepath.Join.
func (r *Run) checkCopyDirection(f *prog.FuncInfo, copyFn *types.Func, toArtifact bool) {
	info := f.Pkg.TypesInfo
	inspect(f.Decl.Body, func(nd ast.Node) bool {
		rs, ok := nd.(*ast.RangeStmt)
		if !ok || rs.Value == nil {
			return true
		}
		fileVar := prog.IdentObj(info, rs.Value)
		inspect(rs.Body, func(m ast.Node) bool {
			if inner, ok := m.(*ast.RangeStmt); ok && inner != rs {
				return false
			}
			call, ok := m.(*ast.CallExpr)
			if !ok || r.P.CalleeFunc(info, call) != copyFn || len(call.Args) != 2 {
				return true
			}
			srcIsFile := prog.IdentObj(info, call.Args[0]) == fileVar
			dstIsFile := prog.IdentObj(info, call.Args[1]) == fileVar
			if !srcIsFile && !dstIsFile {
				return true
			}
			r.Site(call.Pos(), f.Name()+": copy direction")
			other := call.Args[1]
			if dstIsFile {
				other = call.Args[0]
			}
			def := resolveLocal(info, f.Decl.Body, other)
			_, isJoin := isCallToNamed(info, def, "path/filepath", "Join")
			if !isJoin {
				// built in an extracted helper: follow the value to the call that produced it
				if oc, _ := valueOrigin(info, other, 0); oc != nil {
					if _, ok := isCallToNamed(info, oc, "path/filepath", "Join"); ok {
						def, isJoin = oc, true
					}
				}
			}
			if !isJoin {
				r.Fail(f.Name()+":artifact-path", call.Pos(), nil, "the artifact-side path of the copy is not built with filepath.Join(<savepoint dir>, \"dkv\", <operator>, <file>)")
			} else {
				// the operator prefix and the base name in the artifact path are BOTH the
				// results of parseDKVURI applied to this very file
				jc := ast.Unparen(def).(*ast.CallExpr)
				parse := r.P.FuncObj("storage/snapshots", "parseDKVURI")
				var pfx, base types.Object
				inspect(rs.Body, func(k ast.Node) bool {
					if inner, ok := k.(*ast.RangeStmt); ok && inner != rs {
						return false
					}
					if as, ok := k.(*ast.AssignStmt); ok && len(as.Lhs) == 3 && len(as.Rhs) == 1 {
						if pc, ok := ast.Unparen(as.Rhs[0]).(*ast.CallExpr); ok && r.P.CalleeFunc(info, pc) == parse && len(pc.Args) == 1 && derefObj(info, pc.Args[0]) == fileVar {
							pfx, base = prog.IdentObj(info, as.Lhs[0]), prog.IdentObj(info, as.Lhs[1])
						}
					}
					return true
				})
				n := len(jc.Args)
				if n < 2 || pfx == nil || base == nil || pfx.Name() == "_" || base.Name() == "_" ||
					prog.IdentObj(info, jc.Args[n-2]) != pfx || prog.IdentObj(info, jc.Args[n-1]) != base {
					r.Fail(f.Name()+":artifact-path-operands", call.Pos(), nil, "the artifact path of a copied file must end in (operator prefix, base name) obtained from parseDKVURI of THAT file; a prefix taken from elsewhere (e.g. the checkpoints file's operator) misplaces files that a restored operator inherited from another operator's directory")
				}
			}
			if toArtifact && !srcIsFile {
				r.Fail(f.Name()+":copy-direction", call.Pos(), nil, "CreateSavepointArtifact must copy FROM the checkpoint's file TO the savepoint directory")
			}
			if !toArtifact && !dstIsFile {
				r.Fail(f.Name()+":copy-direction", call.Pos(), nil, "RestoreCheckpointFromSavepointArtifact must copy FROM the savepoint directory TO the checkpoint's original URI")
			}
			return true
		})
		return true
	})
}
