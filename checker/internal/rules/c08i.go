package rules

import (
	"go/ast"
	"go/token"
	"go/types"

	"verif/checker/internal/prog"
)

// C08.i: WAL files are named by writer id. A checkpoint that is still retained references its WAL
// file by that name, so a writer must never get the id of a file an earlier checkpoint may still
// reference: the next writer of a running database is id+1 (Rotate), and the first writer of a
// restored database is one above the highest WAL id of the checkpoint it starts from.
func init() {
	register(&Obligation{ID: "C08.i", Props: []string{"C08", "C09"}, Template: "fresh-id",
		Desc: "Checkpoint.NextWALID is (maximum WAL id of the checkpoint) + 1, DB.Start numbers the restored database's writer with it, and Writer.Rotate numbers the next writer id+1: a restored or rotated writer never saves over a WAL file that a retained checkpoint references",
		Run: func(r *Run) {
			f := r.P.Func("dkv/recovery", "(*Checkpoint).NextWALID")
			info := f.Pkg.TypesInfo
			wals := r.P.Field("dkv/recovery", "Checkpoint", "WALs")
			idF := r.P.Field("dkv/wal", "Handle", "ID")
			loops := fullLoopsOver(info, f.Decl.Body, func(e ast.Expr) bool { return prog.SelField(info, e) == wals })
			if len(loops) != 1 {
				r.Error("undecided: NextWALID: expected one loop over cp.WALs, found %d", len(loops))
				return
			}
			lp := loops[0]
			r.Site(lp.Pos(), "NextWALID: maximum over the checkpoint's WAL ids")
			isID := func(e ast.Expr) bool {
				sel, ok := ast.Unparen(deref(info, e)).(*ast.SelectorExpr)
				return ok && prog.SelField(info, sel) == idF && lp.IsElem(sel.X)
			}
			var run types.Object // the running maximum
			okMax := false
			bad := ""
			inspect(lp.Body, func(nd ast.Node) bool {
				switch x := nd.(type) {
				case *ast.AssignStmt:
					if len(x.Lhs) != 1 || len(x.Rhs) != 1 || x.Tok != token.ASSIGN {
						return true
					}
					v := prog.IdentObj(info, x.Lhs[0])
					if v == nil {
						return true
					}
					if call, ok := ast.Unparen(x.Rhs[0]).(*ast.CallExpr); ok && len(call.Args) == 2 {
						if id, isIdent := call.Fun.(*ast.Ident); isIdent {
							if _, isB := info.Uses[id].(*types.Builtin); isB {
								a, b := call.Args[0], call.Args[1]
								pair := (prog.IdentObj(info, a) == v && isID(b)) || (prog.IdentObj(info, b) == v && isID(a))
								if pair && id.Name == "max" {
									run, okMax = v, true
								} else if pair {
									run, bad = v, "the running value is combined with "+id.Name+" instead of max"
								}
							}
						}
					}
				case *ast.IfStmt:
					// if h.ID > v { v = h.ID }
					b, ok := ast.Unparen(x.Cond).(*ast.BinaryExpr)
					if !ok || x.Else != nil || len(x.Body.List) != 1 {
						return true
					}
					as, ok := x.Body.List[0].(*ast.AssignStmt)
					if !ok || len(as.Lhs) != 1 || len(as.Rhs) != 1 || as.Tok != token.ASSIGN || !isID(as.Rhs[0]) {
						return true
					}
					v := prog.IdentObj(info, as.Lhs[0])
					if v == nil {
						return true
					}
					b = orientCmp(b, isID)
					if !isID(b.X) || prog.IdentObj(info, b.Y) != v {
						return true
					}
					switch b.Op {
					case token.GTR, token.GEQ:
						run, okMax = v, true
					default:
						run, bad = v, "the running value is replaced when the id is "+b.Op.String()+" it"
					}
				}
				return true
			})
			switch {
			case bad != "":
				r.Fail(f.Name()+":not-max", lp.Pos(), nil, "NextWALID does not take the maximum of the checkpoint's WAL ids (%s): the restored database's writer gets an id that an earlier WAL file of a retained checkpoint already has, and its next checkpoint saves over that file", bad)
			case !okMax:
				r.Fail(f.Name()+":not-max", lp.Pos(), nil, "NextWALID does not take the maximum of the checkpoint's WAL ids")
			}
			// the result is that maximum plus one
			nRet := 0
			inspect(f.Decl.Body, func(nd ast.Node) bool {
				ret, ok := nd.(*ast.ReturnStmt)
				if !ok || len(ret.Results) != 1 {
					return true
				}
				nRet++
				r.Site(ret.Pos(), "NextWALID result")
				b, ok := ast.Unparen(deref(info, ret.Results[0])).(*ast.BinaryExpr)
				plusOne := false
				if ok && b.Op == token.ADD {
					one := func(e ast.Expr) bool {
						tv, has := info.Types[e]
						return has && tv.Value != nil && tv.Value.String() == "1"
					}
					if run != nil && ((prog.IdentObj(info, b.X) == run && one(b.Y)) || (prog.IdentObj(info, b.Y) == run && one(b.X))) {
						plusOne = true
					}
				}
				if !plusOne && okMax {
					r.Fail(f.Name()+":not-next", ret.Pos(), nil, "NextWALID must return the maximum WAL id plus one: returning an id in use lets the restored database overwrite the WAL of the checkpoint it started from")
				}
				return true
			})
			if nRet == 0 {
				r.Error("undecided: NextWALID has no single-result return")
			}
			// DB.Start: the restored writer's id is NextWALID of the checkpoint it starts from
			start := r.P.Func("dkv", "(*DB).Start")
			si := start.Pkg.TypesInfo
			newWriter := r.P.FuncObj("dkv/wal", "NewWriter")
			latest := r.P.FuncObj("dkv/recovery", "(*CheckpointList).Latest")
			nNW, okRestore := 0, false
			inspect(start.Decl.Body, func(nd ast.Node) bool {
				call, ok := nd.(*ast.CallExpr)
				if !ok || r.P.CalleeFunc(si, call) != newWriter || len(call.Args) < 2 {
					return true
				}
				nNW++
				r.Site(call.Pos(), "DB.Start creates the WAL writer")
				if tv, has := si.Types[call.Args[1]]; has && tv.Value != nil {
					return true // starting from scratch: a constant id
				}
				oc, _ := valueOrigin(si, call.Args[1], 0)
				if oc == nil || r.P.CalleeFunc(si, oc) != f.Obj {
					r.Fail(start.Name()+":restored-writer-id", call.Pos(), nil, "the writer of a restored database is not numbered with the checkpoint's NextWALID()")
					return true
				}
				// ... of the latest checkpoint
				if sel, isSel := ast.Unparen(oc.Fun).(*ast.SelectorExpr); isSel {
					if lc, _ := valueOrigin(si, sel.X, 0); lc != nil && r.P.CalleeFunc(si, lc) == latest {
						okRestore = true
					}
				}
				if !okRestore {
					r.Fail(start.Name()+":restored-writer-id", call.Pos(), nil, "NextWALID is not taken from the checkpoint list's latest checkpoint (the one the database restores)")
				}
				return true
			})
			if nNW == 0 {
				r.Error("undecided: DB.Start creates no WAL writer")
			}
			// Rotate: id + 1
			rot := r.P.Func("dkv/wal", "(*Writer).Rotate")
			ri := rot.Pkg.TypesInfo
			wid := r.P.Field("dkv/wal", "Writer", "id")
			nRot := 0
			inspect(rot.Decl.Body, func(nd ast.Node) bool {
				call, ok := nd.(*ast.CallExpr)
				if !ok || r.P.CalleeFunc(ri, call) != newWriter || len(call.Args) < 2 {
					return true
				}
				nRot++
				r.Site(call.Pos(), "Rotate creates the next writer")
				b, ok := ast.Unparen(deref(ri, call.Args[1])).(*ast.BinaryExpr)
				good := false
				if ok && b.Op == token.ADD {
					one := func(e ast.Expr) bool {
						tv, has := ri.Types[e]
						return has && tv.Value != nil && tv.Value.String() == "1"
					}
					good = (prog.SelField(ri, b.X) == wid && one(b.Y)) || (prog.SelField(ri, b.Y) == wid && one(b.X))
				}
				if !good {
					r.Fail(rot.Name()+":next-writer-id", call.Pos(), nil, "Rotate must number the next writer id+1: with the same id the next checkpoint saves over the WAL file of the checkpoint just taken")
				}
				return true
			})
			if nRot == 0 {
				r.Error("undecided: Rotate creates no writer with NewWriter")
			}
		}})
}
